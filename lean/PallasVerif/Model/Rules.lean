import PallasVerif.Model.Value
import PallasVerif.Model.ExUnits
import PallasVerif.Model.Witness
import PallasVerif.Model.ScriptData
/-
  Model of the rule structure of phase-1 validation (`pallas-validate/src/phase1/*.rs`) for C38: the era validators
  `validate_byron_tx`, `validate_shelley_ma_tx`, `validate_alonzo_tx`, `validate_babbage_tx`, `validate_conway_tx` as the
  ordered list of their `check_*` calls with first-failure semantics (`?` after every call), and the rules whose
  predicate is stated here over a `View` of plain observations of the transaction, the UTxO set and the parameters:

    non-empty inputs · inputs / collateral / reference inputs present in the UTxO · validity interval (TTL) ·
    transaction size · minimum lovelace per output · output value size · network ids · minimum fee together with the
    collateral rules (count, kind, amount, annotation) · auxiliary-data hash.

  and, over the script-related observations of `ScriptView` / `DatumView` / `LangView` / `SdhView`:

    minting-policy witnesses (`check_minting`) · needed scripts = provided scripts, datum hashes covered, redeemer
    pointers exactly those of the phase-2 scripts (the three script parts of `check_witness_set`) · language
    availability (`check_languages`) · script-integrity hash (`check_script_data_hash`: Conway through
    `Model/ScriptData.lean` on the witness-set bytes, Alonzo / Babbage as BLAKE2b-256 of the re-encoded redeemers,
    datums and the era's cost-model bytes) · `check_well_formedness` (empty in the code);

  and by linking the rule models of C34, C37, C35: value preservation (`Model/Value.lean`; transactions with
  certificates keep the observed verdict, the deposit terms are not in that model), execution units
  (`Model/ExUnits.lean`), verification-key witnesses and required signers (`Model/Witness.lean`, with `hash` / `verify`
  as fields of the view).

  Still composed through their observed verdict only: Shelley-MA certificates, the Byron rules other than non-empty
  inputs and size, and value preservation of transactions that carry certificates.
-/
namespace PallasVerif.Rules

inductive Era where
  | byron | shelleyMA | alonzo | babbage | conway
  deriving DecidableEq, Repr

inductive Rule where
  | insNotEmpty | outsNotEmpty | insInUtxo | outsHaveLovelace | validity | txSize | minLovelace | certificates
  | preservation | fee | networkId | auxData | witnesses | minting | valSize | exUnits | languages | scriptDataHash
  | wellFormed
  deriving DecidableEq, Repr

/-- the `check_*` calls of each `validate_<era>_tx`, in source order -/
def order : Era → List Rule
  | .byron => [.insNotEmpty, .outsNotEmpty, .insInUtxo, .outsHaveLovelace, .fee, .txSize, .witnesses]
  | .shelleyMA => [.insNotEmpty, .insInUtxo, .validity, .txSize, .minLovelace, .certificates, .preservation, .fee,
                   .networkId, .auxData, .witnesses, .minting]
  | .alonzo => [.insNotEmpty, .insInUtxo, .validity, .fee, .preservation, .minLovelace, .valSize, .networkId, .txSize,
                .exUnits, .witnesses, .languages, .auxData, .scriptDataHash, .minting]
  | .babbage => [.insNotEmpty, .insInUtxo, .validity, .fee, .preservation, .minLovelace, .valSize, .networkId, .txSize,
                 .exUnits, .minting, .wellFormed, .witnesses, .languages, .auxData, .scriptDataHash]
  | .conway => [.insNotEmpty, .insInUtxo, .validity, .fee, .preservation, .minLovelace, .valSize, .networkId, .txSize,
                .exUnits, .minting, .wellFormed, .witnesses, .languages, .auxData, .scriptDataHash]

/-- what the validator sees of one output -/
structure OutView where
  lovelace : Nat
  /-- `get_val_size_in_words` of the value -/
  words : Nat
  /-- the `Multiasset` variant (Shelley-MA minimum differs) -/
  multi : Bool
  /-- Alonzo: the output has a datum hash -/
  datumHash : Bool
  /-- network id of the (Shelley) address, `none` = the address does not decode as a Shelley address -/
  network : Option Nat
  deriving Repr

/-- what the collateral rules see of one collateral input -/
structure CollView where
  inUtxo : Bool
  /-- the UTxO entry is of an output variant this era's `check_collaterals_address` inspects -/
  lookedAt : Bool
  /-- payment part: `some true` = script, `some false` = key, `none` = not a Shelley address -/
  script : Option Bool
  coin : Nat
  hasAssets : Bool
  deriving Repr

/-- `RedeemerPointer { tag, index }` / `RedeemersKey` (tag as its number: 0 spend, 1 mint, 2 cert, 3 reward, ..) -/
structure Ptr where
  tag : Nat
  index : Nat
  deriving DecidableEq, Repr

/-- script-related observations; every hash is its hex text -/
structure ScriptView where
  /-- keys of the mint map (`[]` with `mintPresent = false` when there is no mint field) -/
  mintPresent : Bool
  mintPolicies : List String
  /-- hashes of the witness-set scripts, in witness-set order -/
  native : List String
  v1 : List String
  v2 : List String
  v3 : List String
  /-- Alonzo: the `plutus_script` field is `Some` -/
  plutusFieldPresent : Bool
  /-- hashes of the scripts carried by reference inputs (Babbage / Conway), in reference-input order -/
  refScripts : List String
  /-- script hashes of the script-locked spent inputs, body order -/
  inputScripts : List String
  /-- per spent input in sorted order: its script hash if it is script-locked -/
  sortedInputScripts : List (Option String)
  sortedPolicies : List String
  /-- Conway: per withdrawal in sorted order: the script hash if the reward account is a script; `withdrawalsOk = false`
      when a withdrawal key is not a stake address (`InputDecoding`) -/
  sortedWithdrawalScripts : List (Option String)
  withdrawalsOk : Bool
  /-- the redeemer pointers of the witness set -/
  redeemers : List Ptr
  deriving Repr

structure DatumView where
  /-- hashes of the witness-set datums (original bytes), in order -/
  witnessDatums : List String
  /-- every spent input resolves to an output variant the era's datum check reads (else `InputNotInUTxO`) -/
  inputsResolved : Bool
  /-- datum hash of each spent input (body order), if its output carries one -/
  inputDatumHashes : List (Option String)
  /-- datum hashes where a supplementary datum may come from: outputs (+ collateral return, + reference inputs from Babbage on) -/
  allowedDatumHashes : List String
  deriving Repr

structure LangView where
  /-- `tx_languages`: 0 = PlutusV1, 1 = PlutusV2, 2 = PlutusV3 -/
  used : List Nat
  /-- Conway: languages with a cost model in the protocol parameters -/
  withCostModel : List Nat
  anyByronAddress : Bool
  anyDatumOrScriptRef : Bool
  anyReferenceInput : Bool
  protMagic : Nat
  deriving Repr

structure SdhView where
  /-- `script_data_hash` of the body -/
  provided : Option (List UInt8)
  /-- Conway: the witness-set bytes and the cost models of the parameters (language number, model) -/
  witnessSetBytes : List UInt8
  costModels : List (Nat × List Int)
  /-- Alonzo / Babbage: `encode(redeemer)` and each datum re-encoded (`none` = field absent), the era's cost-model bytes -/
  redeemerEnc : Option (List UInt8)
  datumEncs : Option (List (List UInt8))
  redeemerCount : Nat
  costModelBytes : List UInt8

structure ValueView where
  /-- the value rule of this transaction is stated (no certificates: the deposit terms are not in `Model/Value.lean`) -/
  modelled : Bool
  shelleyEra : Bool
  spent : List Value.Value
  produced : List Value.Value
  mint : Option Value.MA

structure ExView where
  wits : ExUnits.Wits
  maxMem : Nat
  maxSteps : Nat

structure WitView where
  hash : Witness.Bytes → String
  verify : Witness.Bytes → Witness.Bytes → Witness.Bytes → Bool
  requiredSigners : Option (List String)
  witnesses : Option (List Witness.Wit)
  inputViews : List (Witness.InputView String)
  nativeOk : Bool
  txId : Witness.Bytes

structure View where
  nInputs : Nat
  nOutputs : Nat
  inputsIn : List Bool
  /-- `none` = no collateral field -/
  collateral : Option (List CollView)
  refInputsIn : List Bool
  validityStart : Option Nat
  ttl : Option Nat
  slot : Nat
  size : Nat
  maxSize : Nat
  fee : Nat
  minfeeA : Nat
  minfeeB : Nat
  outputs : List OutView
  /-- `ada_per_utxo_byte` (Alonzo+) / `min_utxo_value` (Shelley-MA) -/
  coinsParam : Nat
  maxValueSize : Nat
  envNetwork : Nat
  txNetwork : Option Nat
  /-- Plutus scripts in the witness set (`presence_of_plutus_scripts`) -/
  plutusInWitnesses : Bool
  /-- the witness set has redeemers (so some Plutus script runs, from the witness set or from a reference input) -/
  redeemersPresent : Bool
  maxCollateralInputs : Nat
  collateralPercentage : Nat
  /-- Babbage / Conway: `lovelace_diff_or_fail(collateral inputs, collateral return)`; `none` = it failed (non-lovelace balance) -/
  paidCollateral : Option Nat
  totalCollateral : Option Nat
  auxHashPresent : Bool
  auxPresent : Bool
  auxHashMatches : Bool
  scripts : ScriptView
  datums : DatumView
  langs : LangView
  sdh : SdhView
  value : ValueView
  ex : ExView
  wit : WitView
  /-- verdicts of the rules whose predicate is not stated in this model -/
  external : Rule → Bool

/-! ## The stated rules (each `if x < y { Err }` of the code is written as the condition for passing, `y ≤ x`) -/

def eraHasCollateral : Era → Bool
  | .alonzo | .babbage | .conway => true
  | _ => false
def eraHasRefInputs : Era → Bool
  | .babbage | .conway => true
  | _ => false

def insNotEmpty (v : View) : Bool := decide (v.nInputs ≠ 0)

/-- `check_ins_in_utxos` / `check_ins_and_collateral_in_utxos` / `check_all_ins_in_utxos` -/
def insInUtxo (era : Era) (v : View) : Bool :=
  v.inputsIn.all id &&
  (!eraHasCollateral era || (v.collateral.getD []).all (fun c => c.inUtxo)) &&
  (!eraHasRefInputs era || v.refInputsIn.all id)

def lowerOk (v : View) : Bool :=
  match v.validityStart with
  | some s => decide (s ≤ v.slot)
  | none => true
def upperOk (v : View) : Bool :=
  match v.ttl with
  | some t => decide (v.slot ≤ t)
  | none => true

/-- Shelley-MA `check_ttl` (the TTL is mandatory); later eras `check_lower_bound` + `check_upper_bound` -/
def validity (era : Era) (v : View) : Bool :=
  if era = .shelleyMA then v.ttl.isSome && upperOk v else lowerOk v && upperOk v

def txSize (v : View) : Bool := decide (v.size ≤ v.maxSize)

/-- `compute_min_lovelace` of each era -/
def minRequired (era : Era) (v : View) (o : OutView) : Nat :=
  match era with
  | .shelleyMA => if o.multi then max o.lovelace ((27 + o.words) * (v.coinsParam / 27)) else v.coinsParam
  | .alonzo => v.coinsParam * (o.words + (if o.datumHash then 37 else 27))
  | _ => v.coinsParam * (o.words + 160)

def minLovelace (era : Era) (v : View) : Bool := v.outputs.all (fun o => decide (minRequired era v o ≤ o.lovelace))

def valSize (v : View) : Bool := v.outputs.all (fun o => decide (o.words ≤ v.maxValueSize))

def txNetworkOk (v : View) : Bool :=
  match v.txNetwork with
  | some n => decide (n = v.envNetwork)
  | none => true

/-- every output address is a Shelley address of the environment's network; the body's network id, if any, too (Alonzo+) -/
def networkId (era : Era) (v : View) : Bool :=
  v.outputs.all (fun o => decide (o.network = some v.envNetwork)) && (decide (era = .shelleyMA) || txNetworkOk v)

def minFee (v : View) : Bool := decide (v.minfeeB + v.minfeeA * v.size ≤ v.fee)

/-- Alonzo: every inspected collateral input covers the percentage of the fee by itself and carries no assets -/
def alonzoAmounts (v : View) (cs : List CollView) : Bool :=
  cs.all (fun c => !c.lookedAt || (decide (v.fee * v.collateralPercentage ≤ c.coin * 100) && !c.hasAssets))

/-- Babbage / Conway: the lovelace-only balance covers the percentage of the fee and equals the annotation, if any -/
def balanceAmounts (v : View) : Bool :=
  match v.paidCollateral with
  | none => false
  | some paid =>
    decide (v.fee * v.collateralPercentage ≤ paid * 100) &&
    (match v.totalCollateral with
     | some t => decide (paid = t)
     | none => true)

/-- `check_collaterals`: present, `0 < count ≤ max`, every one in the UTxO and not script-locked (nor undecodable),
    then the amount rules of the era -/
def collateralOk (era : Era) (v : View) : Bool :=
  match v.collateral with
  | none => false
  | some cs =>
    !cs.isEmpty && decide (cs.length ≤ v.maxCollateralInputs) &&
    cs.all (fun c => c.inUtxo && (!c.lookedAt || decide (c.script = some false))) &&
    (if era = .alonzo then alonzoAmounts v cs else balanceAmounts v)

/-- `check_fee` (Alonzo+): minimum fee, and the collateral rules when the witness set has Plutus scripts;
    Shelley-MA `check_fees`: the minimum fee -/
def fee (era : Era) (v : View) : Bool :=
  if era = .shelleyMA then minFee v else minFee v && (!v.plutusInWitnesses || collateralOk era v)

/-- `check_auxiliary_data` / `check_metadata`: hash and data both present and matching, or both absent -/
def auxData (v : View) : Bool :=
  if v.auxHashPresent && v.auxPresent then v.auxHashMatches
  else !v.auxHashPresent && !v.auxPresent

/-! ## Minting policies, scripts, datums, redeemers -/

/-- the witness-set scripts an era knows, as one list of hashes -/
def providedScripts (era : Era) (sv : ScriptView) : List String :=
  match era with
  | .shelleyMA => sv.native
  | .alonzo => sv.native ++ sv.v1
  | .babbage => sv.native ++ sv.v1 ++ sv.v2
  | _ => sv.native ++ sv.v1 ++ sv.v2 ++ sv.v3

def refScriptsOf (era : Era) (sv : ScriptView) : List String := if eraHasRefInputs era then sv.refScripts else []

/-- `check_minting`: every minted policy is the hash of a witness-set script (or of a reference script) -/
def minting (era : Era) (v : View) : Bool :=
  v.scripts.mintPolicies.all (fun p => (providedScripts era v.scripts).contains p || (refScriptsOf era v.scripts).contains p)

/-- `check_needed_scripts*`: every script-locked input and every minted policy has its script (witness set, or reference
    input from Babbage on), and every witness-set script that is not also a reference script is needed by one of them -/
def neededScripts (era : Era) (v : View) : Bool :=
  let sv := v.scripts
  let refs := refScriptsOf era sv
  let provided := (providedScripts era sv).filter (fun h => !refs.contains h)
  sv.inputScripts.all (fun h => provided.contains h || refs.contains h) &&
  sv.mintPolicies.all (fun p => provided.contains p || refs.contains p) &&
  provided.all (fun h => sv.inputScripts.contains h || sv.mintPolicies.contains h)

/-- mark the first unmarked-or-marked entry equal to `h` (`find_datum_hash` / `find_plutus_datum_in_witness_set`) -/
def markFirst (h : String) : List (Bool × String) → Option (List (Bool × String))
  | [] => none
  | (f, d) :: rest => if d = h then some ((true, d) :: rest) else (markFirst h rest).map ((f, d) :: ·)

def markInputs : List (Option String) → List (Bool × String) → Option (List (Bool × String))
  | [], l => some l
  | none :: rest, l => markInputs rest l
  | some h :: rest, l => match markFirst h l with
    | some l' => markInputs rest l'
    | none => none                      -- `DatumMissing`

/-- `check_datums`: each input datum hash is the hash of a witness-set datum; every other witness-set datum is announced by
    an output (collateral return, reference input) -/
def datumsOk (v : View) : Bool :=
  v.datums.inputsResolved &&
  (match markInputs v.datums.inputDatumHashes (v.datums.witnessDatums.map (fun d => (false, d))) with
   | none => false
   | some l => l.all (fun e => e.1 || v.datums.allowedDatumHashes.contains e.2))   -- `UnneededDatum`

def isPhase2 (era : Era) (sv : ScriptView) (h : String) : Bool :=
  match era with
  | .babbage => sv.v1.contains h || sv.v2.contains h || sv.refScripts.contains h
  | _ => sv.v1.contains h || sv.v2.contains h || sv.v3.contains h || sv.refScripts.contains h

def indexed {α : Type} (l : List α) : List (Nat × α) := (List.range l.length).zip l

/-- `mk_plutus_script_redeemer_pointers` of each era -/
def neededPointers (era : Era) (sv : ScriptView) : List Ptr :=
  match era with
  | .alonzo =>
    -- one pointer per (input, matching Plutus script) pair; nothing when the `plutus_script` field is absent
    if !sv.plutusFieldPresent then []
    else
      (indexed sv.sortedInputScripts).flatMap (fun (i, o) => match o with
        | some h => (sv.v1.filter (· == h)).map (fun _ => ⟨0, i⟩)
        | none => []) ++
      (if sv.mintPresent then (indexed sv.sortedPolicies).flatMap (fun (i, p) => (sv.v1.filter (· == p)).map (fun _ => ⟨1, i⟩)) else [])
  | .babbage =>
    -- every script-locked input (native scripts included), phase-2 minting policies
    (indexed sv.sortedInputScripts).filterMap (fun (i, o) => o.map (fun _ => ⟨0, i⟩)) ++
    (if sv.mintPresent then (indexed sv.sortedPolicies).filterMap (fun (i, p) => if isPhase2 era sv p then some ⟨1, i⟩ else none) else [])
  | _ =>
    (indexed sv.sortedInputScripts).filterMap (fun (i, o) => match o with
      | some h => if isPhase2 era sv h then some ⟨0, i⟩ else none
      | none => none) ++
    (if sv.mintPresent then (indexed sv.sortedPolicies).filterMap (fun (i, p) => if isPhase2 era sv p then some ⟨1, i⟩ else none) else []) ++
    (indexed sv.sortedWithdrawalScripts).filterMap (fun (i, o) => match o with
      | some h => if isPhase2 era sv h then some ⟨3, i⟩ else none
      | none => none)

/-- `redeemer_pointers_coincide`: no redeemer without a script, no script without a redeemer -/
def redeemersOk (era : Era) (v : View) : Bool :=
  let needed := neededPointers era v.scripts
  (era != .conway || v.scripts.withdrawalsOk) &&
  v.scripts.redeemers.all (fun r => needed.contains r) && needed.all (fun n => v.scripts.redeemers.contains n)

/-! ## The linked rule models -/

def valueOk (era : Era) (v : View) : Bool :=
  match era with
  | .shelleyMA => Value.checkPreservationShelleyMA v.value.shelleyEra v.value.spent v.value.produced v.fee v.value.mint == .ok
  | .conway => Value.checkPreservationConway v.value.spent v.value.produced v.fee v.value.mint == .ok
  | _ => Value.checkPreservation v.value.spent v.value.produced v.fee v.value.mint == .ok

def exUnitsEra : Era → ExUnits.Era
  | .alonzo => .alonzo
  | .babbage => .babbage
  | _ => .conway

def exUnitsOk (era : Era) (v : View) : Bool := ExUnits.checkTxExUnits (exUnitsEra era) v.ex.wits v.ex.maxMem v.ex.maxSteps == .ok

def isOkR : Witness.R Unit → Bool
  | .ok () => true
  | _ => false

/-- the signature part of `check_witness_set` / Shelley-MA `check_witnesses` (model of C35) -/
def vkeyWitnessesOk (era : Era) (v : View) : Bool :=
  match era with
  | .shelleyMA => isOkR (Witness.checkWitnessesShelley v.wit.hash v.wit.verify v.wit.witnesses v.wit.inputViews v.wit.nativeOk v.wit.txId)
  | _ => isOkR (Witness.checkWitnessSet v.wit.hash v.wit.verify (era == .conway) v.wit.requiredSigners v.wit.witnesses v.wit.inputViews v.wit.txId)

/-- `check_witness_set` (Alonzo+): needed scripts, datums, redeemers, required signers, key witnesses;
    Shelley-MA `check_witnesses`: key witnesses + native-script witnesses (inside the C35 model) -/
def witnesses (era : Era) (v : View) : Bool :=
  match era with
  | .shelleyMA => vkeyWitnessesOk era v
  | _ => neededScripts era v && datumsOk v && redeemersOk era v && vkeyWitnessesOk era v

/-! ## Languages and the script-integrity hash -/

/-- Babbage `block_langs`: PlutusV2 from the first slot of the Vasil epoch of the network -/
def blockLangs (magic net slot : Nat) : List Nat :=
  let start := if magic = 1 ∧ net = 0 then 3974409 else if magic = 2 ∧ net = 0 then 777610 else 72748820
  if slot ≥ start then [0, 1] else [0]

/-- `allowed_langs` / `allowed_tx_langs` -/
def allowedLangs (era : Era) (l : LangView) : List Nat :=
  if l.anyByronAddress then []
  else if l.anyDatumOrScriptRef || l.anyReferenceInput then (if era = .conway then [1, 2] else [1])
  else (if era = .conway then [0, 1, 2] else [0, 1])

/-- `check_languages`: Alonzo accepts everything; Babbage wants every used language among the block's languages that are
    also allowed; Conway rejects a language only if it has no cost model *and* is not allowed -/
def languages (era : Era) (v : View) : Bool :=
  match era with
  | .babbage => v.langs.used.all (fun x => (blockLangs v.langs.protMagic v.envNetwork v.slot).contains x && (allowedLangs era v.langs).contains x)
  | .conway => v.langs.used.all (fun x => v.langs.withCostModel.contains x || (allowedLangs era v.langs).contains x)
  | _ => true

/-- `cost_model_for_tx`: the language views of the used languages, `none` if one has no cost model -/
def costModelForTx (used : List Nat) (models : List (Nat × List Int)) : Option ScriptData.LanguageViews :=
  used.foldl (fun acc x => match acc, models.lookup x with
    | some m, some cm => some (ScriptData.insert x cm m)
    | _, _ => none) (some [])

def arrayHead (n : Nat) : List UInt8 :=
  if n < 24 then [UInt8.ofNat (0x80 + n)]
  else if n < 256 then [0x98, UInt8.ofNat n]
  else [0x99, UInt8.ofNat (n / 256), UInt8.ofNat (n % 256)]

/-- `check_script_data_hash` -/
def scriptDataHash (era : Era) (v : View) : Bool :=
  let s := v.sdh
  match era with
  | .conway =>
    (match s.provided with
     | none => v.langs.used.isEmpty
     | some p =>
       match costModelForTx v.langs.used s.costModels with
       | none => false
       | some views =>
         match ScriptData.wsBuildHash s.witnessSetBytes (some views) with
         | some (some h) => h == p
         | _ => false)
  | _ =>
    (match s.provided with
     | none => (s.datumEncs.getD []).isEmpty && s.redeemerCount == 0
     | some p =>
       match s.redeemerEnc, s.datumEncs with
       | some r, some ds =>
         let indef := r ++ [0x9f] ++ ds.flatten ++ [0xff] ++ s.costModelBytes
         if era = .alonzo then Blake2b.blake2b256 indef == p
         else
           let indef' := r ++ (if ds.isEmpty then [] else [0x9f] ++ ds.flatten ++ [0xff]) ++ s.costModelBytes
           let defn := r ++ (if ds.isEmpty then [] else arrayHead ds.length ++ ds.flatten) ++ s.costModelBytes
           Blake2b.blake2b256 indef' == p || Blake2b.blake2b256 defn == p
       | _, _ => false)

/-- is the predicate of `r` stated in this model for `era` (and this view)? -/
def stated (era : Era) (v : View) (r : Rule) : Bool :=
  match era, r with
  | .byron, .insNotEmpty => true
  | .byron, .txSize => true
  | .byron, _ => false
  | _, .insNotEmpty | _, .insInUtxo | _, .validity | _, .txSize | _, .minLovelace | _, .networkId | _, .fee | _, .auxData => true
  | _, .minting | _, .witnesses => true
  | _, .preservation => v.value.modelled
  | .shelleyMA, _ => false
  | _, .valSize | _, .exUnits | _, .languages | _, .scriptDataHash | _, .wellFormed => true
  | _, _ => false

/-- verdict of rule `r`: its stated predicate, or the verdict observed on the implementation -/
def verdict (era : Era) (v : View) (r : Rule) : Bool :=
  if stated era v r then
    match r with
    | .insNotEmpty => insNotEmpty v
    | .insInUtxo => insInUtxo era v
    | .validity => validity era v
    | .txSize => txSize v
    | .minLovelace => minLovelace era v
    | .valSize => valSize v
    | .networkId => networkId era v
    | .fee => fee era v
    | .auxData => auxData v
    | .minting => minting era v
    | .witnesses => witnesses era v
    | .preservation => valueOk era v
    | .exUnits => exUnitsOk era v
    | .languages => languages era v
    | .scriptDataHash => scriptDataHash era v
    | .wellFormed => true
    | r => v.external r
  else v.external r

/-- `validate_<era>_tx`: the first rule of the era's list that fails (`none` = accepted) -/
def validate (era : Era) (v : View) : Option Rule := (order era).find? (fun r => !verdict era v r)

end PallasVerif.Rules
