/-
  Model of the multiplexer of `pallas-network/src/multiplexer.rs` (and the identical segment framing of
  `pallas-network2/src/bearer.rs`).

  * `Header` ⇄ 8 bytes: `timestamp:u32 ‖ protocol:u16 ‖ payload_len:u16`, big endian
    (`Header::from(&[u8])`, `From<Header> for [u8; 8]`).
  * `writeSegment` = `Muxer::write_segment` / `BearerWriteHalf::write_segment`
    (`payload_len: payload.len() as u16` — truncating cast, transcribed as `% 65536`).
  * `readSegment` = `Demuxer::read_segment` / `BearerReadHalf::read_segment` on the bytes available on the
    bearer; `none` = the two `read_exact` calls cannot complete yet.
  * `Chan` = one direction of a connected pair of plexers as a labelled transition system:
    the sender's muxer ingress queue (mpsc, FIFO), the bytes in flight on the bearer, the receiver's
    demuxer table (`HashMap<Protocol, Sender>`: subscribed keys + their mpsc queues). `sent` /
    `delivered` are history (ghost) variables recording `enqueue_chunk` / `dequeue_chunk` results.
    Ticks are atomic, queues unbounded FIFO (bounded capacity only disables an action, it never
    reorders or drops) — tokio scheduling itself is not modelled.
  * `Role`, `sendProto`, `recvKey` = the direction-bit rule of `Plexer::subscribe_client/_server`.
-/
namespace PallasVerif.Mux

abbrev Bytes := List UInt8

/-- `HEADER_LEN` -/
def HEADER_LEN : Nat := 8
/-- `MAX_SEGMENT_PAYLOAD_LENGTH` -/
def MAX_SEGMENT_PAYLOAD_LENGTH : Nat := 65535

/-- `NetworkEndian::write_u16` -/
def be16 (n : Nat) : Bytes := [UInt8.ofNat (n / 256), UInt8.ofNat n]
/-- `NetworkEndian::write_u32` -/
def be32 (n : Nat) : Bytes :=
  [UInt8.ofNat (n / 16777216), UInt8.ofNat (n / 65536), UInt8.ofNat (n / 256), UInt8.ofNat n]
/-- `NetworkEndian::read_u16` -/
def rd16 (a b : UInt8) : Nat := a.toNat * 256 + b.toNat
/-- `NetworkEndian::read_u32` -/
def rd32 (a b c d : UInt8) : Nat := a.toNat * 16777216 + b.toNat * 65536 + c.toNat * 256 + d.toNat

structure Header where
  timestamp : Nat        -- u32
  protocol : UInt16
  payloadLen : Nat       -- u16
  deriving DecidableEq, Repr

/-- `From<Header> for [u8; 8]` -/
def Header.encode (h : Header) : Bytes :=
  be32 h.timestamp ++ be16 h.protocol.toNat ++ be16 h.payloadLen

/-- `Header::from(&[u8])`: indexes `value[0..8]`; a shorter slice panics (`none`) -/
def Header.decode : Bytes → Option Header
  | a :: b :: c :: d :: e :: f :: g :: h :: _ =>
    some { timestamp := rd32 a b c d, protocol := UInt16.ofNat (rd16 e f), payloadLen := rd16 g h }
  | _ => none

/-- `write_segment`: header (with `payload.len() as u16`) then the payload -/
def writeSegment (timestamp : Nat) (protocol : UInt16) (payload : Bytes) : Bytes :=
  (Header.encode { timestamp := timestamp % 4294967296, protocol := protocol,
                   payloadLen := payload.length % 65536 }) ++ payload

/-- `read_segment` on the bytes currently in flight: `(protocol, payload, remaining bytes)` -/
def readSegment (wire : Bytes) : Option (UInt16 × Bytes × Bytes) :=
  if wire.length < HEADER_LEN then none
  else
    match Header.decode (wire.take HEADER_LEN) with
    | none => none
    | some h =>
      let rest := wire.drop HEADER_LEN
      if rest.length < h.payloadLen then none
      else some (h.protocol, rest.take h.payloadLen, rest.drop h.payloadLen)

/-- `payload.chunks(MAX_SEGMENT_PAYLOAD_LENGTH)` of `ChannelBuffer::send_msg_chunks` /
    `Message::into_chunks` (slice `chunks(n)`: consecutive pieces of `n` bytes, the last one shorter,
    none for an empty slice); recursion on a fuel that starts at the payload length -/
def chunksOf (n : Nat) : Nat → Bytes → List Bytes
  | 0, _ => []
  | fuel + 1, l => if l.isEmpty then [] else l.take n :: chunksOf n fuel (l.drop n)

/-- `send_msg_chunks` as a list of `enqueue_chunk` calls -/
def sendMsgChunks (payload : Bytes) : List Bytes :=
  chunksOf MAX_SEGMENT_PAYLOAD_LENGTH payload.length payload

/-! ## one direction of a connected pair -/

structure Chan where
  subs : List UInt16                    -- keys of the receiver's demuxer table
  ingress : List (UInt16 × Bytes)       -- sender's muxer queue
  wire : Bytes                          -- bearer
  queues : UInt16 → List Bytes          -- receiver's per-protocol egress queues
  sent : List (UInt16 × Bytes)          -- history of `enqueue_chunk`
  delivered : List (UInt16 × Bytes)     -- history of `dequeue_chunk`

def Chan.init (subs : List UInt16) : Chan :=
  { subs := subs, ingress := [], wire := [], queues := fun _ => [], sent := [], delivered := [] }

inductive Act where
  | enqueue (q : UInt16) (chunk : Bytes)   -- `AgentChannel::enqueue_chunk` (q = the channel's protocol)
  | muxTick (timestamp : Nat)              -- `Muxer::tick`
  | demuxTick                              -- `Demuxer::tick`
  | dequeue (q : UInt16)                   -- `AgentChannel::dequeue_chunk` of the agent subscribed on key q

def setQueue (f : UInt16 → List Bytes) (q : UInt16) (v : List Bytes) : UInt16 → List Bytes :=
  fun k => if k = q then v else f k

/-- one action; an action that is not enabled (empty queue, incomplete segment) leaves the state
    unchanged (the real task stays blocked on its `await`) -/
def Chan.step (s : Chan) : Act → Chan
  | .enqueue q c => { s with ingress := s.ingress ++ [(q, c)], sent := s.sent ++ [(q, c)] }
  | .muxTick ts =>
    match s.ingress with
    | [] => s
    | (q, c) :: rest => { s with ingress := rest, wire := s.wire ++ writeSegment ts q c }
  | .demuxTick =>
    match readSegment s.wire with
    | none => s
    | some (q, payload, rest) =>
      if q ∈ s.subs then
        { s with wire := rest, queues := setQueue s.queues q (s.queues q ++ [payload]) }
      else { s with wire := rest }          -- "message for unregistered protocol": dropped
  | .dequeue q =>
    if q ∈ s.subs then
      match s.queues q with
      | [] => s
      | c :: rest => { s with queues := setQueue s.queues q rest, delivered := s.delivered ++ [(q, c)] }
    else s

def Chan.run (s : Chan) (acts : List Act) : Chan := acts.foldl Chan.step s

/-! ## direction bit -/

inductive Role where
  | client
  | server
  deriving DecidableEq, Repr

def Role.flip : Role → Role
  | .client => .server
  | .server => .client

/-- protocol id an agent's chunks are sent under (`AgentChannel.protocol`):
    `subscribe_client` → `protocol`, `subscribe_server` → `protocol ^ 0x8000` -/
def sendProto : Role → UInt16 → UInt16
  | .client, p => p
  | .server, p => p ^^^ 0x8000

/-- demuxer key an agent receives on: `subscribe_client` → `protocol ^ 0x8000`,
    `subscribe_server` → `protocol` -/
def recvKey : Role → UInt16 → UInt16
  | .client, p => p ^^^ 0x8000
  | .server, p => p

/-! ## the connected pair: two independent directions -/

structure Agent where
  side : Bool            -- which plexer of the pair
  role : Role
  proto : UInt16
  deriving DecidableEq, Repr

structure Pair where
  ab : Chan              -- side `false` → side `true`
  ba : Chan              -- side `true` → side `false`

/-- direction used for *sending* by an agent on `side` -/
def Pair.out (p : Pair) (side : Bool) : Chan := if side then p.ba else p.ab
def Pair.setOut (p : Pair) (side : Bool) (c : Chan) : Pair :=
  if side then { p with ba := c } else { p with ab := c }

def Pair.init (agents : List Agent) : Pair :=
  { ab := Chan.init ((agents.filter (·.side = true)).map fun a => recvKey a.role a.proto),
    ba := Chan.init ((agents.filter (·.side = false)).map fun a => recvKey a.role a.proto) }

inductive PAct where
  | enqueue (a : Agent) (chunk : Bytes)
  | muxTick (side : Bool) (timestamp : Nat)
  | demuxTick (side : Bool)                -- the demuxer running *on* `side` (reads what the peer sent)
  | dequeue (a : Agent)

def Pair.step (p : Pair) : PAct → Pair
  | .enqueue a c => p.setOut a.side ((p.out a.side).step (.enqueue (sendProto a.role a.proto) c))
  | .muxTick side ts => p.setOut side ((p.out side).step (.muxTick ts))
  | .demuxTick side => p.setOut (!side) ((p.out (!side)).step .demuxTick)
  | .dequeue a => p.setOut (!a.side) ((p.out (!a.side)).step (.dequeue (recvKey a.role a.proto)))

def Pair.run (p : Pair) (acts : List PAct) : Pair := acts.foldl Pair.step p

end PallasVerif.Mux
