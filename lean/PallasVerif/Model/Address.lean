/-
  Model of `pallas-addresses/src/varuint.rs` and of the Shelley / stake part of
  `pallas-addresses/src/lib.rs` (`Pointer`, `ShelleyAddress`, `StakeAddress`, `bytes_to_address`,
  the `parse_shelley_fn!` / `parse_stake_fn!` arms, hex, bech32 wrappers, `FromStr`/`Display`).

  * `Hash<28>` is a list of exactly 28 bytes (subtype).
  * `u64` pointer components are `Nat`; the `u128` accumulator of `varuint::read` cannot overflow
    (it is compared with `u64::MAX` after every byte), so it is a `Nat` too.
  * Type 8 (Byron) is *delegated*: `bytes_to_address` hands the bytes to the Byron CBOR decoder, which
    is property C19's model; here the outcome is the opaque `Res.byron`.
  * The `bech32` crate is a parameter (`Bech32`); `ByronAddress::from_base58` is a parameter of `fromStr`.
-/
namespace PallasVerif.Address

abbrev Bytes := List UInt8

def Hash28 := { l : Bytes // l.length = 28 }

instance : DecidableEq Hash28 := inferInstanceAs (DecidableEq { l : Bytes // l.length = 28 })

def U64MAX : Nat := 2 ^ 64 - 1

/-! ## varuint.rs -/

/-- the `while num > 0 { output.push((num & 0x7F) as u8 | 0x80); num /= 128; }` loop -/
def writeLoop (num : Nat) : Bytes :=
  if h : num = 0 then []
  else UInt8.ofNat ((num &&& 0x7F) ||| 0x80) :: writeLoop (num / 128)
termination_by num
decreasing_by omega

/-- `varuint::write`: first (least significant) group without the continuation bit, then the
    loop, then `output.reverse()` -/
def varuintWrite (num : Nat) : Bytes :=
  (UInt8.ofNat (num % 256 &&& 0x7F) :: writeLoop (num / 128)).reverse

/-- `varuint::read` from the cursor's remaining bytes; result = (value, remaining bytes),
    `none` = `UnexpectedEof`. On exceeding `u64::MAX` it returns `u64::MAX` *immediately*
    (continuation bytes of the oversized number stay unread). -/
def readLoop (output : Nat) : Bytes → Option (Nat × Bytes)
  | [] => none
  | byte :: rest =>
    let output' := (output <<< 7) ||| (byte &&& 0x7F).toNat
    if output' > U64MAX then some (U64MAX, rest)
    else if byte &&& 0x80 = 0 then some (output', rest)
    else readLoop output' rest

def varuintRead (bs : Bytes) : Option (Nat × Bytes) := readLoop 0 bs

/-! ## lib.rs data -/

structure Pointer where
  slot : Nat
  txIdx : Nat
  certIdx : Nat
  deriving DecidableEq, Repr

inductive Network where
  | testnet
  | mainnet
  | other (x : UInt8)
  deriving DecidableEq, Repr

inductive Payment where
  | key (h : Hash28)
  | script (h : Hash28)
  deriving DecidableEq

inductive Delegation where
  | key (h : Hash28)
  | script (h : Hash28)
  | pointer (p : Pointer)
  | null
  deriving DecidableEq

inductive StakePayload where
  | stake (h : Hash28)
  | script (h : Hash28)
  deriving DecidableEq

/-- `Address` without the Byron variant -/
inductive Addr where
  | shelley (net : Network) (pay : Payment) (deleg : Delegation)
  | stake (net : Network) (payload : StakePayload)
  deriving DecidableEq

inductive Err where
  | missingHeader
  | invalidHeader
  | invalidLength
  | invalidHashSize
  | varuint            -- `VarUintError(UnexpectedEof)`
  | unknownHrp         -- `UnknownNetworkHrp`
  | badHex
  | badBech32
  | unknownFormat
  deriving DecidableEq, Repr

/-- outcome of `Address::from_bytes` -/
inductive Res where
  | ok (a : Addr)
  | byron              -- header type 8: delegated to the Byron decoder (C19)
  | err (e : Err)
  deriving DecidableEq

/-- `Network::from(u8)` -/
def Network.ofU8 (id : UInt8) : Network :=
  if id = 0 then .testnet else if id = 1 then .mainnet else .other id

/-- `Network::value` -/
def Network.value : Network → UInt8
  | .testnet => 0
  | .mainnet => 1
  | .other x => x

/-- `parse_network` -/
def parseNetwork (header : UInt8) : Network :=
  let masked := header &&& 0x0F
  if masked = 0 then .testnet else if masked = 1 then .mainnet else .other masked

/-- `Pointer::parse` (trailing bytes after the third number are ignored) -/
def Pointer.parse (bs : Bytes) : Option Pointer :=
  match varuintRead bs with
  | none => none
  | some (a, r1) =>
    match varuintRead r1 with
    | none => none
    | some (b, r2) =>
      match varuintRead r2 with
      | none => none
      | some (c, _) => some ⟨a, b, c⟩

/-- `Pointer::to_vec` -/
def Pointer.toVec (p : Pointer) : Bytes :=
  varuintWrite p.slot ++ varuintWrite p.txIdx ++ varuintWrite p.certIdx

def Payment.toVec : Payment → Bytes
  | .key h => h.val
  | .script h => h.val

def Delegation.toVec : Delegation → Bytes
  | .key h => h.val
  | .script h => h.val
  | .pointer p => p.toVec
  | .null => []

def StakePayload.toVec : StakePayload → Bytes
  | .stake h => h.val
  | .script h => h.val

/-- `ShelleyAddress::typeid` -/
def shelleyTypeId : Payment → Delegation → UInt8
  | .key _, .key _ => 0b0000
  | .script _, .key _ => 0b0001
  | .key _, .script _ => 0b0010
  | .script _, .script _ => 0b0011
  | .key _, .pointer _ => 0b0100
  | .script _, .pointer _ => 0b0101
  | .key _, .null => 0b0110
  | .script _, .null => 0b0111

/-- `StakeAddress::typeid` -/
def stakeTypeId : StakePayload → UInt8
  | .stake _ => 0b1110
  | .script _ => 0b1111

def Addr.typeId : Addr → UInt8
  | .shelley _ p d => shelleyTypeId p d
  | .stake _ p => stakeTypeId p

def Addr.network : Addr → Network
  | .shelley n _ _ => n
  | .stake n _ => n

/-- `to_header`: `(type_id << 4) | network.value()` -/
def Addr.toHeader (a : Addr) : UInt8 := (a.typeId <<< 4) ||| a.network.value

/-- `to_vec` -/
def Addr.toVec : Addr → Bytes
  | .shelley n p d => (Addr.shelley n p d).toHeader :: (p.toVec ++ d.toVec)
  | .stake n p => (Addr.stake n p).toHeader :: p.toVec

/-- `hrp()` -/
def Addr.hrp : Addr → Except Err String
  | .shelley .testnet _ _ => .ok "addr_test"
  | .shelley .mainnet _ _ => .ok "addr"
  | .shelley (.other _) _ _ => .error .unknownHrp
  | .stake .testnet _ => .ok "stake_test"
  | .stake .mainnet _ => .ok "stake"
  | .stake (.other _) _ => .error .unknownHrp

/-- `slice_to_hash` -/
def sliceToHash (l : Bytes) : Except Err Hash28 :=
  if h : l.length = 28 then .ok ⟨l, h⟩ else .error .invalidHashSize

/-- `parse_shelley_fn!(name, payment, delegation)` (two hashes, `payload.len() < 56` guard) -/
def parseTwoHashes (mkP : Hash28 → Payment) (mkD : Hash28 → Delegation) (header : UInt8)
    (payload : Bytes) : Res :=
  if payload.length < 56 then .err .invalidLength
  else
    match sliceToHash (payload.take 28) with
    | .error e => .err e
    | .ok h1 =>
      match sliceToHash ((payload.drop 28).take 28) with
      | .error e => .err e
      | .ok h2 => .ok (.shelley (parseNetwork header) (mkP h1) (mkD h2))

/-- `parse_shelley_fn!(name, payment, pointer)` (`payload.len() < 29` guard) -/
def parsePointerAddr (mkP : Hash28 → Payment) (header : UInt8) (payload : Bytes) : Res :=
  if payload.length < 29 then .err .invalidLength
  else
    match sliceToHash (payload.take 28) with
    | .error e => .err e
    | .ok h1 =>
      match Pointer.parse (payload.drop 28) with
      | none => .err .varuint
      | some p => .ok (.shelley (parseNetwork header) (mkP h1) (.pointer p))

/-- `parse_shelley_fn!(name, payment)` (`payload.len() < 28` guard) -/
def parseEnterprise (mkP : Hash28 → Payment) (header : UInt8) (payload : Bytes) : Res :=
  if payload.length < 28 then .err .invalidLength
  else
    match sliceToHash (payload.take 28) with
    | .error e => .err e
    | .ok h1 => .ok (.shelley (parseNetwork header) (mkP h1) .null)

/-- `parse_stake_fn!` -/
def parseStake (mk : Hash28 → StakePayload) (header : UInt8) (payload : Bytes) : Res :=
  if payload.length < 28 then .err .invalidLength
  else
    match sliceToHash (payload.take 28) with
    | .error e => .err e
    | .ok h1 => .ok (.stake (parseNetwork header) (mk h1))

/-- `bytes_to_address` -/
def fromBytes : Bytes → Res
  | [] => .err .missingHeader
  | header :: payload =>
    let t := header &&& 0xF0
    if t = 0x00 then parseTwoHashes .key .key header payload
    else if t = 0x10 then parseTwoHashes .script .key header payload
    else if t = 0x20 then parseTwoHashes .key .script header payload
    else if t = 0x30 then parseTwoHashes .script .script header payload
    else if t = 0x40 then parsePointerAddr .key header payload
    else if t = 0x50 then parsePointerAddr .script header payload
    else if t = 0x60 then parseEnterprise .key header payload
    else if t = 0x70 then parseEnterprise .script header payload
    else if t = 0x80 then .byron
    else if t = 0xE0 then parseStake .stake header payload
    else if t = 0xF0 then parseStake .script header payload
    else .err .invalidHeader

/-! ## hex (`hex::encode`, `hex::decode`: both cases accepted, odd length rejected) -/

def hexDigit (n : Nat) : Char :=
  if n < 10 then Char.ofNat (48 + n) else Char.ofNat (87 + n)

def hexEncode : Bytes → List Char
  | [] => []
  | b :: rest => hexDigit (b.toNat / 16) :: hexDigit (b.toNat % 16) :: hexEncode rest

def hexVal (c : Char) : Option Nat :=
  if '0' ≤ c ∧ c ≤ '9' then some (c.toNat - 48)
  else if 'a' ≤ c ∧ c ≤ 'f' then some (c.toNat - 87)
  else if 'A' ≤ c ∧ c ≤ 'F' then some (c.toNat - 55)
  else none

def hexDecode : List Char → Option Bytes
  | [] => some []
  | [_] => none
  | a :: b :: rest =>
    match hexVal a, hexVal b, hexDecode rest with
    | some x, some y, some r => some (UInt8.ofNat (x * 16 + y) :: r)
    | _, _, _ => none

def Addr.toHex (a : Addr) : List Char := hexEncode a.toVec

/-- `Address::from_hex` -/
def fromHex (s : List Char) : Res :=
  match hexDecode s with
  | none => .err .badHex
  | some bs => fromBytes bs

/-! ## bech32 (the crate is a parameter); encoded text is a `List Char` -/

structure Bech32 where
  enc : String → Bytes → List Char
  dec : List Char → Option (String × Bytes)

/-- `to_bech32`: `hrp()?` then `encode_bech32(bytes, hrp)` -/
def Addr.toBech32 (c : Bech32) (a : Addr) : Except Err (List Char) :=
  match a.hrp with
  | .error e => .error e
  | .ok hrp => .ok (c.enc hrp a.toVec)

/-- `Address::from_bech32`: the decoded hrp is ignored -/
def fromBech32 (c : Bech32) (s : List Char) : Res :=
  match c.dec s with
  | none => .err .badBech32
  | some (_, bs) => fromBytes bs

/-- `Display`: bech32, or hex when the network has no hrp -/
def Addr.display (c : Bech32) (a : Addr) : List Char :=
  match a.toBech32 c with
  | .ok s => s
  | .error _ => a.toHex

/-- `FromStr`: bech32, then Byron base58 (parameter `byronB58`: does the string parse as a Byron
    address), then hex -/
def fromStr (c : Bech32) (byronB58 : List Char → Bool) (s : List Char) : Res :=
  match fromBech32 c s with
  | .ok a => .ok a
  | .byron => .byron
  | .err _ =>
    if byronB58 s then .byron
    else
      match fromHex s with
      | .ok a => .ok a
      | .byron => .byron
      | .err _ => .err .unknownFormat

end PallasVerif.Address
