import PallasVerif.Model.Blake2b
/-
  Model of `pallas-crypto/src/hash/{hasher,hash}.rs` and `pallas-crypto/src/nonce/mod.rs`.

  * `Hasher<BITS>` = the cryptoxide context of `Model/Blake2b.lean` created with `BITS / 8`;
    `input` = `update`; `finalize` = `finalize`.
  * `hash`, `hash_tagged`, `hash_cbor`, `hash_tagged_cbor` are transcribed as the sequences of
    `input` calls they perform. `minicbor::encode(data, &mut hasher)` reaches the hasher only
    through `impl Write for &mut Hasher` (`write_all(buf) = input(buf)`), so an encoding run is a
    list of writes; `cborWrites` produces the writes of a flat token sequence the harness replays
    through the real `minicbor::Encoder`.
  * `Hash<BYTES>`: `Display`/`FromStr` (crate `hex` 0.4.3 `encode` / `decode_to_slice`), CBOR
    `Encode` (`e.bytes`) and the non-relaxed `Decode` (`d.bytes()` of minicbor 0.26.5 + length test),
    `From<&[u8]>` (`copy_from_slice`, panics on a length mismatch).
  * `generate_epoch_nonce`, `generate_rolling_nonce`.
-/
namespace PallasVerif.Hash
open PallasVerif.Blake2b

/-! ## Hasher -/

/-- `Hasher::<BITS>::new()` = `Blake2b::new(BITS / 8)` -/
def hasherNew (bits : Nat) : Ctx := init (bits / 8)

/-- `Hasher::hash` -/
def hash (bits : Nat) (bytes : Bytes) : Bytes := finalize (update (hasherNew bits) bytes)

/-- `Hasher::hash_tagged`: `input(&[tag]); input(bytes)` -/
def hashTagged (bits : Nat) (bytes : Bytes) (tag : UInt8) : Bytes :=
  finalize (update (update (hasherNew bits) [tag]) bytes)

/-- `Hasher::hash_cbor`: every `write_all` of the encoder is one `input` -/
def hashCbor (bits : Nat) (writes : List Bytes) : Bytes :=
  finalize (writes.foldl update (hasherNew bits))

/-- `Hasher::hash_tagged_cbor` -/
def hashTaggedCbor (bits : Nat) (writes : List Bytes) (tag : UInt8) : Bytes :=
  finalize (writes.foldl update (update (hasherNew bits) [tag]))

/-! ## CBOR heads as the minicbor encoder writes them -/

def beBytes (width : Nat) (n : Nat) : Bytes :=
  (List.range width).map (fun i => UInt8.ofNat (n / 256 ^ (width - 1 - i) % 256))

/-- minimal-width head of major type `mt` with argument `n < 2^64` -/
def head (mt : Nat) (n : Nat) : Bytes :=
  if n < 24 then [UInt8.ofNat (mt * 32 + n)]
  else if n < 256 then UInt8.ofNat (mt * 32 + 24) :: beBytes 1 n
  else if n < 65536 then UInt8.ofNat (mt * 32 + 25) :: beBytes 2 n
  else if n < 4294967296 then UInt8.ofNat (mt * 32 + 26) :: beBytes 4 n
  else UInt8.ofNat (mt * 32 + 27) :: beBytes 8 n

/-- one encoder call -/
inductive Tok where
  | uint (n : Nat)            -- e.u64(n)
  | nint (n : Nat)            -- e.i64(-1 - n)
  | bytes (b : Bytes)         -- e.bytes(b)
  | text (b : Bytes)          -- e.str(s), `b` = UTF-8 of `s`
  | array (n : Nat)           -- e.array(n)
  | map (n : Nat)             -- e.map(n)
  | tag (n : Nat)             -- e.tag(Tag::new(n))
  | bool (b : Bool)
  | null
  | beginArray | beginMap | beginBytes | brk
  | hash (h : Bytes)          -- `Hash<N>::encode` = e.bytes(&self.0)

/-- the `write_all` calls one token causes (head and payload are separate writes) -/
def tokWrites : Tok → List Bytes
  | .uint n => [head 0 n]
  | .nint n => [head 1 n]
  | .bytes b => [head 2 b.length, b]
  | .text b => [head 3 b.length, b]
  | .array n => [head 4 n]
  | .map n => [head 5 n]
  | .tag n => [head 6 n]
  | .bool b => [[if b then 0xf5 else 0xf4]]
  | .null => [[0xf6]]
  | .beginArray => [[0x9f]]
  | .beginMap => [[0xbf]]
  | .beginBytes => [[0x5f]]
  | .brk => [[0xff]]
  | .hash h => [head 2 h.length, h]

def cborWrites (toks : List Tok) : List Bytes := toks.flatMap tokWrites

/-- the CBOR bytes of the token sequence -/
def cborBytes (toks : List Tok) : Bytes := (cborWrites toks).flatten

/-! ## `Hash<BYTES>` codecs -/

def hexDigitByte (n : Nat) : UInt8 := if n < 10 then UInt8.ofNat (48 + n) else UInt8.ofNat (87 + n)

/-- `Display` = `hex::encode` (lower case), as ASCII bytes -/
def hashToHex (h : Bytes) : Bytes :=
  h.flatMap fun b => [hexDigitByte (b.toNat / 16), hexDigitByte (b.toNat % 16)]

inductive HexErr where
  | odd | length | char
  deriving DecidableEq, Repr

/-- `hex::val` -/
def hexVal (c : UInt8) : Option Nat :=
  if 65 ≤ c.toNat ∧ c.toNat ≤ 70 then some (c.toNat - 65 + 10)
  else if 97 ≤ c.toNat ∧ c.toNat ≤ 102 then some (c.toNat - 97 + 10)
  else if 48 ≤ c.toNat ∧ c.toNat ≤ 57 then some (c.toNat - 48)
  else none

def hexPairs : Bytes → Except HexErr Bytes
  | a :: b :: rest =>
    match hexVal a, hexVal b with
    | some x, some y =>
      match hexPairs rest with
      | .ok r => .ok (UInt8.ofNat (x * 16 + y) :: r)
      | .error e => .error e
    | _, _ => .error .char
  | _ => .ok []

/-- `FromStr for Hash<BYTES>` = `hex::decode_to_slice(s, &mut [0; BYTES])` on the UTF-8 bytes of `s` -/
def hashFromStr (n : Nat) (s : Bytes) : Except HexErr Bytes :=
  if s.length % 2 ≠ 0 then .error .odd
  else if s.length / 2 ≠ n then .error .length
  else hexPairs s

inductive CborErr where
  | eoi | type | msg
  deriving DecidableEq, Repr

/-- `Encode for Hash<BYTES>`: `e.bytes(&self.0)` -/
def hashEncode (h : Bytes) : Bytes := head 2 h.length ++ h

def beNat (bs : Bytes) : Nat := bs.foldl (fun acc b => acc * 256 + b.toNat) 0

/-- minicbor 0.26.5 `Decoder::bytes()` at position 0: returns the slice (rest ignored) -/
def cborBytesDecode (inp : Bytes) : Except CborErr Bytes :=
  match inp with
  | [] => .error .eoi
  | b :: rest =>
    let major := b.toNat / 32
    let info := b.toNat % 32
    if major ≠ 2 ∨ info = 31 then
      -- `Error::type_mismatch(self.type_of(b)?)`: for 0x38..0x3b `type_of` peeks at `buf[pos + 1]`
      -- (pos already past the head byte) and fails with end-of-input if it is absent
      if 0x38 ≤ b.toNat ∧ b.toNat ≤ 0x3b ∧ rest.length < 2 then .error .eoi else .error .type
    else
      let arg : Except CborErr (Nat × Bytes) :=
        if info < 24 then .ok (info, rest)
        else if info = 24 then (if rest.length < 1 then .error .eoi else .ok (beNat (rest.take 1), rest.drop 1))
        else if info = 25 then (if rest.length < 2 then .error .eoi else .ok (beNat (rest.take 2), rest.drop 2))
        else if info = 26 then (if rest.length < 4 then .error .eoi else .ok (beNat (rest.take 4), rest.drop 4))
        else if info = 27 then (if rest.length < 8 then .error .eoi else .ok (beNat (rest.take 8), rest.drop 8))
        else .error .type
      match arg with
      | .error e => .error e
      | .ok (n, rest) => if rest.length < n then .error .eoi else .ok (rest.take n)

/-- `Decode for Hash<BYTES>` (feature `relaxed` off) -/
def hashDecode (n : Nat) (inp : Bytes) : Except CborErr Bytes :=
  match cborBytesDecode inp with
  | .error e => .error e
  | .ok bs => if bs.length = n then .ok bs else .error .msg

/-- `Serialize for Hash<BYTES>` through a JSON serializer: the `Display` string as a JSON string -/
def hashToJson (h : Bytes) : Bytes := [0x22] ++ hashToHex h ++ [0x22]

/-- `Deserialize for Hash<BYTES>` from JSON text, for texts whose string body needs no JSON
    unescaping (no `"`, no `\\`, no control character): a JSON string is handed to `FromStr`, anything
    else is an error (`none`; serde error details are not modelled) -/
def hashOfJson (n : Nat) (j : Bytes) : Option Bytes :=
  match j with
  | 0x22 :: rest =>
    if rest.getLast? = some 0x22 then
      let body := rest.dropLast
      if body.all (fun c => c ≠ 0x22 ∧ c ≠ 0x5c ∧ c.toNat ≥ 0x20) then
        (match hashFromStr n body with | .ok h => some h | .error _ => none)
      else none
    else none
  | _ => none

/-- `From<&[u8]> for Hash<BYTES>`: `copy_from_slice` panics unless the lengths agree -/
def hashFromSlice (n : Nat) (bs : Bytes) : Option Bytes := if bs.length = n then some bs else none

/-! ## Nonces -/

/-- `generate_epoch_nonce(nc, nh, extra_entropy)` -/
def epochNonce (nc nh : Bytes) (extra : Option Bytes) : Bytes :=
  let epochNonce := finalize (update (update (hasherNew 256) nc) nh)
  match extra with
  | some e => finalize (update (update (hasherNew 256) epochNonce) e)
  | none => epochNonce

/-- `generate_rolling_nonce(previous_block_eta_v, block_eta_vrf_0)`; `none` = the `assert!` fires -/
def rollingNonce (prev : Bytes) (vrf : Bytes) : Option Bytes :=
  if vrf.length = 32 ∨ vrf.length = 64 then
    some (finalize (update (update (hasherNew 256) prev) (hash 256 vrf)))
  else none

end PallasVerif.Hash
