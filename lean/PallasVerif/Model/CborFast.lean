import PallasVerif.Model.Cbor
/-
  Compiler-only speed-up of the strict CBOR parser of `Model/Cbor.lean`: the reference functions
  test `rest.length < n` (linear in the *remaining input* for every head, hence quadratic on an
  80 kB block); the copies below test it with `lenLt` (linear in `n`). Each copy is PROVED equal to
  the reference function and registered with `@[csimp]`, so compiled code (the driver) runs the
  fast copy while every definition and theorem keeps talking about the reference parser.
  Import-free (Model only).
-/
namespace PallasVerif.Cbor

/-- `l.length < n` without walking all of `l` -/
def lenLt {α} : List α → Nat → Bool
  | _, 0 => false
  | [], _ + 1 => true
  | _ :: xs, n + 1 => lenLt xs n

theorem lenLt_eq {α} (l : List α) (n : Nat) : lenLt l n = decide (l.length < n) := by
  induction l generalizing n with
  | nil => cases n <;> simp [lenLt]
  | cons x xs ih => cases n <;> simp [lenLt, ih]

def decodeHeadF : Bytes → Option (Head × Bytes)
  | [] => none
  | b :: rest =>
    match argLen (b.toNat % 32) with
    | none => none
    | some n =>
      if lenLt rest n then none
      else some (⟨b.toNat / 32, b.toNat % 32, rest.take n⟩, rest.drop n)

@[csimp] theorem decodeHead_eq_fast : @decodeHead = @decodeHeadF := by
  funext bs
  cases bs with
  | nil => rfl
  | cons b rest =>
    simp only [decodeHead, decodeHeadF, lenLt_eq, decide_eq_true_eq]
    rfl

def parseChunksF : Nat → Nat → Bytes → Option (List (Head × Bytes) × Bytes)
  | 0, _, _ => none
  | _ + 1, _, [] => none
  | fuel + 1, m, b :: rest =>
    if b = 0xff then some ([], rest)
    else
      match decodeHeadF (b :: rest) with
      | none => none
      | some (h, r) =>
        if h.major ≠ m ∨ h.ai = 31 ∨ lenLt r h.val then none
        else
          match parseChunksF fuel m (r.drop h.val) with
          | none => none
          | some (cs, r') => some ((h, r.take h.val) :: cs, r')

theorem parseChunks_eq_fast' (fuel m : Nat) (bs : Bytes) : parseChunks fuel m bs = parseChunksF fuel m bs := by
  induction fuel generalizing bs with
  | zero => rfl
  | succ fuel ih =>
    cases bs with
    | nil => rfl
    | cons b rest =>
      simp only [parseChunks, parseChunksF, ← decodeHead_eq_fast, lenLt_eq, decide_eq_true_eq, ih]
      rfl

@[csimp] theorem parseChunks_eq_fast : @parseChunks = @parseChunksF := by
  funext fuel m bs; exact parseChunks_eq_fast' fuel m bs

mutual
def parseF : Nat → Bytes → Option (Item × Bytes)
  | 0, _ => none
  | fuel + 1, bs =>
    match decodeHeadF bs with
    | none => none
    | some (h, rest) =>
      if h.major = 0 ∨ h.major = 1 ∨ h.major = 7 then
        if h.ai = 31 then none else some (.atom h, rest)
      else if h.major = 2 ∨ h.major = 3 then
        if h.ai = 31 then
          match parseChunksF fuel h.major rest with
          | none => none
          | some (cs, r) => some (.strIndef h.major cs, r)
        else if lenLt rest h.val then none
        else some (.str h (rest.take h.val), rest.drop h.val)
      else if h.major = 4 ∨ h.major = 5 then
        if h.ai = 31 then
          match parseBreakF fuel rest with
          | none => none
          | some (xs, r) =>
            if h.major = 5 ∧ xs.length % 2 ≠ 0 then none else some (.seqIndef h.major xs, r)
        else
          match parseNF fuel (seqCount h) rest with
          | none => none
          | some (xs, r) => some (.seq h xs, r)
      else
        if h.ai = 31 then none
        else
          match parseF fuel rest with
          | none => none
          | some (i, r) => some (.tag h i, r)
def parseNF : Nat → Nat → Bytes → Option (List Item × Bytes)
  | _, 0, bs => some ([], bs)
  | 0, _ + 1, _ => none
  | fuel + 1, n + 1, bs =>
    match parseF fuel bs with
    | none => none
    | some (x, r) =>
      match parseNF fuel n r with
      | none => none
      | some (xs, r') => some (x :: xs, r')
def parseBreakF : Nat → Bytes → Option (List Item × Bytes)
  | 0, _ => none
  | _ + 1, [] => none
  | fuel + 1, b :: rest =>
    if b = 0xff then some ([], rest)
    else
      match parseF fuel (b :: rest) with
      | none => none
      | some (x, r) =>
        match parseBreakF fuel r with
        | none => none
        | some (xs, r') => some (x :: xs, r')
end

theorem parse_eq_fast_all (fuel : Nat) :
    (∀ bs, parse fuel bs = parseF fuel bs) ∧ (∀ n bs, parseN fuel n bs = parseNF fuel n bs) ∧
    (∀ bs, parseBreak fuel bs = parseBreakF fuel bs) := by
  induction fuel with
  | zero =>
    refine ⟨fun bs => by simp [parse, parseF], fun n bs => ?_, fun bs => by simp [parseBreak, parseBreakF]⟩
    cases n <;> simp [parseN, parseNF]
  | succ fuel ih =>
    obtain ⟨ih1, ih2, ih3⟩ := ih
    refine ⟨fun bs => ?_, fun n bs => ?_, fun bs => ?_⟩
    · simp only [parse, parseF, ← decodeHead_eq_fast, ← parseChunks_eq_fast, lenLt_eq, decide_eq_true_eq, ih1, ih2, ih3]
      rfl
    · cases n with
      | zero => simp [parseN, parseNF]
      | succ n => simp only [parseN, parseNF, ih1, ih2]; rfl
    · cases bs with
      | nil => simp [parseBreak, parseBreakF]
      | cons b rest => simp only [parseBreak, parseBreakF, ih1, ih3]; rfl

@[csimp] theorem parse_eq_fast : @parse = @parseF := by
  funext fuel bs; exact (parse_eq_fast_all fuel).1 bs

@[csimp] theorem parseN_eq_fast : @parseN = @parseNF := by
  funext fuel n bs; exact (parse_eq_fast_all fuel).2.1 n bs

@[csimp] theorem parseBreak_eq_fast : @parseBreak = @parseBreakF := by
  funext fuel bs; exact (parse_eq_fast_all fuel).2.2 bs

def parseItemF (bs : Bytes) : Option (Item × Bytes) := parseF (fuelFor bs) bs

@[csimp] theorem parseItem_eq_fast : @parseItem = @parseItemF := by
  funext bs; simp only [parseItem, parseItemF, parse_eq_fast]

def firstSpanF (bs : Bytes) : Option Bytes :=
  match parseItemF bs with
  | some (_, r) => some (bs.take (bs.length - r.length))
  | none => none

@[csimp] theorem firstSpan_eq_fast : @firstSpan = @firstSpanF := by
  funext bs; simp only [firstSpan, firstSpanF, parseItem_eq_fast]; rfl

end PallasVerif.Cbor
