/-
  C31 — UTxO effects of a transaction (pallas-traverse/src/tx.rs:
  `MultiEraTx::{consumes, produces, produces_at, inputs_sorted_set}`,
  input.rs: `MultiEraInput::{output_ref, lexicographical_key}`).

  The transaction is the abstract record the four functions look at through the accessors
  `is_valid()`, `inputs()`, `outputs()`, `collateral()`, `collateral_return()`. An input *is* its
  `(Hash<32>, u64)` pair (both `alonzo::TransactionInput` and Byron `TxIn::Variant0` carry nothing
  else), so `output_ref()` and `lexicographical_key()` are the identity on the model's `TxIn`.
  Import-free.
-/
namespace PallasVerif.Utxo

/-- `derive(Ord)` on `Hash<32>([u8; 32])`: lexicographic comparison of the bytes
    (shorter prefix first — lengths are equal in the code, the model is total) -/
def bytesLt : List UInt8 → List UInt8 → Bool
  | [], [] => false
  | [], _ :: _ => true
  | _ :: _, [] => false
  | a :: as, b :: bs => decide (a.toNat < b.toNat) || (decide (a.toNat = b.toNat) && bytesLt as bs)

structure TxIn where
  hash : List UInt8
  index : Nat
  deriving DecidableEq, Repr, Inhabited

/-- `Ord` on the tuple `(Hash<32>, u64)` returned by `lexicographical_key` -/
def keyLt (a b : TxIn) : Bool :=
  bytesLt a.hash b.hash || (decide (a.hash = b.hash) && decide (a.index < b.index))

def keyLe (a b : TxIn) : Bool := !keyLt b a

structure Tx (O : Type) where
  valid : Bool
  inputs : List TxIn
  outputs : List O
  collateral : List TxIn
  collateralReturn : Option O

/-- `consumed.into_iter().filter(|i| unique_consumed.insert(i.output_ref())).collect()`:
    `seen` is the `HashSet`; `insert` answers "was not present" and adds the element -/
def filterInsert (seen : List TxIn) : List TxIn → List TxIn
  | [] => []
  | x :: xs => if x ∈ seen then filterInsert seen xs else x :: filterInsert (x :: seen) xs

def consumes {O} (tx : Tx O) : List TxIn :=
  filterInsert [] (match tx.valid with | true => tx.inputs | false => tx.collateral)

/-- `iter.enumerate()` -/
def enumerateFrom {α} (n : Nat) : List α → List (Nat × α)
  | [] => []
  | x :: xs => (n, x) :: enumerateFrom (n + 1) xs

def produces {O} (tx : Tx O) : List (Nat × O) :=
  match tx.valid with
  | true => enumerateFrom 0 tx.outputs
  | false => tx.collateralReturn.toList.map fun txo => (tx.outputs.length, txo)

def producesAt {O} (tx : Tx O) (index : Nat) : Option O :=
  match tx.valid with
  | true => tx.outputs[index]?
  | false => if index = tx.outputs.length then tx.collateralReturn else none

/-- one step of a stable insertion sort, scanning from the left: `x` (which preceded the
    already sorted elements in the input) goes in front of the first element that is not smaller -/
def insertKey (x : TxIn) : List TxIn → List TxIn
  | [] => [x]
  | y :: ys => if keyLe x y then x :: y :: ys else y :: insertKey x ys

/-- `raw.sort_by_key(|x| x.lexicographical_key())` — a stable sort; the result of a stable sort
    is unique, so the algorithm (std's driftsort) is modelled by stable insertion sort -/
def sortByKey (l : List TxIn) : List TxIn := l.foldr insertKey []

/-- `raw.dedup_by_key(|x| x.lexicographical_key())`: every element is compared with the last
    *retained* element (`prev`) and dropped when the keys are equal -/
def dedupAux (prev : TxIn) : List TxIn → List TxIn
  | [] => []
  | y :: rest => if prev = y then dedupAux prev rest else y :: dedupAux y rest

def dedupByKey : List TxIn → List TxIn
  | [] => []
  | x :: xs => x :: dedupAux x xs

def inputsSortedSet {O} (tx : Tx O) : List TxIn := dedupByKey (sortByKey tx.inputs)

end PallasVerif.Utxo
