import PallasVerif.Model.Cbor
/-
  L1(c) — model of the minicbor 0.26.5 `Decoder` primitives and `Encoder` calls that pallas uses
  (`~/.cargo/registry/src/*/minicbor-0.26.5/src/decode/decoder.rs`, `decode.rs`, `encode/encoder.rs`),
  transcribed method by method.

  Representation. A `Decoder { buf, pos }` is represented by the suffix `buf[pos..]` (`cur`); a
  primitive is a function `Bytes → Res α` returning the value and the new suffix. `position()` is
  `buf.length - cur.length` (`posOf`), `input()[start..end]` of a run from `cur` to `rest` is
  `cur.take (cur.length - rest.length)` (`span`). Nothing pallas calls looks *behind* `pos`; a
  `probe()` / saved position is a kept copy of the old suffix. A decoder whose call returned an
  error is never used again by pallas, so the position after an error is not modelled.

  Quirks of 0.26.5 that are mirrored (each read in the source):
  * `type_of(b)` peeks `buf[pos+1]` for `0x38..0x3b`; in `datatype()` `pos` is at `b`, in the error
    path of every other primitive `pos` is already *past* `b`, so the peek looks two bytes ahead and
    turns a type mismatch into end-of-input when that byte is missing (`errTypeOf`);
  * `u8/u16/u32` accept any wider head whose value fits (`overflow` otherwise), `u64` accepts all;
    `i8..i64` the same with the sign bit; `int` is the 65-bit CBOR integer;
  * `bytes()/str()` reject the indefinite forms (type mismatch), `bytes_iter/str_iter` accept both;
    every text chunk is UTF-8 validated (`utf8Valid` = `core::str::from_utf8`);
  * `array()/map()` return `none` for the indefinite head; `tag()` has no indefinite form;
  * tuples need a *definite* array head of exactly their arity (`msg` otherwise);
  * `Option<T>` maps only `0xf6` to `None` (through `skip()`), `0xf7` goes to `T`;
  * `skip()` is the counting / stack algorithm (`nrounds`, `irounds`, `stack`, saturating `u64`),
    not a validator.
  Import-free apart from `Model/Cbor` (for `Bytes`, `ofBe`, `minHead`).
-/
namespace PallasVerif.Minicbor
open PallasVerif.Cbor

/-- classes of `minicbor::decode::Error` (`ErrorImpl`); `diverge` = the model ran out of fuel
    (unreachable: every loop iteration consumes a byte; shown in `Proofs/Minicbor.lean` where used) -/
inductive Err where
  | eoi | typ | overflow | msg | utf8 | tagMismatch | variant | missing | diverge
  deriving DecidableEq, Repr, Inhabited

def Err.show : Err → String
  | .eoi => "eoi" | .typ => "type" | .overflow => "overflow" | .msg => "msg" | .utf8 => "utf8"
  | .tagMismatch => "tag" | .variant => "variant" | .missing => "missing" | .diverge => "diverge"

inductive Res (α : Type) where
  | ok (a : α) (rest : Bytes)
  | err (e : Err)
  deriving Repr, Inhabited, DecidableEq

/-- a decoder step: current suffix ↦ value and new suffix, or an error class -/
abbrev P (α : Type) := Bytes → Res α

def Res.andThen {α β : Type} (r : Res α) (f : α → Bytes → Res β) : Res β :=
  match r with
  | .ok a rest => f a rest
  | .err e => .err e

def Res.map {α β : Type} (f : α → β) (r : Res α) : Res β :=
  match r with
  | .ok a rest => .ok (f a) rest
  | .err e => .err e

/-- `Decoder::position()` of a decoder over `buf` whose suffix is `cur` -/
def posOf (buf cur : Bytes) : Nat := buf.length - cur.length

/-- `input()[start..end]` for a run that started at suffix `cur` and ended at suffix `rest` -/
def span (cur rest : Bytes) : Bytes := cur.take (cur.length - rest.length)

/-- `minicbor::data::Type` -/
inductive DType where
  | bool | null | undefined | u8 | u16 | u32 | u64 | i8 | i16 | i32 | i64 | int | f16 | f32 | f64
  | simple | bytes | bytesIndef | string | stringIndef | array | arrayIndef | map | mapIndef | tag | brk
  | unknown (n : Nat)
  deriving DecidableEq, Repr, Inhabited

def DType.show : DType → String
  | .bool => "bool" | .null => "null" | .undefined => "undefined" | .u8 => "u8" | .u16 => "u16"
  | .u32 => "u32" | .u64 => "u64" | .i8 => "i8" | .i16 => "i16" | .i32 => "i32" | .i64 => "i64"
  | .int => "int" | .f16 => "f16" | .f32 => "f32" | .f64 => "f64" | .simple => "simple"
  | .bytes => "bytes" | .bytesIndef => "bytes-indef" | .string => "string" | .stringIndef => "string-indef"
  | .array => "array" | .arrayIndef => "array-indef" | .map => "map" | .mapIndef => "map-indef"
  | .tag => "tag" | .brk => "break" | .unknown n => "unknown:" ++ toString n

/-- `Decoder::peek`: `buf.get(pos + 1)` -/
def peek : Bytes → Option UInt8
  | _ :: b :: _ => some b
  | _ => none

/-- the arms of `Decoder::type_of` that need no look-ahead (every initial byte except `0x38..=0x3b`) -/
def typeOfPlain (v : Nat) : DType :=
  if v ≤ 0x18 then .u8
  else if v = 0x19 then .u16
  else if v = 0x1a then .u32
  else if v = 0x1b then .u64
  else if 0x20 ≤ v ∧ v ≤ 0x37 then .i8
  else if 0x40 ≤ v ∧ v ≤ 0x5b then .bytes
  else if v = 0x5f then .bytesIndef
  else if 0x60 ≤ v ∧ v ≤ 0x7b then .string
  else if v = 0x7f then .stringIndef
  else if 0x80 ≤ v ∧ v ≤ 0x9b then .array
  else if v = 0x9f then .arrayIndef
  else if 0xa0 ≤ v ∧ v ≤ 0xbb then .map
  else if v = 0xbf then .mapIndef
  else if 0xc0 ≤ v ∧ v ≤ 0xdb then .tag
  else if (0xe0 ≤ v ∧ v ≤ 0xf3) ∨ v = 0xf8 then .simple
  else if v = 0xf4 ∨ v = 0xf5 then .bool
  else if v = 0xf6 then .null
  else if v = 0xf7 then .undefined
  else if v = 0xf9 then .f16
  else if v = 0xfa then .f32
  else if v = 0xfb then .f64
  else if v = 0xff then .brk
  else .unknown v

/-- the four arms `0x38 | 0x39 | 0x3a | 0x3b => if self.peek()? < 0x80 { lo } else { hi }` -/
def typeOfSigned (v : Nat) (small : Bool) : DType :=
  if v = 0x38 then (if small then .i8 else .i16)
  else if v = 0x39 then (if small then .i16 else .i32)
  else if v = 0x3a then (if small then .i32 else .i64)
  else (if small then .i64 else .int)

/-- `Decoder::type_of(n)` evaluated while the decoder's suffix is `cur` -/
def typeOf (cur : Bytes) (n : UInt8) : Except Err DType :=
  let v := n.toNat
  if 0x38 ≤ v ∧ v ≤ 0x3b then
    match peek cur with
    | none => .error .eoi
    | some p => .ok (typeOfSigned v (decide (p.toNat < 0x80)))
  else .ok (typeOfPlain v)

/-- `Err(Error::type_mismatch(self.type_of(b)?))` with the decoder at suffix `cur` -/
def errTypeOf (cur : Bytes) (b : UInt8) : Err :=
  match typeOf cur b with
  | .error e => e
  | .ok _ => .typ

/-- `Decoder::datatype()`: `self.type_of(self.current()?)` -/
def datatype (cur : Bytes) : Except Err DType :=
  match cur with
  | [] => .error .eoi
  | b :: _ => typeOf cur b

/-- `read_slice(n)` -/
def readSlice (n : Nat) : P Bytes := fun cur =>
  if n ≤ cur.length then .ok (cur.take n) (cur.drop n) else .err .eoi

/-- `read_array::<W>().map(uW::from_be_bytes)` -/
def readBe (w : Nat) : P Nat := fun cur =>
  if w ≤ cur.length then .ok (ofBe (cur.take w)) (cur.drop w) else .err .eoi

/-- `Decoder::unsigned(b, p)` for `b < 0x20` (an additional-information value) -/
def unsigned (ai : Nat) : P Nat := fun cur =>
  if ai < 24 then .ok ai cur
  else if ai = 24 then readBe 1 cur
  else if ai = 25 then readBe 2 cur
  else if ai = 26 then readBe 4 cur
  else if ai = 27 then readBe 8 cur
  else .err .typ

def major (b : UInt8) : Nat := b.toNat / 32
def info (b : UInt8) : Nat := b.toNat % 32

/-- `u8()/u16()/u32()/u64()` with `bits` = 8/16/32/64 -/
def uintN (bits : Nat) : P Nat := fun cur =>
  match cur with
  | [] => .err .eoi
  | b :: r =>
    if b.toNat ≤ 0x1b then
      (unsigned b.toNat r).andThen fun n r' => if n < 2 ^ bits then .ok n r' else .err .overflow
    else .err (errTypeOf r b)

def u8 : P Nat := uintN 8
def u16 : P Nat := uintN 16
def u32 : P Nat := uintN 32
def u64 : P Nat := uintN 64

/-- `i8()/i16()/i32()/i64()` with `bits` = 8/16/32/64 -/
def sintN (bits : Nat) : P Int := fun cur =>
  match cur with
  | [] => .err .eoi
  | b :: r =>
    let v := b.toNat
    if v ≤ 0x1b then
      (unsigned v r).andThen fun n r' => if n < 2 ^ (bits - 1) then .ok (Int.ofNat n) r' else .err .overflow
    else if 0x20 ≤ v ∧ v ≤ 0x3b then
      (unsigned (v - 0x20) r).andThen fun n r' => if n < 2 ^ (bits - 1) then .ok (-1 - Int.ofNat n) r' else .err .overflow
    else .err (errTypeOf r b)

def i8 : P Int := sintN 8
def i16 : P Int := sintN 16
def i32 : P Int := sintN 32
def i64 : P Int := sintN 64

/-- `int()`: `minicbor::data::Int` as the integer it denotes (`-2^64 .. 2^64-1`) -/
def int : P Int := fun cur =>
  match cur with
  | [] => .err .eoi
  | b :: r =>
    let v := b.toNat
    if v ≤ 0x1b then (unsigned v r).map Int.ofNat
    else if 0x20 ≤ v ∧ v ≤ 0x3b then (unsigned (v - 0x20) r).map fun n => -1 - Int.ofNat n
    else .err (errTypeOf r b)

def bool : P Bool := fun cur =>
  match cur with
  | [] => .err .eoi
  | b :: r => if b = 0xf4 then .ok false r else if b = 0xf5 then .ok true r else .err (errTypeOf r b)

def null : P Unit := fun cur =>
  match cur with
  | [] => .err .eoi
  | b :: r => if b = 0xf6 then .ok () r else .err (errTypeOf r b)

def undefined : P Unit := fun cur =>
  match cur with
  | [] => .err .eoi
  | b :: r => if b = 0xf7 then .ok () r else .err (errTypeOf r b)

def simple : P Nat := fun cur =>
  match cur with
  | [] => .err .eoi
  | b :: r =>
    if 0xe0 ≤ b.toNat ∧ b.toNat ≤ 0xf3 then .ok (b.toNat - 0xe0) r
    else if b = 0xf8 then readBe 1 r
    else .err (errTypeOf r b)

/-- `core::str::from_utf8(..).is_ok()` (Unicode table 3-7: no overlongs, no surrogates, ≤ U+10FFFF) -/
def utf8Valid : Bytes → Bool
  | [] => true
  | b0 :: r =>
    let cont (b : UInt8) : Bool := decide (0x80 ≤ b.toNat ∧ b.toNat ≤ 0xbf)
    let v := b0.toNat
    if v < 0x80 then utf8Valid r
    else if 0xc2 ≤ v ∧ v ≤ 0xdf then
      match r with
      | b1 :: r' => cont b1 && utf8Valid r'
      | _ => false
    else if 0xe0 ≤ v ∧ v ≤ 0xef then
      match r with
      | b1 :: b2 :: r' =>
        (if v = 0xe0 then decide (0xa0 ≤ b1.toNat ∧ b1.toNat ≤ 0xbf)
         else if v = 0xed then decide (0x80 ≤ b1.toNat ∧ b1.toNat ≤ 0x9f)
         else cont b1) && cont b2 && utf8Valid r'
      | _ => false
    else if 0xf0 ≤ v ∧ v ≤ 0xf4 then
      match r with
      | b1 :: b2 :: b3 :: r' =>
        (if v = 0xf0 then decide (0x90 ≤ b1.toNat ∧ b1.toNat ≤ 0xbf)
         else if v = 0xf4 then decide (0x80 ≤ b1.toNat ∧ b1.toNat ≤ 0x8f)
         else cont b1) && cont b2 && cont b3 && utf8Valid r'
      | _ => false
    else false

/-- `bytes()` -/
def bytes : P Bytes := fun cur =>
  match cur with
  | [] => .err .eoi
  | b :: r =>
    if major b ≠ 2 ∨ info b = 31 then .err (errTypeOf r b)
    else (unsigned (info b) r).andThen fun n r' => readSlice n r'

/-- `str()` (the text is returned as its UTF-8 bytes) -/
def str : P Bytes := fun cur =>
  match cur with
  | [] => .err .eoi
  | b :: r =>
    if major b ≠ 3 ∨ info b = 31 then .err (errTypeOf r b)
    else (unsigned (info b) r).andThen fun n r' =>
      (readSlice n r').andThen fun d r'' => if utf8Valid d then .ok d r'' else .err .utf8

/-- the `State::Indef` loop of `BytesIter` / `StrIter`: definite chunks until the break byte -/
def chunkLoop (chunk : P Bytes) : Nat → P (List Bytes)
  | 0, _ => .err .diverge
  | _ + 1, [] => .err .eoi
  | fuel + 1, b :: r =>
    if b = 0xff then .ok [] r
    else (chunk (b :: r)).andThen fun c r' => (chunkLoop chunk fuel r').map (c :: ·)

/-- `bytes_iter()` fully drained: the list of chunks -/
def bytesIter : P (List Bytes) := fun cur =>
  match cur with
  | [] => .err .eoi
  | b :: r =>
    if major b ≠ 2 then .err (errTypeOf r b)
    else if info b = 31 then chunkLoop bytes (r.length + 1) r
    else (unsigned (info b) r).andThen fun n r' => (readSlice n r').map ([·])

/-- `str_iter()` fully drained -/
def strIter : P (List Bytes) := fun cur =>
  match cur with
  | [] => .err .eoi
  | b :: r =>
    if major b ≠ 3 then .err (errTypeOf r b)
    else if info b = 31 then chunkLoop str (r.length + 1) r
    else (unsigned (info b) r).andThen fun n r' =>
      (readSlice n r').andThen fun d r'' => if utf8Valid d then .ok [d] r'' else .err .utf8

/-- `array()` / `map()` with `m` = 4 / 5: `some len` or `none` for the indefinite head -/
def seqHead (m : Nat) : P (Option Nat) := fun cur =>
  match cur with
  | [] => .err .eoi
  | b :: r =>
    if major b ≠ m then .err (errTypeOf r b)
    else if info b = 31 then .ok none r
    else (unsigned (info b) r).map some

def array : P (Option Nat) := seqHead 4
def map : P (Option Nat) := seqHead 5

/-- `tag()` -/
def tag : P Nat := fun cur =>
  match cur with
  | [] => .err .eoi
  | b :: r => if major b ≠ 6 then .err (errTypeOf r b) else unsigned (info b) r

/-! ### `skip()` (feature `alloc`) -/

def u64Max : Nat := 2 ^ 64 - 1
def satAdd (a b : Nat) : Nat := if a + b ≤ u64Max then a + b else u64Max
def satMul (a b : Nat) : Nat := if a * b ≤ u64Max then a * b else u64Max

structure SkipSt where
  nrounds : Nat
  irounds : Nat
  /-- `Vec<Option<u64>>`, last element first -/
  stack : List (Option Nat)
  deriving Repr, Inhabited, DecidableEq

/-- `while let Some(Some(0)) = stack.last() { stack.pop(); }` -/
def popZeros : List (Option Nat) → List (Option Nat)
  | some 0 :: s => popZeros s
  | s => s

/-- the `None =>` arm shared by `array()` and `map()` inside `skip` -/
def skipIndef (st : SkipSt) : SkipSt :=
  if st.nrounds = 0 ∧ st.irounds = 0 then { st with stack := none :: st.stack }
  else if st.nrounds < 2 then { st with irounds := satAdd st.irounds 1 }
  else
    { nrounds := 0, irounds := 0,
      stack := none :: some (st.nrounds - 1) :: (List.replicate st.irounds none ++ st.stack) }

/-- the `Some(n) =>` arm (with `n` already doubled for maps) -/
def skipDef (st : SkipSt) (n : Nat) : SkipSt :=
  if n = 0 then st
  else if st.nrounds = 0 ∧ st.irounds = 0 then { st with stack := some n :: st.stack }
  else { st with nrounds := satAdd st.nrounds n }

/-- the code after the `match` in the loop body: `none` = `break` -/
def skipAfter (st : SkipSt) : Option SkipSt :=
  if st.nrounds = 0 ∧ st.irounds = 0 then
    match popZeros st.stack with
    | some n :: s => some { st with stack := some (n - 1) :: s }
    | none :: s => some { st with stack := none :: s }
    | [] => none
  else some { st with nrounds := st.nrounds - 1 }

/-- the `match self.current()?` of one loop iteration (the decoder is at a byte `b`): the new
    counters and whether the bookkeeping after the match runs (`false` = the `continue` of a tag head) -/
def skipArm (st : SkipSt) : P (SkipSt × Bool) := fun cur =>
  match cur with
  | [] => .err .eoi
  | b :: r =>
    let v := b.toNat
    if v ≤ 0x1b then (u64 cur).map fun _ => (st, true)
    else if 0x20 ≤ v ∧ v ≤ 0x3b then (int cur).map fun _ => (st, true)
    else if 0x40 ≤ v ∧ v ≤ 0x5f then (bytesIter cur).map fun _ => (st, true)
    else if 0x60 ≤ v ∧ v ≤ 0x7f then (strIter cur).map fun _ => (st, true)
    else if 0x80 ≤ v ∧ v ≤ 0x9f then
      (array cur).map fun l =>
        match l with
        | some n => (skipDef st n, true)
        | none => (skipIndef st, true)
    else if 0xa0 ≤ v ∧ v ≤ 0xbf then
      (map cur).map fun l =>
        match l with
        | some n => (skipDef st (satMul n 2), true)
        | none => (skipIndef st, true)
    else if 0xc0 ≤ v ∧ v ≤ 0xdb then (unsigned (info b) r).map fun _ => (st, false)
    else if 0xe0 ≤ v ∧ v ≤ 0xfb then (unsigned (info b) r).map fun _ => (st, true)
    else if v = 0xff then
      if st.nrounds = 0 ∧ st.irounds = 0 then
        match st.stack with
        | none :: s => .ok ({ st with stack := s }, true) r
        | _ => .ok (st, true) r
      else .ok ({ st with irounds := st.irounds - 1 }, true) r
    else .err .typ

/-- the `while nrounds > 0 || irounds > 0 || !stack.is_empty()` loop -/
def skipLoop : Nat → SkipSt → P Unit
  | 0, _, _ => .err .diverge
  | fuel + 1, st, cur =>
    if st.nrounds = 0 ∧ st.irounds = 0 ∧ st.stack = [] then .ok () cur
    else
      (skipArm st cur).andThen fun (st', post) c =>
        if post then
          match skipAfter st' with
          | none => .ok () c
          | some st'' => skipLoop fuel st'' c
        else skipLoop fuel st' c

/-- `Decoder::skip()` -/
def skip : P Unit := fun cur => skipLoop (cur.length + 1) ⟨1, 0, []⟩ cur

/-! ### `Decode` impls of minicbor that pallas' wrappers instantiate -/

/-- `State::Def(n)` iteration of `ArrayIterWithCtx` collected into a `Vec` -/
def repeatN {α : Type} (elem : P α) : Nat → P (List α)
  | 0, cur => .ok [] cur
  | n + 1, cur => (elem cur).andThen fun a r => (repeatN elem n r).map (a :: ·)

/-- `State::Indef` iteration: until the break byte -/
def untilBreak {α : Type} (elem : P α) : Nat → P (List α)
  | 0, _ => .err .diverge
  | _ + 1, [] => .err .eoi
  | fuel + 1, b :: r =>
    if b = 0xff then .ok [] r
    else (elem (b :: r)).andThen fun a r' => (untilBreak elem fuel r').map (a :: ·)

/-- what an `ArrayIterWithCtx` / `MapIterWithCtx` yields when collected, given the head's length -/
def iterCollect {α : Type} (elem : P α) (len : Option Nat) : P (List α) := fun cur =>
  match len with
  | some n => repeatN elem n cur
  | none => untilBreak elem (cur.length + 1) cur

/-- `impl Decode for Vec<T>`: `array_iter_with` collected -/
def vec {α : Type} (elem : P α) : P (List α) := fun cur =>
  (array cur).andThen fun len r => iterCollect elem len r

/-- `MapIterWithCtx::next`'s `pair` -/
def pairOf {α β : Type} (k : P α) (v : P β) : P (α × β) := fun cur =>
  (k cur).andThen fun a r => (v r).map fun b => (a, b)

/-- `map_iter_with` collected -/
def mapIter {α β : Type} (k : P α) (v : P β) : P (List (α × β)) := fun cur =>
  (map cur).andThen fun len r => iterCollect (pairOf k v) len r

/-- `impl Decode for Option<T>` -/
def option {α : Type} (elem : P α) : P (Option α) := fun cur =>
  match datatype cur with
  | .error e => .err e
  | .ok t =>
    if t = .null then (skip cur).map fun _ => none
    else (elem cur).map some

/-- `impl Decode for (A, B)` -/
def tuple2 {α β : Type} (a : P α) (b : P β) : P (α × β) := fun cur =>
  (array cur).andThen fun n r =>
    if n ≠ some 2 then .err .msg
    else (a r).andThen fun x r' => (b r').map fun y => (x, y)

/-- `impl Decode for (A, B, C)` -/
def tuple3 {α β γ : Type} (a : P α) (b : P β) (c : P γ) : P (α × β × γ) := fun cur =>
  (array cur).andThen fun n r =>
    if n ≠ some 3 then .err .msg
    else (a r).andThen fun x r' => (b r').andThen fun y r'' => (c r'').map fun z => (x, y, z)

/-- `minicbor::decode(bytes)`: a fresh decoder, trailing bytes ignored -/
def decodeTop {α : Type} (p : P α) (bs : Bytes) : Except Err α :=
  match p bs with
  | .ok a _ => .ok a
  | .err e => .error e

/-! ### `Encoder` -/

/-- `Encoder::type_len(t, x)`; also `u8/u16/u32/u64` (major 0), `array`, `map`, `tag`, `bytes_len` -/
def encHead (m n : Nat) : Bytes := (minHead m n).encode

def encUInt (n : Nat) : Bytes := encHead 0 n
/-- `Encoder::int` / `i8..i64` -/
def encInt (i : Int) : Bytes := if 0 ≤ i then encHead 0 i.toNat else encHead 1 (-1 - i).toNat
def encBytes (bs : Bytes) : Bytes := encHead 2 bs.length ++ bs
def encStr (bs : Bytes) : Bytes := encHead 3 bs.length ++ bs
def encArrayHead (n : Nat) : Bytes := encHead 4 n
def encMapHead (n : Nat) : Bytes := encHead 5 n
def encTag (t : Nat) : Bytes := encHead 6 t
def encNull : Bytes := [0xf6]
def encUndefined : Bytes := [0xf7]
def encBool (b : Bool) : Bytes := [if b then 0xf5 else 0xf4]
def encBeginArray : Bytes := [0x9f]
def encBeginMap : Bytes := [0xbf]
def encEnd : Bytes := [0xff]

def concatMap {α : Type} (f : α → Bytes) : List α → Bytes
  | [] => []
  | x :: xs => f x ++ concatMap f xs

/-- `impl Encode for Vec<T>` / `[T]`: `array(len)` then the elements -/
def encVec {α : Type} (enc : α → Bytes) (xs : List α) : Bytes := encArrayHead xs.length ++ concatMap enc xs
/-- `impl Encode for Option<T>` -/
def encOption {α : Type} (enc : α → Bytes) : Option α → Bytes
  | none => encNull
  | some a => enc a
def encTuple2 {α β : Type} (ea : α → Bytes) (eb : β → Bytes) (p : α × β) : Bytes :=
  encArrayHead 2 ++ ea p.1 ++ eb p.2

end PallasVerif.Minicbor
