/-
  Model of the value arithmetic and the preservation-of-value rule of phase-1 validation:
  `pallas-validate/src/utils.rs` (`add_values`, `add_minted_value`, `coerce_to_i64`, `coerce_to_coin`,
  `add_multiasset_values`, `add_same_policy_assets`, `values_are_equal`, `multi_asset_included` and their
  `conway_*` counterparts, `conway_add_minted_non_zero`, `conway_add_multiasset_non_negative_values`,
  `conway_add_same_non_zero_policy_assets`), `check_preservation_of_value` / `get_consumed` / `get_produced` of
  `shelley_ma.rs`, `alonzo.rs`, `babbage.rs`, `conway.rs` and Byron `check_fees`, as the code stands after the
  `fix:` commit recorded in `known_findings.d/C34.json`.

  `BTreeMap` / `HashMap` are association lists (`AMap`), iterated in list order; `HashMap` entry updates are
  `upsert`. Every quantity is an `Int`; the machine types show up as explicit range checks whose failure is
  `err` (the `NegativeValue`-class error the caller passes down). After the C33 `fix:` commits no arithmetic of
  these functions can panic any more; `R.panic` / `Res.panic` stay as constructors and `Props/C33.lean` proves them
  unreachable.
  Transactions have no certificates, withdrawals, treasury or donation (the Shelley-MA deposit / refund terms are
  the `Coin(0)` additions the code still performs). UTxO look-ups succeed (the stream only builds such cases).
-/
namespace PallasVerif.Value

def U64_MAX : Int := 18446744073709551615
def I64_MAX : Int := 9223372036854775807
def I64_MIN : Int := -9223372036854775808

abbrev AMap (β : Type) := List (String × β)
/-- `Multiasset<A> = BTreeMap<PolicyId, BTreeMap<AssetName, A>>` -/
abbrev MA := AMap (AMap Int)

inductive R (α : Type) where
  | ok (a : α)
  | err
  | panic
  deriving Repr, DecidableEq

def R.bind {α β : Type} (r : R α) (f : α → R β) : R β :=
  match r with
  | .ok a => f a
  | .err => .err
  | .panic => .panic

def R.map {α β : Type} (f : α → β) (r : R α) : R β := r.bind (fun a => .ok (f a))

/-- `Value::Coin(c) | Value::Multiasset(c, ma)` (Alonzo and Conway flavours alike) -/
inductive Value where
  | coin (c : Int)
  | multi (c : Int) (ma : MA)
  deriving Repr, DecidableEq

/-- first match, as `find_policy` / `find_assets` / `HashMap::get` -/
def AMap.get {β : Type} : AMap β → String → Option β
  | [], _ => none
  | (k', v) :: rest, k => if k' = k then some v else AMap.get rest k

/-- `match res.get(k) { Some(old) => res.insert(k, f(Some(old))), None => res.insert(k, f(None)) }` -/
def upsert {β : Type} (m : AMap β) (k : String) (f : Option β → R β) : R (AMap β) :=
  match m with
  | [] => (f none).map (fun v => [(k, v)])
  | (k', v) :: rest =>
    if k' = k then (f (some v)).map (fun v' => (k', v') :: rest)
    else (upsert rest k f).map (fun r => (k', v) :: r)

/-- the inner loop of `*_add_same_*policy_assets`: `for (name, new) in new_assets { match res.get(name) { Some(old) => add old new, None => fresh new } }` -/
def addAssets (add : Int → Int → R Int) (fresh : Int → R Int) (old : AMap Int) : AMap Int → R (AMap Int)
  | [] => .ok old
  | (n, a) :: rest =>
    (upsert old n (fun o => match o with | some x => add x a | none => fresh a)).bind
      (fun old' => addAssets add fresh old' rest)

/-- one `for (policy, new_assets) in x.iter()` loop over the result `HashMap` -/
def mergePolicies (add : Int → Int → R Int) (fresh : Int → R Int) (res : MA) : MA → R MA
  | [] => .ok res
  | (p, as) :: rest =>
    (upsert res p (fun o => addAssets add fresh (o.getD []) as)).bind
      (fun res' => mergePolicies add fresh res' rest)

/-- a validation pass over every quantity (the `coerce_*` functions), first failure wins -/
def checkAssets (chk : Int → R Unit) : AMap Int → R Unit
  | [] => .ok ()
  | (_, a) :: rest => (chk a).bind (fun _ => checkAssets chk rest)

def checkAll (chk : Int → R Unit) : MA → R Unit
  | [] => .ok ()
  | (_, as) :: rest => (checkAssets chk as).bind (fun _ => checkAll chk rest)

/-! ## Shelley-MA, Alonzo, Babbage (`u64` quantities, `i64` mint) -/

/-- `add_lovelace`: `checked_add(..).ok_or(err)` -/
def addLovelace (a b : Int) : R Int := if a + b > U64_MAX then .err else .ok (a + b)

/-- `coerce_to_i64` (fixed): `i64::try_from(amount).map_err(err)` -/
def coerceToI64 (m : MA) : R MA := (checkAll (fun a => if a > I64_MAX then .err else .ok ()) m).map (fun _ => m)

/-- `coerce_to_coin`: `u64::try_from(amount).map_err(err)` -/
def coerceToCoin (m : MA) : R MA := (checkAll (fun a => if a < 0 then .err else .ok ()) m).map (fun _ => m)

/-- `old.checked_add(new)` on `i64`; `None` becomes the caller's `err` (C33 `fix:`; it was an overflow panic) -/
def addI64 (a b : Int) : R Int := if a + b > I64_MAX ∨ a + b < I64_MIN then .err else .ok (a + b)

/-- `add_multiasset_values` -/
def addMultiassetValues (a b : MA) : R MA :=
  (mergePolicies addI64 .ok [] a).bind (fun r => mergePolicies addI64 .ok r b)

/-- `add_values` -/
def addValues : Value → Value → R Value
  | .coin f, .coin s => (addLovelace f s).map .coin
  | .multi f fma, .coin s => (addLovelace f s).map (fun c => .multi c fma)
  | .coin f, .multi s sma => (addLovelace f s).map (fun c => .multi c sma)
  | .multi f fma, .multi s sma =>
    (addLovelace f s).bind (fun c =>
      (coerceToI64 fma).bind (fun a =>
        (coerceToI64 sma).bind (fun b =>
          (addMultiassetValues a b).bind (fun r =>
            (coerceToCoin r).map (fun ma => .multi c ma)))))

/-- `add_minted_value` -/
def addMintedValue (base : Value) (minted : MA) : R Value :=
  match base with
  | .coin n => (coerceToCoin minted).map (fun ma => .multi n ma)
  | .multi n b =>
    (coerceToI64 b).bind (fun bi =>
      (addMultiassetValues bi minted).bind (fun r =>
        (coerceToCoin r).map (fun ma => .multi n ma)))

/-- `multi_asset_included` (`skip` = the "discard the case where there is 0 of an asset" test) -/
def assetsIncluded (fassets sassets : AMap Int) : Bool :=
  fassets.all (fun (n, a) => a == 0 || AMap.get sassets n == some a)

def multiAssetIncluded (fma sma : MA) : Bool :=
  fma.all (fun (p, fassets) =>
    match AMap.get sma p with
    | some sassets => assetsIncluded fassets sassets
    | none => false)

def multiAssetsAreEqual (fma sma : MA) : Bool := multiAssetIncluded fma sma && multiAssetIncluded sma fma

/-- `values_are_equal` / `conway_values_are_equal` -/
def valuesAreEqual : Value → Value → Bool
  | .coin f, .coin s => f == s
  | .multi f fma, .coin s => f == s && fma.isEmpty
  | .coin f, .multi s sma => f == s && sma.isEmpty
  | .multi f fma, .multi s sma => if f != s then false else multiAssetsAreEqual fma sma

inductive Res where
  | ok | negativeValue | notPreserved | wrongEra | feesBelowMin | other | panic
  deriving Repr, DecidableEq

def emptyValue : Value := .multi 0 []

/-- `res = add_values(&res, v, ..)?` over a list, starting from `empty_value()` -/
def sumFrom (acc : Value) : List Value → R Value
  | [] => .ok acc
  | v :: vs => (addValues acc v).bind (fun acc' => sumFrom acc' vs)

def resOf (r : R Bool) : Res :=
  match r with
  | .ok true => .ok
  | .ok false => .notPreserved
  | .err => .negativeValue
  | .panic => .panic

/-- Alonzo / Babbage `check_preservation_of_value` -/
def checkPreservation (ins outs : List Value) (fee : Int) (mint : Option MA) : Res :=
  resOf <|
    (sumFrom emptyValue ins).bind (fun consumed =>
      (sumFrom emptyValue outs).bind (fun produced =>
        (addValues produced (.coin fee)).bind (fun output =>
          (match mint with
           | some m => addMintedValue consumed m
           | none => .ok consumed).bind (fun input =>
            .ok (valuesAreEqual input output)))))

def isMultiV : Value → Bool
  | .multi _ _ => true
  | .coin _ => false

inductive SR where
  | ok (v : Value)
  | wrongEra
  | err
  | panic

/-- the input / output loops of Shelley-MA `get_consumed` / `get_produced`: a multi-asset value in `Era::Shelley`
    is `ValueNotShelley` / `WrongEraOutput` at the position where the loop meets it -/
def sumShelley (shelley : Bool) (acc : Value) : List Value → SR
  | [] => .ok acc
  | v :: vs =>
    if shelley && isMultiV v then .wrongEra
    else
      match addValues acc v with
      | .ok a => sumShelley shelley a vs
      | .err => .err
      | .panic => .panic

/-- Shelley-MA `check_preservation_of_value` with zero deposit / refund counts; `shelley` = `Era::Shelley` -/
def checkPreservationShelleyMA (shelley : Bool) (ins outs : List Value) (fee : Int) (mint : Option MA) : Res :=
  match sumShelley shelley emptyValue ins with
  | .wrongEra => .wrongEra
  | .err => .negativeValue
  | .panic => .panic
  | .ok r =>
    match (addValues r (.coin 0)).bind (fun r2 =>            -- key_deposit * stk_refund_count
            match mint with
            | some m => addMintedValue r2 m
            | none => .ok r2) with
    | .err => .negativeValue
    | .panic => .panic
    | .ok consumed =>
      match sumShelley shelley emptyValue outs with
      | .wrongEra => .wrongEra
      | .err => .negativeValue
      | .panic => .panic
      | .ok p =>
        resOf <|
          (addValues p (.coin fee)).bind (fun p2 =>
            (addValues p2 (.coin 0)).bind (fun produced =>     -- total_deposits
              .ok (valuesAreEqual consumed produced)))

/-! ## Conway (`PositiveCoin` quantities, `NonZeroInt` mint) -/

/-- `old.checked_add(new)` on `u64`; `None` becomes the caller's `err` -/
def addU64 (a b : Int) : R Int := if a + b > U64_MAX then .err else .ok (a + b)

/-- `conway_coerce_to_coin`: `PositiveCoin::try_from(amount).map_err(err)` -/
def conwayCoerceToCoin (m : MA) : R MA := (checkAll (fun a => if a = 0 then .err else .ok ()) m).map (fun _ => m)

/-- `conway_add_multiasset_values` (on `coerce_to_u64` of both sides, which changes nothing) -/
def conwayAddMultiassetValues (a b : MA) : R MA :=
  (mergePolicies addU64 .ok [] a).bind (fun r => mergePolicies addU64 .ok r b)

/-- `conway_add_values` -/
def conwayAddValues : Value → Value → R Value
  | .coin f, .coin s => (addLovelace f s).map .coin
  | .multi f fma, .coin s => (addLovelace f s).map (fun c => .multi c fma)
  | .coin f, .multi s sma => (addLovelace f s).map (fun c => .multi c sma)
  | .multi f fma, .multi s sma =>
    (addLovelace f s).bind (fun c =>
      (conwayAddMultiassetValues fma sma).bind (fun r =>
        (conwayCoerceToCoin r).map (fun ma => .multi c ma)))

/-- `conway_add_same_non_zero_policy_assets` (fixed): `i128` sum then `u64::try_from`, burns of absent assets rejected -/
def mintAdd (old new : Int) : R Int := if old + new < 0 ∨ old + new > U64_MAX then .err else .ok (old + new)
def mintFresh (new : Int) : R Int := if new < 0 then .err else .ok new

/-- `assets.retain(|_, amount| *amount > 0)` (on `u64`: non-zero) -/
def retainAssets : AMap Int → AMap Int
  | [] => []
  | (n, a) :: rest => if a != 0 then (n, a) :: retainAssets rest else retainAssets rest

/-- `res.retain(|_, assets| { assets.retain(|_, amount| *amount > 0); !assets.is_empty() })` -/
def retainPositive : MA → MA
  | [] => []
  | (p, as) :: rest =>
    if (retainAssets as).isEmpty then retainPositive rest else (p, retainAssets as) :: retainPositive rest

/-- `conway_add_multiasset_non_negative_values` -/
def conwayAddMultiassetNonNegativeValues (first minted : MA) : R MA :=
  (mergePolicies addU64 .ok [] first).bind (fun r =>
    (mergePolicies mintAdd mintFresh r minted).map retainPositive)

/-- `conway_coerce_to_non_zero_coin` (fixed): negative or zero quantities are the caller's error -/
def conwayCoerceToNonZeroCoin (m : MA) : R MA :=
  (checkAll (fun a => if a ≤ 0 then .err else .ok ()) m).map (fun _ => m)

/-- `conway_add_minted_non_zero` -/
def conwayAddMintedNonZero (base : Value) (minted : MA) : R Value :=
  match base with
  | .coin n => (conwayCoerceToNonZeroCoin minted).map (fun ma => .multi n ma)
  | .multi n b =>
    (conwayAddMultiassetNonNegativeValues b minted).bind (fun r =>
      (conwayCoerceToCoin r).map (fun ma => .multi n ma))

def conwaySumFrom (acc : Value) : List Value → R Value
  | [] => .ok acc
  | v :: vs => (conwayAddValues acc v).bind (fun acc' => conwaySumFrom acc' vs)

/-- Conway `check_preservation_of_value` (`get_consumed` / `get_produced` start from the first element;
    outputs are `PostAlonzo` ones) -/
def checkPreservationConway (ins outs : List Value) (fee : Int) (mint : Option MA) : Res :=
  match ins with
  | [] => .other            -- `TxInsEmpty`
  | i :: is =>
    match conwaySumFrom i is with
    | .err => .negativeValue
    | .panic => .panic
    | .ok consumed =>
      match outs with
      | [] => .other       -- (also reported as `TxInsEmpty`)
      | o :: os =>
        resOf <|
          (conwaySumFrom o os).bind (fun produced =>
            (conwayAddValues produced (.coin fee)).bind (fun output =>
              (match mint with
               | some m => conwayAddMintedNonZero consumed m
               | none => .ok consumed).bind (fun input =>
                .ok (valuesAreEqual input output))))

/-! ## Byron `check_fees` (fixed: the balance is checked before the redeem-only exemption from the minimum fee) -/

def sumU64 (acc : Int) : List Int → Option Int
  | [] => some acc
  | a :: rest => if acc + a > U64_MAX then none else sumU64 (acc + a) rest

/-- `onlyRedeem` = every input is a redeem-address UTxO -/
def byronCheckFees (ins outs : List Int) (size summand multiplier : Int) (onlyRedeem : Bool) : Res :=
  match sumU64 0 ins with
  | none => .other                                                    -- `checked_add(..).ok_or(UnableToComputeFees)`
  | some inputsBalance =>
    match sumU64 0 outs with
    | none => .other
    | some outputsBalance =>
      if inputsBalance - outputsBalance < 0 then .feesBelowMin          -- `checked_sub(..).ok_or(FeesBelowMin)`
      else if onlyRedeem then .ok
      else if multiplier * size > U64_MAX then .other                   -- `checked_mul` / `checked_add` of the minimum fee
      else if summand + multiplier * size > U64_MAX then .other
      else if inputsBalance - outputsBalance < summand + multiplier * size then .feesBelowMin
      else .ok

end PallasVerif.Value
