/-
  Shared vocabulary of the protocol state-machine models (C23, C24; import-free).

  * `Proto` — what `lib/translate_fsm.py` extracts from a pallas-network2 `State::apply`:
    the state classes and message classes of the enum declarations, the initial state, and one
    row per (state class, message class) with the arm the Rust `match` selects for it
    (first matching arm, wildcards resolved by the translator): `ok next-class data` or `err kind`.
    `data` says how the payload of the next state is built (`DExp`: fields of the message,
    fields of the current state, constructors).
  * `Spec` — a hand-written protocol specification (agency per state, permitted transitions,
    which message fields the successor state has to carry).
  * `apply` / `run` — the concrete semantics of a table over states and messages that carry
    payload trees (`Val`), i.e. the model of `State::apply` itself and of a history of calls.
-/
namespace PallasVerif.Fsm

inductive Agency where
  | client | server | nobody
  deriving DecidableEq, Repr

/-- payload trees: opaque tokens and constructor applications -/
inductive Val where
  | atom (tok : String)
  | node (tag : String) (kids : List Val)
  deriving Repr

/-- how a field of the successor state is computed by an `apply` arm -/
inductive DExp where
  | msgArg (i : Nat)
  | stArg (i : Nat)
  | ctor (tag : String) (args : List DExp)
  deriving Repr

inductive Res where
  | ok (cls : String) (data : List DExp)
  | err (kind : String)
  deriving Repr

structure Row where
  st : String
  msg : String
  res : Res
  deriving Repr

structure Proto where
  name : String
  /-- state class, number of payload fields -/
  states : List (String × Nat)
  /-- message class, number of payload fields -/
  msgs : List (String × Nat)
  init : String × List DExp
  rows : List Row
  deriving Repr

def Res.next? : Res → Option String
  | .ok c _ => some c
  | .err _ => none

def Res.data : Res → List DExp
  | .ok _ d => d
  | .err _ => []

def Proto.stateNames (p : Proto) : List String := p.states.map (·.1)
def Proto.msgNames (p : Proto) : List String := p.msgs.map (·.1)

def Proto.step (p : Proto) (s m : String) : Res :=
  match p.rows.find? (fun r => r.st = s ∧ r.msg = m) with
  | some r => r.res
  | none => .err "norow"

def Proto.arity (p : Proto) (m : String) : Nat :=
  match p.msgs.find? (fun x => x.1 = m) with
  | some x => x.2
  | none => 0

/-! ## specification side -/

structure SpecRow where
  st : String
  msg : String
  next : String
  /-- indices of the message fields the successor state has to carry -/
  carried : List Nat := []
  deriving DecidableEq, Repr

structure Spec where
  name : String
  states : List (String × Agency)
  msgs : List String
  init : String
  trans : List SpecRow
  deriving Repr

def Spec.stateNames (sp : Spec) : List String := sp.states.map (·.1)

def Spec.row? (sp : Spec) (s m : String) : Option SpecRow :=
  sp.trans.find? (fun r => r.st = s ∧ r.msg = m)

def Spec.step (sp : Spec) (s m : String) : Option String :=
  (sp.row? s m).map (·.next)

def Spec.agency (sp : Spec) (s : String) : Agency :=
  match sp.states.find? (fun x => x.1 = s) with
  | some x => x.2
  | none => .nobody

/-! ## concrete semantics -/

structure CState where
  cls : String
  data : List Val
  deriving Repr

structure CMsg where
  cls : String
  args : List Val
  deriving Repr

mutual
  def eval (st msg : List Val) : DExp → Val
    | .msgArg i => msg.getD i (.atom "?")
    | .stArg i => st.getD i (.atom "?")
    | .ctor t as => .node t (evals st msg as)
  def evals (st msg : List Val) : List DExp → List Val
    | [] => []
    | d :: ds => eval st msg d :: evals st msg ds
end

mutual
  /-- message field indices an expression mentions -/
  def msgArgsOf : DExp → List Nat
    | .msgArg i => [i]
    | .stArg _ => []
    | .ctor _ as => msgArgsOfs as
  def msgArgsOfs : List DExp → List Nat
    | [] => []
    | d :: ds => msgArgsOf d ++ msgArgsOfs ds
end

mutual
  /-- `v` occurs in the tree (reflexive) -/
  def Val.subterms : Val → List Val
    | .atom t => [.atom t]
    | .node t ks => .node t ks :: Val.subtermsL ks
  def Val.subtermsL : List Val → List Val
    | [] => []
    | k :: ks => k.subterms ++ Val.subtermsL ks
end

/-- the model of `State::apply(&self, msg)`: pure, `Err` leaves nothing behind -/
def apply (p : Proto) (s : CState) (m : CMsg) : Except String CState :=
  match p.step s.cls m.cls with
  | .ok c d => .ok ⟨c, evals s.data m.args d⟩
  | .err k => .error k

/-- a history of `apply` calls; a refused message leaves the state where it was.
    Returns the final state and the accept/refuse verdict of every message. -/
def run (p : Proto) : CState → List CMsg → CState × List Bool
  | s, [] => (s, [])
  | s, m :: ms =>
    match apply p s m with
    | .ok s' => let r := run p s' ms; (r.1, true :: r.2)
    | .error _ => let r := run p s ms; (r.1, false :: r.2)

/-- the same history on the specification (classes only) -/
def Spec.run (sp : Spec) : String → List String → String × List Bool
  | s, [] => (s, [])
  | s, m :: ms =>
    match sp.step s m with
    | some s' => let r := Spec.run sp s' ms; (r.1, true :: r.2)
    | none => let r := Spec.run sp s ms; (r.1, false :: r.2)

def Proto.initState (p : Proto) : CState := ⟨p.init.1, evals [] [] p.init.2⟩

/-! ## rendering (shared with the harness: `Class(field,field)`, tuples `(a,b)`, tokens verbatim) -/

mutual
  def Val.render : Val → String
    | .atom t => t
    | .node t [] => t
    | .node t (k :: ks) => t ++ "(" ++ Val.renderL (k :: ks) ++ ")"
  def Val.renderL : List Val → String
    | [] => ""
    | [k] => k.render
    | k :: k' :: ks => k.render ++ "," ++ Val.renderL (k' :: ks)
end

def CState.render (s : CState) : String := (Val.node s.cls s.data).render

end PallasVerif.Fsm
