/-
  The machine arithmetic of phase-1 validation that is not part of the rule models of C34–C37
  (`Model/Value`, `Model/FeeSize`, `Model/ExUnits`, `Model/Witness`, `Model/ValidateTxs`), transcribed with an explicit
  `panic` arm at every operation that the dev profile checks: collateral percentage (`check_collaterals_assets`, in
  `u128` after the C33 `fix:`), minimum lovelace per output (`compute_min_lovelace` of each era, unchecked `u64`),
  Shelley-MA deposits (`get_consumed` / `get_produced`, unchecked `u64`), the MIR total (`check_mir`, checked).
-/
namespace PallasVerif.PhaseOneArith

def U32_MAX : Nat := 4294967295
def U64_MAX : Nat := 18446744073709551615
def U128_MAX : Nat := 340282366920938463463374607431768211455

inductive Res where
  | ok | rejected | panic
  deriving DecidableEq, Repr

/-- `fee_percentage: u128 = fee as u128 * collateral_percentage as u128; if paid as u128 * 100 < fee_percentage { Err(CollateralMinLovelace) }` -/
def collateralEnough (paid fee percentage : Nat) : Res :=
  if fee * percentage > U128_MAX then .panic
  else if paid * 100 > U128_MAX then .panic
  else if paid * 100 < fee * percentage then .rejected else .ok

/-- Babbage / Conway: `ada_per_utxo_byte * (get_val_size_in_words(val) + 160)`; Alonzo: `.. * (words + 27 | 37)`; all `u64` -/
def minLovelace (coinsPerUnit words overhead : Nat) : Option Nat :=
  if words + overhead > U64_MAX then none
  else if coinsPerUnit * (words + overhead) > U64_MAX then none
  else some (coinsPerUnit * (words + overhead))

/-- `if lovelace < compute_min_lovelace(..) { Err(MinLovelaceUnreached) }` -/
def checkMinLovelace (lovelace coinsPerUnit words overhead : Nat) : Res :=
  match minLovelace coinsPerUnit words overhead with
  | none => .panic
  | some m => if lovelace < m then .rejected else .ok

/-- Shelley-MA: `max(lovelace, (27 + words) * (min_utxo_value / 27))` for multi-asset outputs -/
def shelleyMinLovelace (lovelace minUtxoValue words : Nat) : Option Nat :=
  if 27 + words > U64_MAX then none
  else if (27 + words) * (minUtxoValue / 27) > U64_MAX then none
  else some (max lovelace ((27 + words) * (minUtxoValue / 27)))

/-- `pool_deposit * pool_count + key_deposit * stk_dep_count` (and `key_deposit * stk_refund_count`) on `u64` -/
def totalDeposits (poolDeposit poolCount keyDeposit keyCount : Nat) : Option Nat :=
  if poolDeposit * poolCount > U64_MAX then none
  else if keyDeposit * keyCount > U64_MAX then none
  else if poolDeposit * poolCount + keyDeposit * keyCount > U64_MAX then none
  else some (poolDeposit * poolCount + keyDeposit * keyCount)

/-- `combined.iter().try_fold(0u64, |acc, kv| acc.checked_add(*kv.1))` -/
def checkedTotal (acc : Nat) : List Nat → Option Nat
  | [] => some acc
  | a :: rest => if acc + a > U64_MAX then none else checkedTotal (acc + a) rest

/-- `if total.is_none_or(|total| total > pot) { Err(InsufficientForInstantaneousRewards) }` -/
def mirWithinPot (pot : Nat) (amounts : List Nat) : Res :=
  match checkedTotal 0 amounts with
  | none => .rejected
  | some t => if t > pot then .rejected else .ok

end PallasVerif.PhaseOneArith
