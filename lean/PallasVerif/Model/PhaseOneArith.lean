import PallasVerif.Model.Value
/-
  The machine arithmetic of phase-1 validation that is not part of the rule models of C34–C37
  (`Model/Value`, `Model/FeeSize`, `Model/ExUnits`, `Model/Witness`, `Model/ValidateTxs`), transcribed with an explicit
  `panic` arm at every operation that the dev profile checks: collateral percentage (`check_collaterals_assets`, in
  `u128` after the C33 `fix:`), minimum lovelace per output (`compute_min_lovelace` of each era, unchecked `u64`),
  Shelley-MA deposits (`get_consumed` / `get_produced`, unchecked `u64`), the MIR total (`check_mir`, checked),
  and the collateral balance of the three Plutus eras: `lovelace_diff_or_fail` / `conway_lovelace_diff_or_fail` (every arm,
  the `f - s` as a panic site of its own) and `check_collaterals_assets` of Alonzo, Babbage and Conway around it.
-/
namespace PallasVerif.PhaseOneArith

def U32_MAX : Nat := 4294967295
def U64_MAX : Nat := 18446744073709551615
def U128_MAX : Nat := 340282366920938463463374607431768211455

inductive Res where
  | ok | rejected | panic
  deriving DecidableEq, Repr

/-- `fee_percentage: u128 = fee as u128 * collateral_percentage as u128; if paid as u128 * 100 < fee_percentage { Err(CollateralMinLovelace) }` -/
def collateralEnough (paid fee percentage : Nat) : Res :=
  if fee * percentage > U128_MAX then .panic
  else if paid * 100 > U128_MAX then .panic
  else if paid * 100 < fee * percentage then .rejected else .ok

/-- Babbage / Conway: `ada_per_utxo_byte * (get_val_size_in_words(val) + 160)`; Alonzo: `.. * (words + 27 | 37)`; all `u64` -/
def minLovelace (coinsPerUnit words overhead : Nat) : Option Nat :=
  if words + overhead > U64_MAX then none
  else if coinsPerUnit * (words + overhead) > U64_MAX then none
  else some (coinsPerUnit * (words + overhead))

/-- `if lovelace < compute_min_lovelace(..) { Err(MinLovelaceUnreached) }` -/
def checkMinLovelace (lovelace coinsPerUnit words overhead : Nat) : Res :=
  match minLovelace coinsPerUnit words overhead with
  | none => .panic
  | some m => if lovelace < m then .rejected else .ok

/-- Shelley-MA: `max(lovelace, (27 + words) * (min_utxo_value / 27))` for multi-asset outputs -/
def shelleyMinLovelace (lovelace minUtxoValue words : Nat) : Option Nat :=
  if 27 + words > U64_MAX then none
  else if (27 + words) * (minUtxoValue / 27) > U64_MAX then none
  else some (max lovelace ((27 + words) * (minUtxoValue / 27)))

/-- `pool_deposit * pool_count + key_deposit * stk_dep_count` (and `key_deposit * stk_refund_count`) on `u64` -/
def totalDeposits (poolDeposit poolCount keyDeposit keyCount : Nat) : Option Nat :=
  if poolDeposit * poolCount > U64_MAX then none
  else if keyDeposit * keyCount > U64_MAX then none
  else if poolDeposit * poolCount + keyDeposit * keyCount > U64_MAX then none
  else some (poolDeposit * poolCount + keyDeposit * keyCount)

/-- `combined.iter().try_fold(0u64, |acc, kv| acc.checked_add(*kv.1))` -/
def checkedTotal (acc : Nat) : List Nat → Option Nat
  | [] => some acc
  | a :: rest => if acc + a > U64_MAX then none else checkedTotal (acc + a) rest

/-- `if total.is_none_or(|total| total > pot) { Err(InsufficientForInstantaneousRewards) }` -/
def mirWithinPot (pot : Nat) (amounts : List Nat) : Res :=
  match checkedTotal 0 amounts with
  | none => .rejected
  | some t => if t > pot then .rejected else .ok

/-! ## Collateral balance -/

/-- `f - s` on `u64`: the dev profile panics when it underflows -/
def subU64 (f s : Int) : Value.R Int := if f < s then .panic else .ok (f - s)

/-- `lovelace_diff_or_fail` and `conway_lovelace_diff_or_fail` (same four arms; `multi_assets_are_equal` /
    `conway_multi_assets_are_equal`): `Ok(f - s)` under `if f >= s && ..`, `Err(err)` otherwise. The subtraction is written
    as `subU64`, not as the guarded difference, so that totality is a theorem about the guard. -/
def lovelaceDiffOrFail : Value.Value → Value.Value → Value.R Int
  | .coin f, .coin s => if f ≥ s then subU64 f s else .err
  | .coin _, .multi _ _ => .err
  | .multi f fma, .coin s => if f ≥ s ∧ fma.isEmpty = true then subU64 f s else .err
  | .multi f fma, .multi s sma => if f ≥ s ∧ Value.multiAssetsAreEqual fma sma = true then subU64 f s else .err

inductive CollRes where
  | ok | negativeValue | nonLovelace | minLovelace | annotation | missing | tooMany | panic
  deriving DecidableEq, Repr

def coinV : Value.Value → Int
  | .coin c => c
  | .multi c _ => c

def hasAssets : Value.Value → Bool
  | .coin _ => false
  | .multi _ m => !m.isEmpty

/-- Alonzo `check_collaterals_assets`: every collateral input alone covers the percentage and carries no assets -/
def collateralAlonzo (fee percentage : Nat) : List Value.Value → CollRes
  | [] => .ok
  | v :: rest =>
    match collateralEnough (coinV v).toNat fee percentage with
    | .panic => .panic
    | .rejected => .minLovelace
    | .ok => if hasAssets v then .nonLovelace else collateralAlonzo fee percentage rest

/-- Conway, `TransactionOutput::Legacy` collateral return: quantities that are not a `PositiveCoin` are left out -/
def dropZeroAssets (m : Value.MA) : Value.MA := m.map (fun (p, as) => (p, as.filter (fun (_, a) => a != 0)))

/-- `MultiEraValue::into_conway` of an Alonzo-form UTxO value (what `val_from_multi_era_output` hands the Conway rule):
    zero quantities, then empty policies are left out; nothing left = the `Coin` variant -/
def conwayOfLegacy : Value.Value → Value.Value
  | .multi c m =>
    let m' := (dropZeroAssets m).filter (fun (_, as) => !as.isEmpty)
    if m'.isEmpty then .coin c else .multi c m'
  | v => v

def returnValue (conway legacy : Bool) : Option Value.Value → Value.Value
  | none => .coin 0
  | some (.multi c m) => if conway && legacy then .multi c (dropZeroAssets m) else .multi c m
  | some v => v

/-- Babbage / Conway `check_collaterals_assets`: sum of the collateral inputs (Babbage from `empty_value()`, Conway from
    `collaterals.first().unwrap()`), minus the collateral return through `lovelace_diff_or_fail`, percentage, annotation -/
def collateralSum (conway : Bool) (ins : List Value.Value) : Value.R Value.Value :=
  if conway then (match ins with
    | [] => .panic                     -- `first().unwrap()`; `check_collaterals_number` has rejected the empty list before
    | i :: is => Value.conwaySumFrom i is)
  else Value.sumFrom Value.emptyValue ins

/-- `check_collaterals_assets` of Babbage (`conway = false`) and Conway -/
def collateralBalance (conway legacyReturn : Bool) (ins : List Value.Value) (ret : Option Value.Value)
    (fee percentage : Nat) (total : Option Nat) : CollRes :=
  match collateralSum conway ins with
  | .panic => .panic
  | .err => .negativeValue
  | .ok input =>
    match lovelaceDiffOrFail input (returnValue conway legacyReturn ret) with
    | .panic => .panic
    | .err => .nonLovelace
    | .ok paid =>
      match collateralEnough paid.toNat fee percentage with
      | .panic => .panic
      | .rejected => .minLovelace
      | .ok =>
        match total with
        | some t => if paid ≠ (t : Int) then .annotation else .ok
        | none => .ok

/-- `check_collaterals` of Babbage / Conway as far as it bears on totality: `check_collaterals_number` (the list is not empty,
    not longer than `max_collateral_inputs`) runs before `check_collaterals_assets`, which is what makes Conway's
    `collaterals.first().unwrap()` safe (`check_collaterals_address` in between has no partial operation) -/
def collateralRule (conway legacyReturn : Bool) (maxInputs : Nat) (ins : List Value.Value) (ret : Option Value.Value)
    (fee percentage : Nat) (total : Option Nat) : CollRes :=
  if ins.isEmpty then .missing
  else if ins.length > maxInputs then .tooMany
  else collateralBalance conway legacyReturn ins ret fee percentage total

end PallasVerif.PhaseOneArith
