import PallasVerif.Model.CborWrappers
/-
  C04 — the Conway layouts that embed the numeric wrappers (`pallas-primitives/src/conway/model.rs`):
    `Multiasset<A> = BTreeMap<PolicyId, BTreeMap<AssetName, A>>`, `Mint = Multiasset<NonZeroInt>`,
    `Value = Coin(u64) | Multiasset(u64, Multiasset<PositiveCoin>)` via `codec_by_datatype!`,
    `TransactionBody.donation : Option<PositiveCoin>` (the field's own `Decode` call).
  `BTreeMap`'s `Decode` is minicbor's: `map_iter_with` + `insert` (a later duplicate key replaces the
  value, iteration is in key order); keys are `Hash<28>` / `Bytes`, both ordered as byte strings.
-/
namespace PallasVerif.ConwayValue
open PallasVerif.Cbor PallasVerif.Minicbor PallasVerif.Wrappers

/-- `impl Decode for Hash<28>` (feature `relaxed` off): `bytes()` of exactly 28 bytes -/
def hash28 : P Bytes := fun cur =>
  (Minicbor.bytes cur).andThen fun b r => if b.length = 28 then .ok b r else .err .msg

/-- `Ord` of `[u8; N]` / `Vec<u8>`: lexicographic, a proper prefix is smaller -/
def bytesLt : Bytes → Bytes → Bool
  | [], [] => false
  | [], _ :: _ => true
  | _ :: _, [] => false
  | a :: as, b :: bs => if a.toNat < b.toNat then true else if b.toNat < a.toNat then false else bytesLt as bs

/-- `BTreeMap::insert` on the sorted association list -/
def bmInsert {β : Type} (k : Bytes) (v : β) : List (Bytes × β) → List (Bytes × β)
  | [] => [(k, v)]
  | (k', v') :: rest =>
    if bytesLt k k' then (k, v) :: (k', v') :: rest
    else if bytesLt k' k then (k', v') :: bmInsert k v rest
    else (k, v) :: rest

/-- the `for x in iter { m.insert(k, v) }` loop -/
def bmOfList {β : Type} (xs : List (Bytes × β)) : List (Bytes × β) :=
  xs.foldl (fun m p => bmInsert p.1 p.2 m) []

/-- `impl Decode for BTreeMap<K, V>` -/
def btreeMap {β : Type} (k : P Bytes) (v : P β) : P (List (Bytes × β)) := fun cur =>
  (mapIter k v cur).map bmOfList

abbrev Multiasset (α : Type) := List (Bytes × List (Bytes × α))

def multiasset {α : Type} (q : P α) : P (Multiasset α) := btreeMap hash28 (btreeMap Minicbor.bytes q)

/-- every quantity held by a multi-asset bundle -/
def quantities {α : Type} (m : Multiasset α) : List α := m.flatMap fun p => p.2.map (·.2)

/-- `conway::Mint` -/
def mint : P (Multiasset Int) := multiasset NonZeroInt.dec

inductive Value where
  | coin (c : Nat)
  | multiasset (c : Nat) (m : Multiasset Nat)
  deriving Repr

/-- `codec_by_datatype! { Value, U8 | U16 | U32 | U64 => Coin, (coin, multi => Multiasset) }` -/
def value : P Value :=
  byDatatype
    (some fun cur => (Minicbor.u64 cur).andThen fun c r => (multiasset PositiveCoin.dec r).map fun m => Value.multiasset c m)
    [⟨fun t => t == .u8 || t == .u16 || t == .u32 || t == .u64, fun cur => (Minicbor.u64 cur).map .coin⟩]

def Value.quantities : Value → List Nat
  | .coin _ => []
  | .multiasset _ m => ConwayValue.quantities m

/-- the decode call made for field 22 of `TransactionBody`: `<Option<PositiveCoin> as Decode>::decode` -/
def donation : P (Option Nat) := Minicbor.option PositiveCoin.dec

end PallasVerif.ConwayValue
