import PallasVerif.Model.Kes
import PallasVerif.Model.Blake2bArray
/-
  `pallas-crypto/src/kes/summed_kes.rs` once more, this time at the level of the byte slices the Rust code
  works on: every `copy_from_slice` into a sub-range is a `blit`, every `&mut key_slice[..n]` a `take`
  whose result is blitted back. `keygenSliceSome` / `keygenSliceNone` are the two arms of
  `keygen_slice(in_slice, opt_seed)` (with `Seed::split_slice` zeroing the seed it consumes),
  `updateSlice` is `update_slice(key_slice, period)` with its three `Ordering` branches and slice bounds,
  `skKeygenBytes` / `skUpdateBytes` are `KesSk::{keygen, update}` including the big-endian period behind
  the key, `signFromSlice` / `csignFromSlice` are the two `sign_from_slice` + `to_bytes`.
  `Props/C12.lean` proves that on the layout `keyBytes` of a key tree these are exactly the tree
  operations of `Model/Kes.lean` (for every depth). The streams `kes` / `kesfs` run *these* functions for
  key generation and evolution and compare the resulting buffer with the real one.
-/
namespace PallasVerif.Kes
open PallasVerif.Blake2b (blake2b256 blit)

/-! ## the same operations at the level of the byte slices (in-place writes as `blit`) -/

def zeros32 : Bytes := List.replicate 32 0

/-- the part of `keygen_slice` after the seed has been split into `(r0, r1)`: right seed stored, left child
    generated in place in `in_slice[..$sk::SIZE]`, right child generated in a temporary buffer for its
    public key only, both public keys written -/
def keygenBody (rec : Bytes → Bytes → Bytes × Bytes) (k : Nat) (sl r0 r1 : Bytes) : Bytes × Bytes :=
  let sl := blit sl k r1
  let c := rec (sl.take k) r0
  let sl := blit sl 0 c.1
  let pk1 := (rec (List.replicate k 0) r1).2
  let sl := blit sl (k + 32) c.2
  let sl := blit sl (k + 64) pk1
  (sl, blake2b256 (c.2 ++ pk1))

/-- `keygen_slice(in_slice, Some(seed))`, `in_slice.len() = SIZE`: new slice contents and public key -/
def keygenSliceSome : Nat → Bytes → Bytes → Bytes × Bytes
  | 0, sl, seed => (blit sl 0 seed, PallasVerif.Ed25519.publicKey seed)
  | d + 1, sl, seed =>
    keygenBody (keygenSliceSome d) (keySize d) sl (blake2b256 (1 :: seed)) (blake2b256 (2 :: seed))

/-- `keygen_slice(in_slice, None)`, `in_slice.len() = SIZE + 32`, the seed is the last 32 bytes and is
    overwritten with zeros (`split_slice` / `Sum0Kes::keygen_slice`) -/
def keygenSliceNone : Nat → Bytes → Bytes × Bytes
  | 0, sl =>
    let seed := sl.drop 32
    let sl := blit sl 32 zeros32
    (blit sl 0 seed, PallasVerif.Ed25519.publicKey seed)
  | d + 1, sl =>
    let seed := sl.drop (keySize (d + 1))
    let sl := blit sl (keySize (d + 1)) zeros32
    keygenBody (keygenSliceSome d) (keySize d) sl (blake2b256 (1 :: seed)) (blake2b256 (2 :: seed))

/-- `update_slice(key_slice, period)` -/
def updateSlice : Nat → Bytes → Nat → Option Bytes
  | 0, _, _ => none
  | d + 1, sl, t =>
    if t + 1 = 2 ^ (d + 1) then none
    else if t + 1 < 2 ^ d then (updateSlice d (sl.take (keySize d)) t).map (blit sl 0)
    else if t + 1 = 2 ^ d then some (blit sl 0 (keygenSliceNone d (sl.take (keySize d + 32))).1)
    else (updateSlice d (sl.take (keySize d)) (t - 2 ^ d)).map (blit sl 0)

def beNat32 (bs : Bytes) : Nat := (bs.take 4).foldl (fun acc b => acc * 256 + b.toNat) 0

/-- `KesSk::keygen(key_buffer, seed)`: `keygen_slice` on `key_buffer[..SIZE]`, period 0 written behind it -/
def skKeygenBytes (d : Nat) (buf seed : Bytes) : Bytes × Bytes :=
  let r := keygenSliceSome d (buf.take (keySize d)) seed
  (r.1 ++ be32 0, r.2)

/-- `KesSk::update`: period read from the last 4 bytes, `update_slice` on the rest, `period + 1` written back -/
def skUpdateBytes (d : Nat) (buf : Bytes) : Option Bytes :=
  let period := beNat32 (buf.drop (keySize d))
  (updateSlice d (buf.take (keySize d)) period).map (fun sl => sl ++ be32 (period + 1))

/-- `sum_kes!`: `sign_from_slice(sk, m).to_bytes()` (signature of the active child, then the two stored keys) -/
def signFromSlice : Nat → Bytes → Bytes → Bytes
  | 0, sk, m => PallasVerif.Ed25519.sign sk m
  | d + 1, sk, m =>
    signFromSlice d (sk.take (keySize d)) m ++ (sk.drop (keySize d + 32)).take 32 ++ (sk.drop (keySize d + 64)).take 32

/-- `sum_compact_kes!`: `sign_from_slice(sk, m, period).to_bytes()` (the key of the *other* subtree) -/
def csignFromSlice : Nat → Bytes → Bytes → Nat → Bytes
  | 0, sk, m, _ => PallasVerif.Ed25519.sign sk m ++ PallasVerif.Ed25519.publicKey sk
  | d + 1, sk, m, t =>
    if t < 2 ^ d then csignFromSlice d (sk.take (keySize d)) m t ++ (sk.drop (keySize d + 64)).take 32
    else csignFromSlice d (sk.take (keySize d)) m (t - 2 ^ d) ++ (sk.drop (keySize d + 32)).take 32

/-- `n` successive `KesSk::update` calls on the buffer -/
def evolveBytes (d : Nat) (buf : Bytes) : Nat → Option Bytes
  | 0 => some buf
  | n + 1 => (evolveBytes d buf n).bind (skUpdateBytes d)

end PallasVerif.Kes
