import PallasVerif.Model.Cbor
/-
  C30 — block traversal (pallas-traverse/src/support.rs `clone_tx_fn!`, `clone_*_txs`;
  block.rs `MultiEraBlock::{decode, era, txs, tx_count}`; probe.rs `block_era`).

  A decoded post-Byron block is the record `{bodies, wits, aux, invalid}`; `aux` is the
  `BTreeMap<u32, _>` the decoder builds by inserting the wire entries in order (`auxOfWire`).
  Import-free (Model only).
-/
namespace PallasVerif.Traverse
open PallasVerif.Cbor

/-! ## era probe (first two CBOR tokens) -/

inductive Era where
  | byron | shelley | allegra | mary | alonzo | babbage | conway
  deriving DecidableEq, Repr, Inhabited

def Era.toString : Era → String
  | .byron => "Byron" | .shelley => "Shelley" | .allegra => "Allegra" | .mary => "Mary"
  | .alonzo => "Alonzo" | .babbage => "Babbage" | .conway => "Conway"

inductive Outcome where
  | matched (e : Era)
  | epochBoundary
  | inconclusive
  deriving DecidableEq, Repr, Inhabited

/-- the `match variant { 0 => .., 7 => .., _ => Inconclusive }` table of `block_era` -/
def variantTable : Nat → Outcome
  | 0 => .epochBoundary
  | 1 => .matched .byron
  | 2 => .matched .shelley
  | 3 => .matched .allegra
  | 4 => .matched .mary
  | 5 => .matched .alonzo
  | 6 => .matched .babbage
  | 7 => .matched .conway
  | _ => .inconclusive

/-- `block_era`: the first token must be `Token::Array(2)` (a definite array head of any width
    whose value is 2), the second `Token::U8(v)` (minicbor types the heads `0x00..=0x18` as U8) -/
def blockEra (cbor : Bytes) : Outcome :=
  match decodeHead cbor with
  | none => .inconclusive
  | some (h1, rest) =>
    if h1.major = 4 ∧ h1.ai ≠ 31 ∧ h1.val = 2 then
      match decodeHead rest with
      | none => .inconclusive
      | some (h2, _) =>
        if h2.major = 0 ∧ h2.ai ≤ 24 then variantTable h2.val else .inconclusive
    else .inconclusive

/-- `MultiEraBlock::era()` of the variant `MultiEraBlock::decode` builds for each probe outcome -/
def eraOfOutcome : Outcome → Option Era
  | .epochBoundary => some .byron
  | .matched e => some e
  | .inconclusive => none

/-! ## transaction assembly -/

structure Block (B W A : Type) where
  bodies : List B
  wits : List W
  /-- contents of the `BTreeMap`: ascending, unique keys -/
  aux : List (Nat × A)
  invalid : Option (List Nat)

structure Tx (B W A : Type) where
  body : B
  wits : W
  success : Bool
  aux : Option A

/-- `BTreeMap::insert`: replace the value of an existing key, else insert keeping keys ascending -/
def btInsert {A} (k : Nat) (v : A) : List (Nat × A) → List (Nat × A)
  | [] => [(k, v)]
  | (k', v') :: rest =>
    if k < k' then (k, v) :: (k', v') :: rest
    else if k = k' then (k, v) :: rest
    else (k', v') :: btInsert k v rest

/-- what decoding the wire map yields: entries inserted in wire order -/
def auxOfWire {A} (wire : List (Nat × A)) : List (Nat × A) :=
  wire.foldl (fun m kv => btInsert kv.1 kv.2 m) []

/-- `.iter().find_map(|(idx, val)| if idx.eq(&(index as u32)) { Some(val) } else { None })` -/
def findAux {A} (i : Nat) : List (Nat × A) → Option A
  | [] => none
  | (k, v) :: rest => if k = i then some v else findAux i rest

/-- `index as u32` -/
def asU32 (index : Nat) : Nat := index % 4294967296

/-- `clone_tx_fn!` -/
def cloneTxAt {B W A} (b : Block B W A) (index : Nat) : Option (Tx B W A) :=
  match b.bodies[index]? with
  | none => none
  | some body =>
    match b.wits[index]? with
    | none => none
    | some w =>
      let success := !(match b.invalid with
        | some xs => xs.contains (asU32 index)
        | none => false)
      some { body := body, wits := w, success := success, aux := findAux (asU32 index) b.aux }

/-- `(0..block.transaction_bodies.len()).filter_map(|idx| clone_tx_at(block, idx)).collect()` -/
def cloneTxs {B W A} (b : Block B W A) : List (Tx B W A) :=
  (List.range b.bodies.length).filterMap (cloneTxAt b)

/-- `tx_count` -/
def txCount {B W A} (b : Block B W A) : Nat := b.bodies.length

end PallasVerif.Traverse
