/-
  SHA-512 (FIPS 180-4 §6.4) on `UInt64` words; used by the Ed25519 reference (RFC 8032 takes
  SHA-512 as its hash). Import-free, total. Validated at driver start-up (`selfTest`) against the
  FIPS/NIST example digests; tied to cryptoxide's `Sha512` only through the Ed25519 correspondence.
-/
namespace PallasVerif.Sha512

abbrev Bytes := List UInt8

def k : Array UInt64 := #[
  0x428a2f98d728ae22, 0x7137449123ef65cd, 0xb5c0fbcfec4d3b2f, 0xe9b5dba58189dbbc,
  0x3956c25bf348b538, 0x59f111f1b605d019, 0x923f82a4af194f9b, 0xab1c5ed5da6d8118,
  0xd807aa98a3030242, 0x12835b0145706fbe, 0x243185be4ee4b28c, 0x550c7dc3d5ffb4e2,
  0x72be5d74f27b896f, 0x80deb1fe3b1696b1, 0x9bdc06a725c71235, 0xc19bf174cf692694,
  0xe49b69c19ef14ad2, 0xefbe4786384f25e3, 0x0fc19dc68b8cd5b5, 0x240ca1cc77ac9c65,
  0x2de92c6f592b0275, 0x4a7484aa6ea6e483, 0x5cb0a9dcbd41fbd4, 0x76f988da831153b5,
  0x983e5152ee66dfab, 0xa831c66d2db43210, 0xb00327c898fb213f, 0xbf597fc7beef0ee4,
  0xc6e00bf33da88fc2, 0xd5a79147930aa725, 0x06ca6351e003826f, 0x142929670a0e6e70,
  0x27b70a8546d22ffc, 0x2e1b21385c26c926, 0x4d2c6dfc5ac42aed, 0x53380d139d95b3df,
  0x650a73548baf63de, 0x766a0abb3c77b2a8, 0x81c2c92e47edaee6, 0x92722c851482353b,
  0xa2bfe8a14cf10364, 0xa81a664bbc423001, 0xc24b8b70d0f89791, 0xc76c51a30654be30,
  0xd192e819d6ef5218, 0xd69906245565a910, 0xf40e35855771202a, 0x106aa07032bbd1b8,
  0x19a4c116b8d2d0c8, 0x1e376c085141ab53, 0x2748774cdf8eeb99, 0x34b0bcb5e19b48a8,
  0x391c0cb3c5c95a63, 0x4ed8aa4ae3418acb, 0x5b9cca4f7763e373, 0x682e6ff3d6b2b8a3,
  0x748f82ee5defb2fc, 0x78a5636f43172f60, 0x84c87814a1f0ab72, 0x8cc702081a6439ec,
  0x90befffa23631e28, 0xa4506cebde82bde9, 0xbef9a3f7b2c67915, 0xc67178f2e372532b,
  0xca273eceea26619c, 0xd186b8c721c0c207, 0xeada7dd6cde0eb1e, 0xf57d4f7fee6ed178,
  0x06f067aa72176fba, 0x0a637dc5a2c898a6, 0x113f9804bef90dae, 0x1b710b35131c471b,
  0x28db77f523047d84, 0x32caab7b40c72493, 0x3c9ebe0a15c9bebc, 0x431d67c49c100d4c,
  0x4cc5d4becb3e42b6, 0x597f299cfc657e2a, 0x5fcb6fab3ad6faec, 0x6c44198c4a475817]

def h0 : Array UInt64 := #[0x6a09e667f3bcc908, 0xbb67ae8584caa73b, 0x3c6ef372fe94f82b, 0xa54ff53a5f1d36f1, 0x510e527fade682d1, 0x9b05688c2b3e6c1f, 0x1f83d9abfb41bd6b, 0x5be0cd19137e2179]

@[inline] def rotr (x : UInt64) (n : UInt64) : UInt64 := (x >>> n) ||| (x <<< (64 - n))

def be64 (bs : Bytes) : UInt64 := (bs.take 8).foldl (fun acc b => (acc <<< 8) ||| b.toUInt64) 0

def beBytes64 (w : UInt64) : Bytes := (List.range 8).map (fun i => (w >>> (8 * (7 - i)).toUInt64).toUInt8)

/-- message schedule W[0..80] -/
def schedule (block : Bytes) : Array UInt64 :=
  let w0 : Array UInt64 := ((List.range 16).map (fun i => be64 (block.drop (8 * i)))).toArray
  (List.range 64).foldl (fun w i =>
    let t := i + 16
    let x := w[t - 15]!
    let y := w[t - 2]!
    let s0 := rotr x 1 ^^^ rotr x 8 ^^^ (x >>> 7)
    let s1 := rotr y 19 ^^^ rotr y 61 ^^^ (y >>> 6)
    w.push (w[t - 16]! + s0 + w[t - 7]! + s1)) w0

def compress (h : Array UInt64) (block : Bytes) : Array UInt64 :=
  let w := schedule block
  let init := (h[0]!, h[1]!, h[2]!, h[3]!, h[4]!, h[5]!, h[6]!, h[7]!)
  let (a, b, c, d, e, f, g, hh) := (List.range 80).foldl (fun (s : UInt64 × UInt64 × UInt64 × UInt64 × UInt64 × UInt64 × UInt64 × UInt64) t =>
    let (a, b, c, d, e, f, g, hh) := s
    let s1 := rotr e 14 ^^^ rotr e 18 ^^^ rotr e 41
    let ch := (e &&& f) ^^^ ((~~~ e) &&& g)
    let t1 := hh + s1 + ch + k[t]! + w[t]!
    let s0 := rotr a 28 ^^^ rotr a 34 ^^^ rotr a 39
    let mj := (a &&& b) ^^^ (a &&& c) ^^^ (b &&& c)
    let t2 := s0 + mj
    (t1 + t2, a, b, c, d + t1, e, f, g)) init
  #[h[0]! + a, h[1]! + b, h[2]! + c, h[3]! + d, h[4]! + e, h[5]! + f, h[6]! + g, h[7]! + hh]

/-- padding: 0x80, zeros up to 112 mod 128, 128-bit big-endian bit length -/
def padMsg (m : Bytes) : Bytes :=
  let l := m.length
  let z := (128 - (l + 17) % 128) % 128
  let bits := 8 * l
  m ++ [0x80] ++ List.replicate z 0 ++ (List.range 16).map (fun i => UInt8.ofNat (bits / 256 ^ (15 - i) % 256))

def blocks (h : Array UInt64) (m : Bytes) (n : Nat) : Array UInt64 :=
  match n with
  | 0 => h
  | n + 1 => blocks (compress h (m.take 128)) (m.drop 128) n

def sha512 (m : Bytes) : Bytes :=
  let p := padMsg m
  (blocks h0 p (p.length / 128)).toList.flatMap beBytes64

def hexDigit (n : Nat) : Char := if n < 10 then Char.ofNat (48 + n) else Char.ofNat (87 + n)
def toHex (bs : Bytes) : String :=
  String.ofList (bs.flatMap fun b => [hexDigit (b.toNat / 16), hexDigit (b.toNat % 16)])

def selfTest : Bool :=
  toHex (sha512 [0x61, 0x62, 0x63]) ==
    "ddaf35a193617abacc417349ae20413112e6fa4e89a97ea20a9eeee64b55d39a2192992a274fc1a836ba3c23a3feebbd454d4423643ce80e2a9ac94fa54ca49f"
  && toHex (sha512 []) ==
    "cf83e1357eefb8bdf1542850d66d8007d620e4050b5715dc83f4a921d36ce9ce47d0d13c5d85f2b0ff8318d2877eec2f63b931bd47417a81a538327af927da3e"
  && toHex (sha512 (List.replicate 111 0x61)) ==
    "fa9121c7b32b9e01733d034cfc78cbf67f926c7ed83e82200ef86818196921760b4beff48404df811b953828274461673c68d04e297b0eb7b2b4d60fc6b566a2"
  && toHex (sha512 (List.replicate 112 0x61)) ==
    "c01d080efd492776a1c43bd23dd99d0a2e626d481e16782e75d54c2503b5dc32bd05f0f1ba33e568b88fd2d970929b719ecbb152f58f130a407c8830604b70ca"
  && toHex (sha512 (List.replicate 240 0x61)) ==
    "4c296d90c61052a62ffb1dd196f1b7b09373b1f93e71836baebf89690546b7595684dbe9467a8e484fa0d1094272b4344a7c24f5fee8daedeb0bf549c985ab5f"

end PallasVerif.Sha512
