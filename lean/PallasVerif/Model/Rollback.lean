/-
  Model of `pallas-network/src/miniprotocols/chainsync/buffer.rs` (`RollbackBuffer`).
  The `VecDeque<Point>` is a `List α` (oldest first); every `&mut self` method returns the
  new buffer. Transcribed method by method; `α` is any type with decidable equality
  (`Point` derives `Eq` structurally over `Origin | Specific(slot, hash)`).
-/
namespace PallasVerif.Rollback

variable {α : Type} [DecidableEq α]

inductive Effect where
  | handled
  | outOfScope
  deriving DecidableEq, Repr

abbrev Buf (α : Type) := List α

/-- `roll_forward`: `points.push_back(point)` -/
def rollForward (b : Buf α) (p : α) : Buf α := b ++ [p]

/-- `position`: `points.iter().position(|p| p.eq(point))` -/
def position (b : Buf α) (p : α) : Option Nat :=
  match b.findIdx? (· = p) with
  | some i => some i
  | none => none

/-- `pop_with_depth`: `len.checked_sub(min_depth)` then `drain(0..ready)` -/
def popWithDepth (b : Buf α) (minDepth : Nat) : List α × Buf α :=
  if minDepth ≤ b.length then
    let ready := b.length - minDepth
    (b.take ready, b.drop ready)
  else ([], b)

/-- `roll_back`: `truncate(x + 1)` when found, `clear()` otherwise -/
def rollBack (b : Buf α) (p : α) : Effect × Buf α :=
  match position b p with
  | some x => (.handled, b.take (x + 1))
  | none => (.outOfScope, [])

def size (b : Buf α) : Nat := b.length
def latest (b : Buf α) : Option α := b.getLast?
def oldest (b : Buf α) : Option α := b.head?

/-- One operation of the public API and its observable result. -/
inductive Op (α : Type) where
  | fwd (p : α)
  | back (p : α)
  | pop (d : Nat)
  deriving Repr

inductive Out (α : Type) where
  | unit
  | effect (e : Effect)
  | popped (ps : List α)

def step (b : Buf α) : Op α → Buf α × Out α
  | .fwd p => (rollForward b p, .unit)
  | .back p => let (e, b') := rollBack b p; (b', .effect e)
  | .pop d => let (ps, b') := popWithDepth b d; (b', .popped ps)

def run (b : Buf α) (ops : List (Op α)) : Buf α :=
  ops.foldl (fun b op => (step b op).1) b

end PallasVerif.Rollback
