import PallasVerif.Model.Cbor
/-
  C07 — model of `pallas-primitives/src/plutus_data.rs` (import-free apart from the L1 CBOR layer).

  * `BigInt`, `PData` : the Rust enums, with the definite/indefinite flag of `MaybeIndefArray` /
    `KeyValuePairs` kept as a `Bool` (`true` = `Def`).
  * `cmpBig`, `cmp?`  : arm-by-arm transcription of the three `Ord` impls. `constr_index` has two
    `panic!` sites; `cmp?` returns `none` exactly where the Rust panics (evaluation order kept: both
    indices are computed before they are compared, list comparison stops at the first non-equal pair).
  * `cmp`             : the same comparison with the panic outcome replaced by index 0. It is a proof
    device only: `Proofs/PlutusData.lean` shows `cmp? a b = some (cmp a b)` on values whose constructor
    tags are valid (`wfTag`), and all order laws are *stated* for `cmp?`.
  * `toItem` / `encode`: the `Encode` impls as construction of a CBOR concrete syntax tree with the
    minimal heads minicbor emits, byte strings longer than 64 bytes chunked (`chunks 64`).
  * `ofItem` / `decode`: the `Decode` impls read off the concrete syntax tree returned by the strict
    L1 parser (`Cbor.parseItem`) — a specification-level decoder. The byte-level transcription of the
    Rust decoder (minicbor primitives, tag-102 leniency included) is `Model/PlutusDataDec.lean`;
    `Proofs/PlutusDataDec.lean` proves that it returns what `ofItem` returns on every well-formed
    tree `ofItem` accepts. Trailing bytes after the first item are ignored (`minicbor::decode`).
-/
namespace PallasVerif.PlutusData
open PallasVerif.Cbor

inductive BigInt where
  | int (i : Int)
  | bigU (bs : Bytes)
  | bigN (bs : Bytes)
  deriving Repr, DecidableEq, Inhabited

inductive PData where
  | constr (tag : Nat) (any : Option Nat) (isDef : Bool) (fields : List PData)
  | map (isDef : Bool) (kvs : List (PData × PData))
  | array (isDef : Bool) (xs : List PData)
  | int (b : BigInt)
  | bytes (bs : Bytes)
  deriving Repr, Inhabited

/-! ## `Constr::constr_index` — `none` = panic -/

def constrIndex (tag : Nat) (any : Option Nat) : Option Nat :=
  if 121 ≤ tag ∧ tag ≤ 127 then some (tag - 121)
  else if 1280 ≤ tag ∧ tag ≤ 1400 then some (tag - 1280 + 7)
  else if tag = 102 then any
  else none

/-! ## `impl Ord for BigInt` -/

/-- `skip_while(|b| b == 0)` -/
def stripZeros : Bytes → Bytes
  | [] => []
  | b :: bs => if b = 0 then stripZeros bs else b :: bs

/-- the local `fn to_bytes`: (is negative, magnitude without leading zeros);
    `i128::abs().to_be_bytes()` is 16 bytes big endian -/
def BigInt.toBytes : BigInt → Bool × Bytes
  | .int i => (decide (i < 0), stripZeros (be 16 i.natAbs))
  | .bigU bs => (false, stripZeros bs)
  | .bigN bs => (true, stripZeros bs)

/-- `Vec<u8>::cmp` (lexicographic, a proper prefix is smaller) -/
def cmpBytes : Bytes → Bytes → Ordering
  | [], [] => .eq
  | [], _ :: _ => .lt
  | _ :: _, [] => .gt
  | a :: as, b :: bs =>
    match compare a.toNat b.toNat with
    | .eq => cmpBytes as bs
    | o => o

/-- magnitude comparison of two stripped byte strings: length first, then bytes -/
def cmpMag (l r : Bytes) : Ordering :=
  match compare l.length r.length with
  | .eq => cmpBytes l r
  | o => o

def cmpBig (a b : BigInt) : Ordering :=
  let l := a.toBytes
  let r := b.toBytes
  if l.2.isEmpty && r.2.isEmpty then .eq
  else if l.1 && !r.1 then .lt
  else if !l.1 && r.1 then .gt
  else if l.1 && r.1 then (cmpMag l.2 r.2).swap
  else cmpMag l.2 r.2

/-! ## `impl Ord for PlutusData` / `Constr` -/

mutual
/-- faithful comparison; `none` = the Rust panics (in `constr_index`) -/
def cmp? : PData → PData → Option Ordering
  | .constr t a _ fs, .constr t' a' _ fs' =>
    match constrIndex t a, constrIndex t' a' with
    | some i, some j =>
      match compare i j with
      | .eq => cmpList? fs fs'
      | o => some o
    | _, _ => none
  | .constr .., .map .. => some .lt
  | .constr .., .array .. => some .lt
  | .constr .., .int .. => some .lt
  | .constr .., .bytes .. => some .lt
  | .map .., .constr .. => some .gt
  | .array .., .constr .. => some .gt
  | .int .., .constr .. => some .gt
  | .bytes .., .constr .. => some .gt
  | .map _ kvs, .map _ kvs' => cmpKvs? kvs kvs'
  | .map .., .array .. => some .lt
  | .map .., .int .. => some .lt
  | .map .., .bytes .. => some .lt
  | .array .., .map .. => some .gt
  | .int .., .map .. => some .gt
  | .bytes .., .map .. => some .gt
  | .array _ xs, .array _ ys => cmpList? xs ys
  | .array .., .int .. => some .lt
  | .array .., .bytes .. => some .lt
  | .int .., .array .. => some .gt
  | .bytes .., .array .. => some .gt
  | .int a, .int b => some (cmpBig a b)
  | .int .., .bytes .. => some .lt
  | .bytes .., .int .. => some .gt
  | .bytes a, .bytes b => some (cmpBytes a b)
/-- `Vec<PlutusData>::cmp` -/
def cmpList? : List PData → List PData → Option Ordering
  | [], [] => some .eq
  | [], _ :: _ => some .lt
  | _ :: _, [] => some .gt
  | x :: xs, y :: ys =>
    match cmp? x y with
    | none => none
    | some .eq => cmpList? xs ys
    | some o => some o
/-- `Vec<(PlutusData, PlutusData)>::cmp` (tuples compare lexicographically) -/
def cmpKvs? : List (PData × PData) → List (PData × PData) → Option Ordering
  | [], [] => some .eq
  | [], _ :: _ => some .lt
  | _ :: _, [] => some .gt
  | (k, v) :: xs, (k', v') :: ys =>
    match cmp? k k' with
    | none => none
    | some .eq =>
      match cmp? v v' with
      | none => none
      | some .eq => cmpKvs? xs ys
      | some o => some o
    | some o => some o
end

/-- `constr_index` with the panic outcome replaced by 0 (proof device, see module doc) -/
def cidx (tag : Nat) (any : Option Nat) : Nat := (constrIndex tag any).getD 0

mutual
def cmp : PData → PData → Ordering
  | .constr t a _ fs, .constr t' a' _ fs' =>
    match compare (cidx t a) (cidx t' a') with
    | .eq => cmpList fs fs'
    | o => o
  | .constr .., .map .. => .lt
  | .constr .., .array .. => .lt
  | .constr .., .int .. => .lt
  | .constr .., .bytes .. => .lt
  | .map .., .constr .. => .gt
  | .array .., .constr .. => .gt
  | .int .., .constr .. => .gt
  | .bytes .., .constr .. => .gt
  | .map _ kvs, .map _ kvs' => cmpKvs kvs kvs'
  | .map .., .array .. => .lt
  | .map .., .int .. => .lt
  | .map .., .bytes .. => .lt
  | .array .., .map .. => .gt
  | .int .., .map .. => .gt
  | .bytes .., .map .. => .gt
  | .array _ xs, .array _ ys => cmpList xs ys
  | .array .., .int .. => .lt
  | .array .., .bytes .. => .lt
  | .int .., .array .. => .gt
  | .bytes .., .array .. => .gt
  | .int a, .int b => cmpBig a b
  | .int .., .bytes .. => .lt
  | .bytes .., .int .. => .gt
  | .bytes a, .bytes b => cmpBytes a b
def cmpList : List PData → List PData → Ordering
  | [], [] => .eq
  | [], _ :: _ => .lt
  | _ :: _, [] => .gt
  | x :: xs, y :: ys =>
    match cmp x y with
    | .eq => cmpList xs ys
    | o => o
def cmpKvs : List (PData × PData) → List (PData × PData) → Ordering
  | [], [] => .eq
  | [], _ :: _ => .lt
  | _ :: _, [] => .gt
  | (k, v) :: xs, (k', v') :: ys =>
    match cmp k k' with
    | .eq =>
      match cmp v v' with
      | .eq => cmpKvs xs ys
      | o => o
    | o => o
end

/-! ## well-formedness -/

mutual
/-- every constructor node carries a tag on which `constr_index` does not panic:
    121..127, 1280..1400, or 102 with `any_constructor` present -/
def wfTag : PData → Bool
  | .constr t a _ fs => (constrIndex t a).isSome && wfTagList fs
  | .map _ kvs => wfTagKvs kvs
  | .array _ xs => wfTagList xs
  | .int _ => true
  | .bytes _ => true
def wfTagList : List PData → Bool
  | [] => true
  | x :: xs => wfTag x && wfTagList xs
def wfTagKvs : List (PData × PData) → Bool
  | [] => true
  | (k, v) :: xs => wfTag k && wfTag v && wfTagKvs xs
end

def u64Bound : Nat := 18446744073709551616

def BigInt.fits : BigInt → Bool
  | .int i => decide (-(u64Bound : Int) ≤ i) && decide (i < (u64Bound : Int))
  | .bigU bs => decide (bs.length < u64Bound)
  | .bigN bs => decide (bs.length < u64Bound)

mutual
/-- the value inhabits the Rust types: `tag`, `any_constructor` are `u64`, `Int` is minicbor's
    65-bit integer (−2^64 ≤ i < 2^64), lengths fit the `u64` argument of a CBOR head -/
def fits : PData → Bool
  | .constr t a _ fs => decide (t < u64Bound) && decide (a.getD 0 < u64Bound) && decide (fs.length < u64Bound) && fitsList fs
  | .map _ kvs => decide (kvs.length < u64Bound) && fitsKvs kvs
  | .array _ xs => decide (xs.length < u64Bound) && fitsList xs
  | .int b => b.fits
  | .bytes bs => decide (bs.length < u64Bound)
def fitsList : List PData → Bool
  | [] => true
  | x :: xs => fits x && fitsList xs
def fitsKvs : List (PData × PData) → Bool
  | [] => true
  | (k, v) :: xs => fits k && fits v && fitsKvs xs
end

/-! ## encoder -/

/-- `slice.chunks(n)` for `n > 0` (fuel = length of the slice) -/
def chunksAux : Nat → Nat → Bytes → List Bytes
  | 0, _, _ => []
  | fuel + 1, n, bs => if bs.isEmpty then [] else bs.take n :: chunksAux fuel n (bs.drop n)

def chunks (n : Nat) (bs : Bytes) : List Bytes := chunksAux bs.length n bs

/-- `impl Encode for BoundedBytes` -/
def bbItem (bs : Bytes) : Item :=
  if bs.length ≤ 64 then mkBytes bs
  else .strIndef 2 ((chunks 64 bs).map fun c => (minHead 2 c.length, c))

/-- `impl Encode for BigInt` -/
def bigItem : BigInt → Item
  | .int i => mkInt i
  | .bigU bs => mkTag 2 (bbItem bs)
  | .bigN bs => mkTag 3 (bbItem bs)

/-- `impl Encode for MaybeIndefArray` -/
def arrItem (isDef : Bool) (xs : List Item) : Item :=
  if isDef then mkArray xs else .seqIndef 4 xs

mutual
def toItem : PData → Item
  | .constr t a df fs =>
    if t = 102 then mkTag t (mkArray [mkUInt (a.getD 0), arrItem df (toItems fs)])
    else mkTag t (arrItem df (toItems fs))
  | .map df kvs => if df then .seq (minHead 5 kvs.length) (toFlat kvs) else .seqIndef 5 (toFlat kvs)
  | .array df xs => arrItem df (toItems xs)
  | .int b => bigItem b
  | .bytes bs => bbItem bs
def toItems : List PData → List Item
  | [] => []
  | x :: xs => toItem x :: toItems xs
def toFlat : List (PData × PData) → List Item
  | [] => []
  | (k, v) :: xs => toItem k :: toItem v :: toFlat xs
end

def encode (d : PData) : Bytes := (toItem d).encode

/-! ## decoder -/

def isConstrTag (t : Nat) : Bool := (decide (121 ≤ t) && decide (t ≤ 127)) || (decide (1280 ≤ t) && decide (t ≤ 1400))

mutual
def ofItem : Item → Option PData
  | .atom h =>
    if h.major = 0 then some (.int (.int (Int.ofNat h.val)))
    else if h.major = 1 then some (.int (.int (-1 - Int.ofNat h.val)))
    else none
  | .str h bs => if h.major = 2 then some (.bytes bs) else none
  | .strIndef m cs => if m = 2 then some (.bytes (chunksPayload cs)) else none
  | .seq h xs =>
    if h.major = 4 then (ofItems xs).map (.array true) else (ofPairs xs).map (.map true)
  | .seqIndef m xs =>
    if m = 4 then (ofItems xs).map (.array false) else (ofPairs xs).map (.map false)
  | .tag h i =>
    if h.val = 2 then (i.strPayload? 2).map fun bs => .int (.bigU bs)
    else if h.val = 3 then (i.strPayload? 2).map fun bs => .int (.bigN bs)
    else if isConstrTag h.val then
      match i with
      | .seq h' xs => if h'.major = 4 then (ofItems xs).map (.constr h.val none true) else none
      | .seqIndef m xs => if m = 4 then (ofItems xs).map (.constr h.val none false) else none
      | _ => none
    else if h.val = 102 then
      match i with
      | .seq h' [a, f] =>
        if h'.major = 4 then
          match a.uint?, f with
          | some n, .seq h'' xs => if h''.major = 4 then (ofItems xs).map (.constr 102 (some n) true) else none
          | some n, .seqIndef m xs => if m = 4 then (ofItems xs).map (.constr 102 (some n) false) else none
          | _, _ => none
        else none
      | _ => none
    else none
def ofItems : List Item → Option (List PData)
  | [] => some []
  | x :: xs =>
    match ofItem x, ofItems xs with
    | some d, some ds => some (d :: ds)
    | _, _ => none
def ofPairs : List Item → Option (List (PData × PData))
  | [] => some []
  | [_] => none
  | k :: v :: xs =>
    match ofItem k, ofItem v, ofPairs xs with
    | some a, some b, some r => some ((a, b) :: r)
    | _, _, _ => none
end

/-- `minicbor::decode::<PlutusData>` : first item of the input, trailing bytes ignored -/
def decode (bs : Bytes) : Option PData :=
  match parseItem bs with
  | some (i, _) => ofItem i
  | none => none

/-! ## what decode normalises: `any_constructor` is `None` unless the tag is 102 -/

mutual
def normAny : PData → PData
  | .constr t a df fs => .constr t (if t = 102 then a else none) df (normAnyList fs)
  | .map df kvs => .map df (normAnyKvs kvs)
  | .array df xs => .array df (normAnyList xs)
  | .int b => .int b
  | .bytes bs => .bytes bs
def normAnyList : List PData → List PData
  | [] => []
  | x :: xs => normAny x :: normAnyList xs
def normAnyKvs : List (PData × PData) → List (PData × PData)
  | [] => []
  | (k, v) :: xs => (normAny k, normAny v) :: normAnyKvs xs
end

mutual
/-- forget the definite/indefinite encoding choice everywhere -/
def eraseDef : PData → PData
  | .constr t a _ fs => .constr t a true (eraseDefList fs)
  | .map _ kvs => .map true (eraseDefKvs kvs)
  | .array _ xs => .array true (eraseDefList xs)
  | .int b => .int b
  | .bytes bs => .bytes bs
def eraseDefList : List PData → List PData
  | [] => []
  | x :: xs => eraseDef x :: eraseDefList xs
def eraseDefKvs : List (PData × PData) → List (PData × PData)
  | [] => []
  | (k, v) :: xs => (eraseDef k, eraseDef v) :: eraseDefKvs xs
end

end PallasVerif.PlutusData
