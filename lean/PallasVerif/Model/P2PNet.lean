import PallasVerif.Model.P2PInitiator
/-
  C28: the initiator model composed with (a) the mini-protocol *specification* tables of
  DESIGN.md Appendix A (written from the Ouroboros network spec / CIP-164, not from the code) and
  (b) an abstract connection per peer with a specification-conformant responder.

  A link keeps what a real connection keeps in flight: the initiator's emitted-but-unconfirmed
  `Send`s (`unconfirmed`, confirmed FIFO by `Sent` events), the emitted messages the responder has
  not consumed yet (`toResp`), the responder's own view of the eight protocols (`w`), and its
  replies not yet delivered (`toInit`). A schedule interleaves commands with `connect`, `confirm`,
  `arrive`, `reply`, `deliver`, `drop`, `fail` steps in any order; the responder *observes a
  violation* when a message it consumes is not permitted by the specification in its current view.
-/
namespace PallasVerif.P2P

/-! ## specification (Appendix A), state classes only -/

inductive SHs where | propose | confirm | done deriving DecidableEq, Repr
inductive SKa where | client | server | done deriving DecidableEq, Repr
inductive SPs where | idle | busy | done deriving DecidableEq, Repr
inductive SBf where | idle | busy | streaming | done deriving DecidableEq, Repr
inductive SCs where | idle | canAwait | mustReply | intersect | done deriving DecidableEq, Repr
inductive STx where | init | idle | txIdsBlocking | txIdsNonBlocking | txs | done deriving DecidableEq, Repr
inductive SLn where | idle | busy | done deriving DecidableEq, Repr
inductive SLf where | idle | awaitingBlock | awaitingBlockTxs | done deriving DecidableEq, Repr

/-- the responder's (= the wire's) view of one connection -/
structure Wire where
  hs : SHs := .propose
  ka : SKa := .client
  ps : SPs := .idle
  bf : SBf := .idle
  cs : SCs := .idle
  tx : STx := .init
  ln : SLn := .idle
  lf : SLf := .idle
  deriving DecidableEq, Repr

/-! per protocol: `c*` = what the client (initiator) may send, `s*` = what the server (responder)
    may send, in a given state; anything not listed is a violation -/

def cHs : SHs → HsMsg → Option SHs
  | .propose, .propose _ => some .confirm
  | _, _ => none
def sHs : SHs → HsMsg → Option SHs
  | .confirm, .accept _ _ => some .done
  | .confirm, .refuse => some .done
  | .confirm, .queryReply => some .done
  | _, _ => none

def cKa : SKa → KaMsg → Option SKa
  | .client, .keepAlive _ => some .server
  | .client, .done => some .done
  | _, _ => none
def sKa : SKa → KaMsg → Option SKa
  | .server, .response _ => some .client
  | _, _ => none

def cPs : SPs → PsMsg → Option SPs
  | .idle, .shareRequest _ => some .busy
  | .idle, .done => some .done
  | _, _ => none
def sPs : SPs → PsMsg → Option SPs
  | .busy, .sharePeers _ => some .idle
  | _, _ => none

def cBf : SBf → BfMsg → Option SBf
  | .idle, .requestRange _ => some .busy
  | .idle, .clientDone => some .done
  | _, _ => none
def sBf : SBf → BfMsg → Option SBf
  | .busy, .startBatch => some .streaming
  | .busy, .noBlocks => some .idle
  | .streaming, .block _ => some .streaming
  | .streaming, .batchDone => some .idle
  | _, _ => none

def cCs : SCs → CsMsg → Option SCs
  | .idle, .requestNext => some .canAwait
  | .idle, .findIntersect => some .intersect
  | .idle, .done => some .done
  | _, _ => none
def sCs : SCs → CsMsg → Option SCs
  | .canAwait, .awaitReply => some .mustReply
  | .canAwait, .rollForward _ => some .idle
  | .canAwait, .rollBackward _ => some .idle
  | .mustReply, .rollForward _ => some .idle
  | .mustReply, .rollBackward _ => some .idle
  | .intersect, .intersectFound _ => some .idle
  | .intersect, .intersectNotFound => some .idle
  | _, _ => none

def cTx : STx → TxMsg → Option STx
  | .init, .init => some .idle
  | .txIdsBlocking, .replyTxIds => some .idle
  | .txIdsNonBlocking, .replyTxIds => some .idle
  | .txs, .replyTxs _ => some .idle
  | .txIdsBlocking, .done => some .done
  | _, _ => none
def sTx : STx → TxMsg → Option STx
  | .idle, .requestTxIds => some .txIdsBlocking
  | .idle, .requestTxs => some .txs
  | _, _ => none

def cLn : SLn → LnMsg → Option SLn
  | .idle, .requestNext => some .busy
  | .idle, .done => some .done
  | _, _ => none
def sLn : SLn → LnMsg → Option SLn
  | .busy, .blockAnnouncement => some .idle
  | .busy, .blockOffer => some .idle
  | .busy, .blockTxsOffer => some .idle
  | .busy, .votes => some .idle
  | _, _ => none

def cLf : SLf → LfMsg → Option SLf
  | .idle, .blockRequest _ => some .awaitingBlock
  | .idle, .blockTxsRequest _ => some .awaitingBlockTxs
  | .idle, .done => some .done
  | _, _ => none
def sLf : SLf → LfMsg → Option SLf
  | .awaitingBlock, .block => some .idle
  | .awaitingBlockTxs, .blockTxs => some .idle
  | _, _ => none

/-- messages the *initiator* (client agency) may send, per specification state -/
def clientStep (w : Wire) : Msg → Option Wire
  | .hs m => (cHs w.hs m).map (fun x => { w with hs := x })
  | .ka m => (cKa w.ka m).map (fun x => { w with ka := x })
  | .cs m => (cCs w.cs m).map (fun x => { w with cs := x })
  | .ps m => (cPs w.ps m).map (fun x => { w with ps := x })
  | .bf m => (cBf w.bf m).map (fun x => { w with bf := x })
  | .tx m => (cTx w.tx m).map (fun x => { w with tx := x })
  | .ln m => (cLn w.ln m).map (fun x => { w with ln := x })
  | .lf m => (cLf w.lf m).map (fun x => { w with lf := x })

/-- messages the *responder* (server agency) may send, per specification state -/
def serverStep (w : Wire) : Msg → Option Wire
  | .hs m => (sHs w.hs m).map (fun x => { w with hs := x })
  | .ka m => (sKa w.ka m).map (fun x => { w with ka := x })
  | .cs m => (sCs w.cs m).map (fun x => { w with cs := x })
  | .ps m => (sPs w.ps m).map (fun x => { w with ps := x })
  | .bf m => (sBf w.bf m).map (fun x => { w with bf := x })
  | .tx m => (sTx w.tx m).map (fun x => { w with tx := x })
  | .ln m => (sLn w.ln m).map (fun x => { w with ln := x })
  | .lf m => (sLf w.lf m).map (fun x => { w with lf := x })

/-- protocol index used by `reply` steps and by the per-protocol bookkeeping -/
inductive Proto where | hs | ka | cs | ps | bf | tx | ln | lf deriving DecidableEq, Repr

def Msg.proto : Msg → Proto
  | .hs _ => .hs | .ka _ => .ka | .cs _ => .cs | .ps _ => .ps | .bf _ => .bf | .tx _ => .tx
  | .ln _ => .ln | .lf _ => .lf

/-- the replies a conformant responder may choose from, in its current view -/
def replyChoices (w : Wire) (lastCookie : Nat) : Proto → List Msg
  | .hs => if w.hs = .confirm then [.hs (.accept 13 1), .hs (.accept 15 1), .hs .refuse, .hs .queryReply] else []
  | .ka => if w.ka = .server then [.ka (.response lastCookie)] else []
  | .ps => if w.ps = .busy then [.ps (.sharePeers []), .ps (.sharePeers [7, 8])] else []
  | .bf => if w.bf = .busy then [.bf .startBatch, .bf .noBlocks]
           else if w.bf = .streaming then [.bf (.block 9), .bf .batchDone] else []
  | .cs => if w.cs = .canAwait then [.cs .awaitReply, .cs (.rollForward 7), .cs (.rollBackward 3)]
           else if w.cs = .mustReply then [.cs (.rollForward 7), .cs (.rollBackward 3)]
           else if w.cs = .intersect then [.cs (.intersectFound 3), .cs .intersectNotFound] else []
  | .tx => []
  | .ln => if w.ln = .busy then [.ln .blockAnnouncement, .ln .blockOffer, .ln .blockTxsOffer, .ln .votes] else []
  | .lf => if w.lf = .awaitingBlock then [.lf .block]
           else if w.lf = .awaitingBlockTxs then [.lf .blockTxs] else []

/-! ## connections -/

structure Link where
  w : Wire := {}
  cookie : Nat := 0
  unconfirmed : List Msg := []
  toResp : List Msg := []
  toInit : List Msg := []
  deriving DecidableEq, Repr

inductive LinkSt where
  | down
  | pending            -- `Connect` emitted, connection not yet established
  | up (l : Link)
  deriving DecidableEq, Repr

/-- a violation as the responder observes it: peer, its view, the offending message -/
structure Observed where
  peer : Nat
  view : Wire
  msg : Msg
  deriving DecidableEq, Repr

structure Sys where
  st : St
  links : Nat → LinkSt := fun _ => .down
  observed : List Observed := []

def setLink (f : Nat → LinkSt) (p : Nat) (l : LinkSt) : Nat → LinkSt := fun q => if q = p then l else f q

/-- route the outputs of one initiator step into the links -/
def absorb (links : Nat → LinkSt) : List Out → Nat → LinkSt
  | [] => links
  | .connect p :: os =>
    absorb (match links p with | .down => setLink links p .pending | _ => links) os
  | .send p m :: os =>
    absorb (match links p with
      | .up l => setLink links p (.up { l with unconfirmed := l.unconfirmed ++ [m], toResp := l.toResp ++ [m] })
      | _ => links) os
  | _ :: os => absorb links os

/-- one initiator event, then route what it emitted -/
def feed (y : Sys) (e : Ev) : Option Sys :=
  match step y.st e with
  | none => none
  | some s' => some { y with st := s', links := absorb y.links s'.out }

/-- schedule steps -/
inductive Sched where
  | ev (e : Ev)                 -- an external command (`Ev` commands) — never an interface event
  | connect (p : Nat)           -- the pending connection is established: `Connected(p)`
  | confirm (p : Nat)           -- `Sent(p, m)` for the oldest unconfirmed `Send`
  | arrive (p : Nat)            -- the responder consumes the oldest message on the wire
  | reply (p : Nat) (x : Proto) (k : Nat)   -- the responder emits its `k`-th permitted reply on `x`
  | deliver (p : Nat) (n : Nat) -- `Recv(p, ..)` with the `n+1` oldest undelivered replies
  | drop (p : Nat)              -- the connection (or the attempt) ends: `Disconnected(p)`
  | fail (p : Nat)              -- `Error(p)`
  deriving Repr

def isCommand : Ev → Bool
  | .connected _ | .disconnected _ | .recv _ _ | .sent _ _ | .error _ => false
  | _ => true

def cookieOf : Msg → Nat → Nat
  | .ka (.keepAlive c), _ => c
  | _, c => c

/-- one schedule step; a step that does not apply in the current state is skipped -/
def sysStep (y : Sys) : Sched → Option Sys
  | .ev e => if isCommand e then feed y e else some y
  | .connect p =>
    match y.links p with
    | .pending => feed { y with links := setLink y.links p (.up {}) } (.connected p)
    | _ => some y
  | .confirm p =>
    match y.links p with
    | .up l =>
      match l.unconfirmed with
      | m :: rest => feed { y with links := setLink y.links p (.up { l with unconfirmed := rest }) } (.sent p m)
      | [] => some y
    | _ => some y
  | .arrive p =>
    match y.links p with
    | .up l =>
      match l.toResp with
      | m :: rest =>
        match clientStep l.w m with
        | some w' => some { y with links := setLink y.links p (.up { l with toResp := rest, w := w', cookie := cookieOf m l.cookie }) }
        | none => some { y with links := setLink y.links p (.up { l with toResp := rest }),
                                 observed := y.observed ++ [{ peer := p, view := l.w, msg := m }] }
      | [] => some y
    | _ => some y
  | .reply p x k =>
    match y.links p with
    | .up l =>
      match replyChoices l.w l.cookie x with
      | [] => some y
      | c :: cs =>
        let m := (c :: cs).getD (k % (cs.length + 1)) c
        match serverStep l.w m with
        | some w' => some { y with links := setLink y.links p (.up { l with w := w', toInit := l.toInit ++ [m] }) }
        | none => some y
    | _ => some y
  | .deliver p n =>
    match y.links p with
    | .up l =>
      match l.toInit with
      | [] => some y
      | ms => feed { y with links := setLink y.links p (.up { l with toInit := ms.drop (n + 1) }) } (.recv p (ms.take (n + 1)))
    | _ => some y
  | .drop p =>
    match y.links p with
    | .down => some y
    | _ => feed { y with links := setLink y.links p .down } (.disconnected p)
  | .fail p =>
    match y.links p with
    | .down => some y
    | _ => feed y (.error p)

def sysRun (y : Sys) : List Sched → Option Sys
  | [] => some y
  | a :: as => match sysStep y a with
    | none => none
    | some y' => sysRun y' as

def Sys.init (cfg : Cfg) : Sys := { st := St.init cfg }

/-! ## lock-step schedules (the domain of `initiator_conformant_partial`)

  Every step that feeds an event to the initiator is followed at once by the confirmation (`Sent`)
  of each `Send` it queued and by its arrival at the responder; replies, their delivery (in
  batches), commands, connection set-up, drops and errors are scheduled freely. -/

def advClient (v : Wire) : List Msg → Option Wire
  | [] => some v
  | m :: ms => match clientStep v m with
    | none => none
    | some v' => advClient v' ms

def advServer (v : Wire) : List Msg → Option Wire
  | [] => some v
  | m :: ms => match serverStep v m with
    | none => none
    | some v' => advServer v' ms

/-- the messages queued for peer `p`, in order -/
def sendsTo (p : Nat) : List Out → List Msg
  | [] => []
  | .send q m :: os => if q = p then m :: sendsTo p os else sendsTo p os
  | _ :: os => sendsTo p os

/-- confirm and deliver-to-the-responder every queued `Send`, in emission order -/
def settleOf : List Out → List Sched
  | [] => []
  | .send p _ :: os => .confirm p :: .arrive p :: settleOf os
  | _ :: os => settleOf os

def feedSettle (y : Sys) (e : Ev) : Option Sys :=
  match feed y e with
  | none => none
  | some y' => sysRun y' (settleOf y'.st.out)

inductive SStep where
  | cmd (e : Ev)
  | connect (p : Nat)
  | reply (p : Nat) (x : Proto) (k : Nat)
  | deliver (p : Nat) (n : Nat)
  | drop (p : Nat)
  | fail (p : Nat)
  deriving Repr

def syncStep (y : Sys) : SStep → Option Sys
  | .cmd e => if isCommand e then feedSettle y e else some y
  | .connect p =>
    match y.links p with
    | .pending => feedSettle { y with links := setLink y.links p (.up {}) } (.connected p)
    | _ => some y
  | .reply p x k => sysStep y (.reply p x k)
  | .deliver p n =>
    match y.links p with
    | .up l =>
      match l.toInit with
      | [] => some y
      | ms => feedSettle { y with links := setLink y.links p (.up { l with toInit := ms.drop (n + 1) }) } (.recv p (ms.take (n + 1)))
    | _ => some y
  | .drop p =>
    match y.links p with
    | .down => some y
    | _ => feedSettle { y with links := setLink y.links p .down } (.disconnected p)
  | .fail p =>
    match y.links p with
    | .down => some y
    | _ => feedSettle y (.error p)

def syncRun (y : Sys) : List SStep → Option Sys
  | [] => some y
  | a :: as => match syncStep y a with
    | none => none
    | some y' => syncRun y' as

/-- housekeeping iterates a map: no peer twice -/
def SStep.ok : SStep → Prop
  | .cmd (.housekeeping ord _) => ord.Nodup
  | .cmd (.idle ord _) => ord.Nodup
  | _ => True

end PallasVerif.P2P
