import PallasVerif.Model.P2PInitiator
/-
  C28: the initiator model composed with (a) the mini-protocol *specification* tables of
  DESIGN.md Appendix A (written from the Ouroboros network spec / CIP-164, not from the code) and
  (b) an abstract connection per peer with a specification-conformant responder.

  A link keeps what a real connection keeps in flight: the initiator's emitted-but-unconfirmed
  `Send`s (`unconfirmed`, confirmed FIFO by `Sent` events), the emitted messages the responder has
  not consumed yet (`toResp`), the responder's own view of the eight protocols (`w`), and its
  replies not yet delivered (`toInit`). A schedule interleaves commands with `connect`, `confirm`,
  `arrive`, `reply`, `deliver`, `drop`, `fail` steps in any order; the responder *observes a
  violation* when a message it consumes is not permitted by the specification in its current view.
-/
namespace PallasVerif.P2P

/-! ## specification (Appendix A), state classes only -/

inductive SHs where | propose | confirm | done deriving DecidableEq, Repr
inductive SKa where | client | server | done deriving DecidableEq, Repr
inductive SPs where | idle | busy | done deriving DecidableEq, Repr
inductive SBf where | idle | busy | streaming | done deriving DecidableEq, Repr
inductive SCs where | idle | canAwait | mustReply | intersect | done deriving DecidableEq, Repr
inductive STx where | init | idle | txIdsBlocking | txIdsNonBlocking | txs | done deriving DecidableEq, Repr
inductive SLn where | idle | busy | done deriving DecidableEq, Repr
inductive SLf where | idle | awaitingBlock | awaitingBlockTxs | done deriving DecidableEq, Repr

/-- the responder's (= the wire's) view of one connection -/
structure Wire where
  hs : SHs := .propose
  ka : SKa := .client
  ps : SPs := .idle
  bf : SBf := .idle
  cs : SCs := .idle
  tx : STx := .init
  ln : SLn := .idle
  lf : SLf := .idle
  deriving DecidableEq, Repr

/-- messages the *initiator* (client agency) may send, per specification state -/
def clientStep (w : Wire) : Msg → Option Wire
  | .hs (.propose _) => if w.hs = .propose then some { w with hs := .confirm } else none
  | .ka (.keepAlive _) => if w.ka = .client then some { w with ka := .server } else none
  | .ka .done => if w.ka = .client then some { w with ka := .done } else none
  | .ps (.shareRequest _) => if w.ps = .idle then some { w with ps := .busy } else none
  | .ps .done => if w.ps = .idle then some { w with ps := .done } else none
  | .bf (.requestRange _) => if w.bf = .idle then some { w with bf := .busy } else none
  | .bf .clientDone => if w.bf = .idle then some { w with bf := .done } else none
  | .cs .requestNext => if w.cs = .idle then some { w with cs := .canAwait } else none
  | .cs .findIntersect => if w.cs = .idle then some { w with cs := .intersect } else none
  | .cs .done => if w.cs = .idle then some { w with cs := .done } else none
  | .tx .init => if w.tx = .init then some { w with tx := .idle } else none
  | .tx .replyTxIds =>
    if w.tx = .txIdsBlocking ∨ w.tx = .txIdsNonBlocking then some { w with tx := .idle } else none
  | .tx (.replyTxs _) => if w.tx = .txs then some { w with tx := .idle } else none
  | .tx .done => if w.tx = .txIdsBlocking then some { w with tx := .done } else none
  | .ln .requestNext => if w.ln = .idle then some { w with ln := .busy } else none
  | .ln .done => if w.ln = .idle then some { w with ln := .done } else none
  | .lf (.blockRequest _) => if w.lf = .idle then some { w with lf := .awaitingBlock } else none
  | .lf (.blockTxsRequest _) => if w.lf = .idle then some { w with lf := .awaitingBlockTxs } else none
  | .lf .done => if w.lf = .idle then some { w with lf := .done } else none
  | _ => none

/-- messages the *responder* (server agency) may send, per specification state -/
def serverStep (w : Wire) : Msg → Option Wire
  | .hs (.accept _ _) | .hs .refuse | .hs .queryReply =>
    if w.hs = .confirm then some { w with hs := .done } else none
  | .ka (.response _) => if w.ka = .server then some { w with ka := .client } else none
  | .ps (.sharePeers _) => if w.ps = .busy then some { w with ps := .idle } else none
  | .bf .startBatch => if w.bf = .busy then some { w with bf := .streaming } else none
  | .bf .noBlocks => if w.bf = .busy then some { w with bf := .idle } else none
  | .bf (.block _) => if w.bf = .streaming then some w else none
  | .bf .batchDone => if w.bf = .streaming then some { w with bf := .idle } else none
  | .cs .awaitReply => if w.cs = .canAwait then some { w with cs := .mustReply } else none
  | .cs (.rollForward _) | .cs (.rollBackward _) =>
    if w.cs = .canAwait ∨ w.cs = .mustReply then some { w with cs := .idle } else none
  | .cs (.intersectFound _) | .cs .intersectNotFound =>
    if w.cs = .intersect then some { w with cs := .idle } else none
  | .tx .requestTxIds => if w.tx = .idle then some { w with tx := .txIdsBlocking } else none
  | .tx .requestTxs => if w.tx = .idle then some { w with tx := .txs } else none
  | .ln .blockAnnouncement | .ln .blockOffer | .ln .blockTxsOffer | .ln .votes =>
    if w.ln = .busy then some { w with ln := .idle } else none
  | .lf .block => if w.lf = .awaitingBlock then some { w with lf := .idle } else none
  | .lf .blockTxs => if w.lf = .awaitingBlockTxs then some { w with lf := .idle } else none
  | _ => none

/-- protocol index used by `reply` steps and by the per-protocol bookkeeping -/
inductive Proto where | hs | ka | cs | ps | bf | tx | ln | lf deriving DecidableEq, Repr

def Msg.proto : Msg → Proto
  | .hs _ => .hs | .ka _ => .ka | .cs _ => .cs | .ps _ => .ps | .bf _ => .bf | .tx _ => .tx
  | .ln _ => .ln | .lf _ => .lf

/-- the replies a conformant responder may choose from, in its current view -/
def replyChoices (w : Wire) (lastCookie : Nat) : Proto → List Msg
  | .hs => if w.hs = .confirm then [.hs (.accept 13 1), .hs (.accept 15 1), .hs .refuse, .hs .queryReply] else []
  | .ka => if w.ka = .server then [.ka (.response lastCookie)] else []
  | .ps => if w.ps = .busy then [.ps (.sharePeers []), .ps (.sharePeers [7, 8])] else []
  | .bf => if w.bf = .busy then [.bf .startBatch, .bf .noBlocks]
           else if w.bf = .streaming then [.bf (.block 9), .bf .batchDone] else []
  | .cs => if w.cs = .canAwait then [.cs .awaitReply, .cs (.rollForward 7), .cs (.rollBackward 3)]
           else if w.cs = .mustReply then [.cs (.rollForward 7), .cs (.rollBackward 3)]
           else if w.cs = .intersect then [.cs (.intersectFound 3), .cs .intersectNotFound] else []
  | .tx => []
  | .ln => if w.ln = .busy then [.ln .blockAnnouncement, .ln .blockOffer, .ln .blockTxsOffer, .ln .votes] else []
  | .lf => if w.lf = .awaitingBlock then [.lf .block]
           else if w.lf = .awaitingBlockTxs then [.lf .blockTxs] else []

/-! ## connections -/

structure Link where
  w : Wire := {}
  cookie : Nat := 0
  unconfirmed : List Msg := []
  toResp : List Msg := []
  toInit : List Msg := []
  deriving DecidableEq, Repr

inductive LinkSt where
  | down
  | pending            -- `Connect` emitted, connection not yet established
  | up (l : Link)
  deriving DecidableEq, Repr

/-- a violation as the responder observes it: peer, its view, the offending message -/
structure Observed where
  peer : Nat
  view : Wire
  msg : Msg
  deriving DecidableEq, Repr

structure Sys where
  st : St
  links : Nat → LinkSt := fun _ => .down
  observed : List Observed := []

def setLink (f : Nat → LinkSt) (p : Nat) (l : LinkSt) : Nat → LinkSt := fun q => if q = p then l else f q

/-- route the outputs of one initiator step into the links -/
def absorb (links : Nat → LinkSt) : List Out → Nat → LinkSt
  | [] => links
  | .connect p :: os =>
    absorb (match links p with | .down => setLink links p .pending | _ => links) os
  | .send p m :: os =>
    absorb (match links p with
      | .up l => setLink links p (.up { l with unconfirmed := l.unconfirmed ++ [m], toResp := l.toResp ++ [m] })
      | _ => links) os
  | _ :: os => absorb links os

/-- one initiator event, then route what it emitted -/
def feed (y : Sys) (e : Ev) : Option Sys :=
  match step y.st e with
  | none => none
  | some s' => some { y with st := s', links := absorb y.links s'.out }

/-- schedule steps -/
inductive Sched where
  | ev (e : Ev)                 -- an external command (`Ev` commands) — never an interface event
  | connect (p : Nat)           -- the pending connection is established: `Connected(p)`
  | confirm (p : Nat)           -- `Sent(p, m)` for the oldest unconfirmed `Send`
  | arrive (p : Nat)            -- the responder consumes the oldest message on the wire
  | reply (p : Nat) (x : Proto) (k : Nat)   -- the responder emits its `k`-th permitted reply on `x`
  | deliver (p : Nat) (n : Nat) -- `Recv(p, ..)` with the `n+1` oldest undelivered replies
  | drop (p : Nat)              -- the connection (or the attempt) ends: `Disconnected(p)`
  | fail (p : Nat)              -- `Error(p)`
  deriving Repr

def isCommand : Ev → Bool
  | .connected _ | .disconnected _ | .recv _ _ | .sent _ _ | .error _ => false
  | _ => true

def cookieOf : Msg → Nat → Nat
  | .ka (.keepAlive c), _ => c
  | _, c => c

/-- one schedule step; a step that does not apply in the current state is skipped -/
def sysStep (y : Sys) : Sched → Option Sys
  | .ev e => if isCommand e then feed y e else some y
  | .connect p =>
    match y.links p with
    | .pending => feed { y with links := setLink y.links p (.up {}) } (.connected p)
    | _ => some y
  | .confirm p =>
    match y.links p with
    | .up l =>
      match l.unconfirmed with
      | m :: rest => feed { y with links := setLink y.links p (.up { l with unconfirmed := rest }) } (.sent p m)
      | [] => some y
    | _ => some y
  | .arrive p =>
    match y.links p with
    | .up l =>
      match l.toResp with
      | m :: rest =>
        match clientStep l.w m with
        | some w' => some { y with links := setLink y.links p (.up { l with toResp := rest, w := w', cookie := cookieOf m l.cookie }) }
        | none => some { y with links := setLink y.links p (.up { l with toResp := rest }),
                                 observed := y.observed ++ [{ peer := p, view := l.w, msg := m }] }
      | [] => some y
    | _ => some y
  | .reply p x k =>
    match y.links p with
    | .up l =>
      match replyChoices l.w l.cookie x with
      | [] => some y
      | c :: cs =>
        let m := (c :: cs).getD (k % (cs.length + 1)) c
        match serverStep l.w m with
        | some w' => some { y with links := setLink y.links p (.up { l with w := w', toInit := l.toInit ++ [m] }) }
        | none => some y
    | _ => some y
  | .deliver p n =>
    match y.links p with
    | .up l =>
      match l.toInit with
      | [] => some y
      | ms => feed { y with links := setLink y.links p (.up { l with toInit := ms.drop (n + 1) }) } (.recv p (ms.take (n + 1)))
    | _ => some y
  | .drop p =>
    match y.links p with
    | .down => some y
    | _ => feed { y with links := setLink y.links p .down } (.disconnected p)
  | .fail p =>
    match y.links p with
    | .down => some y
    | _ => feed y (.error p)

def sysRun (y : Sys) : List Sched → Option Sys
  | [] => some y
  | a :: as => match sysStep y a with
    | none => none
    | some y' => sysRun y' as

def Sys.init (cfg : Cfg) : Sys := { st := St.init cfg }

end PallasVerif.P2P
