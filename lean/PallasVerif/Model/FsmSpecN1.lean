import PallasVerif.Model.Fsm
import PallasVerif.Model.FsmSpecN2
/-
  Specification tables of the nine mini-protocols of the original stack (pallas-network) that C23
  names, written by hand from DESIGN.md Appendix A (Ouroboros network specification), in the
  vocabulary of the Rust enums of `pallas-network/src/miniprotocols/*/protocol.rs`.

  The six node-to-node protocols use the same names in both stacks, so their tables are the ones of
  `FsmSpecN2` (the `carried` column plays no role here: the agents' states carry no message data).
  Local tx-monitor is written at the wire level: `MsgAwaitAcquire` is wire-identical to `MsgAcquire`
  (label 1), so `Acquire` is what the client may send in `Acquired`; the Rust variant `AwaitAcquire`
  (label 4, marked TODO in the codec) is not a message of the specification and is permitted nowhere.
  The code has one `Busy` state for the specification's three `StBusy(kind)`; at that granularity
  `Busy` admits each of the three replies (the reply kind is matched by the receiving *method*,
  which the agent model includes).
-/
namespace PallasVerif.FsmSpecN1
open PallasVerif.Fsm

def localstate : Spec where
  name := "localstate"
  states := [("Idle", .client), ("Acquiring", .server), ("Acquired", .client), ("Querying", .server), ("Done", .nobody)]
  msgs := ["Acquire", "Failure", "Acquired", "Query", "Result", "ReAcquire", "Release", "Done"]
  init := "Idle"
  trans := [
    ⟨"Idle", "Acquire", "Acquiring", []⟩,
    ⟨"Idle", "Done", "Done", []⟩,
    ⟨"Acquiring", "Acquired", "Acquired", []⟩,
    ⟨"Acquiring", "Failure", "Idle", []⟩,
    ⟨"Acquired", "Query", "Querying", []⟩,
    ⟨"Acquired", "ReAcquire", "Acquiring", []⟩,
    ⟨"Acquired", "Release", "Idle", []⟩,
    ⟨"Querying", "Result", "Acquired", []⟩
  ]

def localtxsubmission : Spec where
  name := "localtxsubmission"
  states := [("Idle", .client), ("Busy", .server), ("Done", .nobody)]
  msgs := ["SubmitTx", "AcceptTx", "RejectTx", "Done"]
  init := "Idle"
  trans := [
    ⟨"Idle", "SubmitTx", "Busy", []⟩,
    ⟨"Idle", "Done", "Done", []⟩,
    ⟨"Busy", "AcceptTx", "Idle", []⟩,
    ⟨"Busy", "RejectTx", "Idle", []⟩
  ]

def txmonitor : Spec where
  name := "txmonitor"
  states := [("Idle", .client), ("Acquiring", .server), ("Acquired", .client), ("Busy", .server), ("Done", .nobody)]
  msgs := ["Acquire", "AwaitAcquire", "Acquired", "RequestHasTx", "RequestNextTx", "RequestSizeAndCapacity",
           "ResponseHasTx", "ResponseNextTx", "ResponseSizeAndCapacity", "Release", "Done"]
  init := "Idle"
  trans := [
    ⟨"Idle", "Acquire", "Acquiring", []⟩,
    ⟨"Idle", "Done", "Done", []⟩,
    ⟨"Acquiring", "Acquired", "Acquired", []⟩,
    ⟨"Acquired", "Acquire", "Acquiring", []⟩,
    ⟨"Acquired", "RequestNextTx", "Busy", []⟩,
    ⟨"Acquired", "RequestHasTx", "Busy", []⟩,
    ⟨"Acquired", "RequestSizeAndCapacity", "Busy", []⟩,
    ⟨"Acquired", "Release", "Idle", []⟩,
    ⟨"Busy", "ResponseNextTx", "Acquired", []⟩,
    ⟨"Busy", "ResponseHasTx", "Acquired", []⟩,
    ⟨"Busy", "ResponseSizeAndCapacity", "Acquired", []⟩
  ]

/-- the nine protocols the property names -/
def specs : List Spec :=
  [FsmSpecN2.chainsync, FsmSpecN2.blockfetch, FsmSpecN2.txsubmission, FsmSpecN2.keepalive, FsmSpecN2.peersharing,
   FsmSpecN2.handshake, localstate, localtxsubmission, txmonitor]

end PallasVerif.FsmSpecN1
