/-
  Model of `pallas-hardano/src/storage/immutable/mod.rs`: `chunk_binary_search`,
  `iterate_till_point` (after `fix: hardano reports an exact point past the tip as not found`),
  `build_stack_of_chunk_names`, `read_blocks`, `read_blocks_from_point` (`Point::Specific` arm),
  `get_tip`.

  A database is the list of its chunks in ascending file-name order, the newest (still mutable)
  chunk included; a chunk is the list of items its `chunk::Reader` yields (`Model/ChunkReader.lean`
  models that reader from the index bytes; here an item is already a block, a read error, or
  bytes that do not decode as a block). A block is its (slot, header hash). The directory listing
  and file reads are outside the model.
-/
namespace PallasVerif.ImmutableDb

structure Block (H : Type) where
  slot : Nat
  hash : H
  deriving DecidableEq, Repr

/-- what the block iterator yields: `Ok(bytes)` that decode, `Err(_)`, `Ok(bytes)` that do not decode -/
inductive Item (H : Type) where
  | blk (b : Block H)
  | readErr
  | garbage
  deriving DecidableEq, Repr

inductive Err where
  | cannotFind   -- `Error::CannotFindBlock`
  | decode       -- `Error::CannotDecodeBlock`
  | read         -- `Error::ChunkReadError`
  | originMissing -- `Error::OriginMissing`
  deriving DecidableEq, Repr

inductive Res (α : Type) where
  | ok (a : α)
  | err (e : Err)
  | panic
  deriving DecidableEq, Repr

/-! ## `chunk_binary_search` -/

/-- the `while size > 0` loop; `fuel` bounds the iterations (running out stands for divergence
    and is reported as `panic`), slice indexing and `usize` subtraction are explicit panic sites -/
def bsLoop {α : Type} (chunks : List α) (cmp : α → Res Ordering) : Nat → Nat → Nat → Nat → Res (Option Nat)
  | 0, _, _, _ => .panic
  | fuel + 1, left, right, size =>
    if size > 0 then
      let mid := left + size / 2
      match chunks[mid]? with
      | none => .panic
      | some c =>
        match cmp c with
        | .err e => .err e
        | .panic => .panic
        | .ok .lt => if mid < left then .panic else bsLoop chunks cmp fuel left mid (mid - left)
        | .ok .gt => if right < mid + 1 then .panic else bsLoop chunks cmp fuel (mid + 1) right (right - (mid + 1))
        | .ok .eq => .ok (some mid)
    else if right < chunks.length then .ok (some right) else .ok none

def chunkBinarySearch {α : Type} (chunks : List α) (cmp : α → Res Ordering) : Res (Option Nat) :=
  bsLoop chunks cmp (chunks.length + 1) 0 chunks.length chunks.length

/-- `a.cmp(&b)` on `u64` -/
def cmpNat (a b : Nat) : Ordering := if a < b then .lt else if a = b then .eq else .gt

/-! ## `iterate_till_point` -/
section
variable {H : Type} [DecidableEq H]

/-- the acceptance test after the skip loop; an empty `block_hash` (`none`) is the fuzzy search -/
def accepts (slot : Nat) (hash : Option H) (b : Block H) : Bool :=
  match hash with
  | none => decide (b.slot ≥ slot)
  | some h => decide (b.hash = h) && decide (b.slot = slot)

/-- the loop with `cur` the block under `peek()` and `rest` what follows it in the iterator;
    returns what the returned iterator will yield -/
def tillLoop (slot : Nat) (hash : Option H) : Block H → List (Item H) → Res (List (Item H))
  | cur, rest =>
    if cur.slot < slot then
      match rest with
      | .blk d :: rest' => tillLoop slot hash d rest'
      | .garbage :: _ => .err .decode
      | .readErr :: _ => .ok rest
      | [] => if hash.isNone then .ok [] else .err .cannotFind
    else if accepts slot hash cur then .ok (.blk cur :: rest) else .err .cannotFind

def iterateTillPoint (items : List (Item H)) (slot : Nat) (hash : Option H) : Res (List (Item H)) :=
  match items with
  | .blk b :: rest => tillLoop slot hash b rest
  | .garbage :: _ => .err .decode
  | .readErr :: _ => .ok items
  | [] => .ok []

/-! ## the directory level -/

abbrev Chunk (H : Type) := List (Item H)

/-- `build_stack_of_chunk_names`: sorted names, newest popped, reversed (newest immutable first) -/
def stack (all : List (Chunk H)) : List (Chunk H) := all.dropLast.reverse

/-- `ChunkReaders` pops names from the end of its vector and the blocks are flattened -/
def readers (names : List (Chunk H)) : List (Item H) := names.reverse.flatten

/-- `read_blocks` -/
def readBlocks (all : List (Chunk H)) : List (Item H) := readers (stack all)

/-- the comparator of `read_blocks_from_point`: first block of the chunk against the slot -/
def chunkCmp (slot : Nat) (c : Chunk H) : Res Ordering :=
  match c with
  | [] => .ok .gt
  | .readErr :: _ => .err .read
  | .garbage :: _ => .err .decode
  | .blk b :: _ => .ok (cmpNat b.slot slot)

/-- `read_blocks_from_point(dir, Point::Specific(slot, hash))` -/
def readBlocksFromPoint (all : List (Chunk H)) (slot : Nat) (hash : Option H) : Res (List (Item H)) :=
  let names := stack all
  match chunkBinarySearch names (chunkCmp slot) with
  | .err e => .err e
  | .panic => .panic
  | .ok none => .err .cannotFind
  | .ok (some idx) => iterateTillPoint (readers (names.take (idx + 1))) slot hash

/-- `read_blocks_from_point(dir, Point::Origin)`: the whole chain, provided its first block is the
    genesis block (`slot() == 0 && number() == 0`, a predicate on the block here); an unreadable first
    item or an empty database is passed through -/
def readBlocksFromOrigin (isGenesis : Block H → Bool) (all : List (Chunk H)) : Res (List (Item H)) :=
  match readBlocks all with
  | .blk b :: rest => if isGenesis b then .ok (.blk b :: rest) else .err .originMissing
  | .garbage :: _ => .err .decode
  | items => .ok items

/-- `get_tip`: last item of the newest immutable chunk -/
def getTip (all : List (Chunk H)) : Res (Option (Block H)) :=
  match stack all with
  | [] => .ok none
  | c :: _ =>
    match c.getLast? with
    | none => .ok none
    | some (.blk b) => .ok (some b)
    | some .readErr => .err .read
    | some .garbage => .err .decode

/-! ## chunks whose files may fail to open

`chunk::read_blocks(dir, name)` itself fails when the primary index cannot be opened (empty file).
`ChunkReaders` is consumed through `.map_while(Result::ok)`: the first chunk that fails to open
ends the iteration silently; the comparator of `read_blocks_from_point` turns the failure into
`ChunkReadError`. A chunk is now `none` (does not open) or `some items`. -/

abbrev FChunk (H : Type) := Option (Chunk H)

/-- `ChunkReaders(..).map_while(Result::ok).flatten()` over a name stack (popped from the end) -/
def readersF (names : List (FChunk H)) : List (Item H) :=
  ((names.reverse.takeWhile Option.isSome).filterMap id).flatten

def stackF (all : List (FChunk H)) : List (FChunk H) := all.dropLast.reverse

def readBlocksF (all : List (FChunk H)) : List (Item H) := readersF (stackF all)

def chunkCmpF (slot : Nat) : FChunk H → Res Ordering
  | none => .err .read
  | some c => chunkCmp slot c

def readBlocksFromPointF (all : List (FChunk H)) (slot : Nat) (hash : Option H) : Res (List (Item H)) :=
  let names := stackF all
  match chunkBinarySearch names (chunkCmpF slot) with
  | .err e => .err e
  | .panic => .panic
  | .ok none => .err .cannotFind
  | .ok (some idx) => iterateTillPoint (readersF (names.take (idx + 1))) slot hash

def getTipF (all : List (FChunk H)) : Res (Option (Block H)) :=
  match stackF all with
  | [] => .ok none
  | none :: _ => .ok none
  | some c :: _ =>
    match c.getLast? with
    | none => .ok none
    | some (.blk b) => .ok (some b)
    | some .readErr => .err .read
    | some .garbage => .err .decode
end

end PallasVerif.ImmutableDb
