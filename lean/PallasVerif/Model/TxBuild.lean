/-
  Model of `pallas-txbuilder`: the `StagingTransaction` builder methods
  (`src/transaction/model.rs`) and `BuildConway::build_conway_raw` + `Output::build_babbage_raw`
  (`src/conway.rs`), as the code stands after the three `fix:` commits of C40 (zero quantities
  dropped, staged inputs deduplicated, missing ex-units reported as an error).

  Conventions.
  * `Hash<32>` / `Hash<28>` values are `Nat`s: the big-endian value of the fixed-width byte string.
    The derived `Ord` on `[u8; N]` is lexicographic, which for a fixed width is the order of that
    value, so `sort_unstable_by_key(|x| (x.transaction_id, x.index))` is a sort by the
    lexicographic order on `Nat × Nat`.
  * variable-length byte strings (asset names, addresses, datum / script / aux payloads) are
    `List Nat` (values < 256) and opaque apart from their length.
  * every `HashMap` is an association list with at most one entry per key; iteration order of a
    `HashMap` is unspecified in Rust, so wherever the code iterates one (scripts, datums,
    redeemers) the model's list order stands for *some* order and the stream compares sorted.
  * `Option<Vec<_>>` fields are plain lists: every method starts with `unwrap_or_default()` and
    `build` does the same, so `None` and `Some(vec![])` are indistinguishable.
  * CBOR decoding of caller-supplied payloads (`PlutusData::decode_fragment`,
    `NativeScript::decode_fragment`, `minicbor::decode::<AuxiliaryData>`) is a boolean carried
    with the payload (`ok`), i.e. a parameter of the model.
  * Rust panic sites are explicit: `+=` on `u64` / `i64` in `add_asset` / `mint_asset`
    (overflow-checked profile), `Vec::remove` out of range in `remove_output`, the
    `NonEmptySet::from_vec(..).unwrap()` on the datum list in `build`.
-/
namespace PallasVerif.TxBuild

abbrev Bytes := List Nat
scoped notation "Hash" => Nat

inductive Err where
  | assetName | script | datum | datumHash | netId
  /-- redeemer loop: `RedeemerTargetMissing`, `MissingExUnits`, `MalformedDatum` of a redeemer payload -/
  | target | exUnits | redeemerData
  deriving DecidableEq, Repr

inductive Res (α : Type) where
  | ok (a : α)
  | err (e : Err)
  | panic
  deriving Repr

/-- the `?` operator (a panic unwinds the same way) -/
def Res.bind {α β : Type} (r : Res α) (f : α → Res β) : Res β :=
  match r with
  | .ok a => f a
  | .err e => .err e
  | .panic => .panic

/-- `if c { return Err(e) }` -/
def failIf (c : Bool) (e : Err) : Res Unit := if c then .err e else .ok ()

/-- `TransactionInput`: (transaction id, index) -/
abbrev Inp := Hash × Nat

/-! ## association lists standing for `HashMap` -/
section AL
variable {κ ν : Type} [DecidableEq κ]

def alFind (m : List (κ × ν)) (k : κ) : Option ν :=
  match m with
  | [] => none
  | (k', v) :: t => if k' = k then some v else alFind t k

def alErase (m : List (κ × ν)) (k : κ) : List (κ × ν) := m.filter (fun e => decide (e.1 ≠ k))

/-- `insert` (replaces an existing entry) -/
def alInsert (m : List (κ × ν)) (k : κ) (v : ν) : List (κ × ν) := (k, v) :: alErase m k
end AL

/-! ## staged values -/

/-- a CBOR payload handed in by the caller, with whether pallas decodes it -/
structure Payload where
  bytes : Bytes
  ok : Bool
  deriving DecidableEq, Repr

/-- `ScriptKind`: 0 native, 1..3 Plutus V1..V3 -/
structure Script where
  kind : Nat
  body : Payload
  deriving DecidableEq, Repr

inductive Datum where
  | hash (b : Bytes)
  | inline (d : Payload)
  deriving DecidableEq, Repr

abbrev Assets (Q : Type) := List (Hash × List (Bytes × Q))

structure Output where
  addr : Bytes
  coin : Nat
  assets : Assets Nat
  datum : Option Datum
  script : Option Script
  deriving DecidableEq, Repr

inductive Purpose where
  | spend (i : Inp)
  | mint (p : Hash)
  deriving DecidableEq, Repr

structure Redeemer where
  data : Payload
  exUnits : Option (Nat × Nat)
  deriving DecidableEq, Repr

structure Staging where
  inputs : List Inp := []
  refInputs : List Inp := []
  outputs : List Output := []
  fee : Option Nat := none
  mint : Assets Int := []
  validFrom : Option Nat := none
  invalidFrom : Option Nat := none
  networkId : Option Nat := none
  collIns : List Inp := []
  collOut : Option Output := none
  signers : List Hash := []
  scripts : List (Hash × Script) := []
  datums : List (Hash × Payload) := []
  redeemers : List (Purpose × Redeemer) := []
  langViews : Option (List (Nat × List Int)) := none
  aux : Option Bytes := none
  deriving Repr

/-! ## builder methods -/

def u64Max : Nat := 2 ^ 64 - 1

/-- `*q += amount` on `u64` -/
def u64Add (a b : Nat) : Option Nat := if a + b ≤ u64Max then some (a + b) else none

/-- `*q += amount` on `i64` -/
def i64Add (a b : Int) : Option Int :=
  if -(2 ^ 63 : Int) ≤ a + b ∧ a + b < (2 ^ 63 : Int) then some (a + b) else none

/-- shared shape of `Output::add_asset` and `StagingTransaction::mint_asset`:
    `entry(policy).and_modify(|m| m.entry(name).and_modify(|q| *q += amount).or_insert(amount))
       .or_insert_with(|| {name: amount})` -/
def accumulate {Q : Type} (add : Q → Q → Option Q) (m : Assets Q) (p : Hash) (name : Bytes) (amount : Q) :
    Res (Assets Q) :=
  if name.length > 32 then .err .assetName else
  match alFind m p with
  | some pm =>
    match alFind pm name with
    | some q =>
      match add q amount with
      | some s => .ok (alInsert m p (alInsert pm name s))
      | none => .panic
    | none => .ok (alInsert m p (alInsert pm name amount))
  | none => .ok (alInsert m p [(name, amount)])

def Output.addAsset (o : Output) (p : Hash) (name : Bytes) (amount : Nat) : Res Output :=
  match accumulate u64Add o.assets p name amount with
  | .ok a => .ok { o with assets := a }
  | .err e => .err e
  | .panic => .panic

def Staging.input (s : Staging) (i : Inp) : Staging := { s with inputs := s.inputs ++ [i] }
def Staging.removeInput (s : Staging) (i : Inp) : Staging := { s with inputs := s.inputs.filter (fun x => decide (x ≠ i)) }
def Staging.referenceInput (s : Staging) (i : Inp) : Staging := { s with refInputs := s.refInputs ++ [i] }
def Staging.removeReferenceInput (s : Staging) (i : Inp) : Staging :=
  { s with refInputs := s.refInputs.filter (fun x => decide (x ≠ i)) }
def Staging.collateralInput (s : Staging) (i : Inp) : Staging := { s with collIns := s.collIns ++ [i] }
def Staging.removeCollateralInput (s : Staging) (i : Inp) : Staging :=
  { s with collIns := s.collIns.filter (fun x => decide (x ≠ i)) }
def Staging.output (s : Staging) (o : Output) : Staging := { s with outputs := s.outputs ++ [o] }

/-- `txouts.remove(index)` panics when `index >= len` -/
def Staging.removeOutput (s : Staging) (idx : Nat) : Res Staging :=
  if idx < s.outputs.length then .ok { s with outputs := s.outputs.eraseIdx idx } else .panic

def Staging.mintAsset (s : Staging) (p : Hash) (name : Bytes) (amount : Int) : Res Staging :=
  match accumulate i64Add s.mint p name amount with
  | .ok m => .ok { s with mint := m }
  | .err e => .err e
  | .panic => .panic

/-- `remove_mint_asset`: drop the name, and the policy when nothing is left under it -/
def Staging.removeMintAsset (s : Staging) (p : Hash) (name : Bytes) : Staging :=
  match alFind s.mint p with
  | some pm =>
    let pm' := alErase pm name
    if pm'.isEmpty then { s with mint := alErase s.mint p }
    else { s with mint := alInsert s.mint p pm' }
  | none => s

def Staging.disclosedSigner (s : Staging) (h : Hash) : Staging := { s with signers := s.signers ++ [h] }
def Staging.removeDisclosedSigner (s : Staging) (h : Hash) : Staging :=
  { s with signers := s.signers.filter (fun x => decide (x ≠ h)) }

/-- `script`: keyed by the language-tagged hash (`hash` = `Hasher::<224>::hash_tagged`, supplied) -/
def Staging.script (s : Staging) (hash : Hash) (sc : Script) : Staging :=
  { s with scripts := alInsert s.scripts hash sc }
def Staging.removeScript (s : Staging) (hash : Hash) : Staging := { s with scripts := alErase s.scripts hash }

/-- `datum`: keyed by `Hasher::<256>::hash_cbor(&datum)` (supplied) -/
def Staging.datum (s : Staging) (hash : Hash) (d : Payload) : Staging := { s with datums := alInsert s.datums hash d }
def Staging.removeDatum (s : Staging) (hash : Hash) : Staging := { s with datums := alErase s.datums hash }

/-- `add_language`: native is a no-op; PlutusV1..V3 ↦ key 0..2 -/
def Staging.addLanguage (s : Staging) (kind : Nat) (costs : List Int) : Staging :=
  if kind = 0 then s else
  { s with langViews := some (alInsert (s.langViews.getD []) (kind - 1) costs) }

def Staging.addRedeemer (s : Staging) (p : Purpose) (r : Redeemer) : Staging :=
  { s with redeemers := alInsert s.redeemers p r }
def Staging.removeRedeemer (s : Staging) (p : Purpose) : Staging := { s with redeemers := alErase s.redeemers p }

/-- `add_auxiliary_data`: ignored when the bytes do not decode -/
def Staging.addAux (s : Staging) (d : Payload) : Staging := if d.ok then { s with aux := some d.bytes } else s

/-! ## histories of builder calls -/

/-- one call of a public `StagingTransaction` method (`Option` arguments: set / clear) -/
inductive Op where
  | input (i : Inp) | removeInput (i : Inp)
  | referenceInput (i : Inp) | removeReferenceInput (i : Inp)
  | collateralInput (i : Inp) | removeCollateralInput (i : Inp)
  | output (o : Output) | removeOutput (idx : Nat)
  | fee (n : Option Nat) | validFrom (n : Option Nat) | invalidFrom (n : Option Nat) | networkId (n : Option Nat)
  | collateralOutput (o : Option Output)
  | mintAsset (p : Hash) (name : Bytes) (amount : Int) | removeMintAsset (p : Hash) (name : Bytes)
  | disclosedSigner (h : Hash) | removeDisclosedSigner (h : Hash)
  | script (hash : Hash) (sc : Script) | removeScript (hash : Hash)
  | datum (hash : Hash) (d : Payload) | removeDatum (hash : Hash)
  | addLanguage (kind : Nat) (costs : List Int)
  | addRedeemer (p : Purpose) (r : Redeemer) | removeRedeemer (p : Purpose)
  | addAux (d : Payload) | clearAux
  deriving Repr

def Staging.apply (s : Staging) : Op → Res Staging
  | .input i => .ok (s.input i)
  | .removeInput i => .ok (s.removeInput i)
  | .referenceInput i => .ok (s.referenceInput i)
  | .removeReferenceInput i => .ok (s.removeReferenceInput i)
  | .collateralInput i => .ok (s.collateralInput i)
  | .removeCollateralInput i => .ok (s.removeCollateralInput i)
  | .output o => .ok (s.output o)
  | .removeOutput idx => s.removeOutput idx
  | .fee n => .ok { s with fee := n }
  | .validFrom n => .ok { s with validFrom := n }
  | .invalidFrom n => .ok { s with invalidFrom := n }
  | .networkId n => .ok { s with networkId := n }
  | .collateralOutput o => .ok { s with collOut := o }
  | .mintAsset p name amount => s.mintAsset p name amount
  | .removeMintAsset p name => .ok (s.removeMintAsset p name)
  | .disclosedSigner h => .ok (s.disclosedSigner h)
  | .removeDisclosedSigner h => .ok (s.removeDisclosedSigner h)
  | .script hash sc => .ok (s.script hash sc)
  | .removeScript hash => .ok (s.removeScript hash)
  | .datum hash d => .ok (s.datum hash d)
  | .removeDatum hash => .ok (s.removeDatum hash)
  | .addLanguage kind costs => .ok (s.addLanguage kind costs)
  | .addRedeemer p r => .ok (s.addRedeemer p r)
  | .removeRedeemer p => .ok (s.removeRedeemer p)
  | .addAux d => .ok (s.addAux d)
  | .clearAux => .ok { s with aux := none }

/-- a history of builder calls; a call that returns an error or panics leaves the staging as it
    was (the caller still owns the previous value only if it cloned it — the harness does) -/
def Staging.applyAll (s : Staging) : List Op → Staging
  | [] => s
  | op :: ops =>
    match s.apply op with
    | .ok s' => s'.applyAll ops
    | _ => s.applyAll ops

/-! ## build -/

/-- lexicographic order on (transaction id, index) -/
def inpLe (a b : Inp) : Bool := decide (a.1 < b.1) || (decide (a.1 = b.1) && decide (a.2 ≤ b.2))

/-- sorting (`sort_unstable_by_key`, `BTreeMap` collection) as an insertion sort: for a total
    order whose ties are equal values every sorting algorithm returns the same list -/
def insertSorted {α : Type} (le : α → α → Bool) (x : α) : List α → List α
  | [] => [x]
  | y :: t => if le x y then x :: y :: t else y :: insertSorted le x t

def isort {α : Type} (le : α → α → Bool) : List α → List α
  | [] => []
  | x :: t => insertSorted le x (isort le t)

/-- `Vec::dedup`: consecutive equal elements collapse -/
def dedup {α : Type} [DecidableEq α] : List α → List α
  | [] => []
  | [a] => [a]
  | a :: b :: t => if a = b then dedup (b :: t) else a :: dedup (b :: t)

/-- `NonEmptySet::from_vec` -/
def fromVec {α : Type} (v : List α) : Option (List α) := if v.isEmpty then none else some v

/-- zero quantities cannot be written (`NonZeroInt` / `PositiveCoin`): they are dropped, and a
    policy with nothing left is dropped; the result is collected into a `BTreeMap` (sorted by policy;
    names are sorted by the stream when printing) -/
def nonZeroAssets {Q : Type} (isZero : Q → Bool) (m : Assets Q) : Assets Q :=
  isort (fun a b => decide (a.1 ≤ b.1))
    ((m.map (fun e => (e.1, e.2.filter (fun x => !isZero x.2)))).filter (fun e => !e.2.isEmpty))

structure BuiltOutput where
  addr : Bytes
  coin : Nat
  /-- `[]` = `Value::Coin` -/
  assets : Assets Nat
  datum : Option Datum
  script : Option Script
  deriving DecidableEq, Repr

/-- `Output::build_babbage_raw` -/
def Output.buildBabbageRaw (o : Output) : Res BuiltOutput :=
  let assets := nonZeroAssets (fun q => decide (q = 0)) o.assets
  (match o.datum with
    | some (.hash b) => failIf (b.length != 32) .datumHash
    | some (.inline d) => failIf (!d.ok) .datum
    | none => .ok ()).bind fun _ =>
  (match o.script with
    | some sc => failIf (sc.kind == 0 && !sc.body.ok) .script
    | none => .ok ()).bind fun _ =>
  .ok { addr := o.addr, coin := o.coin, assets, datum := o.datum, script := o.script }

/-- `.map(Output::build_babbage_raw).collect::<Result<Vec<_>, _>>()` -/
def buildOutputs : List Output → Res (List BuiltOutput)
  | [] => .ok []
  | o :: t => o.buildBabbageRaw.bind fun b => (buildOutputs t).bind fun bs => .ok (b :: bs)

/-- first script that fails to decode (native scripts only) -/
def scriptsErr (l : List (Hash × Script)) : Bool := l.any (fun e => e.2.kind = 0 && !e.2.body.ok)

structure BuiltRedeemer where
  /-- 0 spend, 1 mint -/
  tag : Nat
  index : Nat
  data : Bytes
  mem : Nat
  steps : Nat
  deriving DecidableEq, Repr

/-- `position(..).ok_or(RedeemerTargetMissing)` -/
def positionOf {α : Type} [DecidableEq α] (l : List α) (x : α) : Res Nat :=
  match l.findIdx? (fun y => decide (y = x)) with
  | some k => .ok k
  | none => .err .target

/-- one iteration of the redeemer loop -/
def buildRedeemer (inputs : List Inp) (policies : List Hash) (p : Purpose) (r : Redeemer) : Res BuiltRedeemer :=
  (match r.exUnits with
    | some ex => Res.ok ex
    | none => .err .exUnits).bind fun ex =>
  (failIf (!r.data.ok) .redeemerData).bind fun _ =>
  match p with
  | .spend i => (positionOf inputs i).bind fun k => .ok { tag := 0, index := k, data := r.data.bytes, mem := ex.1, steps := ex.2 }
  | .mint pid => (positionOf policies pid).bind fun k => .ok { tag := 1, index := k, data := r.data.bytes, mem := ex.1, steps := ex.2 }

def buildRedeemers (inputs : List Inp) (policies : List Hash) : List (Purpose × Redeemer) → Res (List BuiltRedeemer)
  | [] => .ok []
  | (p, r) :: t =>
    (buildRedeemer inputs policies p r).bind fun b => (buildRedeemers inputs policies t).bind fun bs => .ok (b :: bs)

structure BuiltTx where
  inputs : List Inp
  outputs : List BuiltOutput
  fee : Nat
  ttl : Option Nat
  validFrom : Option Nat
  /-- `[]` = field absent (same for the other list fields) -/
  mint : Assets Int
  collateral : List Inp
  signers : List Hash
  networkId : Option Nat
  collateralReturn : Option BuiltOutput
  refInputs : List Inp
  /-- `script_data_hash` is present -/
  scriptDataHash : Bool
  /-- `auxiliary_data_hash` is present -/
  auxDataHash : Bool
  /-- witness set: scripts by language (0 native .. 3 Plutus V3), datums, redeemers -/
  scripts : List (Nat × Bytes)
  datums : List Bytes
  redeemers : List BuiltRedeemer
  aux : Option Bytes
  deriving Repr

/-- `if !plutus_data.is_empty() { Some(KeepRaw::from(NonEmptySet::from_vec(..).unwrap())) } else { None }` -/
def witnessDatums (datums : List Bytes) : Res (List Bytes) :=
  if !datums.isEmpty then
    match fromVec datums with
    | some d => .ok d
    | none => .panic
  else .ok []

/-- `build_conway_raw` -/
def build (s : Staging) : Res BuiltTx :=
  let inputs := dedup (isort inpLe s.inputs)
  (buildOutputs s.outputs).bind fun outputs =>
  let mint : Assets Int := nonZeroAssets (fun q => decide (q = 0)) s.mint
  (match s.networkId with
    | some n => failIf (decide (n > 1)) .netId
    | none => .ok ()).bind fun _ =>
  (match s.collOut with
    | some o => o.buildBabbageRaw.bind fun b => .ok (some b)
    | none => .ok none).bind fun collateralReturn =>
  (failIf (scriptsErr s.scripts) .script).bind fun _ =>
  (failIf (s.datums.any (fun e => !e.2.ok)) .datum).bind fun _ =>
  let policies : List Nat := mint.map (fun (e : Nat × List (Bytes × Int)) => e.1)
  (buildRedeemers inputs policies s.redeemers).bind fun redeemers =>
  (witnessDatums (s.datums.map (fun (e : Nat × Payload) => e.2.bytes))).bind fun datums =>
  .ok {
    inputs, outputs
    fee := s.fee.getD 0
    ttl := s.invalidFrom
    validFrom := s.validFrom
    mint
    collateral := s.collIns
    signers := s.signers
    networkId := s.networkId
    collateralReturn
    refInputs := s.refInputs
    scriptDataHash := s.langViews.isSome
    auxDataHash := s.aux.isSome
    scripts := s.scripts.map (fun (e : Nat × Script) => (e.2.kind, e.2.body.bytes))
    datums
    redeemers
    aux := s.aux }

end PallasVerif.TxBuild
