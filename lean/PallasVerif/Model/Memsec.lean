/-!
# Model of `pallas-crypto/src/memsec.rs` — `memeq`, `memcmp`

Transcription, statement by statement, of the two constant-time comparison loops.
`i32` is `BitVec 32` (two's complement, `>>` on `i32` = arithmetic shift = `sshiftRight`,
`!` = `~~~`, `-`/`+` wrap — that no intermediate value overflows, so that the dev-profile
overflow check can never fire, is a theorem in `Props/C14.lean`), `u8` is `UInt8`.
The two raw pointers + `len` are two lists read at the same indices `0..len`; the
`assert!(len != 0)` is the explicit `none` (= panic) outcome.
-/
namespace PallasVerif.Memsec

/-- `ptr::read_volatile(v.add(i)) as i32` -/
def toI32 (b : UInt8) : BitVec 32 := BitVec.ofNat 32 b.toNat

/-- `let diff = val1 - val2;` -/
def diff (a b : UInt8) : BitVec 32 := toI32 a - toI32 b

/-- `((diff - 1) & !diff) >> 8` -/
def mask (d : BitVec 32) : BitVec 32 := ((d - 1) &&& ~~~d).sshiftRight 8

/-- `res = (res & (((diff - 1) & !diff) >> 8)) | diff;` -/
def step (res d : BitVec 32) : BitVec 32 := (res &&& mask d) ||| d

/-- `let res = ((res - 1) >> 8) + (res >> 8) + 1;` -/
def finalize (res : BitVec 32) : BitVec 32 := (res - 1).sshiftRight 8 + res.sshiftRight 8 + 1

/-- `res.cmp(&0)` on `i32` -/
def cmpZero (r : BitVec 32) : Ordering := compare r.toInt 0

/-- the accumulator after `for i in (0..len).rev() { … }` (last index first) -/
def memcmpAcc (a b : List UInt8) : BitVec 32 :=
  (a.zip b).reverse.foldl (fun res p => step res (diff p.1 p.2)) 0

/-- `memcmp(v1, v2, len)`; `none` = the `assert!(len != 0)` panic -/
def memcmp (a b : List UInt8) : Option Ordering :=
  if a.length = 0 then none else some (cmpZero (finalize (memcmpAcc a b)))

/-- `sum` after `for i in 0..len { sum |= val1 ^ val2 }` -/
def memeqAcc (a b : List UInt8) : UInt8 :=
  (a.zip b).foldl (fun sum p => sum ||| (p.1 ^^^ p.2)) 0

/-- `memeq(v1, v2, len)`; `none` = the `assert!(len != 0)` panic -/
def memeq (a b : List UInt8) : Option Bool :=
  if a.length = 0 then none else some (memeqAcc a b == 0)

end PallasVerif.Memsec
