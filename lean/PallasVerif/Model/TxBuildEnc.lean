import PallasVerif.Model.TxBuild
import PallasVerif.Gen.SchemaEra
/-
  The bytes of a built transaction, produced by the model itself: `pallas_tx.encode_fragment()` and
  `transaction_body.compute_hash()` of `build_conway_raw`.

  The built transaction (`TxBuild.BuiltTx`) is turned into the generic `Schema.Value` of C06's
  schema DSL and encoded with the *generated* era schemas `Gen.SchemaEra.conway_TransactionBody`,
  `conway_WitnessSet`, `alonzo_AuxiliaryData` (regenerated from pallas-primitives on every run) —
  i.e. by the model of minicbor-derive's encoders, not by a hand-written byte layout. Only the
  outermost `Tx` array (`#[derive(Encode)]`, four required fields) is assembled here by hand, so
  that the body's own encoding is visibly the first element.

  Caller payloads (datums, redeemer data, native scripts, auxiliary data) enter through the strict
  L1 parser: Plutus data as a verbatim item (`Schema.any`; pallas re-encodes the decoded value,
  which is the same bytes for a payload in the form its encoder writes), native scripts and
  auxiliary data through the schema decoder and back (what `decode_fragment` + re-encoding do).
-/
namespace PallasVerif.TxBuildEnc
open PallasVerif PallasVerif.TxBuild PallasVerif.Schema PallasVerif.Cbor

abbrev B8 := List UInt8

def fuel : Nat := 200

def hashBytes (w : Nat) (h : Nat) : B8 := Cbor.be w h

def inpV (i : Inp) : Value := .list [.bytes (hashBytes 32 i.1), .nat i.2]

/-- a payload as a parsed item (`none` when it is not exactly one well-formed item prefix) -/
def itemOf (b : TxBuild.Bytes) : Option Item := (parseItem (toU8 b)).map (·.1)

/-- Plutus data kept verbatim -/
def dataV (b : TxBuild.Bytes) : Option Value := (itemOf b).map .any

/-- `NativeScript::decode_fragment` then `KeepRaw::from` -/
def nativeV (b : TxBuild.Bytes) : Option Value :=
  match itemOf b with
  | some it => (dec Gen.SchemaEra.env fuel (.ref 1) it).map (fun v => .raw none v.strip)
  | none => none

def bytesLe (a b : B8) : Bool := bytesCmp a b != .gt

/-- `BTreeMap<AssetName, _>` / `BTreeMap<PolicyId, _>`: entries in key order -/
def namesV {Q : Type} (q : Q → Value) (names : List (TxBuild.Bytes × Q)) : Value :=
  .list ((isort (fun a b => bytesLe a.1 b.1) (names.map (fun e => (toU8 e.1, q e.2)))).map (fun e => .list [.bytes e.1, e.2]))

def assetsV {Q : Type} (q : Q → Value) (m : Assets Q) : Value :=
  .list (m.map (fun e => .list [.bytes (hashBytes 28 e.1), namesV q e.2]))

def mapOptL {α β : Type} (f : α → Option β) : List α → Option (List β)
  | [] => some []
  | a :: t => match f a, mapOptL f t with
    | some b, some bs => some (b :: bs)
    | _, _ => none

/-- `TransactionOutput::PostAlonzo(KeepRaw::from(..))` -/
def outputV (o : BuiltOutput) : Option Value :=
  let value : Value := if o.assets.isEmpty then .variant 0 [.nat o.coin] else .variant 1 [.nat o.coin, assetsV .nat o.assets]
  let datum : Option Value :=
    match o.datum with
    | none => some .none
    | some (.hash b) => some (.some (.raw none (.variant 0 [.bytes (toU8 b)])))
    | some (.inline p) => (dataV p.bytes).map (fun d => .some (.raw none (.variant 1 [.raw none d])))
  let script : Option Value :=
    match o.script with
    | none => some .none
    | some sc =>
      if sc.kind = 0 then (nativeV sc.body.bytes).map (fun n => .some (.variant 0 [n]))
      else some (.some (.variant sc.kind [.bytes (toU8 sc.body.bytes)]))
  match datum, script with
  | some d, some s => some (.variant 1 [.raw none (.list [.bytes (toU8 o.addr), value, d, s])])
  | _, _ => none

def optList (l : List Value) : Value := if l.isEmpty then .none else .some (.list l)
def optNat : Option Nat → Value
  | none => .none
  | some n => .some (.nat n)

/-- `AuxiliaryData` decoded from the staged bytes, as `KeepRaw::from` holds it -/
def auxValue (b : TxBuild.Bytes) : Option Value :=
  match itemOf b with
  | some it => (dec Gen.SchemaEra.env fuel Gen.SchemaEra.alonzo_AuxiliaryData it).map Value.strip
  | none => none

def auxItem (b : TxBuild.Bytes) : Option Item :=
  match auxValue b with
  | some v => enc Gen.SchemaEra.env fuel Gen.SchemaEra.alonzo_AuxiliaryData v
  | none => none

/-- `auxiliary_data.map(|ad| ad.compute_hash())`: BLAKE2b-256 of the re-encoded auxiliary data -/
def auxHash (aux : Option TxBuild.Bytes) : Option (Option B8) :=
  match aux with
  | none => some none
  | some b => (auxItem b).map (fun it => some (Blake2b.blake2b256 it.encode))

/-- the fields of `conway::TransactionBody` in declaration order -/
def bodyValue (t : BuiltTx) : Option Value :=
  match mapOptL outputV t.outputs, (match t.collateralReturn with | none => some Value.none | some o => (outputV o).map Value.some),
        auxHash t.aux with
  | some outs, some cr, some adh =>
    some (.list [
      .list (t.inputs.map inpV),                                     -- 0 inputs
      .list outs,                                                    -- 1 outputs
      .nat t.fee,                                                    -- 2 fee
      optNat t.ttl,                                                  -- 3 ttl
      .none,                                                         -- 4 certificates
      .none,                                                         -- 5 withdrawals
      (match adh with | none => .none | some h => .some (.bytes h)), -- 7 auxiliary_data_hash
      optNat t.validFrom,                                            -- 8 validity_interval_start
      (if t.mint.isEmpty then .none else .some (assetsV .int t.mint)), -- 9 mint
      (match t.scriptDataHash with | none => .none | some h => .some (.bytes (toU8 h))), -- 11
      optList (t.collateral.map inpV),                               -- 13 collateral
      optList (t.signers.map (fun h => .bytes (hashBytes 28 h))),    -- 14 required_signers
      (match t.networkId with | none => .none | some n => .some (.variant n [])), -- 15
      cr,                                                            -- 16 collateral_return
      .none,                                                         -- 17 total_collateral
      optList (t.refInputs.map inpV),                                -- 18 reference_inputs
      .none, .none, .none, .none])                                   -- 19..22
  | _, _, _ => none

def redeemerV (r : BuiltRedeemer) : Option Value :=
  (dataV r.data).map (fun d => .list [.variant r.tag [], .nat r.index, d, .list [.nat r.mem, .nat r.steps]])

def scriptsOf (t : BuiltTx) (kind : Nat) : List TxBuild.Bytes := (t.scripts.filter (fun e => e.1 = kind)).map (·.2)

/-- the fields of `conway::WitnessSet` in declaration order -/
def witnessValue (t : BuiltTx) : Option Value :=
  match mapOptL nativeV (scriptsOf t 0), mapOptL dataV t.datums, mapOptL redeemerV t.redeemers with
  | some natives, some datums, some rds =>
    let plutus (k : Nat) : Value := optList ((scriptsOf t k).map (fun b => .bytes (toU8 b)))
    some (.list [
      .none,                                                            -- 0 vkeywitness
      optList natives,                                                  -- 1 native_script
      .none,                                                            -- 2 bootstrap_witness
      plutus 1,                                                         -- 3 plutus_v1_script
      (if datums.isEmpty then .none else .some (.raw none (.list (datums.map (.raw none))))), -- 4 plutus_data
      (if rds.isEmpty then .none else .some (.raw none (.variant 0 [.list rds]))),            -- 5 redeemer
      plutus 2,                                                         -- 6
      plutus 3])                                                        -- 7
  | _, _, _ => none

def bodyItem (t : BuiltTx) : Option Item :=
  match bodyValue t with
  | some v => enc Gen.SchemaEra.env fuel Gen.SchemaEra.conway_TransactionBody v
  | none => none

def witnessItem (t : BuiltTx) : Option Item :=
  match witnessValue t with
  | some v => enc Gen.SchemaEra.env fuel Gen.SchemaEra.conway_WitnessSet v
  | none => none

/-- `Nullable<KeepRaw<AuxiliaryData>>` -/
def auxField (t : BuiltTx) : Option Item :=
  match t.aux with
  | none => some mkNull
  | some b => auxItem b

/-- `#[derive(Encode)] struct Tx { #[b(0)] body, #[n(1)] witness_set, #[n(2)] success, #[n(3)] aux }`:
    `array(4)` of the four fields; `success: true` -/
def txItem (t : BuiltTx) : Option Item :=
  match bodyItem t, witnessItem t, auxField t with
  | some b, some w, some a => some (mkArray [b, w, mkBool true, a])
  | _, _, _ => none

/-- `tx_bytes` -/
def txBytes (t : BuiltTx) : Option B8 :=
  match txItem t with
  | some it => if it.wf then some it.encode else none
  | none => none

/-- the body's own encoding -/
def bodyBytes (t : BuiltTx) : Option B8 := (bodyItem t).map Item.encode

/-- `tx_hash = transaction_body.compute_hash()` = BLAKE2b-256 of the body's encoding -/
def txId (t : BuiltTx) : Option B8 := (bodyBytes t).map Blake2b.blake2b256

/-- what a reader of `tx_bytes` takes as the body: the span of the first element of the outer array -/
def bodySpan (bs : B8) : Option B8 :=
  match parseItem bs with
  | some (.seq _ (b :: _), _) => some b.encode
  | _ => none

end PallasVerif.TxBuildEnc
