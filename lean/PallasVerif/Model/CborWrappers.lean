import PallasVerif.Model.Minicbor
/-
  Model of `pallas-codec/src/utils.rs` (+ `codec_by_datatype!` of `pallas-codec/src/lib.rs`): every
  wrapper's `Decode::decode` and `Encode::encode`, transcribed arm by arm over the minicbor
  primitives of `Model/Minicbor.lean`. Machine integers are `Nat`/`Int` (the decoders' range checks
  are in the primitives; the encoders' well-formedness side conditions are the `wf` predicates).
  `AnyUInt.dec` and `PositiveCoin.dec` are transcriptions of the code *after* the two `fix:` commits
  (`AnyUInt` dispatch on the initial byte; `PositiveCoin` rejects 0); the code as it was before is
  kept as `AnyUInt.decBefore` / `PositiveCoin.decBefore` for the witnesses in `Props/C03`, `Props/C04`.
-/
namespace PallasVerif.Wrappers
open PallasVerif.Cbor PallasVerif.Minicbor

/-- an `Encode` + `Decode` pair (`minicbor::to_vec` never fails on a `Vec` writer) -/
structure Codec (α : Type) where
  enc : α → Bytes
  dec : P α

/-! ### plain minicbor codecs used as parameters -/

def cU8 : Codec Nat := ⟨encUInt, u8⟩
def cU16 : Codec Nat := ⟨encUInt, u16⟩
def cU32 : Codec Nat := ⟨encUInt, u32⟩
def cU64 : Codec Nat := ⟨encUInt, u64⟩
def cI64 : Codec Int := ⟨encInt, i64⟩
def cBool : Codec Bool := ⟨encBool, Minicbor.bool⟩
/-- `Vec<T>` -/
def cVec {α : Type} (c : Codec α) : Codec (List α) := ⟨encVec c.enc, vec c.dec⟩
/-- `Option<T>` -/
def cOption {α : Type} (c : Codec α) : Codec (Option α) := ⟨encOption c.enc, option c.dec⟩
/-- `(A, B)` -/
def cPair {α β : Type} (a : Codec α) (b : Codec β) : Codec (α × β) := ⟨encTuple2 a.enc b.enc, tuple2 a.dec b.dec⟩

/-! ### `Bytes`, `Int` (`#[cbor(transparent)]` over `ByteVec` / `minicbor::data::Int`) -/

def cBytes : Codec Bytes := ⟨encBytes, Minicbor.bytes⟩
def cInt : Codec Int := ⟨encInt, Minicbor.int⟩

/-! ### `KeyValuePairs<K, V>` and `NonEmptyKeyValuePairs<K, V>` (identical codecs: the emptiness check
    of the latter is commented out in the source) -/

inductive KVP (κ ν : Type) where
  | defn (xs : List (κ × ν))
  | indef (xs : List (κ × ν))
  deriving Repr, DecidableEq

def KVP.items {κ ν : Type} : KVP κ ν → List (κ × ν)
  | .defn xs => xs
  | .indef xs => xs

def encPairs {κ ν : Type} (k : κ → Bytes) (v : ν → Bytes) (xs : List (κ × ν)) : Bytes :=
  concatMap (fun p => k p.1 ++ v p.2) xs

def KVP.enc {κ ν : Type} (k : Codec κ) (v : Codec ν) : KVP κ ν → Bytes
  | .defn xs => encMapHead xs.length ++ encPairs k.enc v.enc xs
  | .indef xs => encBeginMap ++ encPairs k.enc v.enc xs ++ encEnd

def KVP.dec {κ ν : Type} (k : Codec κ) (v : Codec ν) : P (KVP κ ν) := fun cur =>
  match datatype cur with
  | .error e => .err e
  | .ok t =>
    (mapIter k.dec v.dec cur).andThen fun items r =>
      if t = .map then .ok (.defn items) r
      else if t = .mapIndef then .ok (.indef items) r
      else .err .msg

def cKVP {κ ν : Type} (k : Codec κ) (v : Codec ν) : Codec (KVP κ ν) := ⟨KVP.enc k v, KVP.dec k v⟩

/-! ### `MaybeIndefArray<A>` -/

inductive MaybeIndef (α : Type) where
  | defn (xs : List α)
  | indef (xs : List α)
  deriving Repr, DecidableEq

def MaybeIndef.items {α : Type} : MaybeIndef α → List α
  | .defn xs => xs
  | .indef xs => xs

def MaybeIndef.enc {α : Type} (a : Codec α) : MaybeIndef α → Bytes
  | .defn xs => encVec a.enc xs
  | .indef xs => encBeginArray ++ concatMap a.enc xs ++ encEnd

def MaybeIndef.dec {α : Type} (a : Codec α) : P (MaybeIndef α) := fun cur =>
  match datatype cur with
  | .error e => .err e
  | .ok t =>
    if t = .array then (vec a.dec cur).map .defn
    else if t = .arrayIndef then (vec a.dec cur).map .indef
    else .err .msg

def cMaybeIndef {α : Type} (a : Codec α) : Codec (MaybeIndef α) := ⟨MaybeIndef.enc a, MaybeIndef.dec a⟩

/-! ### `OrderPreservingProperties<P>` -/

def OPP.enc {α : Type} (p : Codec α) (xs : List α) : Bytes := encMapHead xs.length ++ concatMap p.enc xs

/-- `d.map()?.unwrap_or_default()`: an indefinite map head yields length 0 (nothing more is read) -/
def OPP.dec {α : Type} (p : Codec α) : P (List α) := fun cur =>
  (map cur).andThen fun len r => repeatN p.dec (len.getD 0) r

def cOPP {α : Type} (p : Codec α) : Codec (List α) := ⟨OPP.enc p, OPP.dec p⟩

/-! ### `CborWrap<T>` -/

def CborWrap.enc {α : Type} (t : Codec α) (a : α) : Bytes := encTag 24 ++ encBytes (t.enc a)

/-- any tag number is accepted; the inner value is decoded by a fresh decoder over the byte
    string (trailing bytes inside the string are ignored) -/
def CborWrap.dec {α : Type} (t : Codec α) : P α := fun cur =>
  (tag cur).andThen fun _ r =>
    (Minicbor.bytes r).andThen fun inner r' =>
      match t.dec inner with
      | .ok a _ => .ok a r'
      | .err e => .err e

def cCborWrap {α : Type} (t : Codec α) : Codec α := ⟨CborWrap.enc t, CborWrap.dec t⟩

/-! ### `TagWrap<I, T>` -/

def TagWrap.enc {α : Type} (tg : Nat) (i : Codec α) (a : α) : Bytes := encTag tg ++ i.enc a
/-- the tag number read is not compared with `T` -/
def TagWrap.dec {α : Type} (i : Codec α) : P α := fun cur => (tag cur).andThen fun _ r => i.dec r
def cTagWrap {α : Type} (tg : Nat) (i : Codec α) : Codec α := ⟨TagWrap.enc tg i, TagWrap.dec i⟩

/-! ### `EmptyMap` -/

def EmptyMap.enc : Unit → Bytes := fun _ => encMapHead 0
/-- `d.skip()`: whatever single item is there -/
def EmptyMap.dec : P Unit := skip
def cEmptyMap : Codec Unit := ⟨EmptyMap.enc, EmptyMap.dec⟩

/-! ### `ZeroOrOneArray<T>` -/

def ZeroOrOne.enc {α : Type} (t : Codec α) : Option α → Bytes
  | some x => encArrayHead 1 ++ t.enc x
  | none => encArrayHead 0

def ZeroOrOne.dec {α : Type} (t : Codec α) : P (Option α) := fun cur =>
  (array cur).andThen fun len r =>
    match len with
    | some 0 => .ok none r
    | some 1 => (t.dec r).map some
    | some _ => .err .msg
    | none => .err .msg

def cZeroOrOne {α : Type} (t : Codec α) : Codec (Option α) := ⟨ZeroOrOne.enc t, ZeroOrOne.dec t⟩

/-! ### `Set<T>` and `NonEmptySet<T>` (identical codecs: the emptiness check is commented out) -/

def tagSet : Nat := 258

def Set.enc {α : Type} (t : Codec α) (xs : List α) : Bytes := encTag tagSet ++ encVec t.enc xs

def Set.dec {α : Type} (t : Codec α) : P (List α) := fun cur =>
  match datatype cur with
  | .error e => .err e
  | .ok ty =>
    if ty = .tag then
      (tag cur).andThen fun found r => if found ≠ tagSet then .err .msg else vec t.dec r
    else vec t.dec cur

def cSet {α : Type} (t : Codec α) : Codec (List α) := ⟨Set.enc t, Set.dec t⟩

/-! ### `AnyUInt` -/

inductive AnyUInt where
  | majorByte (x : Nat)
  | u8 (x : Nat)
  | u16 (x : Nat)
  | u32 (x : Nat)
  | u64 (x : Nat)
  deriving Repr, DecidableEq, Inhabited

/-- the Rust field types: `MajorByte(u8)`, `U8(u8)`, `U16(u16)`, `U32(u32)`, `U64(u64)` -/
def AnyUInt.inRange : AnyUInt → Prop
  | .majorByte x => x < 256
  | .u8 x => x < 256
  | .u16 x => x < 65536
  | .u32 x => x < 4294967296
  | .u64 x => x < 18446744073709551616

/-- the invariant the encoder relies on: a `MajorByte` is an immediate value (`0..=0x17`) -/
def AnyUInt.wf : AnyUInt → Prop
  | .majorByte x => x < 24
  | a => a.inRange

instance : DecidablePred AnyUInt.inRange := fun a => by cases a <;> unfold AnyUInt.inRange <;> exact inferInstance
instance : DecidablePred AnyUInt.wf := fun a => by cases a <;> unfold AnyUInt.wf <;> exact inferInstance

def AnyUInt.val : AnyUInt → Nat
  | .majorByte x | .u8 x | .u16 x | .u32 x | .u64 x => x

/-- raw writes: `x.to_be_bytes()` after the fixed initial byte -/
def AnyUInt.enc : AnyUInt → Bytes
  | .majorByte x => be 1 x
  | .u8 x => 24 :: be 1 x
  | .u16 x => 25 :: be 2 x
  | .u32 x => 26 :: be 4 x
  | .u64 x => 27 :: be 8 x

/-- after `fix: AnyUInt keeps the one-byte-argument form`: `Type::U8` covers `0x00..=0x18`, the
    variant is chosen by whether the initial byte is `0x18` -/
def AnyUInt.dec : P AnyUInt := fun cur =>
  match datatype cur with
  | .error e => .err e
  | .ok t =>
    if t = .u8 then
      let oneByteArg := decide (cur.head? = some 0x18)
      (Minicbor.u8 cur).map fun x => if oneByteArg then .u8 x else .majorByte x
    else if t = .u16 then (Minicbor.u16 cur).map .u16
    else if t = .u32 then (Minicbor.u32 cur).map .u32
    else if t = .u64 then (Minicbor.u64 cur).map .u64
    else .err .msg

/-- the decoder before the fix: the variant was chosen by the *value* -/
def AnyUInt.decBefore : P AnyUInt := fun cur =>
  match datatype cur with
  | .error e => .err e
  | .ok t =>
    if t = .u8 then (Minicbor.u8 cur).map fun x => if x ≤ 0x17 then .majorByte x else .u8 x
    else if t = .u16 then (Minicbor.u16 cur).map .u16
    else if t = .u32 then (Minicbor.u32 cur).map .u32
    else if t = .u64 then (Minicbor.u64 cur).map .u64
    else .err .msg

def cAnyUInt : Codec AnyUInt := ⟨AnyUInt.enc, AnyUInt.dec⟩

/-! ### `PositiveCoin`, `NonZeroInt` -/

def PositiveCoin.enc (n : Nat) : Bytes := encUInt n
/-- after `fix: PositiveCoin rejects zero when decoding` -/
def PositiveCoin.dec : P Nat := fun cur =>
  (Minicbor.u64 cur).andThen fun n r => if n = 0 then .err .msg else .ok n r
/-- before the fix: `#[derive(Decode)] #[cbor(transparent)]` over `u64` -/
def PositiveCoin.decBefore : P Nat := Minicbor.u64
def cPositiveCoin : Codec Nat := ⟨PositiveCoin.enc, PositiveCoin.dec⟩

def NonZeroInt.enc (i : Int) : Bytes := encInt i
def NonZeroInt.dec : P Int := fun cur =>
  (Minicbor.i64 cur).andThen fun n r => if n = 0 then .err .msg else .ok n r
def cNonZeroInt : Codec Int := ⟨NonZeroInt.enc, NonZeroInt.dec⟩

/-- `PositiveCoin::try_from(u64)` / `NonZeroInt::try_from(i64)`: the checked constructors -/
def PositiveCoin.tryFrom (n : Nat) : Option Nat := if n = 0 then none else some n
def NonZeroInt.tryFrom (i : Int) : Option Int := if i = 0 then none else some i

/-! ### `KeepRaw<'b, T>` -/

/-- `Cow<'b, [u8]>`: borrowed from the decoder's input, or owned -/
inductive Cow where
  | borrowed (bs : Bytes)
  | owned (bs : Bytes)
  deriving Repr, DecidableEq

def Cow.bytes : Cow → Bytes
  | .borrowed bs => bs
  | .owned bs => bs

structure KeepRaw (α : Type) where
  cow : Cow
  inner : α
  deriving Repr, DecidableEq

/-- `raw_cbor()`: `&self.raw` -/
def KeepRaw.raw {α : Type} (k : KeepRaw α) : Bytes := k.cow.bytes

/-- `impl From<T> for KeepRaw`: `raw: Cow::from(vec![])` (owned, empty) -/
def KeepRaw.from {α : Type} (a : α) : KeepRaw α := ⟨.owned [], a⟩
/-- `clear_raw`: `self.raw = Cow::from(vec![])` -/
def KeepRaw.clearRaw {α : Type} (k : KeepRaw α) : KeepRaw α := { k with cow := .owned [] }
/-- `to_owned`: `raw: Cow::Owned(self.raw.into_owned())` — same bytes, detached from the input -/
def KeepRaw.toOwned {α : Type} (k : KeepRaw α) : KeepRaw α := { k with cow := .owned k.raw }
/-- `#[derive(Clone)]`: a `Cow` clones to the same variant with the same bytes -/
def KeepRaw.clone {α : Type} (k : KeepRaw α) : KeepRaw α := k
/-- `unwrap` -/
def KeepRaw.unwrap {α : Type} (k : KeepRaw α) : α := k.inner
/-- `deref_mut` (always `clear_raw()` first) followed by the caller's mutation `f` of `&mut T` -/
def KeepRaw.derefMut {α : Type} (k : KeepRaw α) (f : α → α) : KeepRaw α :=
  let k' := k.clearRaw
  { k' with inner := f k'.inner }

/-- the public operations that take a `KeepRaw` to a `KeepRaw` -/
inductive KOp (α : Type) where
  | toOwned | clone | deref | clearRaw
  | derefMut (f : α → α)

def KOp.apply {α : Type} : KOp α → KeepRaw α → KeepRaw α
  | .toOwned, k => k.toOwned
  | .clone, k => k.clone
  | .deref, k => k
  | .clearRaw, k => k.clearRaw
  | .derefMut f, k => k.derefMut f

/-- does the operation invalidate the raw bytes -/
def KOp.invalidates {α : Type} : KOp α → Bool
  | .clearRaw | .derefMut _ => true
  | _ => false

/-- a history of operations, oldest first -/
def KeepRaw.run {α : Type} (k : KeepRaw α) (ops : List (KOp α)) : KeepRaw α := ops.foldl (fun k o => o.apply k) k

def KeepRaw.enc {α : Type} (t : Codec α) (k : KeepRaw α) : Bytes :=
  if k.raw.isEmpty then t.enc k.inner else k.raw

/-- `raw = Cow::Borrowed(&all[start..end])` -/
def KeepRaw.dec {α : Type} (t : Codec α) : P (KeepRaw α) := fun cur =>
  match t.dec cur with
  | .ok a rest => .ok ⟨.borrowed (span cur rest), a⟩ rest
  | .err e => .err e

def cKeepRaw {α : Type} (t : Codec α) : Codec (KeepRaw α) := ⟨KeepRaw.enc t, KeepRaw.dec t⟩

/-! ### `AnyCbor` -/

def AnyCbor.enc (inner : Bytes) : Bytes := inner
def AnyCbor.dec : P Bytes := fun cur =>
  match skip cur with
  | .ok _ rest => .ok (span cur rest) rest
  | .err e => .err e
def cAnyCbor : Codec Bytes := ⟨AnyCbor.enc, AnyCbor.dec⟩

/-! ### `Nullable<T>` -/

inductive Nullable (α : Type) where
  | some (a : α)
  | null
  | undefined
  deriving Repr, DecidableEq

def Nullable.enc {α : Type} (t : Codec α) : Nullable α → Bytes
  | .some x => t.enc x
  | .null => encNull
  | .undefined => encUndefined

def Nullable.dec {α : Type} (t : Codec α) : P (Nullable α) := fun cur =>
  match datatype cur with
  | .error e => .err e
  | .ok ty =>
    if ty = .null then (Minicbor.null cur).map fun _ => .null
    else if ty = .undefined then (Minicbor.undefined cur).map fun _ => .undefined
    else (t.dec cur).map .some

def cNullable {α : Type} (t : Codec α) : Codec (Nullable α) := ⟨Nullable.enc t, Nullable.dec t⟩

/-! ### `codec_by_datatype!`

  `$enum_name` with single-payload variants, each selected by a set of `Type`s, and an optional
  many-field variant selected by `Type::Array` (tried *first*). A variant is given here by the
  predicate on the datatype and its payload decoder already mapped into the enum `γ`. -/

structure Arm (γ : Type) where
  types : DType → Bool
  dec : P γ

def byDatatypeArms {γ : Type} : List (Arm γ) → DType → P γ
  | [], _ => fun _ => .err .msg
  | a :: as, t => if a.types t then a.dec else byDatatypeArms as t

/-- `many` = the decoder of the fields after `d.array()?` (any array head, the length is not checked) -/
def byDatatype {γ : Type} (many : Option (P γ)) (arms : List (Arm γ)) : P γ := fun cur =>
  match datatype cur with
  | .error e => .err e
  | .ok t =>
    match many with
    | some m => if t = .array then (array cur).andThen fun _ r => m r else byDatatypeArms arms t cur
    | none => byDatatypeArms arms t cur

/-- an instance of the macro, the harness enum `Thing`: `codec_by_datatype! { U8|U16|U32|U64 => Coin, Bool => Flag, Bytes => Blob, (a, b => Multi) }` -/
inductive Thing where
  | coin (a : AnyUInt) | flag (b : Bool) | blob (b : Bytes) | multi (a : AnyUInt) (n : Nullable Nat)

def Thing.enc : Thing → Bytes
  | .coin a => AnyUInt.enc a
  | .flag b => encBool b
  | .blob b => encBytes b
  | .multi a n => encArrayHead 2 ++ AnyUInt.enc a ++ Nullable.enc cU64 n

def Thing.dec : P Thing :=
  byDatatype
    (some fun cur => (AnyUInt.dec cur).andThen fun a r => (Nullable.dec cU64 r).map fun n => Thing.multi a n)
    [⟨fun t => t == .u8 || t == .u16 || t == .u32 || t == .u64, fun cur => (AnyUInt.dec cur).map .coin⟩,
     ⟨fun t => t == .bool, fun cur => (Minicbor.bool cur).map .flag⟩,
     ⟨fun t => t == .bytes, fun cur => (Minicbor.bytes cur).map .blob⟩]


end PallasVerif.Wrappers
