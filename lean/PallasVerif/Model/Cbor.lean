/-
  L1 — CBOR (RFC 8949) at the level of *concrete syntax*: a tree that keeps every encoding
  choice (argument width, definite / indefinite length, chunking), its encoder and a strict
  parser. Well-formed byte strings and well-formed trees are in bijection
  (`Proofs/Cbor.lean`), which is what "re-encodes to exactly the same bytes", "exactly one
  well-formed data item" and "the original on-wire bytes of element k" mean in C03, C05, C06,
  C09, C22, C30. Import-free.
-/
namespace PallasVerif.Cbor

abbrev Bytes := List UInt8

/-- big-endian value of a byte string -/
def ofBe : Bytes → Nat
  | [] => 0
  | b :: bs => b.toNat * 256 ^ bs.length + ofBe bs

/-- `w` bytes big endian (value taken modulo `256^w`) -/
def be : Nat → Nat → Bytes
  | 0, _ => []
  | w + 1, n => UInt8.ofNat (n / 256 ^ w) :: be w n

/-- A CBOR head: initial byte = `major * 32 + ai`, followed by the raw argument bytes. -/
structure Head where
  major : Nat
  ai : Nat
  arg : Bytes
  deriving DecidableEq, Repr, Inhabited

/-- number of argument bytes that follow an initial byte with additional information `ai`
    (28..30 are reserved, hence not well-formed) -/
def argLen (ai : Nat) : Option Nat :=
  if ai < 24 then some 0
  else if ai = 24 then some 1
  else if ai = 25 then some 2
  else if ai = 26 then some 4
  else if ai = 27 then some 8
  else if ai = 31 then some 0
  else none

def Head.wf (h : Head) : Bool :=
  decide (h.major < 8) && decide (h.ai < 32) && (argLen h.ai == some h.arg.length)

/-- the argument's value (for `ai = 31` it is meaningless and 0) -/
def Head.val (h : Head) : Nat := if h.ai < 24 then h.ai else ofBe h.arg

/-- initial byte of a head -/
def initByte (m ai : Nat) : UInt8 := UInt8.ofNat (m * 32 + ai)

def Head.encode (h : Head) : Bytes := initByte h.major h.ai :: h.arg

def decodeHead : Bytes → Option (Head × Bytes)
  | [] => none
  | b :: rest =>
    match argLen (b.toNat % 32) with
    | none => none
    | some n =>
      if rest.length < n then none
      else some (⟨b.toNat / 32, b.toNat % 32, rest.take n⟩, rest.drop n)

/-- minimal ("preferred") head for major `m` and value `n < 2^64` — what minicbor's encoder emits -/
def minHead (m n : Nat) : Head :=
  if n < 24 then ⟨m, n, []⟩
  else if n < 256 then ⟨m, 24, be 1 n⟩
  else if n < 65536 then ⟨m, 25, be 2 n⟩
  else if n < 4294967296 then ⟨m, 26, be 4 n⟩
  else ⟨m, 27, be 8 n⟩

/-- Concrete syntax tree of one CBOR data item. -/
inductive Item where
  /-- major 0, 1, 7 (unsigned, negative, simple/float); never `ai = 31` (that is the break code) -/
  | atom (h : Head)
  /-- major 2, 3 with a definite length -/
  | str (h : Head) (bs : Bytes)
  /-- major 2, 3 indefinite: a sequence of definite chunks of the same major, then break -/
  | strIndef (major : Nat) (chunks : List (Head × Bytes))
  /-- major 4 (`xs.length = val`) or 5 (`xs.length = 2 * val`, keys and values alternating) -/
  | seq (h : Head) (xs : List Item)
  /-- major 4 or 5 indefinite, terminated by break -/
  | seqIndef (major : Nat) (xs : List Item)
  /-- major 6 -/
  | tag (h : Head) (i : Item)
  deriving Repr, Inhabited

def encodeChunks : List (Head × Bytes) → Bytes
  | [] => []
  | (h, bs) :: cs => h.encode ++ bs ++ encodeChunks cs

mutual
def Item.encode : Item → Bytes
  | .atom h => h.encode
  | .str h bs => h.encode ++ bs
  | .strIndef m cs => initByte m 31 :: (encodeChunks cs ++ [0xff])
  | .seq h xs => h.encode ++ encodeList xs
  | .seqIndef m xs => initByte m 31 :: (encodeList xs ++ [0xff])
  | .tag h i => h.encode ++ i.encode
def encodeList : List Item → Bytes
  | [] => []
  | x :: xs => x.encode ++ encodeList xs
end

def chunkWf (m : Nat) : Head × Bytes → Bool
  | (h, bs) => h.wf && decide (h.major = m) && decide (h.ai ≠ 31) && decide (bs.length = h.val)

def chunksWf (m : Nat) : List (Head × Bytes) → Bool
  | [] => true
  | c :: cs => chunkWf m c && chunksWf m cs

def seqCount (h : Head) : Nat := if h.major = 4 then h.val else 2 * h.val

mutual
def Item.wf : Item → Bool
  | .atom h => h.wf && (decide (h.major = 0) || decide (h.major = 1) || decide (h.major = 7)) && decide (h.ai ≠ 31)
  | .str h bs => h.wf && (decide (h.major = 2) || decide (h.major = 3)) && decide (h.ai ≠ 31) && decide (bs.length = h.val)
  | .strIndef m cs => (decide (m = 2) || decide (m = 3)) && chunksWf m cs
  | .seq h xs => h.wf && (decide (h.major = 4) || decide (h.major = 5)) && decide (h.ai ≠ 31) &&
      decide (xs.length = seqCount h) && wfList xs
  | .seqIndef m xs => (decide (m = 4) || decide (m = 5)) && (decide (m = 4) || decide (xs.length % 2 = 0)) && wfList xs
  | .tag h i => h.wf && decide (h.major = 6) && decide (h.ai ≠ 31) && i.wf
def wfList : List Item → Bool
  | [] => true
  | x :: xs => x.wf && wfList xs
end

/-- chunks of an indefinite string up to the break byte -/
def parseChunks : Nat → Nat → Bytes → Option (List (Head × Bytes) × Bytes)
  | 0, _, _ => none
  | _ + 1, _, [] => none
  | fuel + 1, m, b :: rest =>
    if b = 0xff then some ([], rest)
    else
      match decodeHead (b :: rest) with
      | none => none
      | some (h, r) =>
        if h.major ≠ m ∨ h.ai = 31 ∨ r.length < h.val then none
        else
          match parseChunks fuel m (r.drop h.val) with
          | none => none
          | some (cs, r') => some ((h, r.take h.val) :: cs, r')

mutual
/-- strict parser of one data item; `fuel` bounds nesting depth + sequence length -/
def parse : Nat → Bytes → Option (Item × Bytes)
  | 0, _ => none
  | fuel + 1, bs =>
    match decodeHead bs with
    | none => none
    | some (h, rest) =>
      if h.major = 0 ∨ h.major = 1 ∨ h.major = 7 then
        if h.ai = 31 then none else some (.atom h, rest)
      else if h.major = 2 ∨ h.major = 3 then
        if h.ai = 31 then
          match parseChunks fuel h.major rest with
          | none => none
          | some (cs, r) => some (.strIndef h.major cs, r)
        else if rest.length < h.val then none
        else some (.str h (rest.take h.val), rest.drop h.val)
      else if h.major = 4 ∨ h.major = 5 then
        if h.ai = 31 then
          match parseBreak fuel rest with
          | none => none
          | some (xs, r) =>
            if h.major = 5 ∧ xs.length % 2 ≠ 0 then none else some (.seqIndef h.major xs, r)
        else
          match parseN fuel (seqCount h) rest with
          | none => none
          | some (xs, r) => some (.seq h xs, r)
      else
        if h.ai = 31 then none
        else
          match parse fuel rest with
          | none => none
          | some (i, r) => some (.tag h i, r)
/-- exactly `n` items -/
def parseN : Nat → Nat → Bytes → Option (List Item × Bytes)
  | _, 0, bs => some ([], bs)
  | 0, _ + 1, _ => none
  | fuel + 1, n + 1, bs =>
    match parse fuel bs with
    | none => none
    | some (x, r) =>
      match parseN fuel n r with
      | none => none
      | some (xs, r') => some (x :: xs, r')
/-- items up to the break byte -/
def parseBreak : Nat → Bytes → Option (List Item × Bytes)
  | 0, _ => none
  | _ + 1, [] => none
  | fuel + 1, b :: rest =>
    if b = 0xff then some ([], rest)
    else
      match parse fuel (b :: rest) with
      | none => none
      | some (x, r) =>
        match parseBreak fuel r with
        | none => none
        | some (xs, r') => some (x :: xs, r')
end

/-- fuel that always suffices for `bs` (every node and every sequence step consumes a byte) -/
def fuelFor (bs : Bytes) : Nat := 2 * bs.length + 2

/-- the strict "generic" parser: first item of `bs` and the remaining bytes -/
def parseItem (bs : Bytes) : Option (Item × Bytes) := parse (fuelFor bs) bs

/-- `bs` is exactly one well-formed data item -/
def isSingleItem (bs : Bytes) : Bool :=
  match parseItem bs with
  | some (_, []) => true
  | _ => false

/-- the bytes of the first item of `bs` -/
def firstSpan (bs : Bytes) : Option Bytes :=
  match parseItem bs with
  | some (_, r) => some (bs.take (bs.length - r.length))
  | none => none

/-! ### value-level views used by typed layers -/

def Item.head? : Item → Option Head
  | .atom h | .str h _ | .seq h _ | .tag h _ => some h
  | _ => none

/-- unsigned integer value of a major-0 atom -/
def Item.uint? : Item → Option Nat
  | .atom h => if h.major = 0 then some h.val else none
  | _ => none

/-- integer value of a major-0/1 atom -/
def Item.int? : Item → Option Int
  | .atom h => if h.major = 0 then some (Int.ofNat h.val) else if h.major = 1 then some (-1 - Int.ofNat h.val) else none
  | _ => none

def chunksPayload : List (Head × Bytes) → Bytes
  | [] => []
  | (_, bs) :: cs => bs ++ chunksPayload cs

/-- payload of a byte/text string of major `m`, definite or chunked -/
def Item.strPayload? (m : Nat) : Item → Option Bytes
  | .str h bs => if h.major = m then some bs else none
  | .strIndef m' cs => if m' = m then some (chunksPayload cs) else none
  | _ => none

/-- elements of an array (major 4), definite or indefinite -/
def Item.arrayItems? : Item → Option (List Item)
  | .seq h xs => if h.major = 4 then some xs else none
  | .seqIndef m xs => if m = 4 then some xs else none
  | _ => none

def pairUp : List Item → List (Item × Item)
  | k :: v :: rest => (k, v) :: pairUp rest
  | _ => []

/-- entries of a map (major 5), in wire order -/
def Item.mapEntries? : Item → Option (List (Item × Item))
  | .seq h xs => if h.major = 5 then some (pairUp xs) else none
  | .seqIndef m xs => if m = 5 then some (pairUp xs) else none
  | _ => none

/-! ### constructors with minimal heads (what a canonical encoder emits) -/

def mkUInt (n : Nat) : Item := .atom (minHead 0 n)
def mkInt (i : Int) : Item := if 0 ≤ i then .atom (minHead 0 i.toNat) else .atom (minHead 1 (-1 - i).toNat)
def mkBytes (bs : Bytes) : Item := .str (minHead 2 bs.length) bs
def mkText (bs : Bytes) : Item := .str (minHead 3 bs.length) bs
def mkArray (xs : List Item) : Item := .seq (minHead 4 xs.length) xs
def mkMapFlat (kvs : List Item) : Item := .seq (minHead 5 (kvs.length / 2)) kvs
def mkTag (t : Nat) (i : Item) : Item := .tag (minHead 6 t) i
def mkSimple (n : Nat) : Item := .atom (minHead 7 n)
def mkNull : Item := .atom ⟨7, 22, []⟩
def mkBool (b : Bool) : Item := .atom ⟨7, if b then 21 else 20, []⟩

end PallasVerif.Cbor
