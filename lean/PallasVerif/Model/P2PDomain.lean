import PallasVerif.Model.P2PNet
/-! Computable check of the side conditions under which `initiator_conformant_delayed` (Props/C28) holds:
    no `Send` of a protocol with an unconfirmed `Send` on the same connection, no reply delivered
    ahead of the confirmation of its request, housekeeping orders without repetition.
    Soundness (`inDomainB_sound`) is proved in `Proofs/P2PAsync.lean`. -/
namespace PallasVerif.P2P

def protoFree (u : List Msg) (m : Msg) : Bool := u.all (fun m' => decide (m'.proto ≠ m.proto))

def emitOKb (y : Sys) (outs : List Out) : Bool :=
  outs.all (fun o => match o with
    | .send p m => (match y.links p with | .up l => protoFree l.unconfirmed m | _ => true)
    | _ => true)

def feedOKb (y : Sys) (e : Ev) : Bool :=
  match step y.st e with
  | none => true
  | some f => emitOKb y f.out

def ordOKb : Ev → Bool
  | .housekeeping ord _ => decide ord.Nodup
  | .idle ord _ => decide ord.Nodup
  | _ => true

def stepOKb (y : Sys) : Sched → Bool
  | .ev e => ordOKb e && feedOKb y e
  | .connect p => feedOKb { y with links := setLink y.links p (.up {}) } (.connected p)
  | .fail p => feedOKb y (.error p)
  | .deliver p n =>
    (match y.links p with
     | .up l => (l.toInit.take (n + 1)).all (fun m => protoFree l.unconfirmed m)
     | _ => true)
  | _ => true

def inDomainB : Sys → List Sched → Bool
  | _, [] => true
  | y, a :: as => stepOKb y a && (match sysStep y a with | none => true | some y1 => inDomainB y1 as)

end PallasVerif.P2P
