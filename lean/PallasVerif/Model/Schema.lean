import PallasVerif.Model.Cbor
/-
  L2 — schema DSL for the typed CBOR codecs of pallas (C06, also usable by C22).

  A `Schema` describes how one Rust type is laid out in CBOR by
    * minicbor 0.26 (`Encode`/`Decode` impls of the std types: ints, `Vec`, tuples,
      `BTreeMap`, `Option`, `String`, `bool`),
    * minicbor-derive 0.16 (`#[derive(Encode, Decode)]` with `#[n(i)]`, `#[cbor(array|map)]`,
      `#[cbor(flat)]`, `#[cbor(index_only)]`, `#[cbor(tag(t))]`; `transparent` is inlined by the
      translator),
    * pallas-codec (`codec_by_datatype!`, `KeepRaw`, `Nullable`, `Set`/`NonEmptySet`,
      `MaybeIndefArray`, `KeyValuePairs`, `CborWrap`, `TagWrap`, `EmptyMap`, `ZeroOrOneArray`,
      `AnyCbor`, `NonZeroInt`, `Hash<N>`, `Bytes`),
    * the hand-written `[variant, field..]` sums of pallas-primitives (`Relay`, Byron `Ssc` ..).

  `enc` / `dec` interpret a schema over a generic `Value`.  They work on the concrete syntax
  tree `Item` of L1: bytes = `Item.encode (enc ..)`, and decoding = strict parse (`parseItem`,
  proved a bijection with well-formed bytes) followed by `dec`.  `dec` is a *tree* reading of
  minicbor's sequential decoder: it agrees with it on every item whose container heads match
  their content (all encoder outputs, all chain data); where minicbor reads through a head whose
  length disagrees with what the typed decoder consumes, `dec` rejects.

  All recursion is on a fuel argument (one unit per schema node), so recursive types
  (`NativeScript`, `Metadatum`) are expressed with `Schema.ref` into an environment.
  Import-free apart from L1.
-/
namespace PallasVerif.Schema
open PallasVerif.Cbor

/-! ## minicbor `data::Type` as reported by `Decoder::datatype()` -/

inductive Ty where
  | u8 | u16 | u32 | u64 | i8 | i16 | i32 | i64 | int
  | bytes | bytesIndef | string | stringIndef
  | array | arrayIndef | map | mapIndef | tag
  | bool | null | undefined | simple | f16 | f32 | f64 | unknown
  deriving DecidableEq, Repr, Inhabited

def Ty.all : List Ty :=
  [.u8, .u16, .u32, .u64, .i8, .i16, .i32, .i64, .int, .bytes, .bytesIndef, .string, .stringIndef,
   .array, .arrayIndef, .map, .mapIndef, .tag, .bool, .null, .undefined, .simple, .f16, .f32, .f64, .unknown]

/-- `peek()? >= 0x80` on the first argument byte (minicbor `type_of` for heads 0x38..0x3b) -/
def firstArgHigh : Bytes → Bool
  | b :: _ => decide (128 ≤ b.toNat)
  | [] => false

/-- transcription of `Decoder::type_of` on the first byte(s) of an item -/
def typeOf : Item → Ty
  | .atom h =>
    if h.major = 0 then
      (if h.ai ≤ 24 then .u8 else if h.ai = 25 then .u16 else if h.ai = 26 then .u32 else if h.ai = 27 then .u64 else .unknown)
    else if h.major = 1 then
      (if h.ai < 24 then .i8
       else if h.ai = 24 then (if firstArgHigh h.arg then .i16 else .i8)
       else if h.ai = 25 then (if firstArgHigh h.arg then .i32 else .i16)
       else if h.ai = 26 then (if firstArgHigh h.arg then .i64 else .i32)
       else if h.ai = 27 then (if firstArgHigh h.arg then .int else .i64)
       else .unknown)
    else
      (if h.ai = 20 ∨ h.ai = 21 then .bool else if h.ai = 22 then .null else if h.ai = 23 then .undefined
       else if h.ai = 25 then .f16 else if h.ai = 26 then .f32 else if h.ai = 27 then .f64
       else if h.ai < 25 then .simple else .unknown)
  | .str h _ => if h.major = 2 then .bytes else .string
  | .strIndef m _ => if m = 2 then .bytesIndef else .stringIndef
  | .seq h _ => if h.major = 4 then .array else .map
  | .seqIndef m _ => if m = 4 then .arrayIndef else .mapIndef
  | .tag _ _ => .tag

/-! ## generic values -/

inductive Value where
  | nat (n : Nat)
  | int (i : Int)
  | bytes (b : Bytes)
  /-- UTF-8 bytes of a `String` -/
  | text (b : Bytes)
  | bool (b : Bool)
  | unit
  /-- `Vec`, tuples, struct fields (in index order), map entries as `.list [k, v]` -/
  | list (vs : List Value)
  | none
  | some (v : Value)
  /-- enum value: declaration position of the variant + its fields -/
  | variant (pos : Nat) (fields : List Value)
  /-- `KeepRaw { raw, inner }`; `raw = none` is the empty `raw` of `KeepRaw::from` -/
  | raw (r : Option Item) (v : Value)
  /-- an opaque, already encoded item (`AnyCbor`; `PlutusData` is treated this way here, see C07) -/
  | any (it : Item)
  deriving Inhabited

mutual
/-- forget every retained raw encoding -/
def Value.strip : Value → Value
  | .list vs => .list (stripList vs)
  | .some v => .some v.strip
  | .variant p vs => .variant p (stripList vs)
  | .raw _ v => .raw Option.none v.strip
  | v => v
def stripList : List Value → List Value
  | [] => []
  | x :: xs => x.strip :: stripList xs
end

mutual
/-- no retained raw encoding anywhere (a value built in memory, `KeepRaw::from`) -/
def Value.rawFree : Value → Bool
  | .list vs => rawFreeList vs
  | .some v => v.rawFree
  | .variant _ vs => rawFreeList vs
  | .raw r v => r.isNone && v.rawFree
  | _ => true
def rawFreeList : List Value → Bool
  | [] => true
  | x :: xs => x.rawFree && rawFreeList xs
end

def bytesCmp : Bytes → Bytes → Ordering
  | [], [] => .eq
  | [], _ :: _ => .lt
  | _ :: _, [] => .gt
  | a :: as, b :: bs => match compare a.toNat b.toNat with | .eq => bytesCmp as bs | o => o

mutual
/-- the order of the Rust types' derived / std `Ord` on their generic values
    (ints numeric, byte strings and text bytewise, `None < Some`, enums by declaration
    position then fields, structs and tuples lexicographic) -/
def Value.cmp : Value → Value → Ordering
  | .nat a, .nat b => compare a b
  | .int a, .int b => compare a b
  | .bytes a, .bytes b => bytesCmp a b
  | .text a, .text b => bytesCmp a b
  | .bool a, .bool b => compare a.toNat b.toNat
  | .list a, .list b => cmpList a b
  | .none, .some _ => .lt
  | .some _, .none => .gt
  | .some a, .some b => a.cmp b
  | .variant p a, .variant q b => match compare p q with | .eq => cmpList a b | o => o
  | .raw _ a, .raw _ b => a.cmp b
  | _, _ => .eq
def cmpList : List Value → List Value → Ordering
  | [], [] => .eq
  | [], _ :: _ => .lt
  | _ :: _, [] => .gt
  | x :: xs, y :: ys => match x.cmp y with | .eq => cmpList xs ys | o => o
end

def Value.lt (a b : Value) : Bool := a.cmp b == .lt

/-! ## schemas -/

inductive Layout where | array | map
  deriving DecidableEq, Repr, Inhabited

inductive Schema where
  /-- `u8`/`u16`/`u32`/`u64` (`bits` = 8/16/32/64): any head width accepted, value `< 2^bits` -/
  | uint (bits : Nat)
  /-- `i8`..`i64` -/
  | sint (bits : Nat)
  /-- minicbor `Int` (`-2^64 .. 2^64-1`) -/
  | int
  /-- pallas `NonZeroInt` (an `i64`; decoding rejects 0) -/
  | nzint
  /-- pallas `PositiveCoin` (a `u64`; private field, `TryFrom<u64>` and the decoder reject 0) -/
  | posCoin
  /-- `Bytes` / `ByteVec`: definite byte string -/
  | bytes
  /-- `Hash<N>`: definite byte string of exactly `n` bytes -/
  | hash (n : Nat)
  /-- `String`: definite text string, valid UTF-8 -/
  | text
  | bool
  /-- `Vec<T>`: encoded definite; decoded from definite or indefinite arrays -/
  | vec (s : Schema)
  /-- Rust tuple: definite array of exactly the arity -/
  | tuple (fs : List Schema)
  /-- `BTreeMap<K, V>`: encoded definite in key order; decoding inserts entry by entry -/
  | btmap (k v : Schema)
  /-- `Option<T>`: `null` is `None` -/
  | opt (s : Schema)
  /-- derived struct; `fs` = (`#[n(i)]`, schema) sorted by index; optional `#[cbor(tag(t))]` -/
  | struct (l : Layout) (tag : Option Nat) (fs : List (Nat × Schema))
  /-- `#[cbor(flat)]` enum, variants in declaration order: (`#[n(k)]`, fields) -/
  | enumFlat (vs : List (Nat × List (Nat × Schema)))
  /-- `#[cbor(index_only)]` enum: `#[n(k)]` per variant in declaration order -/
  | enumIdx (vs : List Nat)
  /-- `codec_by_datatype!`: one-payload variants (declaration position, accepted datatypes,
      payload) in the order of the macro arms, plus the optional many-field variant that is
      matched first on a definite array -/
  | byType (alts : List (Nat × List Ty × Schema)) (many : Option (Nat × List Schema))
  /-- hand-written `[variant, field..]` sum (definite array, variant read with `u8`/`u16`) -/
  | sumFixed (idxBits : Nat) (vs : List (Nat × List Schema))
  /-- hand-written sum with a catch-all variant `Other(u8, payload..)`, declared last (Byron `TxIn`,
      `Twit`, `TxFeePol`): the listed variants as in `sumFixed`, every other variant number `x`
      is `Other(x, ..)` -/
  | sumOther (idxBits : Nat) (vs : List (Nat × List Schema)) (other : List Schema)
  /-- `KeepRaw<T>` -/
  | keepRaw (s : Schema)
  /-- `Nullable<T>`: `Some` / `Null` / `Undefined` (declaration order) -/
  | nullable (s : Schema)
  /-- `Set<T>` and `NonEmptySet<T>`: tag 258 written, optional when read -/
  | set (s : Schema)
  /-- `MaybeIndefArray<T>`: `Def` / `Indef` -/
  | maybeIndef (s : Schema)
  /-- `KeyValuePairs<K, V>` / `NonEmptyKeyValuePairs`: `Def` / `Indef`, wire order kept -/
  | kvPairs (k v : Schema)
  /-- `CborWrap<T>`: tag 24 around a byte string holding the encoding of `T` -/
  | cborWrap (s : Schema)
  /-- `TagWrap<T, t>` and `RationalNumber`-style codecs: tag `t` written, any tag accepted -/
  | tagWrap (t : Nat) (s : Schema)
  /-- `EmptyMap`: writes `a0`, skips whatever it reads -/
  | emptyMap
  /-- `ZeroOrOneArray<T>` -/
  | zeroOrOne (s : Schema)
  /-- one arbitrary well-formed item kept verbatim -/
  | any
  /-- reference into the environment (recursive types) -/
  | ref (i : Nat)
  /-- a hand-modelled leaf codec from the environment -/
  | custom (i : Nat)
  deriving Inhabited

/-- a leaf codec modelled by hand (no recursion into the interpreter) -/
structure Custom where
  enc : Value → Option Item
  dec : Item → Option Value
  kinds : List Ty
  /-- items that the codec re-encodes to themselves (used by `Model/SchemaCanon.lean`) -/
  canon : Item → Bool := fun _ => false

structure EnvEntry where
  name : String
  schema : Schema
  /-- declared over-approximation of the datatypes an encoding can start with (checked by `Env.valid`) -/
  kinds : List Ty
  /-- declared: no `KeepRaw` inside (checked by `Env.valid`) -/
  noRaw : Bool

structure Env where
  types : List EnvEntry
  customs : List Custom

/-! ## list helpers (own definitions so that the proofs control unfolding) -/

def mapOpt {α β} (f : α → Option β) : List α → Option (List β)
  | [] => some []
  | x :: xs =>
    match f x, mapOpt f xs with
    | some y, some ys => some (y :: ys)
    | _, _ => none

/-- zip two lists of equal length through a partial function -/
def zipOpt {α β γ} (f : α → β → Option γ) : List α → List β → Option (List γ)
  | [], [] => some []
  | a :: as, b :: bs =>
    match f a b, zipOpt f as bs with
    | some c, some cs => some (c :: cs)
    | _, _ => none
  | _, _ => none

def flattenPairs : List (Item × Item) → List Item
  | [] => []
  | (k, v) :: r => k :: v :: flattenPairs r

/-! ## text -/

def isCont (b : UInt8) : Bool := decide (128 ≤ b.toNat) && decide (b.toNat ≤ 191)
def inRange (b : UInt8) (lo hi : Nat) : Bool := decide (lo ≤ b.toNat) && decide (b.toNat ≤ hi)

/-- well-formed UTF-8 (Unicode table 3-7), what `core::str::from_utf8` accepts -/
def validUtf8 : Bytes → Bool
  | [] => true
  | b0 :: rest =>
    if b0.toNat < 128 then validUtf8 rest
    else if inRange b0 194 223 then
      match rest with
      | b1 :: r => isCont b1 && validUtf8 r
      | _ => false
    else if inRange b0 224 239 then
      match rest with
      | b1 :: b2 :: r =>
        (if b0.toNat = 224 then inRange b1 160 191 else if b0.toNat = 237 then inRange b1 128 159 else isCont b1)
          && isCont b2 && validUtf8 r
      | _ => false
    else if inRange b0 240 244 then
      match rest with
      | b1 :: b2 :: b3 :: r =>
        (if b0.toNat = 240 then inRange b1 144 191 else if b0.toNat = 244 then inRange b1 128 143 else isCont b1)
          && isCont b2 && isCont b3 && validUtf8 r
      | _ => false
    else false

/-- `Decoder::skip()` walks text strings with `str_iter`, which validates UTF-8: an item can be skipped
    (unknown map key, surplus or gap array element, `EmptyMap`) only if every text string in it is valid -/
def chunksUtf8 : List (Head × Bytes) → Bool
  | [] => true
  | (_, bs) :: cs => validUtf8 bs && chunksUtf8 cs

mutual
def itemUtf8Ok : Item → Bool
  | .atom _ => true
  | .str h bs => if h.major = 3 then validUtf8 bs else true
  | .strIndef m cs => if m = 3 then chunksUtf8 cs else true
  | .seq _ xs => utf8OkList xs
  | .seqIndef _ xs => utf8OkList xs
  | .tag _ i => itemUtf8Ok i
def utf8OkList : List Item → Bool
  | [] => true
  | x :: xs => itemUtf8Ok x && utf8OkList xs
end

/-! ## leaf codecs -/

def mkUndefined : Item := .atom ⟨7, 23, []⟩

def intInBits (bits : Nat) (i : Int) : Bool :=
  decide (-(2 ^ (bits - 1) : Int) ≤ i) && decide (i < (2 ^ (bits - 1) : Int))

def encUInt (bits : Nat) : Value → Option Item
  | .nat n => if n < 2 ^ bits then some (mkUInt n) else none
  | _ => none

def decUInt (bits : Nat) (it : Item) : Option Value :=
  match it.uint? with
  | some n => if n < 2 ^ bits then some (.nat n) else none
  | none => none

def encSInt (bits : Nat) : Value → Option Item
  | .int i => if intInBits bits i then some (mkInt i) else none
  | _ => none

def decSInt (bits : Nat) (it : Item) : Option Value :=
  match it.int? with
  | some i => if intInBits bits i then some (.int i) else none
  | none => none

def encInt : Value → Option Item
  | .int i => if decide (-(2 ^ 64 : Int) ≤ i) && decide (i < (2 ^ 64 : Int)) then some (mkInt i) else none
  | _ => none

def decInt (it : Item) : Option Value :=
  match it.int? with
  | some i => some (.int i)
  | none => none

/-- `NonZeroInt` holds a non-zero `i64` (private field, `TryFrom<i64>` rejects 0), written as an `i64` -/
def encNzInt : Value → Option Item
  | .int i => if intInBits 64 i && decide (i ≠ 0) then some (mkInt i) else none
  | _ => none

/-- `NonZeroInt::decode`: an `i64`, then the zero check -/
def decNzInt (it : Item) : Option Value :=
  match it.int? with
  | some i => if intInBits 64 i && decide (i ≠ 0) then some (.int i) else none
  | none => none

def encPosCoin : Value → Option Item
  | .nat n => if 0 < n ∧ n < 2 ^ 64 then some (mkUInt n) else none
  | _ => none

def decPosCoin (it : Item) : Option Value :=
  match it.uint? with
  | some n => if 0 < n ∧ n < 2 ^ 64 then some (.nat n) else none
  | none => none

def encBytes : Value → Option Item
  | .bytes b => if b.length < 2 ^ 64 then some (mkBytes b) else none
  | _ => none

/-- `Decoder::bytes()`: definite byte strings only -/
def decBytes : Item → Option Value
  | .str h bs => if h.major = 2 then some (.bytes bs) else none
  | _ => none

def encHash (n : Nat) : Value → Option Item
  | .bytes b => if b.length = n ∧ n < 2 ^ 64 then some (mkBytes b) else none
  | _ => none

def decHash (n : Nat) : Item → Option Value
  | .str h bs => if h.major = 2 ∧ bs.length = n then some (.bytes bs) else none
  | _ => none

def encText : Value → Option Item
  | .text b => if validUtf8 b && decide (b.length < 2 ^ 64) then some (mkText b) else none
  | _ => none

/-- `Decoder::str()`: definite text strings only, UTF-8 checked -/
def decText : Item → Option Value
  | .str h bs => if h.major = 3 ∧ validUtf8 bs = true then some (.text bs) else none
  | _ => none

def encBool : Value → Option Item
  | .bool b => some (mkBool b)
  | _ => none

def decBool : Item → Option Value
  | .atom h => if h.major = 7 ∧ h.ai = 20 then some (.bool false) else if h.major = 7 ∧ h.ai = 21 then some (.bool true) else none
  | _ => none

/-! ## containers, parametric in the recursive calls `e` / `d` -/

def encVec (e : Value → Option Item) : Value → Option Item
  | .list vs => if vs.length < 2 ^ 64 then (mapOpt e vs).map mkArray else none
  | _ => none

/-- `array_iter`: definite or indefinite -/
def decVecItems (d : Item → Option Value) (it : Item) : Option (List Value) :=
  match it.arrayItems? with
  | some xs => mapOpt d xs
  | none => none

def decVec (d : Item → Option Value) (it : Item) : Option Value :=
  (decVecItems d it).map .list

def encTuple (e : Schema → Value → Option Item) (fs : List Schema) : Value → Option Item
  | .list vs => (zipOpt e fs vs).map mkArray
  | _ => none

/-- tuples: `array()? == Some(arity)` -/
def decTuple (d : Schema → Item → Option Value) (fs : List Schema) : Item → Option Value
  | .seq h xs => if h.major = 4 then (zipOpt d fs xs).map .list else none
  | _ => none

def encPair (ek ev : Value → Option Item) : Value → Option (Item × Item)
  | .list [a, b] =>
    match ek a, ev b with
    | some x, some y => some (x, y)
    | _, _ => none
  | _ => none

def decPair (dk dv : Item → Option Value) : Item × Item → Option Value
  | (x, y) =>
    match dk x, dv y with
    | some a, some b => some (.list [a, b])
    | _, _ => none

/-- `BTreeMap::insert` on the list of entries (each `.list [k, v]`), `Ord` = `Value.lt` -/
def insertKV (k v : Value) : List Value → List Value
  | [] => [.list [k, v]]
  | .list [k', v'] :: rest =>
    if k'.lt k then .list [k', v'] :: insertKV k v rest
    else if k.lt k' then .list [k, v] :: .list [k', v'] :: rest
    else .list [k, v] :: rest
  | x :: rest => x :: insertKV k v rest

def insertEntry (acc : List Value) : Value → List Value
  | .list [k, v] => insertKV k v acc
  | _ => acc

def keyOf : Value → Value
  | .list [k, _] => k
  | _ => .unit

/-- keys strictly increasing (stated pairwise, so that no order law of `Value.lt` is needed) -/
def strictSorted : List Value → Bool
  | [] => true
  | k :: r => r.all (fun k' => k.lt k') && strictSorted r

/-- a `BTreeMap` holds its entries in strictly increasing key order; a list that is not
    sorted is not a `BTreeMap` value -/
def encBTMap (ek ev : Value → Option Item) : Value → Option Item
  | .list kvs =>
    if kvs.length < 2 ^ 64 ∧ strictSorted (kvs.map keyOf) = true then
      (mapOpt (encPair ek ev) kvs).map (fun ps => mkMapFlat (flattenPairs ps))
    else none
  | _ => none

/-- `map_iter` (definite or indefinite), every entry inserted into a `BTreeMap` -/
def decBTMap (dk dv : Item → Option Value) (it : Item) : Option Value :=
  match it.mapEntries? with
  | some es =>
    match mapOpt (decPair dk dv) es with
    | some kvs => some (.list (kvs.foldl insertEntry []))
    | none => none
  | none => none

def encOpt (e : Value → Option Item) : Value → Option Item
  | .none => some mkNull
  | .some v => e v
  | _ => none

/-- `Option<T>::decode`: `datatype() == Null` is `None` -/
def decOpt (d : Item → Option Value) (it : Item) : Option Value :=
  if typeOf it = .null then some .none else (d it).map .some

/-! ### minicbor-derive field lists -/

def Schema.isOpt : Schema → Bool
  | .opt _ => true
  | _ => false

/-- `Encode::is_nil` of a field: an `Option` holding `None` -/
def isNilField (s : Schema) (v : Value) : Bool :=
  s.isOpt && (match v with | .none => true | _ => false)

/-- all remaining fields are nil -/
def allNil : List (Nat × Schema) → List Value → Bool
  | [], [] => true
  | (_, s) :: fs, v :: vs => isNilField s v && allNil fs vs
  | _, _ => false

/-- array layout: `array(max_index + 1)`, gaps filled with `null` (`pos` = next array position).
    `trunc`: nothing is written after the last non-nil field. minicbor-derive tests
    `Encode::is_nil(&field)`; for a struct that is `Option::is_none` on the field, but the fields
    of an enum variant are bound by reference and `impl Encode for &T` keeps the default
    `is_nil = false`, so variants are always written at full length (`trunc = false`). -/
def encArr (e : Schema → Value → Option Item) (trunc : Bool) : Nat → List (Nat × Schema) → List Value → Option (List Item)
  | _, [], [] => some []
  | pos, (idx, s) :: fs, v :: vs =>
    if trunc && allNil ((idx, s) :: fs) (v :: vs) then some []
    else if idx < pos then none
    else
      match e s v, encArr e trunc (idx + 1) fs vs with
      | some it, some rest => some (List.replicate (idx - pos) mkNull ++ it :: rest)
      | _, _ => none
  | _, _, _ => none

/-- array layout read by position; missing trailing fields are `None` when optional, an
    error otherwise; surplus and gap elements are skipped
    (`Decoder::skip`, which needs their text strings to be valid UTF-8) -/
def decArr (d : Schema → Item → Option Value) : Nat → List (Nat × Schema) → List Item → Option (List Value)
  | _, [], items => if utf8OkList items then some [] else none
  | pos, (idx, s) :: fs, items =>
    if utf8OkList (items.take (idx - pos)) then
      match items.drop (idx - pos) with
      | it :: rest =>
        match d s it, decArr d (idx + 1) fs rest with
        | some v, some vs => some (v :: vs)
        | _, _ => none
      | [] =>
        if s.isOpt then (decArr d (idx + 1) fs []).map (fun vs => Value.none :: vs) else none
    else none

/-- map layout: one entry per non-nil field, key = index -/
def encMapFields (e : Schema → Value → Option Item) : List (Nat × Schema) → List Value → Option (List (Item × Item))
  | [], [] => some []
  | (idx, s) :: fs, v :: vs =>
    if isNilField s v then encMapFields e fs vs
    else
      match e s v, encMapFields e fs vs with
      | some it, some rest => some ((mkUInt idx, it) :: rest)
      | _, _ => none
  | _, _ => none

def findField (i : Int) : List (Nat × Schema) → Option (Nat × Schema)
  | [] => none
  | (idx, s) :: fs => if (idx : Int) = i then some (idx, s) else findField i fs

/-- every key is read with `i64()`; a known index decodes its value, others are skipped -/
def decMapEntries (d : Schema → Item → Option Value) (fs : List (Nat × Schema)) :
    List (Item × Item) → Option (List (Nat × Value))
  | [] => some []
  | (k, v) :: rest =>
    match k.int? with
    | none => none
    | some i =>
      if intInBits 64 i then
        match findField i fs with
        | some (idx, s) =>
          match d s v, decMapEntries d fs rest with
          | some x, some r => some ((idx, x) :: r)
          | _, _ => none
        | none => if itemUtf8Ok v then decMapEntries d fs rest else none
      else none

/-- the last assignment to a field wins -/
def lookupLast (k : Nat) : List (Nat × Value) → Option Value
  | [] => none
  | (k', v) :: t =>
    match lookupLast k t with
    | some x => some x
    | none => if k' = k then some v else none

def collectFields (res : List (Nat × Value)) : List (Nat × Schema) → Option (List Value)
  | [] => some []
  | (idx, s) :: fs =>
    match lookupLast idx res, collectFields res fs with
    | some v, some vs => some (v :: vs)
    | none, some vs => if s.isOpt then some (Value.none :: vs) else none
    | _, none => none

def wrapTag (t : Option Nat) (it : Item) : Item :=
  match t with
  | some n => mkTag n it
  | none => it

/-- `#[cbor(tag(t))]`: the tag must be present and equal -/
def unwrapTag (t : Option Nat) (it : Item) : Option Item :=
  match t with
  | none => some it
  | some n =>
    match it with
    | .tag h inner => if h.val = n then some inner else none
    | _ => none

def encStruct (e : Schema → Value → Option Item) (l : Layout) (t : Option Nat) (fs : List (Nat × Schema)) :
    Value → Option Item
  | .list vs =>
    match l with
    | .array => (encArr e true 0 fs vs).map (fun xs => wrapTag t (mkArray xs))
    | .map => (encMapFields e fs vs).map (fun ps => wrapTag t (mkMapFlat (flattenPairs ps)))
  | _ => none

def decStruct (d : Schema → Item → Option Value) (l : Layout) (t : Option Nat) (fs : List (Nat × Schema))
    (it : Item) : Option Value :=
  match unwrapTag t it with
  | none => none
  | some body =>
    match l with
    | .array =>
      match body.arrayItems? with
      | some xs => (decArr d 0 fs xs).map .list
      | none => none
    | .map =>
      match body.mapEntries? with
      | some es =>
        match decMapEntries d fs es with
        | some res => (collectFields res fs).map .list
        | none => none
      | none => none

/-- `[n, field..]`, every field written -/
def encEnumFlat (e : Schema → Value → Option Item) (vs : List (Nat × List (Nat × Schema))) : Value → Option Item
  | .variant pos fields =>
    match vs[pos]? with
    | some (n, fs) => (encArr e false 0 fs fields).map (fun xs => mkArray (mkUInt n :: xs))
    | none => none
  | _ => none

def findVariant {α} (i : Int) : Nat → List (Nat × α) → Option (Nat × α)
  | _, [] => none
  | pos, (n, a) :: r => if (n : Int) = i then some (pos, a) else findVariant i (pos + 1) r

/-- flat enums need a definite, non-empty array; the variant is read with `i64()` -/
def decEnumFlat (d : Schema → Item → Option Value) (vs : List (Nat × List (Nat × Schema))) : Item → Option Value
  | .seq h (x :: xs) =>
    if h.major = 4 then
      match x.int? with
      | some i =>
        if intInBits 64 i then
          match findVariant i 0 vs with
          | some (pos, fs) =>
            -- a variant with fields skips surplus elements (`for i in 0 .. len - 1`); a unit variant returns
            -- at once and would leave them unread, so only `[n]` is a faithful tree reading of it
            if fs.isEmpty && !xs.isEmpty then none else (decArr d 0 fs xs).map (.variant pos)
          | none => none
        else none
      | none => none
    else none
  | _ => none

def encEnumIdx (vs : List Nat) : Value → Option Item
  | .variant pos [] =>
    match vs[pos]? with
    | some n => some (mkUInt n)
    | none => none
  | _ => none

def findIdx (i : Int) : Nat → List Nat → Option Nat
  | _, [] => none
  | pos, n :: r => if (n : Int) = i then some pos else findIdx i (pos + 1) r

def decEnumIdx (vs : List Nat) (it : Item) : Option Value :=
  match it.int? with
  | some i =>
    if intInBits 64 i then
      match findIdx i 0 vs with
      | some pos => some (.variant pos [])
      | none => none
    else none
  | none => none

/-! ### `codec_by_datatype!` -/

def findAltByPos (pos : Nat) : List (Nat × List Ty × Schema) → Option Schema
  | [] => none
  | (p, _, s) :: r => if p = pos then some s else findAltByPos pos r

def findAltByTy (t : Ty) : List (Nat × List Ty × Schema) → Option (Nat × Schema)
  | [] => none
  | (p, tys, s) :: r => if tys.contains t then some (p, s) else findAltByTy t r

def encByType (e : Schema → Value → Option Item) (alts : List (Nat × List Ty × Schema))
    (many : Option (Nat × List Schema)) : Value → Option Item
  | .variant pos fields =>
    match many with
    | some (mp, ms) =>
      if mp = pos then (zipOpt e ms fields).map mkArray
      else
        match findAltByPos pos alts, fields with
        | some s, [v] => e s v
        | _, _ => none
    | none =>
      match findAltByPos pos alts, fields with
      | some s, [v] => e s v
      | _, _ => none
  | _ => none

def decByTypeOne (d : Schema → Item → Option Value) (alts : List (Nat × List Ty × Schema)) (it : Item) : Option Value :=
  match findAltByTy (typeOf it) alts with
  | some (p, s) => (d s it).map (fun v => .variant p [v])
  | none => none

def decByType (d : Schema → Item → Option Value) (alts : List (Nat × List Ty × Schema))
    (many : Option (Nat × List Schema)) (it : Item) : Option Value :=
  match many with
  | some (mp, ms) =>
    if typeOf it = .array then
      match it with
      | .seq _ xs => (zipOpt d ms xs).map (.variant mp)
      | _ => none
    else decByTypeOne d alts it
  | none => decByTypeOne d alts it

/-! ### hand-written `[variant, field..]` sums -/

def encSumFixed (e : Schema → Value → Option Item) (vs : List (Nat × List Schema)) : Value → Option Item
  | .variant pos fields =>
    match vs[pos]? with
    | some (n, fs) => (zipOpt e fs fields).map (fun xs => mkArray (mkUInt n :: xs))
    | none => none
  | _ => none

def decSumFixed (d : Schema → Item → Option Value) (idxBits : Nat) (vs : List (Nat × List Schema)) : Item → Option Value
  | .seq h (x :: xs) =>
    if h.major = 4 then
      match x.uint? with
      | some i =>
        if i < 2 ^ idxBits then
          match findVariant (i : Int) 0 vs with
          | some (pos, fs) => (zipOpt d fs xs).map (.variant pos)
          | none => none
        else none
      | none => none
    else none
  | _ => none

/-- the catch-all variant holds a number that no listed variant uses (the source comments say
    `u8 .ne 0` / `u8 .gt 2`; a value like `TxIn::Other(0, ..)` would decode as `Variant0`) -/
def encSumOther (e : Schema → Value → Option Item) (idxBits : Nat) (vs : List (Nat × List Schema)) (other : List Schema) :
    Value → Option Item
  | .variant pos fields =>
    if pos < vs.length then encSumFixed e vs (.variant pos fields)
    else if pos = vs.length then
      match fields with
      | .nat x :: rest =>
        if x < 2 ^ idxBits ∧ (vs.all (fun v => v.1 != x)) = true then
          (zipOpt e other rest).map (fun xs => mkArray (mkUInt x :: xs))
        else none
      | _ => none
    else none
  | _ => none

def decSumOther (d : Schema → Item → Option Value) (idxBits : Nat) (vs : List (Nat × List Schema)) (other : List Schema) :
    Item → Option Value
  | .seq h (x :: xs) =>
    if h.major = 4 then
      match x.uint? with
      | some i =>
        if i < 2 ^ idxBits then
          match findVariant (i : Int) 0 vs with
          | some (pos, fs) => (zipOpt d fs xs).map (.variant pos)
          | none => (zipOpt d other xs).map (fun ws => .variant vs.length (.nat i :: ws))
        else none
      | none => none
    else none
  | _ => none

/-! ### pallas-codec wrappers -/

def encKeepRaw (e : Value → Option Item) : Value → Option Item
  | .raw (some it) _ => some it
  | .raw none v => e v
  | _ => none

def decKeepRaw (d : Item → Option Value) (it : Item) : Option Value :=
  (d it).map (.raw (some it))

def encNullable (e : Value → Option Item) : Value → Option Item
  | .variant 0 [v] => e v
  | .variant 1 [] => some mkNull
  | .variant 2 [] => some mkUndefined
  | _ => none

def decNullable (d : Item → Option Value) (it : Item) : Option Value :=
  if typeOf it = .null then some (.variant 1 [])
  else if typeOf it = .undefined then some (.variant 2 [])
  else (d it).map (fun v => .variant 0 [v])

def encSet (e : Value → Option Item) (v : Value) : Option Item :=
  (encVec e v).map (mkTag 258)

def decSet (d : Item → Option Value) (it : Item) : Option Value :=
  if typeOf it = .tag then
    match it with
    | .tag h inner => if h.val = 258 then decVec d inner else none
    | _ => none
  else decVec d it

def encMaybeIndef (e : Value → Option Item) : Value → Option Item
  | .variant 0 [v] => encVec e v
  | .variant 1 [.list vs] => (mapOpt e vs).map (.seqIndef 4)
  | _ => none

def decMaybeIndef (d : Item → Option Value) (it : Item) : Option Value :=
  if typeOf it = .array then (decVec d it).map (fun v => .variant 0 [v])
  else if typeOf it = .arrayIndef then (decVec d it).map (fun v => .variant 1 [v])
  else none

def encKvPairs (ek ev : Value → Option Item) : Value → Option Item
  | .variant 0 [.list kvs] =>
    if kvs.length < 2 ^ 64 then (mapOpt (encPair ek ev) kvs).map (fun ps => mkMapFlat (flattenPairs ps)) else none
  | .variant 1 [.list kvs] => (mapOpt (encPair ek ev) kvs).map (fun ps => .seqIndef 5 (flattenPairs ps))
  | _ => none

def decKvList (dk dv : Item → Option Value) (it : Item) : Option Value :=
  match it.mapEntries? with
  | some es => (mapOpt (decPair dk dv) es).map .list
  | none => none

def decKvPairs (dk dv : Item → Option Value) (it : Item) : Option Value :=
  if typeOf it = .map then (decKvList dk dv it).map (fun v => .variant 0 [v])
  else if typeOf it = .mapIndef then (decKvList dk dv it).map (fun v => .variant 1 [v])
  else none

def encCborWrap (e : Value → Option Item) (v : Value) : Option Item :=
  match e v with
  | some it => if it.encode.length < 2 ^ 64 then some (mkTag 24 (mkBytes it.encode)) else none
  | none => none

/-- `d.tag()?; d.bytes()?; minicbor::decode(bytes)` (trailing bytes inside are ignored) -/
def decCborWrap (d : Item → Option Value) : Item → Option Value
  | .tag _ (.str h bs) =>
    if h.major = 2 then
      match parseItem bs with
      | some (inner, _) => d inner
      | none => none
    else none
  | _ => none

def encTagWrap (e : Value → Option Item) (t : Nat) (v : Value) : Option Item :=
  if t < 2 ^ 64 then (e v).map (mkTag t) else none

def decTagWrap (d : Item → Option Value) : Item → Option Value
  | .tag _ inner => d inner
  | _ => none

def encEmptyMap : Value → Option Item
  | .unit => some (mkMapFlat [])
  | _ => none

/-- `EmptyMap::decode` is `d.skip()` -/
def decEmptyMap (it : Item) : Option Value := if itemUtf8Ok it then some .unit else none

def encZeroOrOne (e : Value → Option Item) : Value → Option Item
  | .none => some (mkArray [])
  | .some v => (e v).map (fun it => mkArray [it])
  | _ => none

def decZeroOrOne (d : Item → Option Value) : Item → Option Value
  | .seq h xs =>
    if h.major = 4 then
      match xs with
      | [] => some .none
      | [x] => (d x).map .some
      | _ => none
    else none
  | _ => none

def encAny : Value → Option Item
  | .any it => if it.wf then some it else none
  | _ => none

/-! ## the interpreter -/

def enc (env : Env) : Nat → Schema → Value → Option Item
  | 0, _, _ => none
  | f + 1, s, v =>
    match s with
    | .uint b => encUInt b v
    | .sint b => encSInt b v
    | .int => encInt v
    | .nzint => encNzInt v
    | .posCoin => encPosCoin v
    | .bytes => encBytes v
    | .hash n => encHash n v
    | .text => encText v
    | .bool => encBool v
    | .vec s => encVec (enc env f s) v
    | .tuple fs => encTuple (enc env f) fs v
    | .btmap k x => encBTMap (enc env f k) (enc env f x) v
    | .opt s => encOpt (enc env f s) v
    | .struct l t fs => encStruct (enc env f) l t fs v
    | .enumFlat vs => encEnumFlat (enc env f) vs v
    | .enumIdx vs => encEnumIdx vs v
    | .byType alts many => encByType (enc env f) alts many v
    | .sumFixed _ vs => encSumFixed (enc env f) vs v
    | .sumOther b vs o => encSumOther (enc env f) b vs o v
    | .keepRaw s => encKeepRaw (enc env f s) v
    | .nullable s => encNullable (enc env f s) v
    | .set s => encSet (enc env f s) v
    | .maybeIndef s => encMaybeIndef (enc env f s) v
    | .kvPairs k x => encKvPairs (enc env f k) (enc env f x) v
    | .cborWrap s => encCborWrap (enc env f s) v
    | .tagWrap t s => encTagWrap (enc env f s) t v
    | .emptyMap => encEmptyMap v
    | .zeroOrOne s => encZeroOrOne (enc env f s) v
    | .any => encAny v
    | .ref i =>
      match env.types[i]? with
      | some en => enc env f en.schema v
      | none => none
    | .custom i =>
      match env.customs[i]? with
      | some c => c.enc v
      | none => none

def dec (env : Env) : Nat → Schema → Item → Option Value
  | 0, _, _ => none
  | f + 1, s, it =>
    match s with
    | .uint b => decUInt b it
    | .sint b => decSInt b it
    | .int => decInt it
    | .nzint => decNzInt it
    | .posCoin => decPosCoin it
    | .bytes => decBytes it
    | .hash n => decHash n it
    | .text => decText it
    | .bool => decBool it
    | .vec s => decVec (dec env f s) it
    | .tuple fs => decTuple (dec env f) fs it
    | .btmap k x => decBTMap (dec env f k) (dec env f x) it
    | .opt s => decOpt (dec env f s) it
    | .struct l t fs => decStruct (dec env f) l t fs it
    | .enumFlat vs => decEnumFlat (dec env f) vs it
    | .enumIdx vs => decEnumIdx vs it
    | .byType alts many => decByType (dec env f) alts many it
    | .sumFixed b vs => decSumFixed (dec env f) b vs it
    | .sumOther b vs o => decSumOther (dec env f) b vs o it
    | .keepRaw s => decKeepRaw (dec env f s) it
    | .nullable s => decNullable (dec env f s) it
    | .set s => decSet (dec env f s) it
    | .maybeIndef s => decMaybeIndef (dec env f s) it
    | .kvPairs k x => decKvPairs (dec env f k) (dec env f x) it
    | .cborWrap s => decCborWrap (dec env f s) it
    | .tagWrap _ s => decTagWrap (dec env f s) it
    | .emptyMap => decEmptyMap it
    | .zeroOrOne s => decZeroOrOne (dec env f s) it
    | .any => some (.any it)
    | .ref i =>
      match env.types[i]? with
      | some en => dec env f en.schema it
      | none => none
    | .custom i =>
      match env.customs[i]? with
      | some c => c.dec it
      | none => none

/-- bytes produced for a value (what `minicbor::to_vec` returns) -/
def encodeBytes (env : Env) (fuel : Nat) (s : Schema) (v : Value) : Option Bytes :=
  (enc env fuel s v).map Item.encode

/-- typed decoding of the first item of `bs`: strict parse, then the schema reading -/
def decodeBytes (env : Env) (fuel : Nat) (s : Schema) (bs : Bytes) : Option (Value × Bytes) :=
  match parseItem bs with
  | some (it, rest) => (dec env fuel s it).map (fun v => (v, rest))
  | none => none

/-! ## static side conditions of the round-trip theorem -/

def intKinds : List Ty := [.u8, .u16, .u32, .u64, .i8, .i16, .i32, .i64]

def structKinds (l : Layout) (t : Option Nat) : List Ty :=
  match t with
  | some _ => [.tag]
  | none => match l with | .array => [.array] | .map => [.map]

def byTypeKinds (alts : List (Nat × List Ty × Schema)) (many : Option (Nat × List Schema)) : List Ty :=
  (match many with | some _ => [Ty.array] | none => []) ++ alts.flatMap (fun a => a.2.1)

/-- datatypes an encoding under the schema can start with (over-approximation) -/
def kinds (env : Env) : Schema → List Ty
  | .uint _ => [.u8, .u16, .u32, .u64]
  | .sint _ => .int :: intKinds
  | .int => .int :: intKinds
  | .nzint => .int :: intKinds
  | .posCoin => [.u8, .u16, .u32, .u64]
  | .bytes => [.bytes]
  | .hash _ => [.bytes]
  | .text => [.string]
  | .bool => [.bool]
  | .vec _ => [.array]
  | .tuple _ => [.array]
  | .btmap _ _ => [.map]
  | .opt s => .null :: kinds env s
  | .struct l t _ => structKinds l t
  | .enumFlat _ => [.array]
  | .enumIdx _ => [.u8, .u16, .u32, .u64]
  | .byType alts many => byTypeKinds alts many
  | .sumFixed _ _ => [.array]
  | .sumOther _ _ _ => [.array]
  | .keepRaw s => kinds env s
  | .nullable s => .null :: .undefined :: kinds env s
  | .set _ => [.tag]
  | .maybeIndef _ => [.array, .arrayIndef]
  | .kvPairs _ _ => [.map, .mapIndef]
  | .cborWrap _ => [.tag]
  | .tagWrap _ _ => [.tag]
  | .emptyMap => [.map]
  | .zeroOrOne _ => [.array]
  | .any => Ty.all
  | .ref i => match env.types[i]? with | some en => en.kinds | none => []
  | .custom i => match env.customs[i]? with | some c => c.kinds | none => []

def subset (a b : List Ty) : Bool := a.all (fun t => b.contains t)
def disjoint (a b : List Ty) : Bool := a.all (fun t => !b.contains t)

def increasingFrom : Nat → List (Nat × Schema) → Bool
  | _, [] => true
  | lo, (idx, _) :: fs => decide (lo ≤ idx) && decide (idx < 2 ^ 63) && increasingFrom (idx + 1) fs

def distinctNats : List Nat → Bool
  | [] => true
  | n :: r => !r.contains n && distinctNats r

/-- earlier arms shadow later ones: require the declared datatype lists pairwise disjoint -/
def altsDisjoint : List (Nat × List Ty × Schema) → Bool
  | [] => true
  | a :: r => r.all (fun b => disjoint a.2.1 b.2.1) && altsDisjoint r

/-- no `KeepRaw` below (fuelled) -/
def noRaw (env : Env) : Nat → Schema → Bool
  | 0, _ => false
  | f + 1, s =>
    match s with
    | .vec s | .opt s | .nullable s | .set s | .maybeIndef s | .cborWrap s | .tagWrap _ s | .zeroOrOne s => noRaw env f s
    | .tuple fs => fs.all (noRaw env f)
    | .btmap k v | .kvPairs k v => noRaw env f k && noRaw env f v
    | .struct _ _ fs => fs.all (fun p => noRaw env f p.2)
    | .enumFlat vs => vs.all (fun v => v.2.all (fun p => noRaw env f p.2))
    | .byType alts many => alts.all (fun a => noRaw env f a.2.2) && (match many with | some m => m.2.all (noRaw env f) | none => true)
    | .sumFixed _ vs => vs.all (fun v => v.2.all (noRaw env f))
    | .sumOther _ vs o => vs.all (fun v => v.2.all (noRaw env f)) && o.all (noRaw env f)
    | .keepRaw _ => false
    | .ref i => match env.types[i]? with | some en => en.noRaw | none => false
    | .custom _ => false
    | _ => true

/-- fuelled static check: index discipline of derived layouts, `Option`/`Nullable` payloads that
    can never encode as `null`/`undefined`, datatype dispatch that is unambiguous, map keys
    without retained raws -/
def ok (env : Env) : Nat → Schema → Bool
  | 0, _ => false
  | f + 1, s =>
    match s with
    | .uint b => b == 8 || b == 16 || b == 32 || b == 64
    | .sint b => b == 8 || b == 16 || b == 32 || b == 64
    | .int => true
    | .nzint => true
    | .posCoin => true
    | .bytes => true
    | .hash n => decide (n < 2 ^ 64)
    | .text => true
    | .bool => true
    | .vec s => ok env f s
    | .tuple fs => decide (fs.length < 2 ^ 64) && fs.all (ok env f)
    | .btmap k v => ok env f k && ok env f v && noRaw env f k
    | .opt s => ok env f s && !(kinds env s).contains .null
    | .struct _ t fs =>
      increasingFrom 0 fs && fs.all (fun p => ok env f p.2) && (match t with | some n => decide (n < 2 ^ 64) | none => true)
    | .enumFlat vs =>
      distinctNats (vs.map (·.1)) && vs.all (fun v => decide (v.1 < 2 ^ 63) && increasingFrom 0 v.2 && v.2.all (fun p => ok env f p.2))
    | .enumIdx vs => distinctNats vs && vs.all (fun n => decide (n < 2 ^ 63))
    | .byType alts many =>
      distinctNats (alts.map (·.1) ++ (match many with | some m => [m.1] | none => []))
      && alts.all (fun a => ok env f a.2.2 && subset (kinds env a.2.2) a.2.1)
      && altsDisjoint alts
      && (match many with
          | some m => m.2.all (ok env f) && decide (m.2.length < 2 ^ 64) && alts.all (fun a => !a.2.1.contains .array)
          | none => true)
    | .sumFixed b vs =>
      (b == 8 || b == 16) && distinctNats (vs.map (·.1)) && vs.all (fun v => decide (v.1 < 2 ^ b) && decide (v.2.length < 2 ^ 63) && v.2.all (ok env f))
    | .sumOther b vs o =>
      (b == 8 || b == 16) && distinctNats (vs.map (·.1))
      && vs.all (fun v => decide (v.1 < 2 ^ b) && decide (v.2.length < 2 ^ 63) && v.2.all (ok env f))
      && decide (o.length < 2 ^ 63) && o.all (ok env f)
    | .keepRaw s => ok env f s
    | .nullable s => ok env f s && !(kinds env s).contains .null && !(kinds env s).contains .undefined
    | .set s => ok env f s
    | .maybeIndef s => ok env f s
    | .kvPairs k v => ok env f k && ok env f v
    | .cborWrap s => ok env f s
    | .tagWrap t s => decide (t < 2 ^ 64) && ok env f s
    | .emptyMap => true
    | .zeroOrOne s => ok env f s
    | .any => true
    | .ref i => decide (i < env.types.length)
    | .custom i => decide (i < env.customs.length)

/-- fuel used for the static checks of environment entries -/
def okFuel : Nat := 64

/-- every entry of the environment passes the static check and honours its declarations -/
def Env.valid (env : Env) : Bool :=
  env.types.all (fun en =>
    ok env okFuel en.schema && subset (kinds env en.schema) en.kinds
      && (!en.noRaw || noRaw env okFuel en.schema))

end PallasVerif.Schema
