/-
  BLAKE2b — reference (RFC 7693) and the streaming hasher as cryptoxide 0.4.4 implements it
  (`cryptoxide::hashing::blake2b::ContextDyn`, which `pallas_crypto::hash::Hasher<BITS>` wraps
  through `cryptoxide::blake2b::Blake2b::{new, input, result}`).

  * `compress` is RFC 7693 §3.2 (function F, mixing function G §3.1, IV §2.6, SIGMA §2.7) on
    `UInt64` words.
  * `blake2b nn data` is RFC 7693 §3.3 (unkeyed): every block but the last is compressed with
    the running byte counter and `f = false`; the last block (the remaining 1..128 bytes, or an
    empty block for the empty message) is zero-padded and compressed with `t = ll`, `f = true`;
    the digest is the first `nn` bytes of the little-endian state.
  * `Ctx` / `update` / `finalize` transcribe `ContextDyn::{new, update_mut, internal_final,
    finalize_reset_at}`: the engine state `h`, the byte counter `t` (the two `u64` words `t[0], t[1]`
    read as one number — `increment_counter` carries from `t[0]` into `t[1]`), and the buffered
    bytes. `buf` holds the live part `self.buf[..buflen]` of the 128-byte array (the stale tail is
    dead: `update_mut` writes from `buflen` on and `internal_final` zeroes `buf[buflen..]` before
    it compresses), so `buflen = buf.length`.

  Import-free; every function is total. `Props/C10.lean` proves
  `finalize (chunks.foldl update (init nn)) = blake2b nn chunks.flatten` for every chunking.
-/
namespace PallasVerif.Blake2b

abbrev Bytes := List UInt8

/-- engine state `h[0..8]` -/
abbrev H := Array UInt64

def iv : H := #[
  0x6a09e667f3bcc908, 0xbb67ae8584caa73b, 0x3c6ef372fe94f82b, 0xa54ff53a5f1d36f1,
  0x510e527fade682d1, 0x9b05688c2b3e6c1f, 0x1f83d9abfb41bd6b, 0x5be0cd19137e2179]

def sigma : Array (Array Nat) := #[
  #[0, 1, 2, 3, 4, 5, 6, 7, 8, 9, 10, 11, 12, 13, 14, 15],
  #[14, 10, 4, 8, 9, 15, 13, 6, 1, 12, 0, 2, 11, 7, 5, 3],
  #[11, 8, 12, 0, 5, 2, 15, 13, 10, 14, 3, 6, 7, 1, 9, 4],
  #[7, 9, 3, 1, 13, 12, 11, 14, 2, 6, 5, 10, 4, 0, 15, 8],
  #[9, 0, 5, 7, 2, 4, 10, 15, 14, 1, 11, 12, 6, 8, 3, 13],
  #[2, 12, 6, 10, 0, 11, 8, 3, 4, 13, 7, 5, 15, 14, 1, 9],
  #[12, 5, 1, 15, 14, 13, 4, 10, 0, 7, 6, 3, 9, 2, 8, 11],
  #[13, 11, 7, 14, 12, 1, 3, 9, 5, 0, 15, 4, 8, 6, 2, 10],
  #[6, 15, 14, 9, 11, 3, 0, 8, 12, 2, 13, 7, 1, 4, 10, 5],
  #[10, 2, 8, 4, 7, 6, 1, 5, 15, 11, 9, 14, 3, 12, 13, 0]]

@[inline] def rotr (x : UInt64) (n : UInt64) : UInt64 := (x >>> n) ||| (x <<< (64 - n))

/-- RFC 7693 §3.1 mixing function G (R1..R4 = 32, 24, 16, 63) -/
def g (v : Array UInt64) (a b c d : Nat) (x y : UInt64) : Array UInt64 :=
  let va := v[a]! + v[b]! + x
  let vd := rotr (v[d]! ^^^ va) 32
  let vc := v[c]! + vd
  let vb := rotr (v[b]! ^^^ vc) 24
  let va := va + vb + y
  let vd := rotr (vd ^^^ va) 16
  let vc := vc + vd
  let vb := rotr (vb ^^^ vc) 63
  (((v.set! a va).set! b vb).set! c vc).set! d vd

/-- little-endian `u64` from (up to) 8 bytes -/
def le64 (bs : Bytes) : UInt64 :=
  (bs.take 8).foldr (fun b acc => (acc <<< 8) ||| b.toUInt64) 0

def leBytes64 (w : UInt64) : Bytes :=
  (List.range 8).map (fun i => (w >>> (8 * i).toUInt64).toUInt8)

/-- the sixteen message words of a 128-byte block -/
def wordsOf (block : Bytes) : Array UInt64 :=
  ((List.range 16).map (fun i => le64 (block.drop (8 * i)))).toArray

def round (m : Array UInt64) (v : Array UInt64) (r : Nat) : Array UInt64 :=
  let s := sigma[r % 10]!
  let v := g v 0 4 8 12 m[s[0]!]! m[s[1]!]!
  let v := g v 1 5 9 13 m[s[2]!]! m[s[3]!]!
  let v := g v 2 6 10 14 m[s[4]!]! m[s[5]!]!
  let v := g v 3 7 11 15 m[s[6]!]! m[s[7]!]!
  let v := g v 0 5 10 15 m[s[8]!]! m[s[9]!]!
  let v := g v 1 6 11 12 m[s[10]!]! m[s[11]!]!
  let v := g v 2 7 8 13 m[s[12]!]! m[s[13]!]!
  g v 3 4 9 14 m[s[14]!]! m[s[15]!]!

/-- RFC 7693 §3.2 compression function F: state `h`, 128-byte `block`, offset counter `t`
    (a 128-bit number), final-block flag. -/
def compress (h : H) (block : Bytes) (t : Nat) (last : Bool) : H :=
  let m := wordsOf block
  let v : Array UInt64 := h ++ iv
  let v := v.set! 12 (v[12]! ^^^ (t % 2 ^ 64).toUInt64)
  let v := v.set! 13 (v[13]! ^^^ (t / 2 ^ 64 % 2 ^ 64).toUInt64)
  let v := if last then v.set! 14 (v[14]! ^^^ 0xFFFFFFFFFFFFFFFF) else v
  let v := (List.range 12).foldl (round m) v
  ((List.range 8).map (fun i => h[i]! ^^^ v[i]! ^^^ v[i + 8]!)).toArray

/-- parameter block of an unkeyed sequential hash: `h[0] ^= 0x01010000 ^ (kk << 8) ^ nn`, `kk = 0` -/
def initH (nn : Nat) : H := iv.set! 0 (iv[0]! ^^^ 0x01010000 ^^^ nn.toUInt64)

/-- zero padding of the final block -/
def pad (bs : Bytes) : Bytes := bs ++ List.replicate (128 - bs.length) 0

/-- the first `nn` bytes of the little-endian words of `h` -/
def digestOf (h : H) (nn : Nat) : Bytes := (h.toList.flatMap leBytes64).take nn

/-! ## RFC 7693 §3.3, one shot -/

/-- all blocks but the last with `f = false`, the last (padded) with `t = ll`, `f = true` -/
def rfcBlocks (h : H) (t : Nat) (data : Bytes) : H :=
  if data.length > 128 then
    rfcBlocks (compress h (data.take 128) (t + 128) false) (t + 128) (data.drop 128)
  else compress h (pad data) (t + data.length) true
termination_by data.length
decreasing_by simp [List.length_drop]; omega

def blake2b (nn : Nat) (data : Bytes) : Bytes := digestOf (rfcBlocks (initH nn) 0 data) nn

def blake2b160 := blake2b 20
def blake2b224 := blake2b 28
def blake2b256 := blake2b 32

/-! ## The streaming hasher (cryptoxide `ContextDyn`) -/

structure Ctx where
  h : H
  t : Nat
  buf : Bytes
  outlen : Nat

/-- `ContextDyn::new(output_bytes)` -/
def init (nn : Nat) : Ctx := { h := initH nn, t := 0, buf := [], outlen := nn }

/-- the `while input.len() > BLOCK_BYTES` loop of `update_mut`: full blocks straight from the
    input, always keeping back the last (possibly full) block -/
def loop (h : H) (t : Nat) (inp : Bytes) : H × Nat × Bytes :=
  if inp.length > 128 then
    loop (compress h (inp.take 128) (t + 128) false) (t + 128) (inp.drop 128)
  else (h, t, inp)
termination_by inp.length
decreasing_by simp [List.length_drop]; omega

/-- `ContextDyn::update_mut` -/
def update (c : Ctx) (inp : Bytes) : Ctx :=
  if inp.isEmpty then c
  else
    let fill := 128 - c.buf.length
    if inp.length > fill then
      let t1 := c.t + 128
      let h1 := compress c.h (c.buf ++ inp.take fill) t1 false
      let r := loop h1 t1 (inp.drop fill)
      { c with h := r.1, t := r.2.1, buf := r.2.2 }
    else { c with buf := c.buf ++ inp }

/-- `internal_final` + the copy of `buf[0..outlen]` in `finalize_reset_at` -/
def finalize (c : Ctx) : Bytes :=
  digestOf (compress c.h (pad c.buf) (c.t + c.buf.length) true) c.outlen

/-- what `pallas_crypto::hash::Hasher::<BITS>::hash` does: `new`, one `input`, `finalize` -/
def hashOneInput (nn : Nat) (data : Bytes) : Bytes := finalize (update (init nn) data)

/-- a hasher fed with a list of `input` calls -/
def hashChunks (nn : Nat) (chunks : List Bytes) : Bytes := finalize (chunks.foldl update (init nn))

/-! ## start-up self-test data (RFC 7693 appendix A and well-known digests) -/

def hexDigit (n : Nat) : Char := if n < 10 then Char.ofNat (48 + n) else Char.ofNat (87 + n)
def toHex (bs : Bytes) : String :=
  String.ofList (bs.flatMap fun b => [hexDigit (b.toNat / 16), hexDigit (b.toNat % 16)])

def abc : Bytes := [0x61, 0x62, 0x63]

/-- (digest length, input, expected hex) -/
def vectors : List (Nat × Bytes × String) := [
  (64, abc, "ba80a53f981c4d0d6a2797b69f12f6e94c212f14685ac4b74b12bb6fdbffa2d1" ++
            "7d87c5392aab792dc252d5de4533cc9518d38aa8dbf1925ab92386edd4009923"),
  (64, [], "786a02f742015903c6c6fd852552d272912f4740e15847618a86e217f71f5419" ++
           "d25e1031afee585313896444934eb04b903a685b1448b755d56f701afe9be2ce"),
  (32, [], "0e5751c026e543b2e8ab2eb06099daa1d1e5df47778f7787faab45cdf12fe3a8"),
  (32, abc, "bddd813c634239723171ef3fee98579b94964e3bb1cb3e427262c8c068d52319"),
  (28, [], "836cc68931c2e4e3e838602eca1902591d216837bafddfe6f0c8cb07"),
  (20, [], "3345524abf6bbe1809449224b5972c41790b6cf2")]

def selfTest : Bool := vectors.all fun (nn, inp, want) => toHex (blake2b nn inp) == want

end PallasVerif.Blake2b
