import PallasVerif.Model.Cbor
import PallasVerif.Model.Blake2b
import PallasVerif.Model.TxView
/-
  C05 — ledger identifiers defined with NO typed decoder and NO encoder of ledger values: each is
  BLAKE2b of a byte span that the strict generic parser (`Cbor.parseItem`) delimits in the wire
  bytes, plus the era prefix (`pallas-traverse/src/hashes.rs`: `OriginalHash for KeepRaw<..>`,
  `hash_cbor(&(0|1, self))` for Byron headers, `hash_tagged(.., 0)` for native scripts).
  A sub-item's span is written `Item.encode` of the concrete syntax tree node; by
  `Proofs/Cbor.parseItem_sound` that is literally the slice of the input (see Props/C05).
  Import-free (Model only).
-/
namespace PallasVerif.IdHash
open PallasVerif.Cbor PallasVerif.TxView
open PallasVerif.Blake2b (blake2b256 blake2b224)

/-- span of element `k` of the array that `bs` starts with -/
def elemSpan (k : Nat) (bs : Bytes) : Option Bytes :=
  match parseItem bs with
  | some (top, _) =>
    match top.arrayItems? with
    | some xs => (xs[k]?).map Item.encode
    | none => none
  | none => none

/-- transaction id of a stand-alone transaction `[body, ..]` (post-Byron) or Byron payload
    `[tx, witnesses]`: BLAKE2b-256 of the span of element 0 -/
def txId (bs : Bytes) : Option Bytes := (elemSpan 0 bs).map blake2b256

/-- `Hasher::<256>::hash_cbor(&(tag, keep_raw))`: the tuple head `0x82`, the tag, the raw bytes -/
def byronPrefixed (tag : UInt8) (span : Bytes) : Bytes := [0x82, tag] ++ span

/-- header hash by block wrapper tag: 0 = epoch boundary, 1 = Byron main, ≥ 2 = Shelley and later -/
def headerHash (wrapperTag : Nat) (span : Bytes) : Bytes :=
  if wrapperTag = 0 then blake2b256 (byronPrefixed 0 span)
  else if wrapperTag = 1 then blake2b256 (byronPrefixed 1 span)
  else blake2b256 span

/-- `MultiEraHeader::decode(tag, subtag, cbor)` then `hash()`: tag 0 is Byron — subtag `Some(0)` the
    epoch-boundary header (prefix `82 00`), anything else the main-block header (prefix `82 01`);
    tags ≥ 1 are the Shelley-and-later headers (no prefix) -/
def headerHashN2N (tag : Nat) (subtag : Option Nat) (span : Bytes) : Bytes :=
  if tag = 0 then
    (if subtag = some 0 then blake2b256 (byronPrefixed 0 span) else blake2b256 (byronPrefixed 1 span))
  else blake2b256 span

/-- block hash = hash of the header item `bs[1][0]` -/
def blockHash (bs : Bytes) : Option Bytes :=
  match viewBlock bs with
  | some v => some (headerHash v.tag v.header.encode)
  | none => none

def datumHash (span : Bytes) : Bytes := blake2b256 span

/-- `hash_tagged(raw, 0)` -/
def nativeScriptHash (span : Bytes) : Bytes := blake2b224 (0 :: span)

/-! ### where the datums / scripts of a transaction sit (generic tree, era only decides whether
    the optional set tag 258 is legal) -/

def itemsOfKey (set : Bool) (k : Nat) (m : Item) : List Item :=
  match m.mapEntries? with
  | some es =>
    match mapGet k es with
    | some v => ((if set then untag258 v else v).arrayItems?).getD []
    | none => []
  | none => []

/-- `[body, wits]` of a stand-alone post-Byron transaction -/
def bodyWits? (top : Item) : Option (Item × Item) :=
  match top.arrayItems? with
  | some [b, w, _, _] => some (b, w)
  | _ => none

/-- witness-set datums (key 4) -/
def witnessDatumSpans (set : Bool) (wits : Item) : List Bytes := (itemsOfKey set 4 wits).map Item.encode
/-- witness-set native scripts (key 1) -/
def nativeScriptSpans (set : Bool) (wits : Item) : List Bytes := (itemsOfKey set 1 wits).map Item.encode

/-- inline datum of a post-Alonzo output `{.., 2: [1, #6.24(bytes)]}`: the first item inside the
    wrapped byte string (its original bytes) -/
def inlineDatumSpan? (o : Item) : Option Bytes :=
  match o.mapEntries? with
  | some es =>
    match mapGet 2 es with
    | some d =>
      match d.arrayItems? with
      | some [k, .tag h w] =>
        if k.uint? = some 1 ∧ h.val = 24 then
          match w.strPayload? 2 with
          | some inner => firstSpan inner
          | none => none
        else none
      | _ => none
    | none => none
  | none => none

def inlineDatumSpans (body : Item) : List Bytes :=
  match body.mapEntries? with
  | some es =>
    match mapGet 1 es with
    | some outs => ((outs.arrayItems?).getD []).filterMap inlineDatumSpan?
    | none => []
  | none => []

end PallasVerif.IdHash
