import PallasVerif.Model.Fsm
/-
  Specification tables of the eight mini-protocols of the P2P stack (pallas-network2), written by
  hand from DESIGN.md Appendix A (Ouroboros network specification; CIP-164 for the two Leios
  protocols) — *not* derived from the code. Names follow the Rust enums so that tables can be
  compared: handshake `Propose/Accept` = MsgProposeVersions/MsgAcceptVersion, keep-alive
  `Client/Server` = StClient/StServer, `ResponseKeepAlive` = MsgKeepAliveResponse, tx-submission
  `RequestTxIds(true|false)` = MsgRequestTxIds with the blocking flag set / cleared,
  `TxIdsBlocking/TxIdsNonBlocking` = StTxIds blocking / non-blocking.

  `carried` = the message fields (by position in the Rust variant) the successor state has to
  hold ("carrying the received data"). Where the successor state class of the P2P stack has no
  slot of the field's type (tx-submission's unit states; `Txs` holds bodies, not ids; flow-control
  counts) nothing can be demanded and the list is empty. For leios-fetch `BlockTxs` the received
  data is field 2 (the transactions); fields 0/1 only echo the request the state already holds.

  Everything not listed is a violation; `Done` states accept nothing.
-/
namespace PallasVerif.FsmSpecN2
open PallasVerif.Fsm

def handshake : Spec where
  name := "handshake"
  states := [("Propose", .client), ("Confirm", .server), ("Done", .nobody)]
  msgs := ["Propose", "Accept", "Refuse", "QueryReply"]
  init := "Propose"
  trans := [
    ⟨"Propose", "Propose", "Confirm", [0]⟩,
    ⟨"Confirm", "Accept", "Done", [0, 1]⟩,
    ⟨"Confirm", "Refuse", "Done", [0]⟩,
    ⟨"Confirm", "QueryReply", "Done", [0]⟩
  ]

def chainsync : Spec where
  name := "chainsync"
  states := [("Idle", .client), ("CanAwait", .server), ("MustReply", .server), ("Intersect", .server), ("Done", .nobody)]
  msgs := ["RequestNext", "AwaitReply", "RollForward", "RollBackward", "FindIntersect", "IntersectFound",
           "IntersectNotFound", "Done"]
  init := "Idle"
  trans := [
    ⟨"Idle", "RequestNext", "CanAwait", []⟩,
    ⟨"Idle", "FindIntersect", "Intersect", [0]⟩,
    ⟨"Idle", "Done", "Done", []⟩,
    ⟨"CanAwait", "AwaitReply", "MustReply", []⟩,
    ⟨"CanAwait", "RollForward", "Idle", [0, 1]⟩,
    ⟨"CanAwait", "RollBackward", "Idle", [0, 1]⟩,
    ⟨"MustReply", "RollForward", "Idle", [0, 1]⟩,
    ⟨"MustReply", "RollBackward", "Idle", [0, 1]⟩,
    ⟨"Intersect", "IntersectFound", "Idle", [0, 1]⟩,
    ⟨"Intersect", "IntersectNotFound", "Idle", [0]⟩
  ]

def blockfetch : Spec where
  name := "blockfetch"
  states := [("Idle", .client), ("Busy", .server), ("Streaming", .server), ("Done", .nobody)]
  msgs := ["RequestRange", "ClientDone", "StartBatch", "NoBlocks", "Block", "BatchDone"]
  init := "Idle"
  trans := [
    ⟨"Idle", "RequestRange", "Busy", [0]⟩,
    ⟨"Idle", "ClientDone", "Done", []⟩,
    ⟨"Busy", "StartBatch", "Streaming", []⟩,
    ⟨"Busy", "NoBlocks", "Idle", []⟩,
    ⟨"Streaming", "Block", "Streaming", [0]⟩,
    ⟨"Streaming", "BatchDone", "Idle", []⟩
  ]

def txsubmission : Spec where
  name := "txsubmission"
  states := [("Init", .client), ("Idle", .server), ("TxIdsBlocking", .client), ("TxIdsNonBlocking", .client),
             ("Txs", .client), ("Done", .nobody)]
  msgs := ["Init", "RequestTxIds(true)", "RequestTxIds(false)", "ReplyTxIds", "RequestTxs", "ReplyTxs", "Done"]
  init := "Init"
  trans := [
    ⟨"Init", "Init", "Idle", []⟩,
    ⟨"Idle", "RequestTxIds(true)", "TxIdsBlocking", []⟩,
    ⟨"Idle", "RequestTxIds(false)", "TxIdsNonBlocking", []⟩,
    ⟨"Idle", "RequestTxs", "Txs", []⟩,
    ⟨"TxIdsBlocking", "ReplyTxIds", "Idle", []⟩,
    ⟨"TxIdsBlocking", "Done", "Done", []⟩,
    ⟨"TxIdsNonBlocking", "ReplyTxIds", "Idle", []⟩,
    ⟨"Txs", "ReplyTxs", "Idle", []⟩
  ]

def keepalive : Spec where
  name := "keepalive"
  states := [("Client", .client), ("Server", .server), ("Done", .nobody)]
  msgs := ["KeepAlive", "ResponseKeepAlive", "Done"]
  init := "Client"
  trans := [
    ⟨"Client", "KeepAlive", "Server", [0]⟩,
    ⟨"Client", "Done", "Done", []⟩,
    ⟨"Server", "ResponseKeepAlive", "Client", [0]⟩
  ]

def peersharing : Spec where
  name := "peersharing"
  states := [("Idle", .client), ("Busy", .server), ("Done", .nobody)]
  msgs := ["ShareRequest", "SharePeers", "Done"]
  init := "Idle"
  trans := [
    ⟨"Idle", "ShareRequest", "Busy", [0]⟩,
    ⟨"Idle", "Done", "Done", []⟩,
    ⟨"Busy", "SharePeers", "Idle", [0]⟩
  ]

def leiosnotify : Spec where
  name := "leiosnotify"
  states := [("Idle", .client), ("Busy", .server), ("Done", .nobody)]
  msgs := ["RequestNext", "BlockAnnouncement", "BlockOffer", "BlockTxsOffer", "Votes", "Done"]
  init := "Idle"
  trans := [
    ⟨"Idle", "RequestNext", "Busy", []⟩,
    ⟨"Idle", "Done", "Done", []⟩,
    ⟨"Busy", "BlockAnnouncement", "Idle", [0]⟩,
    ⟨"Busy", "BlockOffer", "Idle", [0, 1]⟩,
    ⟨"Busy", "BlockTxsOffer", "Idle", [0]⟩,
    ⟨"Busy", "Votes", "Idle", [0]⟩
  ]

def leiosfetch : Spec where
  name := "leiosfetch"
  states := [("Idle", .client), ("AwaitingBlock", .server), ("AwaitingBlockTxs", .server), ("Done", .nobody)]
  msgs := ["BlockRequest", "Block", "BlockTxsRequest", "BlockTxs", "Done"]
  init := "Idle"
  trans := [
    ⟨"Idle", "BlockRequest", "AwaitingBlock", [0]⟩,
    ⟨"Idle", "BlockTxsRequest", "AwaitingBlockTxs", [0, 1]⟩,
    ⟨"Idle", "Done", "Done", []⟩,
    ⟨"AwaitingBlock", "Block", "Idle", [0]⟩,
    ⟨"AwaitingBlockTxs", "BlockTxs", "Idle", [2]⟩
  ]

/-- the eight protocols the property names -/
def specs : List Spec :=
  [handshake, keepalive, chainsync, blockfetch, peersharing, txsubmission, leiosnotify, leiosfetch]

def specOf (name : String) : Option Spec := specs.find? (fun sp => sp.name = name)

/-- tx-submission as the unchanged code implements it in the one place recorded as a known finding
    (`Txs + ReplyTxs` stays in `Txs`, because the responder reads the received bodies out of that
    state): used only to state what *is* proved about tx-submission histories. -/
def txsubmissionAsImplemented : Spec :=
  { txsubmission with
    trans := txsubmission.trans.map (fun r =>
      if r.st = "Txs" ∧ r.msg = "ReplyTxs" then { r with next := "Txs", carried := [0] } else r) }

end PallasVerif.FsmSpecN2
