/-
  Model of `pallas-codec/src/flat` (`encode/encoder.rs`, `decode/decoder.rs`, `zigzag.rs`,
  `mod.rs`), transcribed method by method ("FlatImpl": the `used_bits / current_byte / pos`
  code that the correspondence stream `flat` runs against the real crate).

  Conventions
  * a byte is `BitVec 8`; `u8` shifts by a Nat amount `< 8` are `<<<`/`>>>` (bits shifted out are
    dropped, as in Rust); a Rust shift by `≥ 8` (resp. `≥ 64` on `usize`) traps in the `dev`
    profile and is an explicit `panic` outcome here;
  * `buffer[i]` with `i ≥ len`, a slice past the end and `usize`/`i64` subtraction below zero are
    explicit `panic` outcomes;
  * `usize`/`isize` *additions* on `pos`/`len`-sized quantities are computed in `Nat`/`Int`: every
    such quantity is bounded by `8·len + 8`, so they cannot wrap for buffers below 2^60 bytes
    (assumption recorded in the evidence);
  * `while` loops take fuel; running out of fuel is reported as `panic`, so the totality theorem
    (`Props/C02`) also shows that the chosen fuel is never exhausted;
  * the decoder is the code *after* the three `fix:` commits (bool via `bit()`, bounded shift in
    `word`, `bits8(0)`); the arms as they were before are kept as `Orig.*` for the witnesses.
-/
namespace PallasVerif.Flat

abbrev Byte := BitVec 8

/-! ## Encoder (`encode/encoder.rs`) -/

structure Enc where
  buf : List Byte
  used : Nat
  cur : Byte
  deriving Repr, DecidableEq

/-- result of an encoder call: `err` = `Error::BufferNotByteAligned` -/
inductive ERes where
  | ok (e : Enc)
  | err
  | panic
  deriving Repr, DecidableEq

namespace Enc

def new : Enc := ⟨[], 0, 0⟩

/-- `next_word`: push `current_byte`, reset -/
def nextWord (e : Enc) : Enc := ⟨e.buf ++ [e.cur], 0, 0⟩

/-- `zero` -/
def zero (e : Enc) : Enc :=
  if e.used = 7 then e.nextWord else { e with used := e.used + 1 }

/-- `one` -/
def one (e : Enc) : Enc :=
  if e.used = 7 then ({ e with cur := e.cur ||| 1#8 }).nextWord
  else { e with cur := e.cur ||| (128#8 >>> e.used), used := e.used + 1 }

/-- `bool` -/
def bool (e : Enc) (x : Bool) : Enc := if x then e.one else e.zero

/-- `byte_unaligned` -/
def byteUnaligned (e : Enc) (x : Byte) : Enc :=
  { buf := e.buf ++ [e.cur ||| (x >>> e.used)], used := e.used, cur := x <<< (8 - e.used) }

/-- `u8` -/
def u8 (e : Enc) (x : Byte) : Enc :=
  if e.used = 0 then ({ e with cur := x }).nextWord else e.byteUnaligned x

/-- `filler` -/
def filler (e : Enc) : Enc := ({ e with cur := e.cur ||| 1#8 }).nextWord

/-- the `(_, _)` arm of `bits`; `none` = shift-overflow trap -/
def bitsGeneric (e : Enc) (numBits : Nat) (val : Byte) : Option Enc :=
  let used' := e.used + numBits
  -- unused_bits = 8 - used_bits  (i64)
  if used' = 8 then
    some ({ e with used := used', cur := e.cur ||| val }).nextWord
  else if used' < 8 then
    let x := 8 - used'
    if x ≥ 8 then none                       -- `val << x` with x = 8
    else some { e with used := used', cur := e.cur ||| (val <<< x) }
  else
    let used := used' - 8
    if used ≥ 8 then none                    -- `val >> used`
    else
      let e1 := ({ e with used := used', cur := e.cur ||| (val >>> used) }).nextWord
      some { e1 with cur := val <<< (8 - used), used := used }

/-- `bits(num_bits, val)` (public; `num_bits ≥ 0`) -/
def bits (e : Enc) (numBits : Nat) (val : Byte) : Option Enc :=
  match numBits, val.toNat with
  | 1, 0 => some e.zero
  | 1, 1 => some e.one
  | 2, 0 => some e.zero.zero
  | 2, 1 => some e.zero.one
  | 2, 2 => some e.one.zero
  | 2, 3 => some e.one.one
  | _, _ => e.bitsGeneric numBits val

/-- `word`: the loop runs once per 7-bit group, at most 10 times for a 64-bit `usize` -/
def wordLoop : Nat → Enc → Nat → Option Enc
  | 0, _, _ => none
  | fuel + 1, e, d =>
    let w : Byte := BitVec.ofNat 8 (d &&& 127)
    let d' := d >>> 7
    let w := if d' ≠ 0 then w ||| 128#8 else w
    match e.bits 8 w with
    | none => none
    | some e' => if d' = 0 then some e' else wordLoop fuel e' d'

def word (e : Enc) (c : Nat) : Option Enc := wordLoop 10 e c

/-- `chunks(255)` of `write_blk`: length byte then the chunk -/
def blkChunks : Nat → List Byte → List Byte
  | 0, _ => []
  | fuel + 1, arr =>
    if arr.isEmpty then []
    else BitVec.ofNat 8 (min 255 arr.length) :: (arr.take 255 ++ blkChunks fuel (arr.drop 255))

/-- bytes appended by `write_blk` -/
def blk (arr : List Byte) : List Byte := blkChunks arr.length arr ++ [0#8]

def writeBlk (e : Enc) (arr : List Byte) : Enc := { e with buf := e.buf ++ blk arr }

/-- `byte_array` -/
def byteArray (e : Enc) (arr : List Byte) : ERes :=
  if e.used ≠ 0 then .err else .ok (e.writeBlk arr)

/-- `bytes` (and `utf8`, which is `bytes(s.as_bytes())`) -/
def bytes (e : Enc) (x : List Byte) : ERes := e.filler.byteArray x

end Enc

/-! ## zigzag (`zigzag.rs`), on the mathematical integers

`isize::zigzag`: `((i << 1) ^ (i >> 63)) as usize` computed in `i128`: for `i ≥ 0` the mask is 0,
for `i < 0` it is all ones, and `x ^ -1 = -x - 1`. `usize::zigzag`: `(n >> 1) ^ -(n & 1)`. -/

def zigzag (i : Int) : Nat := if i ≥ 0 then (2 * i).toNat else (-2 * i - 1).toNat

def unzigzag (n : Nat) : Int := if n % 2 = 0 then (n / 2 : Nat) else -((n / 2 : Nat) : Int) - 1

/-! ## Decoder (`decode/decoder.rs`) -/

structure Dec where
  buf : List Byte
  pos : Nat
  used : Nat
  deriving Repr, DecidableEq

inductive Err where
  | eob                 -- EndOfBuffer
  | align               -- BufferNotByteAligned
  | numBits             -- IncorrectNumBits
  | bytes (n : Nat)     -- NotEnoughBytes
  | bits (n : Nat)      -- NotEnoughBits
  | utf8                -- DecodeUtf8
  | char (c : Nat)      -- DecodeChar
  | msg                 -- Message
  deriving Repr, DecidableEq

/-- result of a decoder call; the decoder state is kept on errors too, because a caller may go
    on using the same `Decoder` -/
inductive Res (α : Type) where
  | ok (a : α) (d : Dec)
  | err (e : Err) (d : Dec)
  | panic
  deriving Repr, DecidableEq

def Res.isPanic {α : Type} : Res α → Bool
  | .panic => true
  | _ => false

namespace Dec

def new (bytes : List Byte) : Dec := ⟨bytes, 0, 0⟩

/-- `increment_buffer_by_bit` -/
def incBit (d : Dec) : Dec :=
  if d.used = 7 then { d with pos := d.pos + 1, used := 0 } else { d with used := d.used + 1 }

/-- `bit` -/
def bit (d : Dec) : Res Bool :=
  if d.pos ≥ d.buf.length then .err .eob d
  else
    match d.buf[d.pos]? with
    | none => .panic
    | some b =>
      if d.used ≥ 8 then .panic                       -- `128 >> used_bits`
      else .ok ((b &&& (128#8 >>> d.used)) ≠ 0#8) d.incBit

/-- `bool` (after `fix: flat Decoder::bool …`) -/
def bool (d : Dec) : Res Bool := d.bit

/-- `zero` -/
def zero (d : Dec) : Res Bool :=
  match d.bit with
  | .ok b d' => .ok (!b) d'
  | .err e d' => .err e d'
  | .panic => .panic

/-- `filler`: `while self.zero()? {}` — one bit per round -/
def fillerLoop : Nat → Dec → Res Unit
  | 0, _ => .panic
  | fuel + 1, d =>
    match d.zero with
    | .ok true d' => fillerLoop fuel d'
    | .ok false d' => .ok () d'
    | .err e d' => .err e d'
    | .panic => .panic

def filler (d : Dec) : Res Unit := fillerLoop (8 * (d.buf.length - d.pos) + 1) d

/-- `ensure_bytes` : `true` = enough -/
def ensureBytes (d : Dec) (required : Nat) : Bool :=
  ¬ ((required : Int) > (d.buf.length : Int) - (d.pos : Int))

/-- `ensure_bits` -/
def ensureBits (d : Dec) (required : Nat) : Bool :=
  ¬ ((required : Int) > ((d.buf.length : Int) - (d.pos : Int)) * 8 - (d.used : Int))

/-- `drop_bits` -/
def dropBits (d : Dec) (numBits : Nat) : Dec :=
  let all := numBits + d.used
  { d with used := all % 8, pos := d.pos + all / 8 }

/-- `bits8` (after `fix: flat Decoder::bits8 …`) -/
def bits8 (d : Dec) (numBits : Nat) : Res Byte :=
  if numBits > 8 then .err .numBits d
  else if numBits = 0 then .ok 0#8 d
  else if ¬ d.ensureBits numBits then .err (.bits numBits) d
  else
    if d.used > 8 then .panic else              -- `8 - used_bits as usize`
    let unused := 8 - d.used
    let lz := 8 - numBits
    match d.buf[d.pos]? with
    | none => .panic
    | some b0 =>
      if d.used ≥ 8 ∨ lz ≥ 8 then .panic else   -- `<< used_bits`, `>> leading_zeroes`
      let r := (b0 <<< d.used) >>> lz
      if numBits > unused then
        match d.buf[d.pos + 1]? with
        | none => .panic
        | some b1 =>
          if unused + lz ≥ 8 then .panic else
          .ok (r ||| (b1 >>> (unused + lz))) (d.dropBits numBits)
      else .ok r (d.dropBits numBits)

/-- `u8` -/
def u8 (d : Dec) : Res Byte := d.bits8 8

/-- `word` (after `fix: flat Decoder::word …`): one `bits8(8)` per round.
    `checked_shl(shl as u32)` is `None` for a shift `≥ 64`, otherwise the wrapped shift; the
    `filter` rejects a shift that lost bits. -/
def wordLoop : Nat → Dec → Nat → Nat → Res Nat
  | 0, _, _, _ => .panic
  | fuel + 1, d, finalWord, shl =>
    match d.bits8 8 with
    | .panic => .panic
    | .err e d' => .err e d'
    | .ok word8 d' =>
      let word7 := (word8 &&& 127#8).toNat
      let s32 := shl % 2 ^ 32
      if s32 ≥ 64 then .err .msg d' else
      let x := (word7 <<< s32) % 2 ^ 64
      if shl ≥ 64 then .panic else               -- `x >> shl`
      if x >>> shl ≠ word7 then .err .msg d' else
      let finalWord := finalWord ||| x
      if shl + 7 ≥ 2 ^ 64 then .panic else       -- `shl += 7`
      if (word8 &&& 128#8) ≠ 0#8 then wordLoop fuel d' finalWord (shl + 7)
      else .ok finalWord d'

def word (d : Dec) : Res Nat := wordLoop (d.buf.length - d.pos + 1) d 0 0

/-- `integer` -/
def integer (d : Dec) : Res Int :=
  match d.word with
  | .ok w d' => .ok (unzigzag w) d'
  | .err e d' => .err e d'
  | .panic => .panic

/-- `char::from_u32` succeeds -/
def validScalar (c : Nat) : Bool := c < 0xD800 ∨ (0xE000 ≤ c ∧ c ≤ 0x10FFFF)

/-- `char`: `word()? as u32`, then `char::from_u32` -/
def char (d : Dec) : Res Nat :=
  match d.word with
  | .ok w d' =>
    let c := w % 2 ^ 32
    if validScalar c then .ok c d' else .err (.char c) d'
  | .err e d' => .err e d'
  | .panic => .panic

/-- the `while blk_len != 0` loop of `byte_array` -/
def blkLoop : Nat → Dec → Nat → List Byte → Res (List Byte)
  | 0, _, _, _ => .panic
  | fuel + 1, d, blkLen, acc =>
    if blkLen = 0 then .ok acc d
    else if ¬ d.ensureBytes (blkLen + 1) then .err (.bytes (blkLen + 1)) d
    else if d.pos + blkLen > d.buf.length then .panic       -- slice `[pos..pos+blk_len]`
    else
      let acc := acc ++ (d.buf.drop d.pos).take blkLen
      let d1 := { d with pos := d.pos + blkLen }
      match d1.buf[d1.pos]? with
      | none => .panic
      | some b => blkLoop fuel { d1 with pos := d1.pos + 1 } b.toNat acc

/-- `byte_array` -/
def byteArray (d : Dec) : Res (List Byte) :=
  if d.used ≠ 0 then .err .align d
  else if ¬ d.ensureBytes 1 then .err (.bytes 1) d
  else
    match d.buf[d.pos]? with
    | none => .panic
    | some b => blkLoop (d.buf.length - d.pos + 1) { d with pos := d.pos + 1 } b.toNat []

/-- `bytes` -/
def bytes (d : Dec) : Res (List Byte) :=
  match d.filler with
  | .ok () d' => d'.byteArray
  | .err e d' => .err e d'
  | .panic => .panic

/-- `decode_list_with`: `while self.bit()? { push(f(self)?) }` -/
def listLoop {α : Type} (elem : Dec → Res α) : Nat → Dec → List α → Res (List α)
  | 0, _, _ => .panic
  | fuel + 1, d, acc =>
    match d.bit with
    | .panic => .panic
    | .err e d' => .err e d'
    | .ok false d' => .ok acc d'
    | .ok true d' =>
      match elem d' with
      | .panic => .panic
      | .err e d'' => .err e d''
      | .ok a d'' => listLoop elem fuel d'' (acc ++ [a])

def list {α : Type} (elem : Dec → Res α) (d : Dec) : Res (List α) :=
  listLoop elem (8 * (d.buf.length - d.pos) + 1) d []

end Dec

/-! ## `String::from_utf8` (std), modelled at its documented semantics: well-formed UTF-8 per
    Unicode Table 3-7 (no overlong forms, no surrogates, at most U+10FFFF). -/

def isCont (b : Byte) : Bool := 0x80 ≤ b.toNat ∧ b.toNat ≤ 0xBF

def validUtf8Fuel : Nat → List Byte → Bool
  | 0, _ => false
  | _ + 1, [] => true
  | fuel + 1, b0 :: rest =>
    let n := b0.toNat
    if n < 0x80 then validUtf8Fuel fuel rest
    else if 0xC2 ≤ n ∧ n ≤ 0xDF then
      match rest with
      | b1 :: r => isCont b1 && validUtf8Fuel fuel r
      | _ => false
    else if 0xE0 ≤ n ∧ n ≤ 0xEF then
      match rest with
      | b1 :: b2 :: r =>
        let lo := if n = 0xE0 then 0xA0 else 0x80
        let hi := if n = 0xED then 0x9F else 0xBF
        decide (lo ≤ b1.toNat ∧ b1.toNat ≤ hi) && isCont b2 && validUtf8Fuel fuel r
      | _ => false
    else if 0xF0 ≤ n ∧ n ≤ 0xF4 then
      match rest with
      | b1 :: b2 :: b3 :: r =>
        let lo := if n = 0xF0 then 0x90 else 0x80
        let hi := if n = 0xF4 then 0x8F else 0xBF
        decide (lo ≤ b1.toNat ∧ b1.toNat ≤ hi) && isCont b2 && isCont b3 && validUtf8Fuel fuel r
      | _ => false
    else false

def validUtf8 (bs : List Byte) : Bool := validUtf8Fuel (bs.length + 1) bs

/-- `utf8`: `String::from_utf8(Vec::<u8>::decode(self)?)` -/
def Dec.utf8 (d : Dec) : Res (List Byte) :=
  match d.bytes with
  | .ok bs d' => if validUtf8 bs then .ok bs d' else .err .utf8 d'
  | .err e d' => .err e d'
  | .panic => .panic

/-- `string`: `while self.bit()? { s += &self.char()?.to_string() }` -/
def Dec.string (d : Dec) : Res (List Nat) := d.list Dec.char

/-- `Encoder::string`: `for c in s.chars() { one(); char(c) }; zero()` -/
def Enc.string (e : Enc) : List Nat → Option Enc
  | [] => some e.zero
  | c :: cs => match (e.one).word c with
    | some e' => Enc.string e' cs
    | none => none

/-- `encode_list_with(list, f)` for an arbitrary element encoder `f` -/
def Enc.list {α : Type} (f : Enc → α → Option Enc) (e : Enc) : List α → Option Enc
  | [] => some e.zero
  | a :: l => match f e.one a with
    | some e' => Enc.list f e' l
    | none => none


/-! ## Values, sequences (what the stream and the properties run) -/

inductive Value where
  | bool (b : Bool)
  | u8 (x : Byte)
  | bits (n : Nat) (v : Byte)       -- `Encoder::bits(n, v)` / `Decoder::bits8(n)`
  | word (w : Nat)                  -- usize
  | int (i : Int)                   -- isize
  | char (c : Nat)                  -- Unicode scalar value
  | bytes (bs : List Byte)
  | utf8 (bs : List Byte)           -- the UTF-8 bytes of a `&str`
  | bools (l : List Bool)           -- `encode_list_with(bool::encode)` / `decode_list_with(bool)`
  | string (cs : List Nat)          -- `Encoder::string` / `Decoder::string` (scalar values of the chars)
  deriving Repr, DecidableEq

inductive Kind where
  | bool | u8 | bits (n : Nat) | word | int | char | bytes | utf8 | bools | string
  deriving Repr, DecidableEq

def Value.kind : Value → Kind
  | .bool _ => .bool | .u8 _ => .u8 | .bits n _ => .bits n | .word _ => .word | .int _ => .int
  | .char _ => .char | .bytes _ => .bytes | .utf8 _ => .utf8 | .bools _ => .bools | .string _ => .string

/-- `encode_list_with(list, bool::encode)` -/
def Enc.bools (e : Enc) : List Bool → Enc
  | [] => e.zero
  | b :: l => Enc.bools ((e.one).bool b) l

/-- one encoder call per value -/
def Enc.value (e : Enc) : Value → ERes
  | .bool b => .ok (e.bool b)
  | .u8 x => .ok (e.u8 x)
  | .bits n v => match e.bits n v with | some e' => .ok e' | none => .panic
  | .word w => match e.word w with | some e' => .ok e' | none => .panic
  | .int i => match e.word (zigzag i) with | some e' => .ok e' | none => .panic
  | .char c => match e.word c with | some e' => .ok e' | none => .panic
  | .bytes bs => e.bytes bs
  | .utf8 bs => e.bytes bs
  | .bools l => .ok (e.bools l)
  | .string cs => match e.string cs with | some e' => .ok e' | none => .panic

def Enc.seq (e : Enc) : List Value → ERes
  | [] => .ok e
  | v :: vs =>
    match e.value v with
    | .ok e' => Enc.seq e' vs
    | r => r

/-- one decoder call per kind -/
def Dec.value (d : Dec) : Kind → Res Value
  | .bool => match d.bool with | .ok b d' => .ok (.bool b) d' | .err e d' => .err e d' | .panic => .panic
  | .u8 => match d.u8 with | .ok b d' => .ok (.u8 b) d' | .err e d' => .err e d' | .panic => .panic
  | .bits n => match d.bits8 n with | .ok b d' => .ok (.bits n b) d' | .err e d' => .err e d' | .panic => .panic
  | .word => match d.word with | .ok b d' => .ok (.word b) d' | .err e d' => .err e d' | .panic => .panic
  | .int => match d.integer with | .ok b d' => .ok (.int b) d' | .err e d' => .err e d' | .panic => .panic
  | .char => match d.char with | .ok b d' => .ok (.char b) d' | .err e d' => .err e d' | .panic => .panic
  | .bytes => match d.bytes with | .ok b d' => .ok (.bytes b) d' | .err e d' => .err e d' | .panic => .panic
  | .utf8 => match d.utf8 with | .ok b d' => .ok (.utf8 b) d' | .err e d' => .err e d' | .panic => .panic
  | .bools => match d.list Dec.bool with | .ok b d' => .ok (.bools b) d' | .err e d' => .err e d' | .panic => .panic
  | .string => match d.string with | .ok b d' => .ok (.string b) d' | .err e d' => .err e d' | .panic => .panic

/-- decode one value per kind, stopping at the first error -/
def Dec.seq (d : Dec) : List Kind → Res (List Value)
  | [] => .ok [] d
  | k :: ks =>
    match d.value k with
    | .ok v d' =>
      match Dec.seq d' ks with
      | .ok vs d'' => .ok (v :: vs) d''
      | r => r
    | .err e d' => .err e d'
    | .panic => .panic

/-! ## Arbitrary sequences of calls of the public decoder entry points on one `Decoder` -/

inductive DOp where
  | bool | u8 | bits8 (n : Nat) | word | integer | char | string | bytes | utf8 | filler
  | bools                           -- `decode_list_with(|d| d.bool())`
  deriving Repr, DecidableEq

/-- decoder state after a call (kept on `Err` as well); `none` = the call panicked -/
def Res.next {α : Type} : Res α → Option Dec
  | .ok _ d => some d
  | .err _ d => some d
  | .panic => none

def Dec.call (d : Dec) : DOp → Option Dec
  | .bool => d.bool.next
  | .u8 => d.u8.next
  | .bits8 n => (d.bits8 n).next
  | .word => d.word.next
  | .integer => d.integer.next
  | .char => d.char.next
  | .string => d.string.next
  | .bytes => d.bytes.next
  | .utf8 => d.utf8.next
  | .filler => d.filler.next
  | .bools => (d.list Dec.bool).next

/-- `true` iff no call of the sequence panicked (calls continue after an `Err`, as a caller may) -/
def Dec.runOps (d : Dec) : List DOp → Bool
  | [] => true
  | op :: ops =>
    match d.call op with
    | none => false
    | some d' => Dec.runOps d' ops

/-- `flat::decode::<T>(bytes)` of `mod.rs`: decode a `T`, then the filler -/
def decodeTop (k : Kind) (bytes : List Byte) : Res Value :=
  match (Dec.new bytes).value k with
  | .ok v d' =>
    match d'.filler with
    | .ok () d'' => .ok v d''
    | .err e d'' => .err e d''
    | .panic => .panic
  | r => r

/-- `flat::encode(&value)` of `mod.rs`: encode the value, then the filler; the encoder's buffer -/
def encodeTop (v : Value) : Option (List Byte) :=
  match Enc.new.value v with
  | .ok e => some e.filler.buf
  | _ => none

/-! ## The arms as they were before the `fix:` commits (witnesses of DESIGN §6 #1–#3) -/
namespace Orig

/-- `bool` indexed `buffer[pos]` without a bounds check -/
def bool (d : Dec) : Res Bool :=
  match d.buf[d.pos]? with
  | none => .panic
  | some b => if d.used ≥ 8 then .panic else .ok ((b &&& (128#8 >>> d.used)) ≠ 0#8) d.incBit

/-- `word`: `final_word |= (word7 as usize) << shl` -/
def wordLoop : Nat → Dec → Nat → Nat → Res Nat
  | 0, _, _, _ => .panic
  | fuel + 1, d, finalWord, shl =>
    match d.bits8 8 with
    | .panic => .panic
    | .err e d' => .err e d'
    | .ok word8 d' =>
      let word7 := (word8 &&& 127#8).toNat
      if shl ≥ 64 then .panic else
      let finalWord := finalWord ||| ((word7 <<< shl) % 2 ^ 64)
      if (word8 &&& 128#8) ≠ 0#8 then wordLoop fuel d' finalWord (shl + 7)
      else .ok finalWord d'

def word (d : Dec) : Res Nat := wordLoop (d.buf.length - d.pos + 1) d 0 0

/-- `bits8` without the `num_bits == 0` arm -/
def bits8 (d : Dec) (numBits : Nat) : Res Byte :=
  if numBits > 8 then .err .numBits d
  else if ¬ d.ensureBits numBits then .err (.bits numBits) d
  else
    if d.used > 8 then .panic else
    let unused := 8 - d.used
    let lz := 8 - numBits
    match d.buf[d.pos]? with
    | none => .panic
    | some b0 =>
      if d.used ≥ 8 ∨ lz ≥ 8 then .panic else
      let r := (b0 <<< d.used) >>> lz
      if numBits > unused then
        match d.buf[d.pos + 1]? with
        | none => .panic
        | some b1 =>
          if unused + lz ≥ 8 then .panic else
          .ok (r ||| (b1 >>> (unused + lz))) (d.dropBits numBits)
      else .ok r (d.dropBits numBits)

end Orig

end PallasVerif.Flat
