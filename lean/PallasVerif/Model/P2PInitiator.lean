import PallasVerif.Model.P2PProto
/-
  Model of `pallas-network2/src/behavior/initiator/*` (`InitiatorBehavior`): the per-peer
  `InitiatorState`, the nine sub-behaviours in the order of `all_visitors!`, `handle_io` and
  `execute`. One `step` per interface event / external command; `none` = the Rust panics.

  * `HashSet<PeerId>` = duplicate-free `List Nat` (`sinsert`/`sremove`); `.len()` = `length`.
  * `HashMap<PeerId, InitiatorState>` = `Nat → Option Peer`. Housekeeping iterates the map in hash
    order, which is not determined by the inputs: the event carries the order (`ord`) and the subset
    of discovered peers that `drain_new_peers` happened to take (`taken`); theorems quantify over both.
  * `usize` subtraction (`required_*`, `peer_deficit`, `request_peers`) = `usub` (`none` on underflow,
    a panic in the harness profile); `error_count += 1` on `u32` panics at `u32Bound`.
  * The `OutboundQueue` is the list `out` of outputs pushed while handling the current event.

  Transcribed from the tree *after* the four `fix:` commits (IncludePeer ignores tracked peers /
  discovered-while-tracked guard; `visit_tagged` syncs a commanded ban; BanPeer of an untracked peer
  records the ban; `propose_handshake` returns instead of asserting).
-/
namespace PallasVerif.P2P

/-- `PromotionTag` -/
inductive Tag where
  | cold | warm | hot | banned
  deriving DecidableEq, Repr

/-- `InitiatorState` -/
structure Peer where
  conn : Conn := .new
  tag : Tag := .cold
  hs : HsSt := .propose
  ka : KaSt := .client none
  ps : PsSt := .idle none
  bf : BfSt := .idle
  cs : CsSt := .idle .new
  tx : TxSt := .init
  ln : LnSt := .idle false
  lf : LfSt := .idle none
  violation : Bool := false
  errorCount : Nat := 0
  continueSync : Bool := false
  deriving DecidableEq, Repr

/-- `InitiatorEvent` (payloads reduced to ids) -/
inductive Event where
  | peerInitialized (p ver : Nat)
  | intersectionFound (p pt : Nat)
  | blockHeader (p h : Nat)
  | rollback (p pt : Nat)
  | blockBody (p b : Nat)
  | ebNotification (p : Nat)
  | ebFetched (p eb : Nat)
  deriving DecidableEq, Repr

/-- `BehaviorOutput<InitiatorBehavior>` -/
inductive Out where
  | connect (p : Nat)
  | disconnect (p : Nat)
  | send (p : Nat) (m : Msg)
  | event (e : Event)
  deriving DecidableEq, Repr

inductive LfReq where
  | block (eb : Nat)
  | blockTxs (eb : Nat)
  deriving DecidableEq, Repr

/-- `PromotionConfig` -/
structure Cfg where
  maxPeers : Nat
  maxWarm : Nat
  maxHot : Nat
  maxErr : Nat
  deriving DecidableEq, Repr

/-- `InitiatorBehavior` -/
structure St where
  cfg : Cfg
  cold : List Nat := []
  warm : List Nat := []
  hot : List Nat := []
  banned : List Nat := []
  peers : Nat → Option Peer := fun _ => none
  intersection : Bool := false          -- `chainsync.intersection.is_some()`
  bfQueue : List Nat := []              -- `blockfetch.requests`
  lfQueue : List (Nat × LfReq) := []    -- `leiosfetch.requests`
  discovered : List Nat := []           -- `discovery.discovered`
  hwm : Nat := 100                      -- `DiscoveryConfig::high_water_mark`
  kaToken : Nat := 65535                -- `KeepaliveBehavior::token`
  out : List Out := []

def St.init (cfg : Cfg) : St := { cfg := cfg }

/-! ## helpers -/

def sinsert (x : Nat) (l : List Nat) : List Nat := if x ∈ l then l else x :: l
def sremove (x : Nat) : List Nat → List Nat
  | [] => []
  | y :: ys => if y = x then sremove x ys else y :: sremove x ys

/-- `usize` subtraction in the dev profile -/
def usub (a b : Nat) : Option Nat := if b ≤ a then some (a - b) else none

def setPeer (f : Nat → Option Peer) (p : Nat) (st : Peer) : Nat → Option Peer :=
  fun q => if q = p then some st else f q

def St.push (s : St) (o : List Out) : St := { s with out := s.out ++ o }

/-! ## `InitiatorState` -/

def Peer.isInitialized (st : Peer) : Bool := st.conn == .initialized

/-- `supports_peer_sharing`: accepted version data has `peer_sharing > 0` -/
def Peer.supportsPeerSharing (st : Peer) : Bool :=
  match st.hs with
  | .accepted _ ps => decide (ps > 0)
  | _ => false

/-- `supports_leios`: accepted version `>= LEIOS_MIN_VERSION` -/
def Peer.supportsLeios (st : Peer) : Bool :=
  match st.hs with
  | .accepted v _ => decide (v ≥ leiosMinVersion)
  | _ => false

/-- `InitiatorState::apply_msg` -/
def Peer.applyMsg (st : Peer) : Msg → Peer
  | .hs m => match st.hs.apply m with
    | some n => { st with hs := n } | none => { st with violation := true }
  | .ka m => match st.ka.apply m with
    | some n => { st with ka := n } | none => { st with violation := true }
  | .ps m => match st.ps.apply m with
    | some n => { st with ps := n } | none => { st with violation := true }
  | .bf m => match st.bf.apply m with
    | some n => { st with bf := n } | none => { st with violation := true }
  | .cs m => match st.cs.apply m with
    | some n => { st with cs := n } | none => { st with violation := true }
  | .tx m => match st.tx.apply m with
    | some n => { st with tx := n } | none => { st with violation := true }
  | .ln m => match st.ln.apply m with
    | some n => { st with ln := n } | none => { st with violation := true }
  | .lf m => match st.lf.apply m with
    | some n => { st with lf := n } | none => { st with violation := true }

/-- `InitiatorState::reset`: everything back to default except `error_count` -/
def Peer.reset (st : Peer) : Peer := { errorCount := st.errorCount }

/-! ## promotion.rs -/

def St.total (s : St) : Nat := s.cold.length + s.warm.length + s.hot.length

/-- `ban_peer` -/
def banPeer (s : St) (p : Nat) (st : Peer) : St × Peer :=
  ({ s with hot := sremove p s.hot, warm := sremove p s.warm, cold := sremove p s.cold,
            banned := sinsert p s.banned },
   { st with tag := .banned })

/-- `promote_cold_peer` -/
def promoteCold (s : St) (p : Nat) (st : Peer) : St × Peer :=
  if p ∈ s.cold then
    ({ s with cold := sremove p s.cold, warm := sinsert p s.warm }, { st with tag := .warm })
  else (s, st)

/-- `promote_warm_peer` -/
def promoteWarm (s : St) (p : Nat) (st : Peer) : St × Peer :=
  if p ∈ s.warm then
    ({ s with warm := sremove p s.warm, hot := sinsert p s.hot }, { st with tag := .hot })
  else (s, st)

/-- `categorize_peer` (evaluation order of the `&&` chains kept: `required_*` first) -/
def categorize (s : St) (p : Nat) (st : Peer) : Option (St × Peer) :=
  if st.violation = true ∧ p ∉ s.banned then some (banPeer s p st)
  else if st.errorCount > s.cfg.maxErr ∧ p ∉ s.banned then some (banPeer s p st)
  else
    match usub s.cfg.maxWarm s.warm.length with
    | none => none
    | some rw =>
      if rw > 0 ∧ p ∈ s.cold then some (promoteCold s p st)
      else
        match usub s.cfg.maxHot s.hot.length with
        | none => none
        | some rh =>
          if rh > 0 ∧ p ∈ s.warm ∧ st.isInitialized = true then some (promoteWarm s p st)
          else some (s, st)

/-- `on_peer_discovered` (with the banned-tag and already-tracked guards of the fix) -/
def onPeerDiscovered (s : St) (p : Nat) (st : Peer) : Option (St × Peer) :=
  if p ∈ s.banned then some (s, { st with tag := .banned })
  else if p ∈ s.warm ∨ p ∈ s.hot then some (s, st)
  else
    match usub s.cfg.maxPeers s.total with
    | none => none
    | some r =>
      if r > 0 then some ({ s with cold := sinsert p s.cold }, { st with tag := .cold })
      else some (s, st)

/-! ## connection.rs -/

def needsConnection (st : Peer) : Bool :=
  match st.conn with
  | .connected | .connecting | .initialized | .errored => false
  | _ => match st.tag with
    | .warm | .hot => true
    | .banned | .cold => false

def needsDisconnect (st : Peer) : Bool :=
  match st.conn with
  | .errored => true
  | .new | .connecting | .disconnected => false
  | .connected | .initialized => match st.tag with
    | .cold | .banned => true
    | .warm | .hot => false

/-- `ConnectionBehavior::visit_housekeeping` -/
def connectionHk (p : Nat) (st : Peer) : Peer × List Out :=
  let r : Peer × List Out :=
    if needsConnection st then ({ st with conn := .connecting }, [.connect p]) else (st, [])
  if needsDisconnect r.1 then (r.1, r.2 ++ [.disconnect p]) else r

/-- `ConnectionBehavior::visit_errored` -/
def connectionErrored (p : Nat) (st : Peer) : List Out :=
  if needsDisconnect st then [.disconnect p] else []

/-! ## handshake.rs -/

/-- `propose_handshake` (the fixed early return instead of the `assert!`); the proposed table is
    the behaviour's configuration and is not modelled (`[]`) -/
def proposeHandshake (p : Nat) (st : Peer) : List Out :=
  if st.hs = .propose then [.send p (.hs (.propose []))] else []

/-- `visit_inbound_msg`: `needs_handshake` then `check_confirmation` -/
def handshakeInbound (p : Nat) (st : Peer) : Peer × List Out :=
  if st.conn = .connected then
    match st.hs with
    | .accepted v _ => ({ st with conn := .initialized }, [.event (.peerInitialized p v)])
    | _ => (st, [])
  else (st, [])

/-! ## keepalive.rs -/

def keepaliveHk (token p : Nat) (st : Peer) : List Out :=
  if st.isInitialized then
    match st.ka with
    | .client _ => [.send p (.ka (.keepAlive token))]
    | _ => []
  else []

/-! ## discovery.rs -/

def peerSupportsPeerSharing (st : Peer) : Bool := st.isInitialized && st.supportsPeerSharing

def discoveryAvailable (st : Peer) : Bool :=
  peerSupportsPeerSharing st && (st.ps == .idle none)

/-- `visit_housekeeping`: `needs_more_peers`, `peer_is_available`, `request_peers` -/
def discoveryHk (s : St) (p : Nat) (st : Peer) : Option (List Out) :=
  if s.discovered.length < s.hwm then
    if discoveryAvailable st then
      match usub s.hwm s.discovered.length with
      | none => none
      | some amount => some [.send p (.ps (.shareRequest (amount % 256)))]
    else some []
  else some []

/-- `visit_inbound_msg`: `try_take_peers` -/
def discoveryInbound (s : St) (st : Peer) : St × Peer :=
  if peerSupportsPeerSharing st then
    match st.ps with
    | .idle (some peers) =>
      ({ s with discovered := peers.foldl (fun d q => sinsert q d) s.discovered }, { st with ps := .done })
    | _ => (s, st)
  else (s, st)

/-! ## blockfetch.rs -/

def blockfetchHk (s : St) (p : Nat) (st : Peer) : St × List Out :=
  match s.bfQueue with
  | [] => (s, [])
  | r :: rest =>
    if st.conn = .initialized ∧ st.bf = .idle then
      ({ s with bfQueue := rest }, [.send p (.bf (.requestRange r))])
    else (s, [])

def blockfetchInbound (p : Nat) (st : Peer) : List Out :=
  match st.bf with
  | .streaming (some b) => [.event (.blockBody p b)]
  | _ => []

/-! ## chainsync.rs -/

/-- `visit_housekeeping`: start syncing a hot, initialized peer whose chain-sync is still `New` -/
def chainsyncHk (s : St) (p : Nat) (st : Peer) : List Out :=
  if s.intersection = true ∧ st.conn = .initialized ∧ st.tag = .hot ∧ st.cs.isNew = true then
    [.send p (.cs .findIntersect)]
  else []

/-- `visit_inbound_msg`: `drain_data` when the peer is syncing -/
def chainsyncInbound (p : Nat) (st : Peer) : Peer × List Out :=
  if st.cs.isNew then (st, [])
  else
    match st.cs.drain with
    | (none, _) => (st, [])
    | (some d, cs') =>
      let st := { st with cs := cs' }
      match d with
      | .content h => (st, [.event (.blockHeader p h)])
      | .rollback pt => (st, [.event (.rollback p pt)])
      | .intersection pt => (st, [.event (.intersectionFound p pt)])
      | .noIntersection => ({ st with violation := true }, [])
      | _ => (st, [])

/-- `visit_tagged`: `request_next` when syncing, idle and asked to continue -/
def chainsyncTagged (p : Nat) (st : Peer) : List Out :=
  if st.cs.isNew = false ∧ st.cs.isIdle = true ∧ st.continueSync = true then
    [.send p (.cs .requestNext)]
  else []

/-! ## leiosnotify.rs -/

def leiosReady (st : Peer) : Bool := st.isInitialized && st.supportsLeios

def leiosnotifyHk (p : Nat) (st : Peer) : List Out :=
  if leiosReady st = true ∧ st.ln = .idle false then [.send p (.ln .requestNext)] else []

def leiosnotifyInbound (p : Nat) (st : Peer) : Peer × List Out :=
  match st.ln.drain with
  | (true, ln') => ({ st with ln := ln' }, [.event (.ebNotification p)])
  | (false, _) => (st, [])

/-! ## leiosfetch.rs -/

def lfReqMsg : LfReq → LfMsg
  | .block eb => .blockRequest eb
  | .blockTxs eb => .blockTxsRequest eb

/-- remove the first queued request that targets `p` (`position` + `remove(idx)`) -/
def takeFirstFor (p : Nat) : List (Nat × LfReq) → Option (LfReq × List (Nat × LfReq))
  | [] => none
  | (q, r) :: rest =>
    if q = p then some (r, rest)
    else match takeFirstFor p rest with
      | some (r', rest') => some (r', (q, r) :: rest')
      | none => none

def leiosfetchHk (s : St) (p : Nat) (st : Peer) : St × List Out :=
  if leiosReady st = true ∧ st.lf = .idle none then
    match takeFirstFor p s.lfQueue with
    | some (r, rest) => ({ s with lfQueue := rest }, [.send p (.lf (lfReqMsg r))])
    | none => (s, [])
  else (s, [])

def leiosfetchInbound (p : Nat) (st : Peer) : Peer × List Out :=
  match st.lf.drain with
  | (some eb, lf') => ({ st with lf := lf' }, [.event (.ebFetched p eb)])
  | (none, _) => (st, [])

/-- `purge` -/
def leiosfetchPurge (s : St) (p : Nat) : St :=
  { s with lfQueue := s.lfQueue.filter (fun x => x.1 ≠ p) }

/-! ## mod.rs: the visitor chains (`all_visitors!` order: promotion, connection, handshake,
    keepalive, discovery, blockfetch, chainsync, leiosnotify, leiosfetch) -/

/-- `visit_housekeeping` for one tracked peer -/
def hkPeer (s : St) (p : Nat) : Option St :=
  match s.peers p with
  | none => some s
  | some st =>
    match categorize s p st with
    | none => none
    | some (s, st) =>
      let c := connectionHk p st
      let st := c.1
      let o2 := keepaliveHk s.kaToken p st
      match discoveryHk s p st with
      | none => none
      | some o3 =>
        let b := blockfetchHk s p st
        let s := b.1
        let o5 := chainsyncHk s p st
        let o6 := leiosnotifyHk p st
        let l := leiosfetchHk s p st
        let s := l.1
        some { s with peers := setPeer s.peers p st,
                      out := s.out ++ c.2 ++ o2 ++ o3 ++ b.2 ++ o5 ++ o6 ++ l.2 }

/-- `on_discovered`: fresh state, `visit_discovered` (promotion only), insert -/
def onDiscovered (s : St) (p : Nat) : Option St :=
  match onPeerDiscovered s p {} with
  | none => none
  | some (s, st) => some { s with peers := setPeer s.peers p st }

def dedup : List Nat → List Nat
  | [] => []
  | x :: xs => if x ∈ xs then dedup xs else x :: dedup xs

/-- `for pid in new { if !peers.contains_key(&pid) { on_discovered(&pid) } }` -/
def discAll (s : St) : List Nat → Option St
  | [] => some s
  | q :: qs =>
    if (s.peers q).isSome then discAll s qs
    else match onDiscovered s q with
      | none => none
      | some s' => discAll s' qs

/-- `move_discovered_into_promotion`; `taken` stands for the hash-order prefix that
    `drain_new_peers(deficit)` selects -/
def moveDiscovered (s : St) (taken : List Nat) : Option St :=
  match usub s.cfg.maxPeers s.total with
  | none => none
  | some deficit =>
    if deficit = 0 then some s
    else
      let sel := (dedup (taken.filter (· ∈ s.discovered))).take deficit
      discAll { s with discovered := s.discovered.filter (· ∉ sel) } sel

/-- the per-peer pass of `housekeeping`, in the given iteration order -/
def hkAll (s : St) : List Nat → Option St
  | [] => some s
  | p :: ps => match hkPeer s p with
    | none => none
    | some s' => hkAll s' ps

/-- `housekeeping` -/
def housekeeping (s : St) (ord taken : List Nat) : Option St :=
  match hkAll s ord with
  | none => none
  | some s => moveDiscovered s taken

/-- one inbound message for a tracked peer: `apply_msg` then `visit_inbound_msg` -/
def inboundMsg (s : St) (p : Nat) (m : Msg) : Option St :=
  match s.peers p with
  | none => some s
  | some st =>
    let st := st.applyMsg m
    match categorize s p st with
    | none => none
    | some (s, st) =>
      let h := handshakeInbound p st
      let d := discoveryInbound s h.1
      let s := d.1
      let st := d.2
      let o4 := blockfetchInbound p st
      let c := chainsyncInbound p st
      let n := leiosnotifyInbound p c.1
      let f := leiosfetchInbound p n.1
      some { s with peers := setPeer s.peers p f.1, out := s.out ++ h.2 ++ o4 ++ c.2 ++ n.2 ++ f.2 }

/-- `for msg in msgs { on_inbound_msg(pid, msg) }` -/
def inboundAll (s : St) (p : Nat) : List Msg → Option St
  | [] => some s
  | m :: ms => match inboundMsg s p m with
    | none => none
    | some s' => inboundAll s' p ms

/-- `on_outbound_msg`: `apply_msg`; no sub-behaviour implements `visit_outbound_msg` -/
def outboundMsg (s : St) (p : Nat) (m : Msg) : St :=
  match s.peers p with
  | none => s
  | some st => { s with peers := setPeer s.peers p (st.applyMsg m) }

def onConnected (s : St) (p : Nat) : St :=
  match s.peers p with
  | none => s
  | some st =>
    let st := { st with conn := .connected }
    { s with peers := setPeer s.peers p st, out := s.out ++ proposeHandshake p st }

def onDisconnected (s : St) (p : Nat) : St :=
  match s.peers p with
  | none => s
  | some st =>
    let s := leiosfetchPurge s p
    { s with peers := setPeer s.peers p st.reset }

def onErrored (s : St) (p : Nat) : Option St :=
  match s.peers p with
  | none => some s
  | some st =>
    if st.errorCount + 1 < u32Bound then
      let st := { st with conn := .errored, errorCount := st.errorCount + 1 }
      let o := connectionErrored p st
      let s := leiosfetchPurge s p
      some { s with peers := setPeer s.peers p st, out := s.out ++ o }
    else none

/-- `on_tagged`: the tag function, then `visit_tagged` (promotion: sync a commanded ban; chainsync) -/
def onTagged (s : St) (p : Nat) (f : Peer → Peer) : St :=
  match s.peers p with
  | none => s
  | some st =>
    let st := f st
    let r := if st.tag = .banned ∧ p ∉ s.banned then banPeer s p st else (s, st)
    let s := r.1
    let st := r.2
    { s with peers := setPeer s.peers p st, out := s.out ++ chainsyncTagged p st }

/-! ## events -/

/-- `InterfaceEvent` and `InitiatorCommand` -/
inductive Ev where
  | includePeer (p : Nat)
  | housekeeping (ord taken : List Nat)
  | startSync
  | continueSync (p : Nat)
  | requestBlocks (r : Nat)
  | sendTx
  | fetchEb (p eb : Nat)
  | fetchEbTxs (p eb : Nat)
  | banPeer (p : Nat)
  | demotePeer (p : Nat)
  | connected (p : Nat)
  | disconnected (p : Nat)
  | recv (p : Nat) (ms : List Msg)
  | sent (p : Nat) (m : Msg)
  | error (p : Nat)
  | idle (ord taken : List Nat)
  deriving Repr

/-- `handle_io` / `execute` on a state whose outbound queue has been drained -/
def step (s0 : St) (e : Ev) : Option St :=
  let s := { s0 with out := [] }
  match e with
  | .includePeer p => if (s.peers p).isSome then some s else onDiscovered s p
  | .housekeeping ord taken => housekeeping s ord taken
  | .idle ord taken => housekeeping s ord taken
  | .startSync => some { s with intersection := true }
  | .continueSync p => some (onTagged s p (fun st => { st with continueSync := true }))
  | .requestBlocks r => some { s with bfQueue := s.bfQueue ++ [r] }
  | .sendTx => some s
  | .fetchEb p eb => some { s with lfQueue := s.lfQueue ++ [(p, .block eb)] }
  | .fetchEbTxs p eb => some { s with lfQueue := s.lfQueue ++ [(p, .blockTxs eb)] }
  | .banPeer p =>
    -- untracked: `ban_peer` on a scratch state records the ban; then `on_tagged` (a no-op for it)
    let s := if (s.peers p).isSome then s else (banPeer s p {}).1
    some (onTagged s p (fun st => { st with tag := .banned }))
  | .demotePeer p => some (onTagged s p (fun st => { st with tag := .cold }))
  | .connected p => some (onConnected s p)
  | .disconnected p => some (onDisconnected s p)
  | .recv p ms => inboundAll s p ms
  | .sent p m => some (outboundMsg s p m)
  | .error p => onErrored s p

/-- run a history; `none` as soon as a step panics -/
def run (s : St) : List Ev → Option St
  | [] => some s
  | e :: es => match step s e with
    | none => none
    | some s' => run s' es

end PallasVerif.P2P
