import PallasVerif.Model.P2PInitiator
/-
  Model of `pallas-network2/src/behavior/responder/*` (`ResponderBehavior`): per-peer
  `ResponderState`, the nine sub-behaviours, `handle_io` and `execute`. Same conventions as
  `P2PInitiator.lean` (`none` = the Rust panics; housekeeping carries the hash-map iteration order).

  * `connections_per_ip: HashMap<String, usize>` = a total function host -> count (absent = 0; the
    entry is removed exactly when it reaches 0). `hostOf p` is the host part of a peer id.
  * `usize`/`u32` increments panic at `usizeBound`/`u32Bound`; `saturating_sub` is truncated `-`.
  * negotiation: `proposed`/`supported` are (version, network magic) tables with unique versions.
-/
namespace PallasVerif.P2P

def usizeBound : Nat := 18446744073709551616

/-- `ResponderState` -/
structure RPeer where
  conn : Conn := .new
  hs : HsSt := .propose
  ka : KaSt := .client none
  ps : PsSt := .idle none
  bf : BfSt := .idle
  cs : CsSt := .idle .new
  tx : TxSt := .init
  ln : LnSt := .idle false
  lf : LfSt := .idle none
  violation : Bool := false
  errorCount : Nat := 0
  deriving DecidableEq, Repr

/-- `ResponderEvent` -/
inductive REvent where
  | peerInitialized (p ver : Nat)
  | peerDisconnected (p : Nat)
  | intersectionRequested (p : Nat)
  | nextHeaderRequested (p : Nat)
  | blockRangeRequested (p r : Nat)
  | peersRequested (p n : Nat)
  | txReceived (p : Nat)
  | ebNotificationRequested (p : Nat)
  | ebRequested (p eb : Nat)
  | ebTxsRequested (p eb : Nat)
  deriving DecidableEq, Repr

inductive ROut where
  | disconnect (p : Nat)
  | send (p : Nat) (m : Msg)
  | event (e : REvent)
  deriving DecidableEq, Repr

/-- peers `4h .. 4h+3` share host `h` (the harness builds `PeerId`s that way) -/
def hostOf (p : Nat) : Nat := p / 4

/-- `ResponderBehavior` -/
structure RSt where
  supported : List (Nat × Nat) := [(13, 764824073)]   -- `HandshakeResponderConfig::supported_version`
  ourPs : Nat := 1                                     -- `peer_sharing` of our version data
  maxErr : Nat := 1
  maxPerIp : Nat := 10
  banned : List Nat := []
  perIp : Nat → Nat := fun _ => 0
  accepted : List Nat := []
  active : Nat := 0
  peers : Nat → Option RPeer := fun _ => none
  out : List ROut := []

def setRPeer (f : Nat → Option RPeer) (p : Nat) (st : RPeer) : Nat → Option RPeer :=
  fun q => if q = p then some st else f q

def delRPeer (f : Nat → Option RPeer) (p : Nat) : Nat → Option RPeer :=
  fun q => if q = p then none else f q

def setCount (f : Nat → Nat) (h c : Nat) : Nat → Nat := fun k => if k = h then c else f k

/-- `ResponderState::apply_msg` -/
def RPeer.applyMsg (st : RPeer) : Msg → RPeer
  | .hs m => match st.hs.apply m with
    | some n => { st with hs := n } | none => { st with violation := true }
  | .ka m => match st.ka.apply m with
    | some n => { st with ka := n } | none => { st with violation := true }
  | .ps m => match st.ps.apply m with
    | some n => { st with ps := n } | none => { st with violation := true }
  | .bf m => match st.bf.apply m with
    | some n => { st with bf := n } | none => { st with violation := true }
  | .cs m => match st.cs.apply m with
    | some n => { st with cs := n } | none => { st with violation := true }
  | .tx m => match st.tx.apply m with
    | some n => { st with tx := n } | none => { st with violation := true }
  | .ln m => match st.ln.apply m with
    | some n => { st with ln := n } | none => { st with violation := true }
  | .lf m => match st.lf.apply m with
    | some n => { st with lf := n } | none => { st with violation := true }

def RPeer.isInitialized (st : RPeer) : Bool := st.conn == .initialized

/-! ## connection.rs -/

def rNeedsDisconnect (s : RSt) (p : Nat) (st : RPeer) : Bool :=
  decide (p ∈ s.banned) || (st.conn == .errored)

def rNeedsBan (s : RSt) (p : Nat) (st : RPeer) : Bool :=
  if p ∈ s.banned then false else st.violation || decide (st.errorCount > s.maxErr)

/-- `ConnectionResponder::visit_connected` -/
def rConnVisitConnected (s : RSt) (p : Nat) : Option RSt :=
  if p ∈ s.banned then some { s with out := s.out ++ [.disconnect p] }
  else
    let c := s.perIp (hostOf p)
    if c + 1 < usizeBound then
      let s := { s with perIp := setCount s.perIp (hostOf p) (c + 1) }
      if c + 1 > s.maxPerIp then some { s with out := s.out ++ [.disconnect p] }
      else if p ∈ s.accepted then some s
      else if s.active + 1 < usizeBound then
        some { s with accepted := sinsert p s.accepted, active := s.active + 1 }
      else none
    else none

/-- `ConnectionResponder::visit_disconnected` -/
def rConnVisitDisconnected (s : RSt) (p : Nat) : RSt :=
  let s := { s with perIp := setCount s.perIp (hostOf p) (s.perIp (hostOf p) - 1) }
  if p ∈ s.accepted then { s with accepted := sremove p s.accepted, active := s.active - 1 } else s

/-- `ConnectionResponder::visit_housekeeping`; `true` = a ban happened -/
def rConnHk (s : RSt) (p : Nat) (st : RPeer) : RSt :=
  if rNeedsBan s p st then { s with banned := sinsert p s.banned, out := s.out ++ [.disconnect p] }
  else if rNeedsDisconnect s p st then { s with out := s.out ++ [.disconnect p] }
  else s

/-! ## handshake.rs -/

/-- `filter(contains_key).max_by_key(version)`: highest proposed version we also support, with the
    peer's and our magic -/
def bestCommon (supported : List (Nat × Nat)) : List (Nat × Nat) → Option (Nat × Nat × Nat)
  | [] => none
  | (v, m) :: rest =>
    match supported.lookup v with
    | none => bestCommon supported rest
    | some ours =>
      match bestCommon supported rest with
      | some (v', m', o') => if v' > v then some (v', m', o') else some (v, m, ours)
      | none => some (v, m, ours)

/-- `try_accept_handshake` -/
def rHandshakeInbound (s : RSt) (p : Nat) (st : RPeer) : RPeer × List ROut :=
  match st.hs with
  | .confirm proposed =>
    match bestCommon s.supported proposed with
    | some (v, peerMagic, ourMagic) =>
      if peerMagic ≠ ourMagic then (st, [.send p (.hs .refuse)])
      else ({ st with conn := .initialized },
            [.send p (.hs (.accept v s.ourPs)), .event (.peerInitialized p v)])
    | none => (st, [.send p (.hs .refuse)])
  | _ => (st, [])

/-! ## the other per-protocol inbound visitors -/

def rKeepaliveInbound (p : Nat) (st : RPeer) : List ROut :=
  if st.isInitialized then
    match st.ka with
    | .server c => [.send p (.ka (.response c))]
    | _ => []
  else []

def rChainsyncInbound (p : Nat) (st : RPeer) : List ROut :=
  if st.isInitialized then
    match st.cs with
    | .intersect => [.event (.intersectionRequested p)]
    | .canAwait | .mustReply => [.event (.nextHeaderRequested p)]
    | _ => []
  else []

def rBlockfetchInbound (p : Nat) (st : RPeer) : List ROut :=
  if st.isInitialized then
    match st.bf with
    | .busy r => [.event (.blockRangeRequested p r)]
    | _ => []
  else []

def rPeersharingInbound (p : Nat) (st : RPeer) : List ROut :=
  if st.isInitialized then
    match st.ps with
    | .busy n => [.event (.peersRequested p n)]
    | _ => []
  else []

/-- `try_extract_txs` (no `is_initialized` test in the code) -/
def rTxInbound (p : Nat) (st : RPeer) : List ROut :=
  match st.tx with
  | .txs n => List.replicate n (.event (.txReceived p))
  | _ => []

def rLeiosnotifyInbound (p : Nat) (st : RPeer) : List ROut :=
  if st.isInitialized then
    match st.ln with
    | .busy => [.event (.ebNotificationRequested p)]
    | _ => []
  else []

def rLeiosfetchInbound (p : Nat) (st : RPeer) : List ROut :=
  if st.isInitialized then
    match st.lf with
    | .awaitingBlock e => [.event (.ebRequested p e)]
    | .awaitingBlockTxs e => [.event (.ebTxsRequested p e)]
    | _ => []
  else []

/-- `TxSubmissionResponder::visit_housekeeping`: `try_init`, `try_request_tx_ids` -/
def rTxHk (p : Nat) (st : RPeer) : List ROut :=
  (if st.isInitialized = true ∧ st.tx = .init then [.send p (.tx .init)] else []) ++
  (if st.isInitialized = true ∧ st.tx = .idle then [.send p (.tx .requestTxIds)] else [])

/-! ## mod.rs -/

/-- `on_inbound_msg` -/
def rInboundMsg (s : RSt) (p : Nat) (m : Msg) : RSt :=
  match s.peers p with
  | none => s
  | some st =>
    let st := st.applyMsg m
    if st.violation then { s with peers := setRPeer s.peers p st }
    else
      match m with
      | .hs _ =>
        let r := rHandshakeInbound s p st
        { s with peers := setRPeer s.peers p r.1, out := s.out ++ r.2 }
      | .ka _ => { s with peers := setRPeer s.peers p st, out := s.out ++ rKeepaliveInbound p st }
      | .cs _ => { s with peers := setRPeer s.peers p st, out := s.out ++ rChainsyncInbound p st }
      | .bf _ => { s with peers := setRPeer s.peers p st, out := s.out ++ rBlockfetchInbound p st }
      | .ps _ => { s with peers := setRPeer s.peers p st, out := s.out ++ rPeersharingInbound p st }
      | .tx _ => { s with peers := setRPeer s.peers p st, out := s.out ++ rTxInbound p st }
      | .ln _ => { s with peers := setRPeer s.peers p st, out := s.out ++ rLeiosnotifyInbound p st }
      | .lf _ => { s with peers := setRPeer s.peers p st, out := s.out ++ rLeiosfetchInbound p st }

/-- `on_outbound_msg`: `apply_msg`; no sub-behaviour implements `visit_outbound_msg` -/
def rOutboundMsg (s : RSt) (p : Nat) (m : Msg) : RSt :=
  match s.peers p with
  | none => s
  | some st => { s with peers := setRPeer s.peers p (st.applyMsg m) }

/-- `on_connected`: fresh state (replacing any previous record), `visit_connected`, insert -/
def rOnConnected (s : RSt) (p : Nat) : Option RSt :=
  match rConnVisitConnected s p with
  | none => none
  | some s => some { s with peers := setRPeer s.peers p { conn := .connected } }

/-- `on_disconnected` -/
def rOnDisconnected (s : RSt) (p : Nat) : RSt :=
  let s := match s.peers p with
    | none => s
    | some _ => rConnVisitDisconnected s p
  { s with peers := delRPeer s.peers p, out := s.out ++ [.event (.peerDisconnected p)] }

/-- `on_errored` -/
def rOnErrored (s : RSt) (p : Nat) : Option RSt :=
  match s.peers p with
  | none => some s
  | some st =>
    if st.errorCount + 1 < u32Bound then
      let st := { st with conn := .errored, errorCount := st.errorCount + 1 }
      let o : List ROut := if rNeedsDisconnect s p st then [.disconnect p] else []
      some { s with peers := setRPeer s.peers p st, out := s.out ++ o }
    else none

/-- `visit_housekeeping` for one tracked peer (connection, then txsubmission) -/
def rHkPeer (s : RSt) (p : Nat) : RSt :=
  match s.peers p with
  | none => s
  | some st =>
    let s := rConnHk s p st
    { s with out := s.out ++ rTxHk p st }

def rHkAll (s : RSt) : List Nat → RSt
  | [] => s
  | p :: ps => rHkAll (rHkPeer s p) ps

/-- `InterfaceEvent` and `ResponderCommand` -/
inductive REv where
  | housekeeping (ord : List Nat)
  | idle (ord : List Nat)
  | provide (p : Nat) (ms : List Msg)     -- every `Provide*` command: push the given Send(s)
  | banPeer (p : Nat)
  | disconnectPeer (p : Nat)
  | connected (p : Nat)
  | disconnected (p : Nat)
  | recv (p : Nat) (ms : List Msg)
  | sent (p : Nat) (m : Msg)
  | error (p : Nat)
  deriving Repr

def rStep (s0 : RSt) (e : REv) : Option RSt :=
  let s := { s0 with out := [] }
  match e with
  | .housekeeping ord => some (rHkAll s ord)
  | .idle ord => some (rHkAll s ord)
  | .provide p ms => some { s with out := s.out ++ ms.map (fun m => ROut.send p m) }
  | .banPeer p => some { s with banned := sinsert p s.banned, out := s.out ++ [.disconnect p] }
  | .disconnectPeer p => some { s with out := s.out ++ [.disconnect p] }
  | .connected p => rOnConnected s p
  | .disconnected p => some (rOnDisconnected s p)
  | .recv p ms => some (ms.foldl (fun s m => rInboundMsg s p m) s)
  | .sent p m => some (rOutboundMsg s p m)
  | .error p => rOnErrored s p

def rRun (s : RSt) : List REv → Option RSt
  | [] => some s
  | e :: es => match rStep s e with
    | none => none
    | some s' => rRun s' es

end PallasVerif.P2P
