import PallasVerif.Model.NetCodec
/-
  Mini-protocol messages of both network stacks (pallas-network/src/miniprotocols/*/codec.rs,
  protocol.rs; pallas-network2/src/protocol/*.rs): one Lean type per message type, its encoder as
  a tree of encoder calls (`enc : Msg → E`, label and declared arity exactly as in the code) and
  its decoder (`dec : Dec Msg`) transcribed call by call on the byte-level primitives of
  `NetCodec`. The two stacks have identical codecs except for the port width of
  `PeerAddress` (u32 in pallas-network, u16 in pallas-network2), a parameter here.

  Integers are `Nat` (range restrictions are the `valid` predicates of `Props/C22`); text is kept
  as its UTF-8 bytes; `AnyCbor` leaves (queries, results, Leios bodies / votes / txs, opaque
  reject reasons) are their raw bytes.
-/
namespace PallasVerif.NetMsg
open PallasVerif.Cbor PallasVerif.NetCodec

/-- `d.array()?; let label = d.u16()?;` — the declared length is dropped -/
def labelled : Dec Nat := fun bs => (array bs).bind fun _ r => u16 r

/-! ## common.rs -/

inductive Point where
  | origin
  | specific (slot : Nat) (hash : Bytes)
  deriving DecidableEq, Repr, Inhabited

def Point.enc : Point → E
  | .origin => .arr 0 []
  | .specific s h => .arr 2 [.uint s, .bytes h]

def Point.dec : Dec Point := fun bs =>
  (array bs).bind fun size r =>
    match size with
    | some 0 => .ok .origin r
    | some 2 => (u64 r).bind fun s r => (bytes r).bind fun h r => .ok (.specific s h) r
    | _ => .err

/-! ## chainsync -/

structure Tip where
  point : Point
  blockNo : Nat
  deriving DecidableEq, Repr, Inhabited

def Tip.enc (t : Tip) : E := .arr 2 [t.point.enc, .uint t.blockNo]

def Tip.dec : Dec Tip := fun bs =>
  (array bs).bind fun _ r => (Point.dec r).bind fun p r => (u64 r).bind fun n r => .ok ⟨p, n⟩ r

structure HeaderContent where
  variant : Nat
  byronPrefix : Option (Nat × Nat)
  cbor : Bytes
  deriving DecidableEq, Repr, Inhabited

/-- `None` = the encoder returns `Err("header variant 0 but no byron prefix")` -/
def HeaderContent.enc (h : HeaderContent) : Option E :=
  if h.variant = 0 then
    match h.byronPrefix with
    | some (a, b) => some (.arr 2 [.uint 0, .arr 2 [.arr 2 [.uint a, .uint b], .tag 24 (.bytes h.cbor)]])
    | none => none
  else some (.arr 2 [.uint h.variant, .tag 24 (.bytes h.cbor)])

def HeaderContent.dec : Dec HeaderContent := fun bs =>
  (array bs).bind fun _ r => (u8 r).bind fun variant r =>
    if variant = 0 then
      (array r).bind fun _ r => (tuple2 u8 u64 r).bind fun ab r => (tag r).bind fun _ r =>
        (bytes r).bind fun c r => .ok ⟨0, some ab, c⟩ r
    else (tag r).bind fun _ r => (bytes r).bind fun c r => .ok ⟨variant, none, c⟩ r

/-- `BlockContent(Vec<u8>)` -/
def blockContentEnc (b : Bytes) : Option E := some (.tag 24 (.bytes b))
def blockContentDec : Dec Bytes := fun bs => (tag bs).bind fun _ r => bytes r

/-- `SkippedContent` -/
def skippedEnc (_ : Unit) : Option E := some .null
def skippedDec : Dec Unit := skip

namespace ChainSync
inductive Msg (C : Type) where
  | requestNext
  | awaitReply
  | rollForward (c : C) (t : Tip)
  | rollBackward (p : Point) (t : Tip)
  | findIntersect (ps : List Point)
  | intersectFound (p : Point) (t : Tip)
  | intersectNotFound (t : Tip)
  | done
  deriving DecidableEq, Repr

def Msg.enc {C : Type} (encC : C → Option E) : Msg C → Option E
  | .requestNext => some (.arr 1 [.uint 0])
  | .awaitReply => some (.arr 1 [.uint 1])
  | .rollForward c t => (encC c).map fun ec => .arr 3 [.uint 2, ec, t.enc]
  | .rollBackward p t => some (.arr 3 [.uint 3, p.enc, t.enc])
  | .findIntersect ps => some (.arr 2 [.uint 4, .arr ps.length (ps.map Point.enc)])
  | .intersectFound p t => some (.arr 3 [.uint 5, p.enc, t.enc])
  | .intersectNotFound t => some (.arr 2 [.uint 6, t.enc])
  | .done => some (.arr 1 [.uint 7])

def Msg.dec {C : Type} (decC : Dec C) : Dec (Msg C) := fun bs =>
  (labelled bs).bind fun label r =>
    match label with
    | 0 => .ok .requestNext r
    | 1 => .ok .awaitReply r
    | 2 => (decC r).bind fun c r => (Tip.dec r).bind fun t r => .ok (.rollForward c t) r
    | 3 => (Point.dec r).bind fun p r => (Tip.dec r).bind fun t r => .ok (.rollBackward p t) r
    | 4 => (vec Point.dec r).bind fun ps r => .ok (.findIntersect ps) r
    | 5 => (Point.dec r).bind fun p r => (Tip.dec r).bind fun t r => .ok (.intersectFound p t) r
    | 6 => (Tip.dec r).bind fun t r => .ok (.intersectNotFound t) r
    | 7 => .ok .done r
    | _ => .err
end ChainSync

/-! ## blockfetch -/

namespace BlockFetch
inductive Msg where
  | requestRange (a b : Point)
  | clientDone
  | startBatch
  | noBlocks
  | block (body : Bytes)
  | batchDone
  deriving DecidableEq, Repr

def Msg.enc : Msg → E
  | .requestRange a b => .arr 3 [.uint 0, a.enc, b.enc]
  | .clientDone => .arr 1 [.uint 1]
  | .startBatch => .arr 1 [.uint 2]
  | .noBlocks => .arr 1 [.uint 3]
  | .block body => .arr 2 [.uint 4, .tag 24 (.bytes body)]
  | .batchDone => .arr 1 [.uint 5]

def Msg.dec : Dec Msg := fun bs =>
  (labelled bs).bind fun label r =>
    match label with
    | 0 => (Point.dec r).bind fun a r => (Point.dec r).bind fun b r => .ok (.requestRange a b) r
    | 1 => .ok .clientDone r
    | 2 => .ok .startBatch r
    | 3 => .ok .noBlocks r
    | 4 => (tag r).bind fun _ r => (bytes r).bind fun body r => .ok (.block body) r
    | 5 => .ok .batchDone r
    | _ => .err
end BlockFetch

/-! ## txsubmission -/

structure EraTxId where
  era : Nat
  id : Bytes
  deriving DecidableEq, Repr, Inhabited

def EraTxId.enc (t : EraTxId) : E := .arr 2 [.uint t.era, .bytes t.id]
def EraTxId.dec : Dec EraTxId := fun bs =>
  (array bs).bind fun _ r => (u16 r).bind fun era r => (bytes r).bind fun id r => .ok ⟨era, id⟩ r

/-- `EraTxBody` (txsubmission) and `EraTx` (localtxsubmission): same codec -/
structure EraTx where
  era : Nat
  body : Bytes
  deriving DecidableEq, Repr, Inhabited

def EraTx.enc (t : EraTx) : E := .arr 2 [.uint t.era, .tag 24 (.bytes t.body)]
def EraTx.dec : Dec EraTx := fun bs =>
  (array bs).bind fun _ r => (u16 r).bind fun era r => (tag r).bind fun tg r =>
    if tg ≠ 24 then .err else (bytes r).bind fun body r => .ok ⟨era, body⟩ r

structure TxIdAndSize where
  id : EraTxId
  size : Nat
  deriving DecidableEq, Repr, Inhabited

def TxIdAndSize.enc (t : TxIdAndSize) : E := .arr 2 [t.id.enc, .uint t.size]
def TxIdAndSize.dec : Dec TxIdAndSize := fun bs =>
  (array bs).bind fun _ r => (EraTxId.dec r).bind fun id r => (u32 r).bind fun sz r => .ok ⟨id, sz⟩ r

namespace TxSubmission
inductive Msg where
  | init
  | requestTxIds (blocking : Bool) (ack req : Nat)
  | replyTxIds (ids : List TxIdAndSize)
  | requestTxs (ids : List EraTxId)
  | replyTxs (txs : List EraTx)
  | done
  deriving DecidableEq, Repr

def Msg.enc : Msg → E
  | .init => .arr 1 [.uint 6]
  | .requestTxIds b ack req => .arr 4 [.uint 0, .bool b, .uint ack, .uint req]
  | .replyTxIds ids => .arr 2 [.uint 1, .arrI (ids.map TxIdAndSize.enc)]
  | .requestTxs ids => .arr 2 [.uint 2, .arrI (ids.map EraTxId.enc)]
  | .replyTxs txs => .arr 2 [.uint 3, .arrI (txs.map EraTx.enc)]
  | .done => .arr 1 [.uint 4]

def Msg.dec : Dec Msg := fun bs =>
  (labelled bs).bind fun label r =>
    match label with
    | 0 => (bool r).bind fun b r => (u16 r).bind fun ack r => (u16 r).bind fun req r => .ok (.requestTxIds b ack req) r
    | 1 => (vec TxIdAndSize.dec r).bind fun ids r => .ok (.replyTxIds ids) r
    | 2 => (vec EraTxId.dec r).bind fun ids r => .ok (.requestTxs ids) r
    | 3 => (vec EraTx.dec r).bind fun txs r => .ok (.replyTxs txs) r
    | 4 => .ok .done r
    | 6 => .ok .init r
    | _ => .err
end TxSubmission

/-! ## keepalive -/

namespace KeepAlive
inductive Msg where
  | keepAlive (cookie : Nat)
  | responseKeepAlive (cookie : Nat)
  | done
  deriving DecidableEq, Repr

def Msg.enc : Msg → E
  | .keepAlive c => .arr 2 [.uint 0, .uint c]
  | .responseKeepAlive c => .arr 2 [.uint 1, .uint c]
  | .done => .arr 1 [.uint 2]

def Msg.dec : Dec Msg := fun bs =>
  (labelled bs).bind fun label r =>
    match label with
    | 0 => (u16 r).bind fun c r => .ok (.keepAlive c) r
    | 1 => (u16 r).bind fun c r => .ok (.responseKeepAlive c) r
    | 2 => .ok .done r
    | _ => .err
end KeepAlive

/-! ## peersharing -/

inductive PeerAddress where
  | v4 (addr port : Nat)
  /-- `bits` = `Ipv6Addr::to_bits()` -/
  | v6 (bits port : Nat)
  deriving DecidableEq, Repr, Inhabited

/-- V6: the declared length is the code's literal (6 after the repair of DESIGN §6 #10; the
    unchanged tree wrote `array(8)`), followed by label, four 32-bit words and the port. -/
def PeerAddress.enc : PeerAddress → E
  | .v4 a p => .arr 3 [.uint 0, .uint a, .uint p]
  | .v6 bits p => .arr 6 [.uint 1, .uint (bits / 2 ^ 96), .uint (bits / 2 ^ 64 % 2 ^ 32),
      .uint (bits / 2 ^ 32 % 2 ^ 32), .uint (bits % 2 ^ 32), .uint p]

/-- `portMax` = `u32::MAX` (pallas-network, `Port = u32`) or `u16::MAX` (pallas-network2) -/
def PeerAddress.dec (portMax : Nat) : Dec PeerAddress := fun bs =>
  (labelled bs).bind fun label r =>
    match label with
    | 0 => (u32 r).bind fun ip r => (uMax portMax r).bind fun port r => .ok (.v4 ip port) r
    | 1 =>
      (u32 r).bind fun w1 r => (u32 r).bind fun w2 r => (u32 r).bind fun w3 r => (u32 r).bind fun w4 r =>
        (uMax portMax r).bind fun port r =>
          .ok (.v6 (w1 * 2 ^ 96 + w2 * 2 ^ 64 + w3 * 2 ^ 32 + w4) port) r
    | _ => .err

namespace PeerSharing
inductive Msg where
  | shareRequest (amount : Nat)
  | sharePeers (peers : List PeerAddress)
  | done
  deriving DecidableEq, Repr

def Msg.enc : Msg → E
  | .shareRequest n => .arr 2 [.uint 0, .uint n]
  | .sharePeers ps => .arr 2 [.uint 1, .arrI (ps.map PeerAddress.enc)]
  | .done => .arr 1 [.uint 2]

def Msg.dec (portMax : Nat) : Dec Msg := fun bs =>
  (labelled bs).bind fun label r =>
    match label with
    | 0 => (u8 r).bind fun n r => .ok (.shareRequest n) r
    | 1 => (vec (PeerAddress.dec portMax) r).bind fun ps r => .ok (.sharePeers ps) r
    | 2 => .ok .done r
    | _ => .err
end PeerSharing

/-! ## handshake -/

/-- `HashMap<u64, T>` in key order (the order both encoders sort into) -/
abbrev VersionTable (D : Type) := List (Nat × D)

def VersionTable.enc {D : Type} (encD : D → E) (vt : VersionTable D) : E :=
  .map vt.length (vt.flatMap fun kv => [.uint kv.1, encD kv.2])

def VersionTable.dec {D : Type} (decD : Dec D) : Dec (VersionTable D) := fun bs =>
  (map bs).bind fun len r =>
    match len with
    | none => .err
    | some n => (decN (pair u64 decD) n r).map fromPairs

inductive RefuseReason where
  | versionMismatch (versions : List Nat)
  | handshakeDecodeError (version : Nat) (msg : Bytes)
  | refused (version : Nat) (msg : Bytes)
  deriving DecidableEq, Repr, Inhabited

def RefuseReason.enc : RefuseReason → E
  | .versionMismatch vs => .arr 2 [.uint 0, .arr vs.length (vs.map E.uint)]
  | .handshakeDecodeError v m => .arr 3 [.uint 1, .uint v, .text m]
  | .refused v m => .arr 3 [.uint 2, .uint v, .text m]

def RefuseReason.dec : Dec RefuseReason := fun bs =>
  (labelled bs).bind fun label r =>
    match label with
    | 0 => (vec u64 r).bind fun vs r => .ok (.versionMismatch vs) r
    | 1 => (u64 r).bind fun v r => (str r).bind fun m r => .ok (.handshakeDecodeError v m) r
    | 2 => (u64 r).bind fun v r => (str r).bind fun m r => .ok (.refused v m) r
    | _ => .err

namespace Handshake
inductive Msg (D : Type) where
  | propose (vt : VersionTable D)
  | accept (version : Nat) (data : D)
  | refuse (reason : RefuseReason)
  | queryReply (vt : VersionTable D)
  deriving DecidableEq, Repr

def Msg.enc {D : Type} (encD : D → E) : Msg D → E
  | .propose vt => .arr 2 [.uint 0, VersionTable.enc encD vt]
  | .accept v d => .arr 3 [.uint 1, .uint v, encD d]
  | .refuse reason => .arr 2 [.uint 2, reason.enc]
  | .queryReply vt => .arr 2 [.uint 3, VersionTable.enc encD vt]

def Msg.dec {D : Type} (decD : Dec D) : Dec (Msg D) := fun bs =>
  (labelled bs).bind fun label r =>
    match label with
    | 0 => (VersionTable.dec decD r).bind fun vt r => .ok (.propose vt) r
    | 1 => (u64 r).bind fun v r => (decD r).bind fun d r => .ok (.accept v d) r
    | 2 => (RefuseReason.dec r).bind fun reason r => .ok (.refuse reason) r
    | 3 => (VersionTable.dec decD r).bind fun vt r => .ok (.queryReply vt) r
    | _ => .err
end Handshake

/-- node-to-node `VersionData` -/
structure N2NData where
  magic : Nat
  initiatorOnly : Bool
  peerSharing : Option Nat
  query : Option Bool
  deriving DecidableEq, Repr, Inhabited

def N2NData.enc (d : N2NData) : E :=
  match d.peerSharing, d.query with
  | some ps, some q => .arr 4 [.uint d.magic, .bool d.initiatorOnly, .uint ps, .bool q]
  | _, _ => .arr 2 [.uint d.magic, .bool d.initiatorOnly]

def N2NData.dec : Dec N2NData := fun bs =>
  (array bs).bind fun len r => (u64 r).bind fun magic r => (bool r).bind fun io r =>
    if len = some 4 then
      (u8 r).bind fun ps r => (bool r).bind fun q r => .ok ⟨magic, io, some ps, some q⟩ r
    else .ok ⟨magic, io, none, none⟩ r

/-- node-to-client `VersionData(NetworkMagic, Option<bool>)` -/
structure N2CData where
  magic : Nat
  query : Option Bool
  deriving DecidableEq, Repr, Inhabited

def N2CData.enc (d : N2CData) : E :=
  match d.query with
  | none => .uint d.magic
  | some q => .arr 2 [.uint d.magic, .bool q]

def N2CData.dec : Dec N2CData := fun bs =>
  (datatype bs).bind fun t _ =>
    if t = .u8 ∨ t = .u16 ∨ t = .u32 ∨ t = .u64 then (u64 bs).bind fun m r => .ok ⟨m, none⟩ r
    else if t = .array then
      (array bs).bind fun _ r => (u64 r).bind fun m r => (bool r).bind fun q r => .ok ⟨m, some q⟩ r
    else .err

/-! ## txmonitor -/

namespace TxMonitor
inductive Msg where
  | done
  | acquire
  | acquired (slot : Nat)
  | release
  | awaitAcquire
  | requestNextTx
  | responseNextTx (tx : Option (Nat × Bytes))
  | requestHasTx (id : Bytes)
  | responseHasTx (has : Bool)
  | requestSizeAndCapacity
  | responseSizeAndCapacity (capacity size number : Nat)
  deriving DecidableEq, Repr

def Msg.enc : Msg → E
  | .done => .arr 1 [.uint 0]
  | .acquire => .arr 1 [.uint 1]
  | .acquired s => .arr 2 [.uint 2, .uint s]
  | .release => .arr 1 [.uint 3]
  | .awaitAcquire => .arr 1 [.uint 4]
  | .requestNextTx => .arr 1 [.uint 5]
  | .responseNextTx none => .arr 1 [.uint 6]
  | .responseNextTx (some (era, body)) => .arr 2 [.uint 6, .arr 2 [.uint era, .tag 24 (.bytes body)]]
  | .requestHasTx id => .arr 2 [.uint 7, .text id]
  | .responseHasTx b => .arr 2 [.uint 8, .bool b]
  | .requestSizeAndCapacity => .arr 1 [.uint 9]
  | .responseSizeAndCapacity c s n => .arr 2 [.uint 10, .arr 3 [.uint c, .uint s, .uint n]]

/-- `(Era, TagWrap<Bytes, 24>)` — `TagWrap::decode` accepts any tag -/
def txDec : Dec (Nat × Bytes) := tuple2 u8 (fun bs => (tag bs).bind fun _ r => bytes r)

def Msg.dec : Dec Msg := fun bs =>
  (labelled bs).bind fun label r =>
    match label with
    | 0 => .ok .done r
    | 1 => .ok .acquire r
    | 2 => (u64 r).bind fun s r => .ok (.acquired s) r
    | 3 => .ok .release r
    | 4 => .ok .awaitAcquire r
    | 5 => .ok .requestNextTx r
    | 6 =>
      match datatype r with
      | .ok t _ =>
        if t = .array ∨ t = .arrayIndef then (txDec r).bind fun tx r => .ok (.responseNextTx (some tx)) r
        else .ok (.responseNextTx none) r
      | _ => .ok (.responseNextTx none) r
    | 7 => (str r).bind fun id r => .ok (.requestHasTx id) r
    | 8 => (bool r).bind fun b r => .ok (.responseHasTx b) r
    | 9 => .ok .requestSizeAndCapacity r
    | 10 =>
      (array r).bind fun _ r => (u32 r).bind fun c r => (u32 r).bind fun s r => (u32 r).bind fun n r =>
        .ok (.responseSizeAndCapacity c s n) r
    | _ => .err
end TxMonitor

/-! ## localstate -/

namespace LocalState
inductive AcquireFailure where
  | pointTooOld
  | pointNotOnChain
  deriving DecidableEq, Repr, Inhabited

def AcquireFailure.enc : AcquireFailure → E
  | .pointTooOld => .uint 0
  | .pointNotOnChain => .uint 1

def AcquireFailure.dec : Dec AcquireFailure := fun bs =>
  (u16 bs).bind fun code r =>
    match code with
    | 0 => .ok .pointTooOld r
    | 1 => .ok .pointNotOnChain r
    | _ => .err

inductive Msg where
  | acquire (p : Option Point)
  | failure (f : AcquireFailure)
  | acquired
  | query (q : Bytes)
  | result (r : Bytes)
  | reAcquire (p : Option Point)
  | release
  | done
  deriving DecidableEq, Repr

def Msg.enc : Msg → E
  | .acquire (some p) => .arr 2 [.uint 0, p.enc]
  | .acquire none => .arr 1 [.uint 8]
  | .acquired => .arr 1 [.uint 1]
  | .failure f => .arr 2 [.uint 2, f.enc]
  | .query q => .arr 2 [.uint 3, .raw q]
  | .result x => .arr 2 [.uint 4, .raw x]
  | .reAcquire (some p) => .arr 2 [.uint 6, p.enc]
  | .reAcquire none => .arr 1 [.uint 9]
  | .release => .arr 1 [.uint 5]
  | .done => .arr 1 [.uint 7]

def Msg.dec : Dec Msg := fun bs =>
  (labelled bs).bind fun label r =>
    match label with
    | 0 => (Point.dec r).bind fun p r => .ok (.acquire (some p)) r
    | 8 => .ok (.acquire none) r
    | 1 => .ok .acquired r
    | 2 => (AcquireFailure.dec r).bind fun f r => .ok (.failure f) r
    | 3 => (anyCbor r).bind fun q r => .ok (.query q) r
    | 4 => (anyCbor r).bind fun x r => .ok (.result x) r
    | 5 => .ok .release r
    | 6 => (option Point.dec r).bind fun p r => .ok (.reAcquire p) r
    | 9 => .ok (.reAcquire none) r
    | 7 => .ok .done r
    | _ => .err
end LocalState

/-! ## localtxsubmission (generic in transaction and reject type) and its DMQ instance -/

namespace LocalTx
inductive Msg (Tx Rej : Type) where
  | submitTx (tx : Tx)
  | acceptTx
  | rejectTx (rej : Rej)
  | done
  deriving DecidableEq, Repr

def Msg.enc {Tx Rej : Type} (encTx : Tx → E) (encRej : Rej → E) : Msg Tx Rej → E
  | .submitTx tx => .arr 2 [.uint 0, encTx tx]
  | .acceptTx => .arr 1 [.uint 1]
  | .rejectTx rej => .arr 2 [.uint 2, encRej rej]
  | .done => .arr 1 [.uint 3]

/-- if the input does not start with an array head (or is empty), the *whole input* is taken as a
    UTF-8 string and turned into a rejection (`from_utf8(d.input())…into()`) -/
def Msg.dec {Tx Rej : Type} (decTx : Dec Tx) (decRej : Dec Rej) (ofString : Bytes → Rej) : Dec (Msg Tx Rej) := fun bs =>
  match array bs with
  | .ok _ r =>
    (u16 r).bind fun label r =>
      match label with
      | 0 => (decTx r).bind fun tx r => .ok (.submitTx tx) r
      | 1 => .ok .acceptTx r
      | 2 => (decRej r).bind fun rej r => .ok (.rejectTx rej) r
      | 3 => .ok .done r
      | _ => .err
  | _ => if utf8Valid bs then .ok (.rejectTx (ofString bs)) [] else .err
end LocalTx

/-- the harness' opaque reject reason (`AnyCbor` + the `From<String>` the decoder requires) -/
inductive OpaqueReject where
  | cbor (raw : Bytes)
  | text (s : Bytes)
  deriving DecidableEq, Repr, Inhabited

def OpaqueReject.enc : OpaqueReject → E
  | .cbor raw => .raw raw
  | .text s => .text s

def OpaqueReject.dec : Dec OpaqueReject := fun bs => (anyCbor bs).map .cbor

structure DmqPayload where
  body : Bytes
  kesPeriod : Nat
  expiresAt : Nat
  deriving DecidableEq, Repr, Inhabited

structure DmqOpCert where
  kesVk : Bytes
  issueNumber : Nat
  startKesPeriod : Nat
  certSig : Bytes
  deriving DecidableEq, Repr, Inhabited

structure DmqMsg where
  msgId : Bytes
  payload : DmqPayload
  kesSignature : Bytes
  opCert : DmqOpCert
  coldVk : Bytes
  deriving DecidableEq, Repr, Inhabited

def DmqPayload.enc (p : DmqPayload) : E := .arr 3 [.bytes p.body, .uint p.kesPeriod, .uint p.expiresAt]
def DmqPayload.dec : Dec DmqPayload := fun bs =>
  (array bs).bind fun _ r => (bytes r).bind fun b r => (u64 r).bind fun k r => (u32 r).bind fun e r => .ok ⟨b, k, e⟩ r

def DmqOpCert.enc (c : DmqOpCert) : E := .arr 4 [.bytes c.kesVk, .uint c.issueNumber, .uint c.startKesPeriod, .bytes c.certSig]
def DmqOpCert.dec : Dec DmqOpCert := fun bs =>
  (array bs).bind fun _ r => (bytes r).bind fun vk r => (u64 r).bind fun i r => (u64 r).bind fun s r =>
    (bytes r).bind fun sg r => .ok ⟨vk, i, s, sg⟩ r

def DmqMsg.enc (m : DmqMsg) : E :=
  .arr 5 [.bytes m.msgId, m.payload.enc, .bytes m.kesSignature, m.opCert.enc, .bytes m.coldVk]
def DmqMsg.dec : Dec DmqMsg := fun bs =>
  (array bs).bind fun _ r => (bytes r).bind fun id r => (DmqPayload.dec r).bind fun p r =>
    (bytes r).bind fun sg r => (DmqOpCert.dec r).bind fun oc r => (bytes r).bind fun vk r => .ok ⟨id, p, sg, oc, vk⟩ r

/-- `DmqMsgValidationError(DmqMsgRejectReason)` -/
inductive DmqReject where
  | invalid (reason : Bytes)
  | alreadyReceived
  | expired
  | other (reason : Bytes)
  deriving DecidableEq, Repr, Inhabited

def DmqReject.enc : DmqReject → E
  | .invalid s => .arr 2 [.uint 0, .text s]
  | .alreadyReceived => .arr 1 [.uint 1]
  | .expired => .arr 1 [.uint 2]
  | .other s => .arr 2 [.uint 3, .text s]

def DmqReject.dec : Dec DmqReject := fun bs =>
  (array bs).bind fun len r =>
    match len with
    | none => .err
    | some 0 => .err
    | some n =>
      (u8 r).bind fun tg r =>
        if tg = 0 ∧ n = 2 then (str r).bind fun s r => .ok (.invalid s) r
        else if tg = 1 ∧ n = 1 then .ok .alreadyReceived r
        else if tg = 2 ∧ n = 1 then .ok .expired r
        else if tg = 3 ∧ n = 2 then (str r).bind fun s r => .ok (.other s) r
        else .err

/-! ## localmsgnotification (DMQ) -/

namespace LocalMsgNotification
inductive Msg where
  | requestNonBlocking
  | replyNonBlocking (msgs : List DmqMsg) (hasMore : Bool)
  | requestBlocking
  | replyBlocking (msgs : List DmqMsg)
  | clientDone
  deriving DecidableEq, Repr

/-- `replyBlocking`: label + message list = 2 items (the unchanged tree declared `array(3)`;
    repaired together with §6 #10, see known_findings.d/C22.json) -/
def Msg.enc : Msg → E
  | .requestNonBlocking => .arr 2 [.uint 0, .bool false]
  | .replyNonBlocking msgs more => .arr 3 [.uint 1, .arrI (msgs.map DmqMsg.enc), .bool more]
  | .requestBlocking => .arr 2 [.uint 0, .bool true]
  | .replyBlocking msgs => .arr 2 [.uint 2, .arrI (msgs.map DmqMsg.enc)]
  | .clientDone => .arr 1 [.uint 3]

def Msg.dec : Dec Msg := fun bs =>
  (labelled bs).bind fun label r =>
    match label with
    | 0 => (bool r).bind fun b r => .ok (if b then .requestBlocking else .requestNonBlocking) r
    | 1 => (vec DmqMsg.dec r).bind fun ms r => (bool r).bind fun more r => .ok (.replyNonBlocking ms more) r
    | 2 => (vec DmqMsg.dec r).bind fun ms r => .ok (.replyBlocking ms) r
    | 3 => .ok .clientDone r
    | _ => .err
end LocalMsgNotification

/-! ## Leios (pallas-network2 only) -/

namespace LeiosNotify
inductive Msg where
  | requestNext
  | blockAnnouncement (header : Bytes)
  | blockOffer (p : Point) (size : Nat)
  | blockTxsOffer (p : Point)
  | votes (vs : List Bytes)
  | done
  deriving DecidableEq, Repr

def Msg.enc : Msg → E
  | .requestNext => .arr 1 [.uint 0]
  | .blockAnnouncement h => .arr 2 [.uint 1, .raw h]
  | .blockOffer p s => .arr 3 [.uint 2, p.enc, .uint s]
  | .blockTxsOffer p => .arr 2 [.uint 3, p.enc]
  | .votes vs => .arr 2 [.uint 4, .arr vs.length (vs.map E.raw)]
  | .done => .arr 1 [.uint 5]

def Msg.dec : Dec Msg := fun bs =>
  (labelled bs).bind fun label r =>
    match label with
    | 0 => .ok .requestNext r
    | 1 => (anyCbor r).bind fun h r => .ok (.blockAnnouncement h) r
    | 2 => (Point.dec r).bind fun p r => (u32 r).bind fun s r => .ok (.blockOffer p s) r
    | 3 => (Point.dec r).bind fun p r => .ok (.blockTxsOffer p) r
    | 4 => (vec anyCbor r).bind fun vs r => .ok (.votes vs) r
    | 5 => .ok .done r
    | _ => .err
end LeiosNotify

/-- `Bitmaps(BTreeMap<u16, u64>)` in key order -/
abbrev Bitmaps := List (Nat × Nat)

def Bitmaps.enc (b : Bitmaps) : E := .mapI (b.flatMap fun kv => [.uint kv.1, .uint kv.2])
def Bitmaps.dec : Dec Bitmaps := btreeMap u16 u64

namespace LeiosFetch
inductive Msg where
  | blockRequest (p : Point)
  | block (b : Bytes)
  | blockTxsRequest (p : Point) (bm : Bitmaps)
  | blockTxs (p : Point) (bm : Bitmaps) (txs : List Bytes)
  | done
  deriving DecidableEq, Repr

def Msg.enc : Msg → E
  | .blockRequest p => .arr 2 [.uint 0, p.enc]
  | .block b => .arr 2 [.uint 1, .raw b]
  | .blockTxsRequest p bm => .arr 3 [.uint 2, p.enc, Bitmaps.enc bm]
  | .blockTxs p bm txs => .arr 4 [.uint 3, p.enc, Bitmaps.enc bm, .arr txs.length (txs.map E.raw)]
  | .done => .arr 1 [.uint 9]

def Msg.dec : Dec Msg := fun bs =>
  (labelled bs).bind fun label r =>
    match label with
    | 0 => (Point.dec r).bind fun p r => .ok (.blockRequest p) r
    | 1 => (anyCbor r).bind fun b r => .ok (.block b) r
    | 2 => (Point.dec r).bind fun p r => (Bitmaps.dec r).bind fun bm r => .ok (.blockTxsRequest p bm) r
    | 3 =>
      (Point.dec r).bind fun p r => (Bitmaps.dec r).bind fun bm r => (vec anyCbor r).bind fun txs r =>
        .ok (.blockTxs p bm txs) r
    | 9 => .ok .done r
    | _ => .err
end LeiosFetch

/-! ## representable values (the hypotheses of C22)

Field ranges are those of the Rust types (`u8 … u64`, `usize` lengths), text is UTF-8, and the
"representable field combinations" of the property: a header has a Byron prefix iff its variant
is 0, node-to-node version data has `peer_sharing` and `query` both or neither, version tables and
bitmaps are maps (strictly increasing keys in canonical order). `okAny` is the requirement on an
opaque `AnyCbor` payload. -/

def lt64 (n : Nat) : Bool := decide (n < 2 ^ 64)

def Point.valid : Point → Bool
  | .origin => true
  | .specific s h => lt64 s && lt64 h.length
def Tip.valid (t : Tip) : Bool := t.point.valid && lt64 t.blockNo
def HeaderContent.valid (h : HeaderContent) : Bool :=
  lt64 h.cbor.length &&
  (if h.variant = 0 then
    match h.byronPrefix with
    | some (a, b) => decide (a ≤ 255) && lt64 b
    | none => false
   else decide (h.variant ≤ 255) && h.byronPrefix.isNone)
def ChainSync.Msg.valid {C : Type} (vC : C → Bool) : ChainSync.Msg C → Bool
  | .rollForward c t => vC c && t.valid
  | .rollBackward p t | .intersectFound p t => p.valid && t.valid
  | .findIntersect ps => lt64 ps.length && ps.all Point.valid
  | .intersectNotFound t => t.valid
  | _ => true
def BlockFetch.Msg.valid : BlockFetch.Msg → Bool
  | .requestRange a b => a.valid && b.valid
  | .block body => lt64 body.length
  | _ => true
def EraTxId.valid (t : EraTxId) : Bool := decide (t.era ≤ 65535) && lt64 t.id.length
def EraTx.valid (t : EraTx) : Bool := decide (t.era ≤ 65535) && lt64 t.body.length
def TxIdAndSize.valid (t : TxIdAndSize) : Bool := t.id.valid && decide (t.size ≤ 4294967295)
def TxSubmission.Msg.valid : TxSubmission.Msg → Bool
  | .requestTxIds _ ack req => decide (ack ≤ 65535) && decide (req ≤ 65535)
  | .replyTxIds ids => ids.all TxIdAndSize.valid
  | .requestTxs ids => ids.all EraTxId.valid
  | .replyTxs txs => txs.all EraTx.valid
  | _ => true
def KeepAlive.Msg.valid : KeepAlive.Msg → Bool
  | .keepAlive c | .responseKeepAlive c => decide (c ≤ 65535)
  | .done => true
def PeerAddress.valid (portMax : Nat) : PeerAddress → Bool
  | .v4 a p => decide (a ≤ 4294967295) && decide (p ≤ portMax)
  | .v6 bits p => decide (bits < 2 ^ 128) && decide (p ≤ portMax)
def PeerSharing.Msg.valid (portMax : Nat) : PeerSharing.Msg → Bool
  | .shareRequest n => decide (n ≤ 255)
  | .sharePeers ps => ps.all (PeerAddress.valid portMax)
  | .done => true
def VersionTable.valid {D : Type} (vD : D → Bool) (vt : VersionTable D) : Bool :=
  lt64 vt.length && sortedKeys vt && vt.all fun kv => lt64 kv.1 && vD kv.2
def RefuseReason.valid : RefuseReason → Bool
  | .versionMismatch vs => lt64 vs.length && vs.all lt64
  | .handshakeDecodeError v m | .refused v m => lt64 v && lt64 m.length && utf8Valid m
def Handshake.Msg.valid {D : Type} (vD : D → Bool) : Handshake.Msg D → Bool
  | .propose vt | .queryReply vt => VersionTable.valid vD vt
  | .accept v d => lt64 v && vD d
  | .refuse r => r.valid
def N2NData.valid (d : N2NData) : Bool :=
  lt64 d.magic &&
  match d.peerSharing, d.query with
  | some ps, some _ => decide (ps ≤ 255)
  | none, none => true
  | _, _ => false
def N2CData.valid (d : N2CData) : Bool := lt64 d.magic
def TxMonitor.Msg.valid : TxMonitor.Msg → Bool
  | .acquired s => lt64 s
  | .responseNextTx (some (era, body)) => decide (era ≤ 255) && lt64 body.length
  | .requestHasTx id => lt64 id.length && utf8Valid id
  | .responseSizeAndCapacity c s n => decide (c ≤ 4294967295) && decide (s ≤ 4294967295) && decide (n ≤ 4294967295)
  | _ => true
def LocalState.Msg.valid (okAny : Bytes → Bool) : LocalState.Msg → Bool
  | .acquire (some p) | .reAcquire (some p) => p.valid
  | .query q | .result q => okAny q
  | _ => true
def LocalTx.Msg.valid {Tx Rej : Type} (vTx : Tx → Bool) (vRej : Rej → Bool) : LocalTx.Msg Tx Rej → Bool
  | .submitTx tx => vTx tx
  | .rejectTx r => vRej r
  | _ => true
def OpaqueReject.valid (okAny : Bytes → Bool) : OpaqueReject → Bool
  | .cbor raw => okAny raw
  | .text _ => false
def DmqPayload.valid (p : DmqPayload) : Bool := lt64 p.body.length && lt64 p.kesPeriod && decide (p.expiresAt ≤ 4294967295)
def DmqOpCert.valid (c : DmqOpCert) : Bool :=
  lt64 c.kesVk.length && lt64 c.issueNumber && lt64 c.startKesPeriod && lt64 c.certSig.length
def DmqMsg.valid (m : DmqMsg) : Bool :=
  lt64 m.msgId.length && m.payload.valid && lt64 m.kesSignature.length && m.opCert.valid && lt64 m.coldVk.length
def DmqReject.valid : DmqReject → Bool
  | .invalid s | .other s => lt64 s.length && utf8Valid s
  | _ => true
def LocalMsgNotification.Msg.valid : LocalMsgNotification.Msg → Bool
  | .replyNonBlocking ms _ | .replyBlocking ms => ms.all DmqMsg.valid
  | _ => true
def LeiosNotify.Msg.valid (okAny : Bytes → Bool) : LeiosNotify.Msg → Bool
  | .blockAnnouncement h => okAny h
  | .blockOffer p s => p.valid && decide (s ≤ 4294967295)
  | .blockTxsOffer p => p.valid
  | .votes vs => lt64 vs.length && vs.all okAny
  | _ => true
def Bitmaps.valid (b : Bitmaps) : Bool := sortedKeys b && b.all fun kv => decide (kv.1 ≤ 65535) && lt64 kv.2
def LeiosFetch.Msg.valid (okAny : Bytes → Bool) : LeiosFetch.Msg → Bool
  | .blockRequest p => p.valid
  | .block b => okAny b
  | .blockTxsRequest p bm => p.valid && Bitmaps.valid bm
  | .blockTxs p bm txs => p.valid && Bitmaps.valid bm && lt64 txs.length && txs.all okAny
  | .done => true

end PallasVerif.NetMsg
