import PallasVerif.Model.Cbor
import PallasVerif.Model.PlutusData
/-
  C07 — byte-level model of the PlutusData decoder: `impl Decode for PlutusData / BigInt / Constr /
  BoundedBytes` (pallas-primitives/src/plutus_data.rs), `MaybeIndefArray` / `KeyValuePairs`
  (pallas-codec/src/utils.rs) and the minicbor 0.26.5 `Decoder` primitives they call (`datatype`,
  `tag`, `probe`, `int`, `u64`, `bytes`, `bytes_iter`, `array`, `map`, `array_iter_with`, `map_iter_with`,
  `Vec<T>`), transcribed arm by arm over the remaining input (position = consumed prefix).

  Unlike `PlutusData.decode` (strict L1 parser + `ofItem`) this keeps the decoder's leniencies:
  for tag 102 `d.array()?` accepts any array head and its length is ignored (for an indefinite
  array the break is not consumed). Errors are collapsed to `none` (the Rust error classes are
  message strings). Import-free.
-/
namespace PallasVerif.PlutusData.Dec
open PallasVerif.Cbor PallasVerif.PlutusData

/-- the `minicbor::data::Type` classes the PlutusData decoder distinguishes -/
inductive Ty where
  | int | bytes | bytesIndef | array | arrayIndef | map | mapIndef | tag | other
  deriving DecidableEq, Repr

/-- `Decoder::type_of(n)` restricted to the classes above; `restEmpty` = there is no byte after the
    initial byte (`peek()` fails: the heads `0x38..0x3b` look at one more byte) -/
def typeOfByte (n : Nat) (restEmpty : Bool) : Option Ty :=
  if n ≤ 0x1b then some .int
  else if 0x20 ≤ n ∧ n ≤ 0x37 then some .int
  else if 0x38 ≤ n ∧ n ≤ 0x3b then (if restEmpty then none else some .int)
  else if 0x40 ≤ n ∧ n ≤ 0x5b then some .bytes
  else if n = 0x5f then some .bytesIndef
  else if 0x80 ≤ n ∧ n ≤ 0x9b then some .array
  else if n = 0x9f then some .arrayIndef
  else if 0xa0 ≤ n ∧ n ≤ 0xbb then some .map
  else if n = 0xbf then some .mapIndef
  else if 0xc0 ≤ n ∧ n ≤ 0xdb then some .tag
  else some .other

/-- `Decoder::datatype` (`type_of(current()?)`); `none` = end of input -/
def datatype : Bytes → Option Ty
  | [] => none
  | b :: rest => typeOfByte b.toNat rest.isEmpty

/-- `read_slice(n)` -/
def readSlice (n : Nat) (bs : Bytes) : Option (Bytes × Bytes) :=
  if bs.length < n then none else some (bs.take n, bs.drop n)

/-- `Decoder::unsigned(info, _)`: the argument that follows an initial byte with additional info `ai` -/
def unsigned (ai : Nat) (rest : Bytes) : Option (Nat × Bytes) :=
  if ai < 24 then some (ai, rest)
  else if ai = 24 then (readSlice 1 rest).map fun (a, r) => (ofBe a, r)
  else if ai = 25 then (readSlice 2 rest).map fun (a, r) => (ofBe a, r)
  else if ai = 26 then (readSlice 4 rest).map fun (a, r) => (ofBe a, r)
  else if ai = 27 then (readSlice 8 rest).map fun (a, r) => (ofBe a, r)
  else none

/-- head of the given major type with a definite argument -/
def readHead (major : Nat) : Bytes → Option (Nat × Bytes)
  | [] => none
  | b :: rest => if b.toNat / 32 = major then unsigned (b.toNat % 32) rest else none

/-- `Decoder::tag` -/
def readTag (bs : Bytes) : Option (Nat × Bytes) := readHead 6 bs

/-- `Decoder::u64` -/
def readU64 (bs : Bytes) : Option (Nat × Bytes) := readHead 0 bs

/-- `Decoder::int` -/
def readInt : Bytes → Option (Int × Bytes)
  | [] => none
  | b :: rest =>
    if b.toNat / 32 = 0 then (unsigned (b.toNat % 32) rest).map fun (n, r) => (Int.ofNat n, r)
    else if b.toNat / 32 = 1 then (unsigned (b.toNat % 32) rest).map fun (n, r) => (-1 - Int.ofNat n, r)
    else none

/-- `Decoder::bytes` (definite only) -/
def readBytes : Bytes → Option (Bytes × Bytes)
  | [] => none
  | b :: rest =>
    if b.toNat / 32 = 2 ∧ b.toNat % 32 ≠ 31 then
      match unsigned (b.toNat % 32) rest with
      | some (n, r) => readSlice n r
      | none => none
    else none

/-- the `State::Indef` arm of `BytesIter` collected: chunks up to the break -/
def readChunks : Nat → Bytes → Option (Bytes × Bytes)
  | 0, _ => none
  | _ + 1, [] => none
  | fuel + 1, b :: rest =>
    if b = 0xff then some ([], rest)
    else
      match readBytes (b :: rest) with
      | none => none
      | some (c, r) =>
        match readChunks fuel r with
        | none => none
        | some (cs, r') => some (c ++ cs, r')

/-- `impl Decode for BoundedBytes`: `bytes_iter` concatenated -/
def decBounded (fuel : Nat) : Bytes → Option (Bytes × Bytes)
  | [] => none
  | b :: rest =>
    if b.toNat / 32 = 2 then
      if b.toNat % 32 = 31 then readChunks fuel rest
      else
        match unsigned (b.toNat % 32) rest with
        | some (n, r) => readSlice n r
        | none => none
    else none

/-- `Decoder::array` / `Decoder::map`: `some none` = indefinite -/
def readSeqHead (major : Nat) : Bytes → Option (Option Nat × Bytes)
  | [] => none
  | b :: rest =>
    if b.toNat / 32 = major then
      if b.toNat % 32 = 31 then some (none, rest)
      else (unsigned (b.toNat % 32) rest).map fun (n, r) => (some n, r)
    else none

/-- `impl Decode for BigInt` -/
def decBig (fuel : Nat) (bs : Bytes) : Option (BigInt × Bytes) :=
  match datatype bs with
  | some .int => (readInt bs).map fun (i, r) => (.int i, r)
  | some .tag =>
    match readTag bs with
    | some (t, r) =>
      if t = 2 then (decBounded fuel r).map fun (b, r') => (.bigU b, r')
      else if t = 3 then (decBounded fuel r).map fun (b, r') => (.bigN b, r')
      else none
    | none => none
  | _ => none

mutual
/-- `impl Decode for PlutusData` -/
def decP : Nat → Bytes → Option (PData × Bytes)
  | 0, _ => none
  | fuel + 1, bs =>
    match datatype bs with
    | some .tag =>
      match readTag bs with            -- `d.probe().tag()`
      | none => none
      | some (t, _) =>
        if t = 2 ∨ t = 3 then (decBig fuel bs).map fun (b, r) => (.int b, r)
        else if isConstrTag t ∨ t = 102 then decConstr fuel bs
        else none
    | some .int => (decBig fuel bs).map fun (b, r) => (.int b, r)
    | some .map => (decKvs fuel bs).map fun (kvs, r) => (.map true kvs, r)
    | some .mapIndef => (decKvs fuel bs).map fun (kvs, r) => (.map false kvs, r)
    | some .bytes => (decBounded fuel bs).map fun (b, r) => (.bytes b, r)
    | some .bytesIndef => (decBounded fuel bs).map fun (b, r) => (.bytes b, r)
    | some .array => (decVec fuel bs).map fun (xs, r) => (.array true xs, r)
    | some .arrayIndef => (decVec fuel bs).map fun (xs, r) => (.array false xs, r)
    | _ => none
/-- `impl Decode for Constr<PlutusData>` -/
def decConstr : Nat → Bytes → Option (PData × Bytes)
  | 0, _ => none
  | fuel + 1, bs =>
    match readTag bs with
    | none => none
    | some (t, r) =>
      if isConstrTag t then
        (decMaybeIndef fuel r).map fun ((df, xs), r') => (.constr t none df xs, r')
      else if t = 102 then
        match readSeqHead 4 r with     -- `d.array()?`, result discarded
        | none => none
        | some (_, r1) =>
          match readU64 r1 with
          | none => none
          | some (a, r2) =>
            (decMaybeIndef fuel r2).map fun ((df, xs), r') => (.constr 102 (some a) df xs, r')
      else none
/-- `impl Decode for MaybeIndefArray<PlutusData>` -/
def decMaybeIndef : Nat → Bytes → Option ((Bool × List PData) × Bytes)
  | 0, _ => none
  | fuel + 1, bs =>
    match datatype bs with
    | some .array => (decVec fuel bs).map fun (xs, r) => ((true, xs), r)
    | some .arrayIndef => (decVec fuel bs).map fun (xs, r) => ((false, xs), r)
    | _ => none
/-- `Vec<PlutusData>` through `array_iter_with` -/
def decVec : Nat → Bytes → Option (List PData × Bytes)
  | 0, _ => none
  | fuel + 1, bs =>
    match readSeqHead 4 bs with
    | none => none
    | some (some n, r) => decN fuel n r
    | some (none, r) => decBreak fuel r
/-- `KeyValuePairs<PlutusData, PlutusData>` through `map_iter_with` -/
def decKvs : Nat → Bytes → Option (List (PData × PData) × Bytes)
  | 0, _ => none
  | fuel + 1, bs =>
    match readSeqHead 5 bs with
    | none => none
    | some (some n, r) => decPairsN fuel n r
    | some (none, r) => decPairsBreak fuel r
def decN : Nat → Nat → Bytes → Option (List PData × Bytes)
  | _, 0, bs => some ([], bs)
  | 0, _ + 1, _ => none
  | fuel + 1, n + 1, bs =>
    match decP fuel bs with
    | none => none
    | some (x, r) =>
      match decN fuel n r with
      | none => none
      | some (xs, r') => some (x :: xs, r')
def decBreak : Nat → Bytes → Option (List PData × Bytes)
  | 0, _ => none
  | _ + 1, [] => none
  | fuel + 1, b :: rest =>
    if b = 0xff then some ([], rest)
    else
      match decP fuel (b :: rest) with
      | none => none
      | some (x, r) =>
        match decBreak fuel r with
        | none => none
        | some (xs, r') => some (x :: xs, r')
def decPairsN : Nat → Nat → Bytes → Option (List (PData × PData) × Bytes)
  | _, 0, bs => some ([], bs)
  | 0, _ + 1, _ => none
  | fuel + 1, n + 1, bs =>
    match decP fuel bs with
    | none => none
    | some (k, r) =>
      match decP fuel r with
      | none => none
      | some (v, r1) =>
        match decPairsN fuel n r1 with
        | none => none
        | some (xs, r') => some ((k, v) :: xs, r')
def decPairsBreak : Nat → Bytes → Option (List (PData × PData) × Bytes)
  | 0, _ => none
  | _ + 1, [] => none
  | fuel + 1, b :: rest =>
    if b = 0xff then some ([], rest)
    else
      match decP fuel (b :: rest) with
      | none => none
      | some (k, r) =>
        match decP fuel r with
        | none => none
        | some (v, r1) =>
          match decPairsBreak fuel r1 with
          | none => none
          | some (xs, r') => some ((k, v) :: xs, r')
end

/-- fuel that always suffices: every level of recursion either consumes a byte or descends from a
    node to one of its (at most four) decoder layers -/
def fuelFor (bs : Bytes) : Nat := 4 * bs.length + 8

/-- `minicbor::decode::<PlutusData>(bs)`: the value and the unread rest -/
def decodeBytes (bs : Bytes) : Option (PData × Bytes) := decP (fuelFor bs) bs

end PallasVerif.PlutusData.Dec
