/-
  Model of the verification-key witness bookkeeping of phase-1 validation
  (`pallas-validate/src/phase1/{shelley_ma,alonzo,babbage,conway}.rs` + `utils.rs`):
  `mk_alonzo_vk_wits_check_list`, `verify_signature`, `check_vk_wit`, `check_remaining_vk_wits`,
  `check_required_signers` / `find_and_check_req_signer`, `check_vkey_input_wits`,
  Shelley-MA `check_witnesses`. Transcribed from the code as it stands after the `fix:` commits
  recorded in `known_findings.d/C35.json` (`continue` instead of `return Ok(())` in
  `check_remaining_vk_wits`).

  Parameters (not modelled): `hash : Bytes → H` (Blake2b-224 of the verification key) and
  `verify : key → msg → sig → Bool` (Ed25519). Looking an input up in the UTxO map and decoding
  its address is summarised per input by an `InputView`.
-/
namespace PallasVerif.Witness

abbrev Bytes := List UInt8

/-- `VKeyWitness { vkey, signature }` -/
structure Wit where
  vkey : Bytes
  sig : Bytes
  deriving DecidableEq, Repr

/-- closed error enum (era-specific constructors such as `Alonzo(VKWrongSignature)`,
    `PostAlonzo(VKWrongSignature)`, `ShelleyMA(WrongSignature)` are identified) -/
inductive Err where
  | vkWitnessMissing | vkWrongSignature | reqSignerMissing | reqSignerWrongSig
  | inputDecoding | inputNotInUtxo | missingScriptWitness | scriptDenial
  deriving DecidableEq, Repr

inductive R (α : Type) where
  | ok (a : α)
  | err (e : Err)
  | panic
  deriving Repr, DecidableEq

/-- What the validator sees of one spent (or collateral) input. -/
inductive InputView (H : Type) where
  /-- `utxos.get(..)` is `None` -/
  | notInUtxo
  /-- the UTxO entry is of an output variant this era's validator does not look at (`if let Some(..) = as_<era>()` fails): no check -/
  | skipped
  /-- `get_payment_part` returns `None` (not a Shelley address) -/
  | undecodable
  /-- `ShelleyPaymentPart::Key(h)` -/
  | key (h : H)
  /-- `ShelleyPaymentPart::Script(_)`; `witnessed` = result of Shelley-MA `check_native_script_witness` (ignored by later eras) -/
  | script (witnessed : Bool)
  deriving Repr

section
variable {H : Type} [DecidableEq H] (hash : Bytes → H) (verify : Bytes → Bytes → Bytes → Bool)

/-- `verify_signature` (after the C33 `fix:`): a key that is not 32 bytes or a signature that is not 64 bytes is
    `false` (the two `copy_from_slice` used to panic), otherwise `public_key.verify(data, &sig)`. The `Option` is kept
    for the shape of the callers (`none` was the panic) and is always `some`. -/
def verifySignature (w : Wit) (msg : Bytes) : Option Bool :=
  if w.vkey.length ≠ 32 then some false
  else if w.sig.length ≠ 64 then some false
  else some (verify w.vkey msg w.sig)

/-- `mk_alonzo_vk_wits_check_list`: `wits.clone().ok_or(err)?` then `(false, w)` for each -/
def mkCheckList (wits : Option (List Wit)) : R (List (Bool × Wit)) :=
  match wits with
  | none => .err .vkWitnessMissing
  | some ws => .ok (ws.map (fun w => (false, w)))

/-- `check_vk_wit`: first witness whose key hashes to `h`; wrong signature is an error, a good one is marked covered -/
def checkVkWit (h : H) (msg : Bytes) : List (Bool × Wit) → R (List (Bool × Wit))
  | [] => .err .vkWitnessMissing
  | (c, w) :: rest =>
    if hash w.vkey = h then
      match verifySignature verify w msg with
      | none => .panic
      | some false => .err .vkWrongSignature
      | some true => .ok ((true, w) :: rest)
    else
      match checkVkWit h msg rest with
      | .ok rest' => .ok ((c, w) :: rest')
      | .err e => .err e
      | .panic => .panic

/-- `check_remaining_vk_wits` (fixed): every uncovered witness is verified -/
def checkRemaining (msg : Bytes) : List (Bool × Wit) → R Unit
  | [] => .ok ()
  | (c, w) :: rest =>
    if !c then
      match verifySignature verify w msg with
      | none => .panic
      | some true => checkRemaining msg rest      -- `continue`
      | some false => .err .vkWrongSignature
    else checkRemaining msg rest

/-- `find_and_check_req_signer` -/
def findAndCheckReqSigner (h : H) (msg : Bytes) : List Wit → R Unit
  | [] => .err .reqSignerMissing
  | w :: rest =>
    if hash w.vkey = h then
      match verifySignature verify w msg with
      | none => .panic
      | some false => .err .reqSignerWrongSig
      | some true => .ok ()
    else findAndCheckReqSigner h msg rest

def reqLoop (msg : Bytes) (wits : List Wit) : List H → R Unit
  | [] => .ok ()
  | r :: rs =>
    match findAndCheckReqSigner hash verify r msg wits with
    | .ok () => reqLoop msg wits rs
    | .err e => .err e
    | .panic => .panic

/-- `check_required_signers` -/
def checkRequiredSigners (req : Option (List H)) (wits : Option (List Wit)) (msg : Bytes) : R Unit :=
  match req with
  | none => .ok ()
  | some rs =>
    match wits with
    | some ws => reqLoop hash verify msg ws rs
    | none => .err .reqSignerMissing

/-- the `for input in inputs_and_collaterals` loop of `check_vkey_input_wits` (Alonzo, Babbage, Conway) -/
def inputLoop (msg : Bytes) : List (InputView H) → List (Bool × Wit) → R (List (Bool × Wit))
  | [], l => .ok l
  | v :: vs, l =>
    match v with
    | .notInUtxo => .err .inputNotInUtxo
    | .skipped => inputLoop msg vs l
    | .undecodable => .err .inputDecoding
    | .script _ => inputLoop msg vs l
    | .key h =>
      match checkVkWit hash verify h msg l with
      | .ok l' => inputLoop msg vs l'
      | .err e => .err e
      | .panic => .panic

/-- `check_vkey_input_wits` -/
def checkVkeyInputWits (wits : Option (List Wit)) (ins : List (InputView H)) (msg : Bytes) : R Unit :=
  match mkCheckList wits with
  | .ok l =>
    match inputLoop hash verify msg ins l with
    | .ok l' => checkRemaining verify msg l'
    | .err e => .err e
    | .panic => .panic
  | .err e => .err e
  | .panic => .panic

/-- Conway passes `Some(vkeywitness.unwrap_or_default())` to both checks; Alonzo and Babbage pass the field itself. -/
def normalize (conway : Bool) (wits : Option (List Wit)) : Option (List Wit) :=
  if conway then some (wits.getD []) else wits

/-- the witness part of `check_witness_set` (Alonzo, Babbage, Conway): required signers, then inputs + collateral -/
def checkWitnessSet (conway : Bool) (req : Option (List H)) (wits : Option (List Wit))
    (ins : List (InputView H)) (msg : Bytes) : R Unit :=
  match checkRequiredSigners hash verify req (normalize conway wits) msg with
  | .ok () => checkVkeyInputWits hash verify (normalize conway wits) ins msg
  | .err e => .err e
  | .panic => .panic

/-- Shelley-MA input loop: script inputs need a native-script witness -/
def inputLoopShelley (msg : Bytes) : List (InputView H) → List (Bool × Wit) → R (List (Bool × Wit))
  | [], l => .ok l
  | v :: vs, l =>
    match v with
    | .notInUtxo => .err .inputNotInUtxo
    | .skipped => inputLoopShelley msg vs l
    | .undecodable => .err .inputDecoding
    | .script witnessed => if witnessed then inputLoopShelley msg vs l else .err .missingScriptWitness
    | .key h =>
      match checkVkWit hash verify h msg l with
      | .ok l' => inputLoopShelley msg vs l'
      | .err e => .err e
      | .panic => .panic

/-- Shelley-MA `check_witnesses`; `nativeOk` = every native script of the witness set evaluates to true -/
def checkWitnessesShelley (wits : Option (List Wit)) (ins : List (InputView H)) (nativeOk : Bool)
    (msg : Bytes) : R Unit :=
  match mkCheckList wits with
  | .ok l =>
    match inputLoopShelley hash verify msg ins l with
    | .ok l' => if nativeOk then checkRemaining verify msg l' else .err .scriptDenial
    | .err e => .err e
    | .panic => .panic
  | .err e => .err e
  | .panic => .panic

end
end PallasVerif.Witness
