import PallasVerif.Model.Sha512
/-
  Ed25519 (RFC 8032 §5.1) on `Nat`, and `pallas-crypto/src/key/ed25519.rs` on top of it.

  Two layers:
  * `Ops` / `signWith` / `verifyWith`: sign and verify written once, generically over the group
    operations, the encoding and the hash (this is what `Props/C11.lean` reasons about);
  * `ed : Ops`: the concrete instance — arithmetic mod `p = 2^255 − 19`, extended twisted-Edwards
    coordinates with the unified addition of RFC 8032 §5.1.4, double-and-add scalar multiplication,
    point encoding §5.1.2, decoding §5.1.3, SHA-512.

  pallas wraps cryptoxide 0.4.4 (`cryptoxide::ed25519::{keypair, signature, signature_extended,
  extended_to_public, verify}`); what those do beyond RFC 8032 is transcribed here:
  * `verify` decodes the public key *leniently* (`Ge::from_bytes`: the 255-bit `y` is taken mod `p`,
    so `y ≥ p` is accepted; `x = 0` with the sign bit set is accepted), rejects a non-canonical `S`
    (`Scalar::from_bytes_canonical`), rejects the all-zero public key, computes
    `R' = h·(−A) + S·B` (cofactorless) and compares the *encoding* of `R'` with the first 32
    signature bytes;
  * `verifyRfc` is the strict RFC 8032 §5.1.7 reference (strict decoding of `A` and `R`, `S < L`,
    cofactorless group equation), kept next to it so the two can be compared.
  * `SecretKeyExtended::check_structure` / `from_bytes`, and the clamping of `SecretKeyExtended::new`.
-/
namespace PallasVerif.Ed25519
open PallasVerif.Sha512 (sha512)

abbrev Bytes := List UInt8

/-! ## bytes ↔ numbers (little endian) -/

def leNat : Bytes → Nat
  | [] => 0
  | b :: bs => b.toNat + 256 * leNat bs

def leBytes : Nat → Nat → Bytes
  | 0, _ => []
  | w + 1, n => UInt8.ofNat (n % 256) :: leBytes w (n / 256)

def zeros (n : Nat) : Bytes := List.replicate n 0

/-! ## generic scheme -/

/-- what sign/verify need from the group, the encoding and the hash -/
structure Ops where
  G : Type
  add : G → G → G
  neg : G → G
  smul : Nat → G → G
  B : G
  ell : Nat
  enc : G → Bytes
  /-- the decoding `verify` applies to the public key -/
  dec : Bytes → Option G
  /-- hash to an integer (SHA-512 read little endian) -/
  H : Bytes → Nat

/-- public key of the secret scalar `a` -/
def pkOf (O : Ops) (a : Nat) : Bytes := O.enc (O.smul a O.B)

/-- RFC 8032 §5.1.6 steps 2–5 with secret scalar `a` and nonce prefix `pre` -/
def signWith (O : Ops) (a : Nat) (pre msg : Bytes) : Bytes :=
  let pk := pkOf O a
  let r := O.H (pre ++ msg) % O.ell
  let R := O.enc (O.smul r O.B)
  let h := O.H (R ++ pk ++ msg) % O.ell
  let S := (h * a + r) % O.ell
  R ++ leBytes 32 S

/-- cryptoxide `ed25519::verify` -/
def verifyWith (O : Ops) (pk msg sig : Bytes) : Bool :=
  let sigL := sig.take 32
  let sigR := sig.drop 32
  match O.dec pk with
  | none => false
  | some A =>
    let S := leNat sigR
    if S ≥ O.ell then false
    else if pk.all (· == 0) then false
    else
      let h := O.H (sigL ++ pk ++ msg) % O.ell
      let R' := O.add (O.smul h (O.neg A)) (O.smul S O.B)
      O.enc R' == sigL

/-! ## the field and the curve -/

def p : Nat := 2 ^ 255 - 19
def L : Nat := 2 ^ 252 + 27742317777372353535851937790883648493
def d : Nat := 37095705934669439343138083508754565189542113879843219016388785533085940283555
/-- `2^((p-1)/4)`, a square root of −1 -/
def sqrtM1 : Nat := 19681161376707505956807079304988542015446066515923890162744021073123829784752

def powMod (b e m : Nat) : Nat :=
  if h : e = 0 then 1 % m
  else
    let r := powMod (b * b % m) (e / 2) m
    if e % 2 = 1 then b * r % m else r
termination_by e
decreasing_by omega

def inv (x : Nat) : Nat := powMod x (p - 2) p

/-- extended homogeneous coordinates `(X : Y : Z : T)`, `x = X/Z`, `y = Y/Z`, `xy = T/Z` -/
structure Pt where
  x : Nat
  y : Nat
  z : Nat
  t : Nat

def neutral : Pt := ⟨0, 1, 1, 0⟩

/-- RFC 8032 §5.1.4 point addition (complete: also doubles) -/
def padd (a b : Pt) : Pt :=
  let A := (a.y + p - a.x) % p * ((b.y + p - b.x) % p) % p
  let B := (a.y + a.x) % p * ((b.y + b.x) % p) % p
  let C := a.t * 2 % p * d % p * b.t % p
  let D := a.z * 2 % p * b.z % p
  let E := (B + p - A) % p
  let F := (D + p - C) % p
  let G := (D + C) % p
  let H := (B + A) % p
  ⟨E * F % p, G * H % p, F * G % p, E * H % p⟩

def pneg (a : Pt) : Pt := ⟨(p - a.x % p) % p, a.y, a.z, (p - a.t % p) % p⟩

/-- double-and-add -/
def smul (s : Nat) (P : Pt) : Pt :=
  if h : s = 0 then neutral
  else
    let r := smul (s / 2) (padd P P)
    if s % 2 = 1 then padd P r else r
termination_by s
decreasing_by omega

/-- §5.1.2: 255 bits of `y`, top bit = low bit of `x` -/
def encode (P : Pt) : Bytes :=
  let zi := inv P.z
  let x := P.x * zi % p
  let y := P.y * zi % p
  leBytes 32 (y + 2 ^ 255 * (x % 2))

/-- candidate root of `x² = u/v` (§5.1.3 step 2–3): `none` when `u/v` is not a square -/
def recoverX (y : Nat) : Option Nat :=
  let y2 := y * y % p
  let u := (y2 + p - 1) % p
  let v := (d * y2 + 1) % p
  let v3 := v * v % p * v % p
  let v7 := v3 * v3 % p * v % p
  let x := u * v3 % p * powMod (u * v7 % p) ((p - 5) / 8) p % p
  let vxx := v * (x * x % p) % p
  if vxx = u then some x
  else if vxx = (p - u) % p then some (x * sqrtM1 % p)
  else none

/-- strict decoding, RFC 8032 §5.1.3 -/
def decodeStrict (bs : Bytes) : Option Pt :=
  let n := leNat (bs.take 32)
  let y := n % 2 ^ 255
  let sign := n / 2 ^ 255 % 2
  if y ≥ p then none
  else match recoverX y with
    | none => none
    | some x =>
      if x = 0 ∧ sign = 1 then none
      else
        let x := if x % 2 = sign then x else (p - x) % p
        some ⟨x, y, 1, x * y % p⟩

/-- cryptoxide `GeAffine::from_bytes` *without* its final negation: `y` reduced mod `p`, no `x = 0` test -/
def decodeLenient (bs : Bytes) : Option Pt :=
  let n := leNat (bs.take 32)
  let y := n % 2 ^ 255 % p
  let sign := n / 2 ^ 255 % 2
  match recoverX y with
  | none => none
  | some x =>
    let x := if x % 2 = sign then x else (p - x) % p
    some ⟨x, y, 1, x * y % p⟩

def By : Nat := 4 * inv 5 % p
def Bx : Nat := 15112221349535400772501151409588531511454012693041857206046113283949847762202
def basePt : Pt := ⟨Bx, By, 1, Bx * By % p⟩

/-- the concrete Ed25519 instance -/
def ed : Ops :=
  { G := Pt, add := padd, neg := pneg, smul := smul, B := basePt, ell := L,
    enc := encode, dec := decodeLenient, H := fun m => leNat (sha512 m) }

/-! ## cryptoxide / pallas entry points -/

/-- `clamp_scalar` on the first 32 bytes -/
def clamp (bs : Bytes) : Bytes :=
  match bs with
  | [] => []
  | b0 :: rest =>
    let r := rest.take 30
    let b31 := rest.getD 30 0
    (b0 &&& 0xF8) :: (r ++ [(b31 &&& 0x3F) ||| 0x40]) ++ rest.drop 31

/-- `extended_secret`: SHA-512 of the 32-byte key, lower half clamped -/
def extendedSecret (sk : Bytes) : Bytes := clamp (sha512 sk)

/-- `SecretKey::public_key` = `keypair(sk).1` -/
def publicKey (sk : Bytes) : Bytes := pkOf ed (leNat ((extendedSecret sk).take 32))

/-- `SecretKey::sign` = `signature(msg, keypair(sk).0)` -/
def sign (sk msg : Bytes) : Bytes :=
  let az := extendedSecret sk
  signWith ed (leNat (az.take 32)) (az.drop 32) msg

/-- `SecretKeyExtended::check_structure` -/
def checkStructure (ext : Bytes) : Bool :=
  (ext.getD 0 0 &&& 0b0000_0111) == 0
    && (ext.getD 31 0 &&& 0b0100_0000) == 0b0100_0000
    && (ext.getD 31 0 &&& 0b1000_0000) == 0

/-- a 64-byte extended key with the given bytes 0 and 31 and `filler` (62 bytes) everywhere else -/
def mkExt (b0 b31 : UInt8) (filler : Bytes) : Bytes :=
  b0 :: (filler.take 30 ++ [b31] ++ filler.drop 30)

def packBits (bs : List Bool) : Bytes :=
  (List.range ((bs.length + 7) / 8)).map fun j =>
    (List.range 8).foldl (fun acc i => if bs.getD (8 * j + i) false then acc ||| ((1 : UInt8) <<< UInt8.ofNat i) else acc) 0

/-- the complete accept/reject table of `check_structure` over all 256×256 values of (byte 0, byte 31):
    row `b0` = 256 bits indexed by `b31`, packed little-endian into 32 bytes -/
def checkTable (filler : Bytes) : Bytes :=
  (List.range 256).flatMap fun b0 =>
    packBits ((List.range 256).map fun b31 => checkStructure (mkExt (UInt8.ofNat b0) (UInt8.ofNat b31) filler))

/-- `SecretKeyExtended::from_bytes` -/
def extFromBytes (ext : Bytes) : Option Bytes := if checkStructure ext then some ext else none

/-- the bit tweaks of `SecretKeyExtended::new` -/
def extTweak (ext : Bytes) : Bytes := clamp ext

/-- `SecretKeyExtended::public_key` = `extended_to_public` -/
def extPublicKey (ext : Bytes) : Bytes := pkOf ed (leNat (ext.take 32))

/-- `SecretKeyExtended::sign` = `signature_extended` -/
def extSign (ext msg : Bytes) : Bytes := signWith ed (leNat (ext.take 32)) (ext.drop 32) msg

/-- `PublicKey::verify` -/
def verify (pk msg sig : Bytes) : Bool := verifyWith ed pk msg sig

/-- strict RFC 8032 §5.1.7 (cofactorless equation, which the RFC permits) -/
def verifyRfc (pk msg sig : Bytes) : Bool :=
  let sigL := sig.take 32
  match decodeStrict pk, decodeStrict sigL with
  | some A, some R =>
    let S := leNat (sig.drop 32)
    if S ≥ L then false
    else
      let h := leNat (sha512 (sigL ++ pk ++ msg)) % L
      encode (smul S basePt) == encode (padd R (smul h A))
  | _, _ => false

/-! ## start-up self-test: RFC 8032 §7.1 TEST 1–3 -/

def hexVal (c : Char) : Nat :=
  if '0' ≤ c ∧ c ≤ '9' then c.toNat - 48 else if 'a' ≤ c ∧ c ≤ 'f' then c.toNat - 87 else 0

def unhexChars : List Char → Bytes
  | a :: b :: rest => UInt8.ofNat (hexVal a * 16 + hexVal b) :: unhexChars rest
  | _ => []

def unhex (s : String) : Bytes := unhexChars s.toList

/-- (secret key, public key, message, signature) -/
def vectors : List (String × String × String × String) := [
  ("9d61b19deffd5a60ba844af492ec2cc44449c5697b326919703bac031cae7f60",
   "d75a980182b10ab7d54bfed3c964073a0ee172f3daa62325af021a68f707511a", "",
   "e5564300c360ac729086e2cc806e828a84877f1eb8e5d974d873e065224901555fb8821590a33bacc61e39701cf9b46bd25bf5f0595bbe24655141438e7a100b"),
  ("4ccd089b28ff96da9db6c346ec114e0f5b8a319f35aba624da8cf6ed4fb8a6fb",
   "3d4017c3e843895a92b70aa74d1b7ebc9c982ccf2ec4968cc0cd55f12af4660c", "72",
   "92a009a9f0d4cab8720e820b5f642540a2b27b5416503f8fb3762223ebdb69da085ac1e43e15996e458f3613d0f11d8c387b2eaeb4302aeeb00d291612bb0c00"),
  ("c5aa8df43f9f837bedb7442f31dcb7b166d38535076f094b85ce3a2e0b4458f7",
   "fc51cd8e6218a1a38da47ed00230f0580816ed13ba3303ac5deb911548908025", "af82",
   "6291d657deec24024827e69c3abe01a30ce548a284743a445e3680d7db5ac3ac18ff9b538d16f290ae67f760984dc6594a7c15e9716ed28dc027beceea1ec40a")]

def selfTest : Bool :=
  PallasVerif.Sha512.selfTest
  && encode (smul L basePt) == encode neutral
  && (Bx * Bx % p * (p - 1) + By * By) % p == (1 + d * (Bx * Bx % p) % p * (By * By % p)) % p
  && sqrtM1 * sqrtM1 % p == p - 1
  && vectors.all fun (sk, pk, m, sg) =>
      publicKey (unhex sk) == unhex pk && sign (unhex sk) (unhex m) == unhex sg
      && verify (unhex pk) (unhex m) (unhex sg) && verifyRfc (unhex pk) (unhex m) (unhex sg)
      && !verify (unhex pk) (unhex m ++ [0]) (unhex sg)
  -- where cryptoxide's verify and the strict reference part ways (Props/C11.lean, known findings)
  && (let idSig : Bytes := (1 :: zeros 31) ++ zeros 32
      let pkNonCanon : Bytes := 0xee :: (List.replicate 30 0xff ++ [0x7f])
      let pkXZero : Bytes := 1 :: (zeros 30 ++ [0x80])
      verify pkNonCanon [1, 2, 3] idSig && !verifyRfc pkNonCanon [1, 2, 3] idSig
      && verify pkXZero [1, 2, 3] idSig && !verifyRfc pkXZero [1, 2, 3] idSig
      && !verify (zeros 32) [4] idSig && verifyRfc (zeros 32) [4] idSig)

end PallasVerif.Ed25519
