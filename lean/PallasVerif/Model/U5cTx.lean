import PallasVerif.Model.U5c
import PallasVerif.Model.Blake2b
/-
  Model of `Mapper::map_tx` / `map_tx_output` / `map_tx_datum` / `map_tx_input` /
  `map_policy_assets` / `map_asset` / `map_native_script` / `map_any_script` / `map_withdrawals` /
  `map_redeemer` of pallas-utxorpc (`src/shared.rs`, `src/v1alpha/mod.rs`, `src/v1beta/mod.rs`), as a
  projection from what the mapper reads through pallas-traverse (`LTx`: the ledger view of a
  transaction) to the UTxO RPC message (`UTx`).

  The two schema versions build the same content; they differ in how it is wrapped (`Asset.quantity`
  is a oneof in v1alpha and a plain `BigInt` in v1beta, v1beta adds `original_cbor` to outputs,
  native-script variant names), which this model does not distinguish: one `UTx`, rendered the same
  way from both versions by the harness.

  Outside: pallas-traverse itself (how `LTx` is read from bytes — C30/C05), prost, the resolved-UTxO
  context (`as_output`, always `None` without a ledger), certificates / governance / auxiliary
  data beyond their count.
-/
namespace PallasVerif.U5cTx
open PallasVerif.U5c

/-- `(transaction id, output index)` as pallas-traverse reports it (`index: u64`) -/
structure LInput where
  hash : Bytes
  index : Nat
  deriving DecidableEq, Repr

inductive NativeScript where
  | pubkey (h : Bytes)
  | all (xs : List NativeScript)
  | any (xs : List NativeScript)
  | nOfK (n : Nat) (xs : List NativeScript)
  | invalidBefore (s : Nat)
  | invalidHereafter (s : Nat)
  deriving Repr

inductive LScript where
  | native (s : NativeScript)
  /-- Plutus V1..V3 -/
  | plutus (version : Nat) (bytes : Bytes)
  deriving Repr

inductive LDatum where
  | hash (h : Bytes)
  /-- inline datum: the original CBOR of the datum and its decoded value -/
  | inline (originalCbor : Bytes) (d : PData)
  deriving Repr

/-- `(policy, [(asset name, quantity)])`; the quantity is a `u64` in outputs and an `i64` in mints -/
abbrev LAssets (Q : Type) := List (Bytes × List (Bytes × Q))

structure LOutput where
  /-- `address().map(to_vec).unwrap_or_default()` -/
  address : Bytes
  coin : Nat
  assets : LAssets Nat
  datum : Option LDatum
  script : Option LScript
  deriving Repr

structure LRedeemer where
  tag : Nat
  index : Nat
  data : PData
  mem : Nat
  steps : Nat
  deriving Repr

/-- what `map_tx` reads from a `MultiEraTx` -/
structure LTx where
  hash : Bytes
  /-- `inputs_sorted_set()` -/
  inputs : List LInput
  outputs : List LOutput
  fee : Option Nat
  validityStart : Option Nat
  ttl : Option Nat
  /-- `mints_sorted_set()` -/
  mint : LAssets Int
  collateral : List LInput
  collateralReturn : Option LOutput
  totalCollateral : Option Nat
  referenceInputs : List LInput
  /-- `withdrawals_sorted_set()` -/
  withdrawals : List (Bytes × Nat)
  certs : Nat
  /-- `plutus_data()` with `original_hash()` of each -/
  witnessDatums : List (Bytes × PData)
  redeemers : List LRedeemer
  isValid : Bool
  deriving Repr

/-! ## the message -/

structure UInput where
  txHash : Bytes
  /-- `uint32` -/
  outputIndex : Nat
  deriving DecidableEq, Repr

inductive UScript where
  | native (s : NativeScript)
  | plutus (version : Nat) (bytes : Bytes)
  deriving Repr

structure UDatum where
  hash : Bytes
  payload : Option UData
  originalCbor : Bytes
  deriving Repr

structure UOutput where
  address : Bytes
  coin : UInt
  assets : List (Bytes × List (Bytes × UInt))
  datum : UDatum
  script : Option UScript
  deriving Repr

structure URedeemer where
  purpose : Nat
  index : Nat
  payload : UData
  mem : Nat
  steps : Nat
  deriving Repr

structure UTx where
  hash : Bytes
  inputs : List UInput
  outputs : List UOutput
  fee : UInt
  validityStart : Nat
  ttl : Nat
  mint : List (Bytes × List (Bytes × UInt))
  collateral : List UInput
  collateralReturn : Option UOutput
  totalCollateral : UInt
  referenceInputs : List UInput
  withdrawals : List (Bytes × UInt)
  certs : Nat
  witnessDatums : List UData
  redeemers : List URedeemer
  successful : Bool
  deriving Repr

/-! ## the mapper -/

/-- `map_tx_input` / `map_tx_reference_input` / `map_tx_collateral`: `index() as u32` -/
def mapInput (i : LInput) : UInput := { txHash := i.hash, outputIndex := i.index % 4294967296 }

/-- `map_policy_assets` + `map_asset` for outputs (`output_coin` → `u64_to_bigint`) -/
def mapOutputAssets (m : LAssets Nat) : List (Bytes × List (Bytes × UInt)) :=
  m.map (fun p => (p.1, p.2.map (fun a => (a.1, u64ToBigInt a.2))))

/-- … and for mints (`mint_coin` → `i64_to_bigint`) -/
def mapMintAssets (m : LAssets Int) : List (Bytes × List (Bytes × UInt)) :=
  m.map (fun p => (p.1, p.2.map (fun a => (a.1, i64ToBigInt a.2))))

/-- `find_plutus_data(hash)`: the witness datum with that hash -/
def findDatum (ds : List (Bytes × PData)) (h : Bytes) : Option PData :=
  match ds with
  | [] => none
  | (h', d) :: t => if h' = h then some d else findDatum t h

def toU8 (b : Bytes) : List UInt8 := b.map UInt8.ofNat

/-- `original_hash()` of an inline datum: BLAKE2b-256 of its original bytes -/
def datumHash (cbor : Bytes) : Bytes := (Blake2b.blake2b256 (toU8 cbor)).map (·.toNat)

/-- `map_tx_datum` -/
def mapTxDatum (witness : List (Bytes × PData)) : Option LDatum → UDatum
  | none => { hash := [], payload := none, originalCbor := [] }
  | some (.hash h) => { hash := h, payload := (findDatum witness h).map mapDatum, originalCbor := [] }
  | some (.inline cbor d) => { hash := datumHash cbor, payload := some (mapDatum d), originalCbor := cbor }

/-- `map_any_script` (native scripts are rebuilt node by node by `map_native_script`) -/
def mapScript : LScript → UScript
  | .native s => .native s
  | .plutus v b => .plutus v b

/-- `map_tx_output` -/
def mapOutput (witness : List (Bytes × PData)) (o : LOutput) : UOutput :=
  { address := o.address
    coin := u64ToBigInt o.coin
    assets := mapOutputAssets o.assets
    datum := mapTxDatum witness o.datum
    script := o.script.map mapScript }

/-- `map_redeemer`: `RedeemerTag` k ↦ `RedeemerPurpose` k + 1 (0 is `Unspecified`) -/
def mapRedeemer (r : LRedeemer) : URedeemer :=
  { purpose := r.tag + 1, index := r.index, payload := mapDatum r.data, mem := r.mem, steps := r.steps }

/-- `map_tx` -/
def mapTx (t : LTx) : UTx :=
  { hash := t.hash
    inputs := t.inputs.map mapInput
    outputs := t.outputs.map (mapOutput t.witnessDatums)
    fee := u64ToBigInt (t.fee.getD 0)
    validityStart := t.validityStart.getD 0
    ttl := t.ttl.getD 0
    mint := mapMintAssets t.mint
    collateral := t.collateral.map mapInput
    collateralReturn := t.collateralReturn.map (mapOutput t.witnessDatums)
    totalCollateral := u64ToBigInt (t.totalCollateral.getD 0)
    referenceInputs := t.referenceInputs.map mapInput
    withdrawals := t.withdrawals.map (fun w => (w.1, u64ToBigInt w.2))
    certs := t.certs
    witnessDatums := t.witnessDatums.map (fun d => mapDatum d.2)
    redeemers := t.redeemers.map mapRedeemer
    successful := t.isValid }

/-- `map_block`: header fields and the transactions in order -/
structure LBlock where
  slot : Nat
  hash : Bytes
  height : Nat
  txs : List LTx

structure UBlock where
  slot : Nat
  hash : Bytes
  height : Nat
  txs : List UTx

def mapBlock (b : LBlock) : UBlock := { slot := b.slot, hash := b.hash, height := b.height, txs := b.txs.map mapTx }

end PallasVerif.U5cTx
