import PallasVerif.Model.Schema
/-
  Hand-written schemas for codecs that pallas-primitives writes by hand and that are not one of
  the regular shapes the translator extracts (`lib/translate_derive.py`, table HAND, which also
  checks that the source still has the shape these were written from).
-/
namespace PallasVerif.Schema.Hand
open PallasVerif.Cbor PallasVerif.Schema

/-- `RationalNumber`: `e.tag(30); e.array(2); num; den` / `d.tag()?; d.array()?; num; den` -/
def rationalNumber : Schema := .tagWrap 30 (.tuple [.uint 64, .uint 64])

/-! ### Conway `CostModels`
  value = `[plutus_v1, plutus_v2, plutus_v3, unknown]` (three `Option<Vec<i64>>`, one
  `BTreeMap<u64, Vec<i64>>` whose keys are the language ids other than 0, 1, 2).
  Decoding reads a `BTreeMap<u64, Vec<i64>>` and splits it; encoding writes the known models
  under keys 0..2 followed by the unknown ones. -/

def cmEntry (k : Nat) : Value → List Value
  | .some cm => [.list [.nat k, cm]]
  | _ => []

def isOptVal : Value → Bool
  | .none => true
  | .some _ => true
  | _ => false

def cmUnknownKey : Value → Bool
  | .list [.nat k, _] => decide (3 ≤ k)
  | _ => false

def cmCombine : Value → Option Value
  | .list [a, b, c, .list unk] =>
    if isOptVal a && isOptVal b && isOptVal c && unk.all cmUnknownKey then
      some (.list (cmEntry 0 a ++ cmEntry 1 b ++ cmEntry 2 c ++ unk))
    else none
  | _ => none

def cmLookup (k : Nat) : List Value → Value
  | [] => .none
  | .list [.nat k', cm] :: r => if k' = k then .some cm else cmLookup k r
  | _ :: r => cmLookup k r

def cmSplit : Value → Option Value
  | .list kvs => some (.list [cmLookup 0 kvs, cmLookup 1 kvs, cmLookup 2 kvs, .list (kvs.filter cmUnknownKey)])
  | _ => none

def encCostModels (v : Value) : Option Item :=
  match cmCombine v with
  | some m => if m.rawFree then encBTMap (encUInt 64) (encVec (encSInt 64)) m else none
  | none => none

def decCostModels (it : Item) : Option Value :=
  match decBTMap (decUInt 64) (decVec (decSInt 64)) it with
  | some m => cmSplit m
  | none => none

def costModelsCustom : Custom := { enc := encCostModels, dec := decCostModels, kinds := [.map] }

def customs : List Custom := [costModelsCustom]

def conwayCostModels : Schema := .custom 0

end PallasVerif.Schema.Hand
