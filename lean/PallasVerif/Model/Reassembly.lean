/-
  Model of message reassembly in both networking stacks, generic in the message decoder.

  * `DecRes` = outcome of `minicbor::Decoder::new(buffer).decode()` followed by `decoder.position()`:
    a message and the number of bytes consumed, an end-of-input error (`err.is_end_of_input()`), or
    any other error.
  * network1 (`pallas-network/src/multiplexer.rs`): `try_decode_message`, `ChannelBuffer::recv_full_msg`
    with its `temp` buffer; the channel is the list of chunks still to be dequeued.
  * network2 (`pallas-network2/src/bearer.rs`, `behavior/mod.rs`): `try_decode_msg` (every error is
    `None`), `AnyMessage::from_payload` (decoder chosen by channel, unsupported channel clears the
    payload), `BearerReadHalf::read_full_msgs` with the per-channel `partial_chunks` map keyed by
    `raw_channel & !PROTOCOL_SERVER`.
  * `itemDec` = a decoder that accepts exactly one well-formed CBOR data item (RFC 8949 syntax); it is
    what the line-protocol driver uses as "the" message decoder when real protocol messages are
    replayed (every pallas message is a single CBOR item).
-/
namespace PallasVerif.Reassembly

abbrev Bytes := List UInt8

inductive DecRes (M : Type) where
  | ok (m : M) (pos : Nat)
  | eoi
  | fail
  deriving Repr, DecidableEq

abbrev Decoder (M : Type) := Bytes → DecRes M

/-! ## network1 -/

inductive Try (M : Type) where
  | msg (m : M) (rest : Bytes)     -- `Ok(Some(msg))`, buffer drained by `pos`
  | needMore                        -- `Ok(None)`
  | error                           -- `Err(Error::Decoding)`

/-- `try_decode_message` -/
def tryDecode {M : Type} (dec : Decoder M) (buffer : Bytes) : Try M :=
  match dec buffer with
  | .ok m pos => .msg m (buffer.drop pos)
  | .eoi => .needMore
  | .fail => .error

inductive Recv (M : Type) where
  | msg (m : M) (temp : Bytes) (chunks : List Bytes)   -- message, new `temp`, chunks not yet dequeued
  | blocked (temp : Bytes)                              -- `dequeue_chunk` has nothing to deliver (yet)
  | error

/-- the `loop { dequeue_chunk; temp.extend(chunk); try_decode_message }` of `recv_full_msg` -/
def recvLoop {M : Type} (dec : Decoder M) (temp : Bytes) : List Bytes → Recv M
  | [] => .blocked temp
  | chunk :: chunks =>
    match tryDecode dec (temp ++ chunk) with
    | .msg m rest => .msg m rest chunks
    | .needMore => recvLoop dec (temp ++ chunk) chunks
    | .error => .error

/-- `ChannelBuffer::recv_full_msg` -/
def recvFullMsg {M : Type} (dec : Decoder M) (temp : Bytes) (chunks : List Bytes) : Recv M :=
  if temp.isEmpty then recvLoop dec temp chunks
  else
    match tryDecode dec temp with
    | .msg m rest => .msg m rest chunks
    | .needMore => recvLoop dec temp chunks
    | .error => .error

/-- `n` successive calls of `recv_full_msg`: the messages, the final `temp`, the chunks left -/
def recvN {M : Type} (dec : Decoder M) : Nat → Bytes → List Bytes → Option (List M × Bytes × List Bytes)
  | 0, temp, chunks => some ([], temp, chunks)
  | n + 1, temp, chunks =>
    match recvFullMsg dec temp chunks with
    | .msg m temp' chunks' =>
      match recvN dec n temp' chunks' with
      | some (ms, t, c) => some (m :: ms, t, c)
      | none => none
    | _ => none

/-! ## network2 -/

/-- `try_decode_msg`: `Some(msg)` with the buffer drained, or `None` (end of input *and* any other error) -/
def tryDecode2 {M : Type} (dec : Decoder M) (buffer : Bytes) : Option (M × Bytes) :=
  match dec buffer with
  | .ok m pos => some (m, buffer.drop pos)
  | .eoi => none
  | .fail => none

/-- decoder table of `AnyMessage::from_payload`: `none` = unsupported channel -/
abbrev Table (M : Type) := UInt16 → Option (Decoder M)

/-- `while let Some(msg) = M::from_payload(channel, &mut payload) { msgs.push(msg) }` (fuel bounds the
    iterations; every successful decode of the real decoders consumes at least one byte) -/
def drain {M : Type} (dec : Decoder M) : Nat → Bytes → List M × Bytes
  | 0, payload => ([], payload)
  | fuel + 1, payload =>
    match tryDecode2 dec payload with
    | none => ([], payload)
    | some (m, rest) => (m :: (drain dec fuel rest).1, (drain dec fuel rest).2)

/-- `PROTOCOL_SERVER` -/
def PROTOCOL_SERVER : UInt16 := 0x8000

def setPartial (f : UInt16 → Option Bytes) (k : UInt16) (v : Option Bytes) : UInt16 → Option Bytes :=
  fun x => if x = k then v else f x

/-- `read_full_msgs` for one segment `(raw_channel, chunk)`; `partials` = the `HashMap` -/
def readFullMsgs {M : Type} (tbl : Table M) (partials : UInt16 → Option Bytes)
    (seg : UInt16 × Bytes) : List M × (UInt16 → Option Bytes) :=
  let channel := seg.1 &&& ~~~PROTOCOL_SERVER
  let payload := match partials channel with
    | some x => x ++ seg.2
    | none => seg.2
  let partials := setPartial partials channel none          -- `partial_chunks.remove(&channel)`
  match tbl channel with
  | none => ([], partials)                                   -- unsupported channel: `payload.clear()`
  | some dec =>
    let r := drain dec (payload.length + 1) payload
    if r.2.isEmpty then (r.1, partials) else (r.1, setPartial partials channel (some r.2))

/-- a whole sequence of segments: messages in delivery order, tagged with their channel -/
def readAll {M : Type} (tbl : Table M) :
    (UInt16 → Option Bytes) → List (UInt16 × Bytes) → List (UInt16 × M) × (UInt16 → Option Bytes)
  | partials, [] => ([], partials)
  | partials, seg :: segs =>
    let r := readFullMsgs tbl partials seg
    let rs := readAll tbl r.2 segs
    (r.1.map (fun m => (seg.1 &&& ~~~PROTOCOL_SERVER, m)) ++ rs.1, rs.2)

/-! ## a decoder for "one well-formed CBOR data item" -/

/-- argument of a CBOR head with additional information `ai`, read from the bytes after the initial
    byte: `(value, bytes used)`; `none` = not enough bytes -/
def headArg (ai : Nat) (rest : Bytes) : Option (Nat × Nat) :=
  if ai < 24 then some (ai, 0)
  else if ai = 24 then
    match rest with
    | a :: _ => some (a.toNat, 1)
    | _ => none
  else if ai = 25 then
    match rest with
    | a :: b :: _ => some (a.toNat * 256 + b.toNat, 2)
    | _ => none
  else if ai = 26 then
    match rest with
    | a :: b :: c :: d :: _ => some (((a.toNat * 256 + b.toNat) * 256 + c.toNat) * 256 + d.toNat, 4)
    | _ => none
  else
    match rest with
    | a :: b :: c :: d :: e :: f :: g :: h :: _ =>
      some (((((((a.toNat * 256 + b.toNat) * 256 + c.toNat) * 256 + d.toNat) * 256 + e.toNat) * 256
        + f.toNat) * 256 + g.toNat) * 256 + h.toNat, 8)
    | _ => none

inductive Skip where
  | ok (len : Nat)
  | eoi
  | bad
  deriving Repr, DecidableEq

mutual
/-- length of the first well-formed data item of `bs` (`inChunks = some mt`: only definite strings of
    major type `mt` are allowed — the chunks of an indefinite-length string) -/
def itemLen : Nat → Bytes → Skip
  | 0, _ => .bad
  | _, [] => .eoi
  | fuel + 1, b :: rest =>
    let mt := b.toNat / 32
    let ai := b.toNat % 32
    if ai = 28 ∨ ai = 29 ∨ ai = 30 then .bad
    else if ai = 31 then
      if mt = 2 ∨ mt = 3 then
        match chunksLen fuel mt rest with
        | .ok n => .ok (1 + n)
        | r => r
      else if mt = 4 then
        match seqIndefLen fuel 1 rest with
        | .ok n => .ok (1 + n)
        | r => r
      else if mt = 5 then
        match seqIndefLen fuel 2 rest with
        | .ok n => .ok (1 + n)
        | r => r
      else .bad                                   -- 0x1f 0x3f 0xdf, and a break (0xff) where an item must start
    else
      match headArg ai rest with
      | none => .eoi
      | some (v, used) =>
        let body := rest.drop used
        if mt = 0 ∨ mt = 1 ∨ mt = 7 then .ok (1 + used)
        else if mt = 2 ∨ mt = 3 then
          if body.length < v then .eoi else .ok (1 + used + v)
        else if mt = 4 then
          match seqLen fuel v body with
          | .ok n => .ok (1 + used + n)
          | r => r
        else if mt = 5 then
          match seqLen fuel (2 * v) body with
          | .ok n => .ok (1 + used + n)
          | r => r
        else
          match itemLen fuel body with                -- tag: one enclosed item
          | .ok n => .ok (1 + used + n)
          | r => r
/-- `k` consecutive items -/
def seqLen : Nat → Nat → Bytes → Skip
  | _, 0, _ => .ok 0
  | 0, _ + 1, _ => .bad
  | fuel + 1, k + 1, bs =>
    match itemLen fuel bs with
    | .ok n =>
      match seqLen fuel k (bs.drop n) with
      | .ok m => .ok (n + m)
      | r => r
    | r => r
/-- items up to a break; `group` = 1 for arrays, 2 for maps (a break is only allowed between pairs) -/
def seqIndefLen : Nat → Nat → Bytes → Skip
  | 0, _, _ => .bad
  | _, _, [] => .eoi
  | fuel + 1, group, b :: rest =>
    if b = 0xFF then .ok 1
    else
      match seqLen fuel group (b :: rest) with
      | .ok n =>
        match seqIndefLen fuel group ((b :: rest).drop n) with
        | .ok m => .ok (n + m)
        | r => r
      | r => r
/-- definite-length chunks of major type `mt` up to a break -/
def chunksLen : Nat → Nat → Bytes → Skip
  | 0, _, _ => .bad
  | _, _, [] => .eoi
  | fuel + 1, mt, b :: rest =>
    if b = 0xFF then .ok 1
    else if b.toNat / 32 ≠ mt ∨ b.toNat % 32 ≥ 28 then .bad
    else
      match headArg (b.toNat % 32) rest with
      | none => .eoi
      | some (v, used) =>
        if (rest.drop used).length < v then .eoi
        else
          match chunksLen fuel mt ((rest.drop used).drop v) with
          | .ok m => .ok (1 + used + v + m)
          | r => r
end

/-- the decoder "one CBOR item": the message is the item's own bytes -/
def itemDec : Decoder Bytes := fun bs =>
  match itemLen (2 * bs.length + 2) bs with
  | .ok n => .ok (bs.take n) n
  | .eoi => .eoi
  | .bad => .fail

/-! ## the keep-alive codec (`miniprotocols/keepalive/codec.rs`, identical in `pallas-network2/src/protocol/keepalive.rs`)
     over a model of the minicbor 0.26 primitives it uses -/

inductive KMsg where
  | keepAlive (cookie : UInt16)
  | response (cookie : UInt16)
  | done
  deriving DecidableEq, Repr

/-- minicbor `Encoder::u16`: shortest head of major type 0 -/
def encU16 (n : Nat) : Bytes :=
  if n < 24 then [UInt8.ofNat n]
  else if n < 256 then [0x18, UInt8.ofNat n]
  else [0x19, UInt8.ofNat (n / 256), UInt8.ofNat n]

/-- `Encode for Message`: `array(2) u16(0|1) cookie` / `array(1) u16(2)` -/
def kEnc : KMsg → Bytes
  | .keepAlive c => [0x82, 0x00] ++ encU16 c.toNat
  | .response c => [0x82, 0x01] ++ encU16 c.toNat
  | .done => [0x81, 0x02]

/-- outcome of a primitive read: value and bytes consumed -/
inductive Prim (α : Type) where
  | ok (v : α) (used : Nat)
  | eoi
  | fail
  deriving Repr, DecidableEq

/-- `Decoder::array`: any definite head of major type 4 (`Some(len)`), or `0x9f` (`None`); the length is
    returned but the keep-alive decoder ignores it -/
def primArray : Bytes → Prim (Option Nat)
  | [] => .eoi
  | b :: rest =>
    if b.toNat / 32 ≠ 4 then .fail
    else if b.toNat % 32 = 31 then .ok none 1
    else if b.toNat % 32 ≥ 28 then .fail
    else
      match headArg (b.toNat % 32) rest with
      | none => .eoi
      | some (v, used) => .ok (some v) (1 + used)

/-- `Decoder::u16`: an unsigned head of any width whose value fits (else an overflow error) -/
def primU16 : Bytes → Prim UInt16
  | [] => .eoi
  | b :: rest =>
    if b.toNat / 32 ≠ 0 then .fail
    else if b.toNat % 32 ≥ 28 then .fail
    else
      match headArg (b.toNat % 32) rest with
      | none => .eoi
      | some (v, used) => if v < 65536 then .ok (UInt16.ofNat v) (1 + used) else .fail

/-- `Decode for Message` -/
def kDec : Decoder KMsg := fun bs =>
  match primArray bs with
  | .eoi => .eoi
  | .fail => .fail
  | .ok _ n1 =>
    match primU16 (bs.drop n1) with
    | .eoi => .eoi
    | .fail => .fail
    | .ok label n2 =>
      if label = 0 then
        match primU16 (bs.drop (n1 + n2)) with
        | .eoi => .eoi
        | .fail => .fail
        | .ok c n3 => .ok (.keepAlive c) (n1 + n2 + n3)
      else if label = 1 then
        match primU16 (bs.drop (n1 + n2)) with
        | .eoi => .eoi
        | .fail => .fail
        | .ok c n3 => .ok (.response c) (n1 + n2 + n3)
      else if label = 2 then .ok .done (n1 + n2)
      else .fail

end PallasVerif.Reassembly
