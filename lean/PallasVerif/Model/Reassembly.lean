/-
  Model of message reassembly in both networking stacks, generic in the message decoder.

  * `DecRes` = outcome of `minicbor::Decoder::new(buffer).decode()` followed by `decoder.position()`:
    a message and the number of bytes consumed, an end-of-input error (`err.is_end_of_input()`), or
    any other error.
  * network1 (`pallas-network/src/multiplexer.rs`): `try_decode_message`, `ChannelBuffer::recv_full_msg`
    with its `temp` buffer; the channel is the list of chunks still to be dequeued.
  * network2 (`pallas-network2/src/bearer.rs`, `behavior/mod.rs`): `try_decode_msg` (every error is
    `None`), `AnyMessage::from_payload` (decoder chosen by channel, unsupported channel clears the
    payload), `BearerReadHalf::read_full_msgs` with the per-channel `partial_chunks` map keyed by
    `raw_channel & !PROTOCOL_SERVER`.
  * `itemDec` = a decoder that accepts exactly one well-formed CBOR data item (RFC 8949 syntax); it is
    what the line-protocol driver uses as "the" message decoder when real protocol messages are
    replayed (every pallas message is a single CBOR item).
-/
namespace PallasVerif.Reassembly

abbrev Bytes := List UInt8

inductive DecRes (M : Type) where
  | ok (m : M) (pos : Nat)
  | eoi
  | fail
  deriving Repr, DecidableEq

abbrev Decoder (M : Type) := Bytes → DecRes M

/-! ## network1 -/

inductive Try (M : Type) where
  | msg (m : M) (rest : Bytes)     -- `Ok(Some(msg))`, buffer drained by `pos`
  | needMore                        -- `Ok(None)`
  | error                           -- `Err(Error::Decoding)`

/-- `try_decode_message` -/
def tryDecode {M : Type} (dec : Decoder M) (buffer : Bytes) : Try M :=
  match dec buffer with
  | .ok m pos => .msg m (buffer.drop pos)
  | .eoi => .needMore
  | .fail => .error

inductive Recv (M : Type) where
  | msg (m : M) (temp : Bytes) (chunks : List Bytes)   -- message, new `temp`, chunks not yet dequeued
  | blocked (temp : Bytes)                              -- `dequeue_chunk` has nothing to deliver (yet)
  | error

/-- the `loop { dequeue_chunk; temp.extend(chunk); try_decode_message }` of `recv_full_msg` -/
def recvLoop {M : Type} (dec : Decoder M) (temp : Bytes) : List Bytes → Recv M
  | [] => .blocked temp
  | chunk :: chunks =>
    match tryDecode dec (temp ++ chunk) with
    | .msg m rest => .msg m rest chunks
    | .needMore => recvLoop dec (temp ++ chunk) chunks
    | .error => .error

/-- `ChannelBuffer::recv_full_msg` -/
def recvFullMsg {M : Type} (dec : Decoder M) (temp : Bytes) (chunks : List Bytes) : Recv M :=
  if temp.isEmpty then recvLoop dec temp chunks
  else
    match tryDecode dec temp with
    | .msg m rest => .msg m rest chunks
    | .needMore => recvLoop dec temp chunks
    | .error => .error

/-- `n` successive calls of `recv_full_msg`: the messages, the final `temp`, the chunks left -/
def recvN {M : Type} (dec : Decoder M) : Nat → Bytes → List Bytes → Option (List M × Bytes × List Bytes)
  | 0, temp, chunks => some ([], temp, chunks)
  | n + 1, temp, chunks =>
    match recvFullMsg dec temp chunks with
    | .msg m temp' chunks' =>
      match recvN dec n temp' chunks' with
      | some (ms, t, c) => some (m :: ms, t, c)
      | none => none
    | _ => none

/-! ## network2 -/

/-- `try_decode_msg`: `Some(msg)` with the buffer drained, or `None` (end of input *and* any other error) -/
def tryDecode2 {M : Type} (dec : Decoder M) (buffer : Bytes) : Option (M × Bytes) :=
  match dec buffer with
  | .ok m pos => some (m, buffer.drop pos)
  | .eoi => none
  | .fail => none

/-- decoder table of `AnyMessage::from_payload`: `none` = unsupported channel -/
abbrev Table (M : Type) := UInt16 → Option (Decoder M)

/-- `while let Some(msg) = M::from_payload(channel, &mut payload) { msgs.push(msg) }` (fuel bounds the
    iterations; every successful decode of the real decoders consumes at least one byte) -/
def drain {M : Type} (dec : Decoder M) : Nat → Bytes → List M × Bytes
  | 0, payload => ([], payload)
  | fuel + 1, payload =>
    match tryDecode2 dec payload with
    | none => ([], payload)
    | some (m, rest) => (m :: (drain dec fuel rest).1, (drain dec fuel rest).2)

/-- `PROTOCOL_SERVER` -/
def PROTOCOL_SERVER : UInt16 := 0x8000

def setPartial (f : UInt16 → Option Bytes) (k : UInt16) (v : Option Bytes) : UInt16 → Option Bytes :=
  fun x => if x = k then v else f x

/-- `read_full_msgs` for one segment `(raw_channel, chunk)`; `partials` = the `HashMap` -/
def readFullMsgs {M : Type} (tbl : Table M) (partials : UInt16 → Option Bytes)
    (seg : UInt16 × Bytes) : List M × (UInt16 → Option Bytes) :=
  let channel := seg.1 &&& ~~~PROTOCOL_SERVER
  let payload := match partials channel with
    | some x => x ++ seg.2
    | none => seg.2
  let partials := setPartial partials channel none          -- `partial_chunks.remove(&channel)`
  match tbl channel with
  | none => ([], partials)                                   -- unsupported channel: `payload.clear()`
  | some dec =>
    let r := drain dec (payload.length + 1) payload
    if r.2.isEmpty then (r.1, partials) else (r.1, setPartial partials channel (some r.2))

/-- a whole sequence of segments: messages in delivery order, tagged with their channel -/
def readAll {M : Type} (tbl : Table M) :
    (UInt16 → Option Bytes) → List (UInt16 × Bytes) → List (UInt16 × M) × (UInt16 → Option Bytes)
  | partials, [] => ([], partials)
  | partials, seg :: segs =>
    let r := readFullMsgs tbl partials seg
    let rs := readAll tbl r.2 segs
    (r.1.map (fun m => (seg.1 &&& ~~~PROTOCOL_SERVER, m)) ++ rs.1, rs.2)

/-! ## a decoder for "one well-formed CBOR data item" -/

/-- argument of a CBOR head with additional information `ai`, read from the bytes after the initial
    byte: `(value, bytes used)`; `none` = not enough bytes -/
def headArg (ai : Nat) (rest : Bytes) : Option (Nat × Nat) :=
  if ai < 24 then some (ai, 0)
  else if ai = 24 then
    match rest with
    | a :: _ => some (a.toNat, 1)
    | _ => none
  else if ai = 25 then
    match rest with
    | a :: b :: _ => some (a.toNat * 256 + b.toNat, 2)
    | _ => none
  else if ai = 26 then
    match rest with
    | a :: b :: c :: d :: _ => some (((a.toNat * 256 + b.toNat) * 256 + c.toNat) * 256 + d.toNat, 4)
    | _ => none
  else
    match rest with
    | a :: b :: c :: d :: e :: f :: g :: h :: _ =>
      some (((((((a.toNat * 256 + b.toNat) * 256 + c.toNat) * 256 + d.toNat) * 256 + e.toNat) * 256
        + f.toNat) * 256 + g.toNat) * 256 + h.toNat, 8)
    | _ => none

inductive Skip where
  | ok (len : Nat)
  | eoi
  | bad
  deriving Repr, DecidableEq

mutual
/-- length of the first well-formed data item of `bs` (`inChunks = some mt`: only definite strings of
    major type `mt` are allowed — the chunks of an indefinite-length string) -/
def itemLen : Nat → Bytes → Skip
  | 0, _ => .bad
  | _, [] => .eoi
  | fuel + 1, b :: rest =>
    let mt := b.toNat / 32
    let ai := b.toNat % 32
    if ai = 28 ∨ ai = 29 ∨ ai = 30 then .bad
    else if ai = 31 then
      if mt = 2 ∨ mt = 3 then
        match chunksLen fuel mt rest with
        | .ok n => .ok (1 + n)
        | r => r
      else if mt = 4 then
        match seqIndefLen fuel 1 rest with
        | .ok n => .ok (1 + n)
        | r => r
      else if mt = 5 then
        match seqIndefLen fuel 2 rest with
        | .ok n => .ok (1 + n)
        | r => r
      else .bad                                   -- 0x1f 0x3f 0xdf, and a break (0xff) where an item must start
    else
      match headArg ai rest with
      | none => .eoi
      | some (v, used) =>
        let body := rest.drop used
        if mt = 0 ∨ mt = 1 ∨ mt = 7 then .ok (1 + used)
        else if mt = 2 ∨ mt = 3 then
          if body.length < v then .eoi else .ok (1 + used + v)
        else if mt = 4 then
          match seqLen fuel v body with
          | .ok n => .ok (1 + used + n)
          | r => r
        else if mt = 5 then
          match seqLen fuel (2 * v) body with
          | .ok n => .ok (1 + used + n)
          | r => r
        else
          match itemLen fuel body with                -- tag: one enclosed item
          | .ok n => .ok (1 + used + n)
          | r => r
/-- `k` consecutive items -/
def seqLen : Nat → Nat → Bytes → Skip
  | _, 0, _ => .ok 0
  | 0, _ + 1, _ => .bad
  | fuel + 1, k + 1, bs =>
    match itemLen fuel bs with
    | .ok n =>
      match seqLen fuel k (bs.drop n) with
      | .ok m => .ok (n + m)
      | r => r
    | r => r
/-- items up to a break; `group` = 1 for arrays, 2 for maps (a break is only allowed between pairs) -/
def seqIndefLen : Nat → Nat → Bytes → Skip
  | 0, _, _ => .bad
  | _, _, [] => .eoi
  | fuel + 1, group, b :: rest =>
    if b = 0xFF then .ok 1
    else
      match seqLen fuel group (b :: rest) with
      | .ok n =>
        match seqIndefLen fuel group ((b :: rest).drop n) with
        | .ok m => .ok (n + m)
        | r => r
      | r => r
/-- definite-length chunks of major type `mt` up to a break -/
def chunksLen : Nat → Nat → Bytes → Skip
  | 0, _, _ => .bad
  | _, _, [] => .eoi
  | fuel + 1, mt, b :: rest =>
    if b = 0xFF then .ok 1
    else if b.toNat / 32 ≠ mt ∨ b.toNat % 32 ≥ 28 then .bad
    else
      match headArg (b.toNat % 32) rest with
      | none => .eoi
      | some (v, used) =>
        if (rest.drop used).length < v then .eoi
        else
          match chunksLen fuel mt ((rest.drop used).drop v) with
          | .ok m => .ok (1 + used + v + m)
          | r => r
end

/-- the decoder "one CBOR item": the message is the item's own bytes -/
def itemDec : Decoder Bytes := fun bs =>
  match itemLen (2 * bs.length + 2) bs with
  | .ok n => .ok (bs.take n) n
  | .eoi => .eoi
  | .bad => .fail

/-! ## local-tx-submission framing: the item decoder plus the node's plain-string rejection format -/

def isCont (b : UInt8) : Bool := 0x80 ≤ b.toNat && b.toNat ≤ 0xBF

/-- `core::str::from_utf8(..).is_ok()` (RFC 3629: no overlong forms, no surrogates, at most U+10FFFF) -/
def validUtf8 : Bytes → Bool
  | [] => true
  | b :: rest =>
    if b.toNat < 0x80 then validUtf8 rest
    else if 0xC2 ≤ b.toNat ∧ b.toNat ≤ 0xDF then
      match rest with
      | c :: r => isCont c && validUtf8 r
      | _ => false
    else if 0xE0 ≤ b.toNat ∧ b.toNat ≤ 0xEF then
      match rest with
      | c :: d :: r =>
        (if b.toNat = 0xE0 then 0xA0 ≤ c.toNat && c.toNat ≤ 0xBF
         else if b.toNat = 0xED then 0x80 ≤ c.toNat && c.toNat ≤ 0x9F
         else isCont c) && isCont d && validUtf8 r
      | _ => false
    else if 0xF0 ≤ b.toNat ∧ b.toNat ≤ 0xF4 then
      match rest with
      | c :: d :: e :: r =>
        (if b.toNat = 0xF0 then 0x90 ≤ c.toNat && c.toNat ≤ 0xBF
         else if b.toNat = 0xF4 then 0x80 ≤ c.toNat && c.toNat ≤ 0x8F
         else isCont c) && isCont d && isCont e && validUtf8 r
      | _ => false
    else false

/-- marker the driver prints for a `RejectTx(Plutus(string))` (pallas cannot re-encode it) -/
def rejectMarker : Bytes := [0x00]

/-- `Decode for localtxsubmission::Message` at the framing level (after the end-of-input repair): when the
    leading `array()` fails with anything but end-of-input, the *whole buffer* is tried as UTF-8 text and,
    if valid, returned as a rejection — with the decoder position still right after the one byte `array()`
    consumed. A message that starts with an array head is one CBOR item. -/
def ltxDec : Decoder Bytes := fun bs =>
  match bs with
  | [] => .eoi
  | b :: rest =>
    if b.toNat / 32 = 4 ∧ (b.toNat % 32 < 28 ∨ b.toNat % 32 = 31) then itemDec bs
    else
      -- `array()` error: end-of-input only through the `type_of` peek quirk, see `mismatch` below
      if b.toNat / 32 ≠ 4 ∧ 0x38 ≤ b.toNat ∧ b.toNat ≤ 0x3b ∧ rest.length < 2 then .eoi
      else if validUtf8 bs then .ok rejectMarker 1 else .fail

/-! ## the keep-alive codec (`miniprotocols/keepalive/codec.rs`, identical in `pallas-network2/src/protocol/keepalive.rs`)
     over a model of the minicbor 0.26 primitives it uses -/

inductive KMsg where
  | keepAlive (cookie : UInt16)
  | response (cookie : UInt16)
  | done
  deriving DecidableEq, Repr

/-- minicbor `Encoder::u16`: shortest head of major type 0 -/
def encU16 (n : Nat) : Bytes :=
  if n < 24 then [UInt8.ofNat n]
  else if n < 256 then [0x18, UInt8.ofNat n]
  else [0x19, UInt8.ofNat (n / 256), UInt8.ofNat n]

/-- `Encode for Message`: `array(2) u16(0|1) cookie` / `array(1) u16(2)` -/
def kEnc : KMsg → Bytes
  | .keepAlive c => [0x82, 0x00] ++ encU16 c.toNat
  | .response c => [0x82, 0x01] ++ encU16 c.toNat
  | .done => [0x81, 0x02]

/-- outcome of a primitive read: value and bytes consumed -/
inductive Prim (α : Type) where
  | ok (v : α) (used : Nat)
  | eoi
  | fail
  deriving Repr, DecidableEq

/-- error path of a primitive that met a head of the wrong type: `Error::type_mismatch(self.type_of(b)?)`.
    For the negative-integer heads `0x38..=0x3b`, minicbor 0.26 `type_of` peeks at `buf[pos + 1]` *after* the
    head byte has been consumed, i.e. at the second byte after the head: with fewer than two bytes left
    the error is end-of-input instead of a type mismatch. -/
def mismatch {α : Type} (b : UInt8) (rest : Bytes) : Prim α :=
  if 0x38 ≤ b.toNat ∧ b.toNat ≤ 0x3b ∧ rest.length < 2 then .eoi else .fail

/-- `Decoder::array`: any definite head of major type 4 (`Some(len)`), or `0x9f` (`None`); the length is
    returned but the keep-alive decoder ignores it -/
def primArray : Bytes → Prim (Option Nat)
  | [] => .eoi
  | b :: rest =>
    if b.toNat / 32 ≠ 4 then mismatch b rest
    else if b.toNat % 32 = 31 then .ok none 1
    else if b.toNat % 32 ≥ 28 then .fail
    else
      match headArg (b.toNat % 32) rest with
      | none => .eoi
      | some (v, used) => .ok (some v) (1 + used)

/-- `Decoder::u16`: an unsigned head of any width whose value fits (else an overflow error) -/
def primU16 : Bytes → Prim UInt16
  | [] => .eoi
  | b :: rest =>
    if b.toNat / 32 ≠ 0 then mismatch b rest
    else if b.toNat % 32 ≥ 28 then .fail
    else
      match headArg (b.toNat % 32) rest with
      | none => .eoi
      | some (v, used) => if v < 65536 then .ok (UInt16.ofNat v) (1 + used) else .fail

/-- `Decode for Message` -/
def kDec : Decoder KMsg := fun bs =>
  match primArray bs with
  | .eoi => .eoi
  | .fail => .fail
  | .ok _ n1 =>
    match primU16 (bs.drop n1) with
    | .eoi => .eoi
    | .fail => .fail
    | .ok label n2 =>
      if label = 0 then
        match primU16 (bs.drop (n1 + n2)) with
        | .eoi => .eoi
        | .fail => .fail
        | .ok c n3 => .ok (.keepAlive c) (n1 + n2 + n3)
      else if label = 1 then
        match primU16 (bs.drop (n1 + n2)) with
        | .eoi => .eoi
        | .fail => .fail
        | .ok c n3 => .ok (.response c) (n1 + n2 + n3)
      else if label = 2 then .ok .done (n1 + n2)
      else .fail

/-! ## block-fetch codec (`miniprotocols/blockfetch/codec.rs`, `common.rs::Point`; same wire format in
     `pallas-network2/src/protocol/{blockfetch,common}.rs`) over the same primitive model -/

/-- position-passing parser: value and bytes consumed -/
abbrev P (α : Type) := Bytes → Prim α

def P.pure {α : Type} (a : α) : P α := fun _ => .ok a 0

def P.fail {α : Type} : P α := fun _ => .fail

/-- sequencing (`?` on every primitive call) -/
def P.bind {α β : Type} (p : P α) (f : α → P β) : P β := fun bs =>
  match p bs with
  | .ok a n =>
    match f a (bs.drop n) with
    | .ok b m => .ok b (n + m)
    | .eoi => .eoi
    | .fail => .fail
  | .eoi => .eoi
  | .fail => .fail

/-- a head of the given major type with a definite argument (`Decoder::unsigned` after the type check):
    `u64()` is `primHead 0`, `tag()` is `primHead 6`, the length of `bytes()` is `primHead 2` -/
def primHead (major : Nat) : P Nat
  | [] => .eoi
  | b :: rest =>
    if b.toNat / 32 ≠ major then mismatch b rest
    else if b.toNat % 32 ≥ 28 then .fail
    else
      match headArg (b.toNat % 32) rest with
      | none => .eoi
      | some (v, used) => .ok v (1 + used)

/-- `Decoder::u64` -/
def primU64 : P Nat := primHead 0
/-- `Decoder::tag` -/
def primTag : P Nat := primHead 6
/-- `Decoder::bytes`: definite length only, then `read_slice(n)` -/
def primBytes : P Bytes := P.bind (primHead 2) fun n => fun bs =>
  if bs.length < n then .eoi else .ok (bs.take n) n

/-- minicbor encoder heads: shortest form -/
def encHead (major n : Nat) : Bytes :=
  if n < 24 then [UInt8.ofNat (major * 32 + n)]
  else if n < 256 then [UInt8.ofNat (major * 32 + 24), UInt8.ofNat n]
  else if n < 65536 then [UInt8.ofNat (major * 32 + 25), UInt8.ofNat (n / 256), UInt8.ofNat n]
  else if n < 4294967296 then
    [UInt8.ofNat (major * 32 + 26), UInt8.ofNat (n / 16777216), UInt8.ofNat (n / 65536),
      UInt8.ofNat (n / 256), UInt8.ofNat n]
  else
    [UInt8.ofNat (major * 32 + 27), UInt8.ofNat (n / 72057594037927936),
      UInt8.ofNat (n / 281474976710656), UInt8.ofNat (n / 1099511627776), UInt8.ofNat (n / 4294967296),
      UInt8.ofNat (n / 16777216), UInt8.ofNat (n / 65536), UInt8.ofNat (n / 256), UInt8.ofNat n]

/-- `Point` -/
inductive Pt where
  | origin
  | specific (slot : Nat) (hash : Bytes)
  deriving DecidableEq, Repr

/-- `Encode for Point`: `array(0)` / `array(2) u64(slot) bytes(hash)` -/
def ptEnc : Pt → Bytes
  | .origin => [0x80]
  | .specific slot hash => [0x82] ++ encHead 0 slot ++ (encHead 2 hash.length ++ hash)

/-- `Decode for Point` -/
def pPoint : P Pt := P.bind primArray fun size =>
  match size with
  | some 0 => P.pure .origin
  | some 2 => P.bind primU64 fun slot => P.bind primBytes fun hash => P.pure (.specific slot hash)
  | _ => P.fail

inductive BFMsg where
  | requestRange (p1 p2 : Pt)
  | clientDone
  | startBatch
  | noBlocks
  | block (body : Bytes)
  | batchDone
  deriving DecidableEq, Repr

/-- `Encode for blockfetch::Message` -/
def bfEnc : BFMsg → Bytes
  | .requestRange p1 p2 => [0x83, 0x00] ++ (ptEnc p1 ++ ptEnc p2)
  | .clientDone => [0x81, 0x01]
  | .startBatch => [0x81, 0x02]
  | .noBlocks => [0x81, 0x03]
  | .block body => [0x82, 0x04] ++ ([0xd8, 0x18] ++ (encHead 2 body.length ++ body))
  | .batchDone => [0x81, 0x05]

/-- `Decode for blockfetch::Message` -/
def pBlockFetch : P BFMsg := P.bind primArray fun _ => P.bind primU16 fun label =>
  if label = 0 then P.bind pPoint fun p1 => P.bind pPoint fun p2 => P.pure (.requestRange p1 p2)
  else if label = 1 then P.pure .clientDone
  else if label = 2 then P.pure .startBatch
  else if label = 3 then P.pure .noBlocks
  else if label = 4 then P.bind primTag fun _ => P.bind primBytes fun body => P.pure (.block body)
  else if label = 5 then P.pure .batchDone
  else P.fail

def bfDec : Decoder BFMsg := fun bs =>
  match pBlockFetch bs with
  | .ok m n => .ok m n
  | .eoi => .eoi
  | .fail => .fail

/-! ## chain-sync codec, node-to-node flavour (`miniprotocols/chainsync/codec.rs` with `HeaderContent`;
     same wire format in `pallas-network2/src/protocol/chainsync.rs`) -/

/-- `Decoder::u8`: an unsigned head of any width whose value fits -/
def primU8 : P Nat
  | [] => .eoi
  | b :: rest =>
    if b.toNat / 32 ≠ 0 then mismatch b rest
    else if b.toNat % 32 ≥ 28 then .fail
    else
      match headArg (b.toNat % 32) rest with
      | none => .eoi
      | some (v, used) => if v < 256 then .ok v (1 + used) else .fail

/-- `k` items in a row (`ArrayIter`, `State::Def(k)`) -/
def pRepeat {α : Type} (p : P α) : Nat → P (List α)
  | 0 => P.pure []
  | k + 1 => P.bind p fun x => P.bind (pRepeat p k) fun xs => P.pure (x :: xs)

/-- items up to a break (`ArrayIter`, `State::Indef`); fuel = bytes available -/
def pUntilBreak {α : Type} (p : P α) : Nat → P (List α)
  | 0 => P.fail
  | fuel + 1 => fun bs =>
    match bs with
    | [] => .eoi
    | b :: _ =>
      if b = 0xFF then .ok [] 1
      else (P.bind p fun x => P.bind (pUntilBreak p fuel) fun xs => P.pure (x :: xs)) bs

/-- `Vec<T>::decode`: `array_iter`, definite or indefinite -/
def pVec {α : Type} (p : P α) : P (List α) := fun bs =>
  (P.bind primArray fun n =>
    match n with
    | some k => pRepeat p k
    | none => pUntilBreak p bs.length) bs

/-- `Tip(Point, u64)` -/
structure Tip where
  point : Pt
  blockNo : Nat
  deriving DecidableEq, Repr

def tipEnc (t : Tip) : Bytes := [0x82] ++ (ptEnc t.point ++ encHead 0 t.blockNo)

/-- `Decode for Tip` -/
def pTip : P Tip := P.bind primArray fun _ => P.bind pPoint fun p => P.bind primU64 fun n => P.pure ⟨p, n⟩

/-- `HeaderContent` -/
structure Header where
  variant : Nat                       -- u8
  byronPrefix : Option (Nat × Nat)    -- (u8, u64)
  cbor : Bytes
  deriving DecidableEq, Repr

/-- `Encode for HeaderContent` (the `Err` of variant 0 without prefix is outside the domain) -/
def hdrEnc (h : Header) : Bytes :=
  [0x82] ++ (encHead 0 h.variant ++
    (if h.variant = 0 then
      match h.byronPrefix with
      | some (a, b) =>
        [0x82] ++ (([0x82] ++ (encHead 0 a ++ encHead 0 b)) ++ ([0xd8, 0x18] ++ (encHead 2 h.cbor.length ++ h.cbor)))
      | none => []
    else [0xd8, 0x18] ++ (encHead 2 h.cbor.length ++ h.cbor)))

/-- the 2-tuple `(u8, u64)`: a definite array of exactly two items -/
def pPrefix : P (Nat × Nat) := P.bind primArray fun n =>
  if n = some 2 then P.bind primU8 fun a => P.bind primU64 fun b => P.pure (a, b) else P.fail

/-- `Decode for HeaderContent` -/
def pHeader : P Header := P.bind primArray fun _ => P.bind primU8 fun variant =>
  if variant = 0 then
    P.bind primArray fun _ => P.bind pPrefix fun ab => P.bind primTag fun _ => P.bind primBytes fun bytes =>
      P.pure ⟨variant, some ab, bytes⟩
  else P.bind primTag fun _ => P.bind primBytes fun bytes => P.pure ⟨variant, none, bytes⟩

inductive CSMsg where
  | requestNext
  | awaitReply
  | rollForward (content : Header) (tip : Tip)
  | rollBackward (point : Pt) (tip : Tip)
  | findIntersect (points : List Pt)
  | intersectFound (point : Pt) (tip : Tip)
  | intersectNotFound (tip : Tip)
  | done
  deriving DecidableEq, Repr

/-- `Encode for chainsync::Message<HeaderContent>` -/
def csEnc : CSMsg → Bytes
  | .requestNext => [0x81, 0x00]
  | .awaitReply => [0x81, 0x01]
  | .rollForward c t => [0x83, 0x02] ++ (hdrEnc c ++ tipEnc t)
  | .rollBackward p t => [0x83, 0x03] ++ (ptEnc p ++ tipEnc t)
  | .findIntersect ps => [0x82, 0x04] ++ (encHead 4 ps.length ++ (ps.map ptEnc).flatten)
  | .intersectFound p t => [0x83, 0x05] ++ (ptEnc p ++ tipEnc t)
  | .intersectNotFound t => [0x82, 0x06] ++ tipEnc t
  | .done => [0x81, 0x07]

/-- `Decode for chainsync::Message<HeaderContent>` -/
def pChainSync : P CSMsg := P.bind primArray fun _ => P.bind primU16 fun label =>
  if label = 0 then P.pure .requestNext
  else if label = 1 then P.pure .awaitReply
  else if label = 2 then P.bind pHeader fun c => P.bind pTip fun t => P.pure (.rollForward c t)
  else if label = 3 then P.bind pPoint fun p => P.bind pTip fun t => P.pure (.rollBackward p t)
  else if label = 4 then P.bind (pVec pPoint) fun ps => P.pure (.findIntersect ps)
  else if label = 5 then P.bind pPoint fun p => P.bind pTip fun t => P.pure (.intersectFound p t)
  else if label = 6 then P.bind pTip fun t => P.pure (.intersectNotFound t)
  else if label = 7 then P.pure .done
  else P.fail

def csDec : Decoder CSMsg := fun bs =>
  match pChainSync bs with
  | .ok m n => .ok m n
  | .eoi => .eoi
  | .fail => .fail

end PallasVerif.Reassembly
