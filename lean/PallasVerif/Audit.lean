import Lean
/-!
`#pv_audit Mod.Name` prints one line per theorem declared in module `Mod.Name`:
`AUDIT <theorem> :: <axiom> <axiom> ...` (kernel axioms the proof depends on, as
`#print axioms` computes them). The `check` script parses these lines and rejects
anything outside `{propext, Classical.choice, Quot.sound}`.
-/
open Lean Elab Command

elab "#pv_audit " id:ident : command => do
  let env ← getEnv
  let modName := id.getId
  let some modIdx := env.getModuleIdx? modName
    | throwError "module {modName} not imported"
  let mut lines : Array String := #[]
  for (n, ci) in env.constants.toList do
    if env.getModuleIdxFor? n == some modIdx then
      match ci with
      | .thmInfo _ =>
        if n.isInternal then continue
        if (← findDeclarationRanges? n).isNone then continue
        let axs ← liftCoreM (collectAxioms n)
        let axs := axs.qsort (fun a b => a.toString < b.toString)
        lines := lines.push s!"AUDIT {n} :: {" ".intercalate (axs.toList.map toString)}"
      | _ => pure ()
  for l in lines.qsort (· < ·) do
    logInfo l
