/-
  Line-protocol plumbing shared by every model stream (import-free: core Lean only,
  so the driver links as a `lean_exe`).

  One op per line: `<op> <arg>*`, ASCII, space separated. `case <n> <seed>` resets the
  stream state, `end` closes a case; both are echoed. Every other line yields exactly one
  reply line: `ok <canonical value>` / `err <class>` / `panic`.
-/
namespace PallasVerif

/-- A model stream: a state machine over token lists. -/
structure Stream where
  name : String
  σ : Type
  init : σ
  step : σ → List String → σ × String

namespace Tok

def hexDigit (n : Nat) : Char :=
  if n < 10 then Char.ofNat (48 + n) else Char.ofNat (87 + n)

def hexOfByte (b : UInt8) : String :=
  String.ofList [hexDigit (b.toNat / 16), hexDigit (b.toNat % 16)]

/-- lowercase hex, `-` for the empty string -/
def hex (bs : List UInt8) : String :=
  if bs.isEmpty then "-" else String.join (bs.map hexOfByte)

def hexVal (c : Char) : Option Nat :=
  if '0' ≤ c ∧ c ≤ '9' then some (c.toNat - 48)
  else if 'a' ≤ c ∧ c ≤ 'f' then some (c.toNat - 87)
  else if 'A' ≤ c ∧ c ≤ 'F' then some (c.toNat - 55)
  else none

def unhexChars : List Char → Option (List UInt8)
  | [] => some []
  | [_] => none
  | a :: b :: rest =>
    match hexVal a, hexVal b, unhexChars rest with
    | some x, some y, some r => some (UInt8.ofNat (x * 16 + y) :: r)
    | _, _, _ => none

def unhex (s : String) : Option (List UInt8) :=
  if s = "-" then some [] else unhexChars s.toList

def nat? (s : String) : Option Nat := s.toNat?

def int? (s : String) : Option Int := s.toInt?

def bool? (s : String) : Option Bool :=
  if s = "true" || s = "1" then some true
  else if s = "false" || s = "0" then some false
  else none

def showBool (b : Bool) : String := if b then "true" else "false"

def showOpt {α} (f : α → String) : Option α → String
  | none => "none"
  | some a => "some " ++ f a

def showList {α} (f : α → String) (l : List α) : String :=
  "[" ++ " ".intercalate (l.map f) ++ "]"

end Tok

def splitTokens (line : String) : List String :=
  (line.trimAscii.toString.splitOn " ").filter (· ≠ "")

partial def Stream.loop (s : Stream) (h : IO.FS.Stream) (out : IO.FS.Stream) (st : s.σ) : IO Unit := do
  let line ← h.getLine
  if line.isEmpty then
    out.flush
    return ()
  match splitTokens line with
  | [] => Stream.loop s h out st
  | "case" :: n :: _ =>
    out.putStrLn ("case " ++ n)
    Stream.loop s h out s.init
  | ["end"] =>
    out.putStrLn "end"
    Stream.loop s h out s.init
  | toks =>
    if toks.head!.startsWith "#" then Stream.loop s h out st else
    let (st', r) := s.step st toks
    out.putStrLn r
    Stream.loop s h out st'

def Stream.run (s : Stream) : IO Unit := do
  Stream.loop s (← IO.getStdin) (← IO.getStdout) s.init

end PallasVerif
