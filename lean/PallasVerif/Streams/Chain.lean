import PallasVerif.Stream
import PallasVerif.Model.Schema
import PallasVerif.Gen.SchemaEra
import PallasVerif.Streams.Schema
/-! stream `chain`: on-chain artefacts decoded with the translated schema of their type, re-encoded,
    and summarised as `ok <type> <same bytes> <tokens> <fnv64 of the decoded value text>`
    (see harness/src/streams/chain.rs). -/
namespace PallasVerif.Streams.Chain
open PallasVerif PallasVerif.Cbor PallasVerif.Schema PallasVerif.Streams.Schema

def fnv64 (s : String) : UInt64 :=
  s.toUTF8.foldl (fun h b => (h ^^^ b.toUInt64) * 0x100000001b3) 0xcbf29ce484222325

/-- `probe::block_era`: `[tag, block]` with a one-byte tag -/
def blockType (bs : Bytes) : Option String :=
  match parseItem bs with
  | some (.seq h [t, _], _) =>
    if h.major = 4 then
      match t.uint? with
      | some 0 => some "byron.EbBlock"
      | some 1 => some "byron.Block"
      | some 2 => some "alonzo.Block"
      | some 3 => some "alonzo.Block"
      | some 4 => some "alonzo.Block"
      | some 5 => some "alonzo.Block"
      | some 6 => some "babbage.Block"
      | some 7 => some "conway.Block"
      | _ => none
    else none
  | _ => none

def summary (name : String) (s : Schema) (bs : Bytes) : Option String :=
  match decodeBytes Gen.SchemaEra.env fuel s bs with
  | some (v, _) =>
    let same := match encodeBytes Gen.SchemaEra.env fuel s v with
      | some b => b == bs
      | none => false
    let toks := showVal v
    some ("ok " ++ name ++ " " ++ (if same then "1" else "0") ++ " " ++ toString toks.length ++ " "
      ++ toString (fnv64 (" ".intercalate toks)).toNat)
  | none => none

def step (_ : Unit) : List String → Unit × String
  | ["blk", _, h] =>
    match Tok.unhex h with
    | some bs =>
      match blockType bs with
      | some name =>
        match schemaOf name with
        | some s => ((), (summary name (.tuple [.uint 16, s]) bs).getD "err dec")
        | none => ((), "ok " ++ name ++ " untranslated")
      | none => ((), "err dec")
    | none => ((), "bad-op")
  | ["tx", name, h] =>
    match Tok.unhex h, schemaOf name with
    | some bs, some s => ((), (summary name s bs).getD "err dec")
    | some _, none => ((), "ok " ++ name ++ " untranslated")
    | _, _ => ((), "bad-op")
  | ["reenc", name, h] =>
    match Tok.unhex h, schemaOf name with
    | some bs, some s =>
      match decodeBytes Gen.SchemaEra.env fuel (.tuple [.uint 16, s]) bs with
      | some (v, _) =>
        match encodeBytes Gen.SchemaEra.env fuel (.tuple [.uint 16, s]) v with
        | some b => ((), "ok " ++ Tok.hex b)
        | none => ((), "err enc")
      | none => ((), "err dec")
    | _, none => ((), "bad-op unknown type")
    | _, _ => ((), "bad-op")
  | ["hdr", name, h] =>
    match Tok.unhex h, schemaOf name with
    | some bs, some s => ((), (summary name s bs).getD "err dec")
    | _, none => ((), "bad-op unknown type")
    | _, _ => ((), "bad-op")
  | _ => ((), "bad-op")

def stream : Stream := { name := "chain", σ := Unit, init := (), step := step }

end PallasVerif.Streams.Chain
