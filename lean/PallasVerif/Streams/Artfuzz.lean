import PallasVerif.Stream
/-!
stream `artfuzz` (C09, ledger half): mutated blocks / transactions / headers / outputs / addresses
through the public decode entry points of pallas. The derived and hand-written ledger decoders
(~10 kLoC) are **not modelled**; the only thing stated for every op is the outcome class the
property demands — the call *returns* (a value or an error). A `panic` reply of the implementation
therefore shows up as a disagreement. This side carries no proof; it is the search half of C09.
-/
namespace PallasVerif.Streams.Artfuzz
open PallasVerif

def kinds : List String := ["block", "tx", "hdr", "out", "addr", "val"]

def step (_ : Unit) : List String → Unit × String
  | "mut" :: kind :: _ :: _ => if kinds.contains kind then ((), "returns") else ((), "bad-op")
  | _ => ((), "bad-op")

def stream : Stream := { name := "artfuzz", σ := Unit, init := (), step := step }

end PallasVerif.Streams.Artfuzz
