import PallasVerif.Stream
import PallasVerif.Model.Negotiate
/-! stream `negotiate` (C25): `n1 ours <entry>* theirs <entry>*` and `n2 …` — the two negotiation models
    on tables written as entry tokens `v:magic:initiatorOnly:peerSharing:query` (all decimal, full u64
    range for `v` and `magic`; `peerSharing` 256 = `None`, `query` 2 = `None`; order = the order written).
    Replies: `ok accept <v> <magic>:<i>:<p>:<q>` | `ok refused <v>` | `ok mismatch [<v> …]` (stack 1: in the
    order sent; stack 2: ascending, the real order being a hash map's). -/
namespace PallasVerif.Streams.Negotiate
open PallasVerif PallasVerif.Negotiate

/-- version data: network magic, initiator-only flag, peer sharing, query — compared field by field -/
abbrev VD := Nat × Nat × Nat × Nat

def parseEntry (s : String) : Option (Nat × VD) :=
  match (s.splitOn ":").mapM String.toNat? with
  | some [v, m, i, p, q] => some (v, (m, i, p, q))
  | _ => none

def parseTables (toks : List String) : Option (Table VD × Table VD) :=
  match toks with
  | "ours" :: rest =>
    let ours := rest.takeWhile (· ≠ "theirs")
    let theirs := (rest.dropWhile (· ≠ "theirs")).drop 1
    match ours.mapM parseEntry, theirs.mapM parseEntry with
    | some a, some b => some (a, b)
    | _, _ => none
  | _ => none

def insertAsc (x : Nat) : List Nat → List Nat
  | [] => [x]
  | y :: ys => if x ≤ y then x :: y :: ys else y :: insertAsc x ys

def sortAsc (l : List Nat) : List Nat := l.foldr insertAsc []

def showOutcome (sortIt : Bool) : Outcome VD → String
  | .accept v d => "ok accept " ++ toString v ++ " " ++ toString d.1 ++ ":" ++ toString d.2.1 ++ ":" ++
      toString d.2.2.1 ++ ":" ++ toString d.2.2.2
  | .refused v => "ok refused " ++ toString v
  | .versionMismatch l => "ok mismatch " ++ Tok.showList toString (if sortIt then sortAsc l else l)
  | .panic => "panic"

def step (_ : Unit) : List String → Unit × String
  | "n1" :: rest =>
    match parseTables rest with
    | some (ours, theirs) => ((), showOutcome false (negotiate1 ours theirs))
    | none => ((), "bad-op")
  | "n2" :: rest =>
    match parseTables rest with
    | some (ours, theirs) => ((), showOutcome true (negotiate2 (·.1) ours theirs))
    | none => ((), "bad-op")
  | _ => ((), "bad-op")

def stream : Stream := { name := "negotiate", σ := Unit, init := (), step := step }

end PallasVerif.Streams.Negotiate
