import PallasVerif.Stream
import PallasVerif.Model.ImmutableDb
/-! stream `immdb`: a database is given as chunk sizes + the blocks (`slot:hashhex`) of all chunks in
    file order; replies are a digest (count, fold, first, last) of the block sequence read. -/
namespace PallasVerif.Streams.ImmDb
open PallasVerif PallasVerif.ImmutableDb

abbrev Blk := Block String

def blk? (s : String) : Option Blk :=
  match s.splitOn ":" with
  | [a, h] => (Tok.nat? a).map (fun a => { slot := a, hash := h })
  | _ => none

def blks? : List String → Option (List Blk)
  | [] => some []
  | x :: t => match blk? x, blks? t with
    | some b, some bs => some (b :: bs)
    | _, _ => none

def showBlk (b : Blk) : String := toString b.slot ++ ":" ++ b.hash

/-- first four bytes of the hash as a number -/
def hashPrefix (h : String) : Nat :=
  (h.toList.take 8).foldl (fun acc c => acc * 16 + (Tok.hexVal c).getD 0) 0

def digest (bs : List Blk) : String :=
  let f := bs.foldl (fun acc b => (acc * 33 + b.slot + hashPrefix b.hash) % 4294967296) 0
  match bs.head?, bs.getLast? with
  | some a, some z => toString bs.length ++ " " ++ toString f ++ " " ++ showBlk a ++ " " ++ showBlk z
  | _, _ => "0 0"

/-- what collecting the returned iterator gives: blocks up to the first read / decode failure -/
def collect : List (Item String) → Except String (List Blk)
  | [] => .ok []
  | .blk b :: t => match collect t with
    | .ok bs => .ok (b :: bs)
    | .error e => .error e
  | .readErr :: _ => .error "read"
  | .garbage :: _ => .error "decode"

def showErr : Err → String
  | .cannotFind => "notfound" | .decode => "decode" | .read => "read" | .originMissing => "origin"

def replyItems : Res (List (Item String)) → String
  | .ok items => match collect items with
    | .ok bs => "ok " ++ digest bs
    | .error e => "err " ++ e
  | .err e => "err " ++ showErr e
  | .panic => "panic"

def splitSizes : List Nat → List Blk → List (Chunk String)
  | [], _ => []
  | n :: ns, bs => (bs.take n).map Item.blk :: splitSizes ns (bs.drop n)

def nats? : List String → Option (List Nat)
  | [] => some []
  | x :: t => match Tok.nat? x, nats? t with
    | some n, some ns => some (n :: ns)
    | _, _ => none

def hash? (s : String) : Option String := if s = "-" then none else some s

def setDb (k : String) (rest : List String) : Option (List (Chunk String) × String) :=
  match Tok.nat? k with
  | some k =>
    match nats? (rest.take k), blks? (rest.drop k) with
    | some sizes, some bs => some (splitSizes sizes bs, "ok " ++ toString k ++ " " ++ toString bs.length)
    | _, _ => none
  | none => none

def step (all : List (Chunk String)) : List String → List (Chunk String) × String
  | "db" :: k :: rest => match setDb k rest with | some (db, r) => (db, r) | none => (all, "bad-op")
  | "realdb" :: k :: rest => match setDb k rest with | some (db, r) => (db, r) | none => (all, "bad-op")
  | ["readall"] => (all, replyItems (.ok (readBlocks all)))
  | ["origin"] => (all, replyItems (readBlocksFromOrigin (fun b => b.slot == 0) all))
  | ["tip"] =>
    (all, match getTip all with
      | .ok none => "ok none"
      | .ok (some b) => "ok some " ++ showBlk b
      | .err e => "err " ++ showErr e
      | .panic => "panic")
  | ["from", s, h] =>
    match Tok.nat? s with
    | some s => (all, replyItems (readBlocksFromPoint all s (hash? h)))
    | none => (all, "bad-op")
  | "bsearch" :: p :: vs =>
    match Tok.nat? p, nats? vs with
    | some p, some vs =>
      (all, match chunkBinarySearch vs (fun c => .ok (cmpNat c p)) with
        | .ok none => "ok none"
        | .ok (some i) => "ok some " ++ toString i
        | .err e => "err " ++ showErr e
        | .panic => "panic")
    | _, _ => (all, "bad-op")
  | "till" :: s :: h :: bs =>
    match Tok.nat? s, blks? bs with
    | some s, some bs => (all, replyItems (iterateTillPoint (bs.map Item.blk) s (hash? h)))
    | _, _ => (all, "bad-op")
  | _ => (all, "bad-op")

def stream : Stream := { name := "immdb", σ := List (Chunk String), init := [], step := step }

end PallasVerif.Streams.ImmDb
