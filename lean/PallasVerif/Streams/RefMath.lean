import PallasVerif.Stream
import PallasVerif.Model.RefMath
/-! stream `refmath` (C15): `exp <x>`, `ln <x>`, `pow <x> <y>` on stored integers at precision 34;
    reply `ok <result as printed>` or `panic`. The golden files of the repository are empty, so this
    model IS the digit oracle of the reference algorithm. -/
namespace PallasVerif.Streams.RefMath
open PallasVerif PallasVerif.RefMath

def showRes : Option Int → String
  | some r => "ok " ++ Decimal.toStr ⟨34, r⟩
  | none => "panic"

def step (_ : Unit) : List String → Unit × String
  | ["exp", x] =>
    match Tok.int? x with
    | some x => ((), showRes (expD x))
    | none => ((), "bad-op")
  | ["ln", x] =>
    match Tok.int? x with
    | some x => ((), showRes (lnD x))
    | none => ((), "bad-op")
  | ["pow", x, y] =>
    match Tok.int? x, Tok.int? y with
    | some x, some y => ((), showRes (powD x y))
    | _, _ => ((), "bad-op")
  | _ => ((), "bad-op")

def stream : Stream := { name := "refmath", σ := Unit, init := (), step := step }

end PallasVerif.Streams.RefMath
