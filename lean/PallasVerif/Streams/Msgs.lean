import PallasVerif.Stream
import PallasVerif.Model.NetMsg
/-!
stream `msgs` (C22, and through `Streams/Msgfuzz` C09): mini-protocol messages as canonical text.

Values are written as a token tree `V`: decimal naturals, `h<hex>` byte strings (text = its UTF-8
bytes), and nodes `( tag arg* )`. Ops:

* `enc <proto> <V>`  → `ok <hex of the encoding>` | `err enc` (the encoder itself fails)
* `dec <proto> <hex>` → `ok <V>` | `err eoi` | `err other`
* `single <hex>`     → `ok true|false` (strict generic parser: exactly one well-formed item)
* `real <n>` / `realp <variant>` → `checked`: the node-to-client reject reason as pallas types it
  (`TxValidationError`, ~2.7 kLoC of codec) is **not modelled**; the harness decodes / re-encodes the
  recorded reject payloads of the repo's tests and reports failures through its oracle only

`<proto>` = `n1.<p>` / `n2.<p>` (stack) with `p` ∈ hsn hsc csh csb css bf txs ka ps ls ltx dmqs dmqn txm
lnot lfet; the model is the same for both stacks except for the port width of `ps`.
-/
namespace PallasVerif.Streams.Msgs
open PallasVerif PallasVerif.Cbor PallasVerif.NetCodec PallasVerif.NetMsg

inductive V where
  | nat (n : Nat)
  | hex (bs : Bytes)
  | node (tag : String) (args : List V)
  deriving Inhabited

mutual
def parseV : Nat → List String → Option (V × List String)
  | 0, _ => none
  | _ + 1, [] => none
  | f + 1, tok :: rest =>
    if tok = "(" then
      match rest with
      | tag :: rest' =>
        match parseVs f rest' with
        | some (args, r) => some (.node tag args, r)
        | none => none
      | [] => none
    else if tok.startsWith "h" then
      match Tok.unhexChars (tok.toList.drop 1) with
      | some bs => some (.hex bs, rest)
      | none => none
    else
      match tok.toNat? with
      | some n => some (.nat n, rest)
      | none => none
def parseVs : Nat → List String → Option (List V × List String)
  | 0, _ => none
  | _ + 1, [] => none
  | f + 1, tok :: rest =>
    if tok = ")" then some ([], rest)
    else
      match parseV f (tok :: rest) with
      | some (v, r) =>
        match parseVs f r with
        | some (vs, r') => some (v :: vs, r')
        | none => none
      | none => none
end

def parseAll (toks : List String) : Option V :=
  match parseV (toks.length + 1) toks with
  | some (v, []) => some v
  | _ => none

def hexS (bs : Bytes) : String := "h" ++ String.join (bs.map Tok.hexOfByte)

mutual
def V.show : V → String
  | .nat n => toString n
  | .hex bs => hexS bs
  | .node tag args => "( " ++ tag ++ V.showList args ++ " )"
def V.showList : List V → String
  | [] => ""
  | v :: vs => " " ++ v.show ++ V.showList vs
end

/-! ### generic helpers -/

def vBool (b : Bool) : V := .node (if b then "T" else "F") []
def bool? : V → Option Bool
  | .node "T" [] => some true
  | .node "F" [] => some false
  | _ => none
def nat? : V → Option Nat
  | .nat n => some n
  | _ => none
def hex? : V → Option Bytes
  | .hex b => some b
  | _ => none
def vOpt {α : Type} (f : α → V) : Option α → V
  | none => .node "N" []
  | some a => .node "S" [f a]
def opt? {α : Type} (f : V → Option α) : V → Option (Option α)
  | .node "N" [] => some none
  | .node "S" [x] => (f x).map some
  | _ => none
def vList {α : Type} (f : α → V) (l : List α) : V := .node "L" (l.map f)
def list? {α : Type} (f : V → Option α) : V → Option (List α)
  | .node "L" xs => xs.mapM f
  | _ => none
def vPair {α β : Type} (f : α → V) (g : β → V) (p : α × β) : V := .node "P" [f p.1, g p.2]
def pair? {α β : Type} (f : V → Option α) (g : V → Option β) : V → Option (α × β)
  | .node "P" [a, b] => do let x ← f a; let y ← g b; pure (x, y)
  | _ => none

/-! ### per type -/

def vPoint : Point → V
  | .origin => .node "o" []
  | .specific s h => .node "pt" [.nat s, .hex h]
def point? : V → Option Point
  | .node "o" [] => some .origin
  | .node "pt" [.nat s, .hex h] => some (.specific s h)
  | _ => none

def vTip (t : Tip) : V := .node "tip" [vPoint t.point, .nat t.blockNo]
def tip? : V → Option Tip
  | .node "tip" [p, .nat n] => (point? p).map fun p => ⟨p, n⟩
  | _ => none

def vHeader (h : HeaderContent) : V := .node "hdr" [.nat h.variant, vOpt (vPair V.nat V.nat) h.byronPrefix, .hex h.cbor]
def header? : V → Option HeaderContent
  | .node "hdr" [.nat v, p, .hex c] => (opt? (pair? nat? nat?) p).map fun p => ⟨v, p, c⟩
  | _ => none

def vChainSync {C} (f : C → V) : ChainSync.Msg C → V
  | .requestNext => .node "requestNext" []
  | .awaitReply => .node "awaitReply" []
  | .rollForward c t => .node "rollForward" [f c, vTip t]
  | .rollBackward p t => .node "rollBackward" [vPoint p, vTip t]
  | .findIntersect ps => .node "findIntersect" [vList vPoint ps]
  | .intersectFound p t => .node "intersectFound" [vPoint p, vTip t]
  | .intersectNotFound t => .node "intersectNotFound" [vTip t]
  | .done => .node "done" []
def chainSync? {C} (f : V → Option C) : V → Option (ChainSync.Msg C)
  | .node "requestNext" [] => some .requestNext
  | .node "awaitReply" [] => some .awaitReply
  | .node "rollForward" [c, t] => do pure (.rollForward (← f c) (← tip? t))
  | .node "rollBackward" [p, t] => do pure (.rollBackward (← point? p) (← tip? t))
  | .node "findIntersect" [ps] => do pure (.findIntersect (← list? point? ps))
  | .node "intersectFound" [p, t] => do pure (.intersectFound (← point? p) (← tip? t))
  | .node "intersectNotFound" [t] => do pure (.intersectNotFound (← tip? t))
  | .node "done" [] => some .done
  | _ => none

def vSkipped (_ : Unit) : V := .node "skipped" []
def skipped? : V → Option Unit
  | .node "skipped" [] => some ()
  | _ => none

def vBlockFetch : BlockFetch.Msg → V
  | .requestRange a b => .node "requestRange" [vPoint a, vPoint b]
  | .clientDone => .node "clientDone" []
  | .startBatch => .node "startBatch" []
  | .noBlocks => .node "noBlocks" []
  | .block body => .node "block" [.hex body]
  | .batchDone => .node "batchDone" []
def blockFetch? : V → Option BlockFetch.Msg
  | .node "requestRange" [a, b] => do pure (.requestRange (← point? a) (← point? b))
  | .node "clientDone" [] => some .clientDone
  | .node "startBatch" [] => some .startBatch
  | .node "noBlocks" [] => some .noBlocks
  | .node "block" [.hex b] => some (.block b)
  | .node "batchDone" [] => some .batchDone
  | _ => none

def vTxId (t : EraTxId) : V := .node "txid" [.nat t.era, .hex t.id]
def txId? : V → Option EraTxId
  | .node "txid" [.nat e, .hex i] => some ⟨e, i⟩
  | _ => none
def vEraTx (t : EraTx) : V := .node "tx" [.nat t.era, .hex t.body]
def eraTx? : V → Option EraTx
  | .node "tx" [.nat e, .hex b] => some ⟨e, b⟩
  | _ => none
def vIdSize (t : TxIdAndSize) : V := .node "ids" [vTxId t.id, .nat t.size]
def idSize? : V → Option TxIdAndSize
  | .node "ids" [i, .nat s] => (txId? i).map fun i => ⟨i, s⟩
  | _ => none

def vTxSub : TxSubmission.Msg → V
  | .init => .node "init" []
  | .requestTxIds b a r => .node "requestTxIds" [vBool b, .nat a, .nat r]
  | .replyTxIds ids => .node "replyTxIds" [vList vIdSize ids]
  | .requestTxs ids => .node "requestTxs" [vList vTxId ids]
  | .replyTxs txs => .node "replyTxs" [vList vEraTx txs]
  | .done => .node "done" []
def txSub? : V → Option TxSubmission.Msg
  | .node "init" [] => some .init
  | .node "requestTxIds" [b, .nat a, .nat r] => (bool? b).map fun b => .requestTxIds b a r
  | .node "replyTxIds" [l] => (list? idSize? l).map .replyTxIds
  | .node "requestTxs" [l] => (list? txId? l).map .requestTxs
  | .node "replyTxs" [l] => (list? eraTx? l).map .replyTxs
  | .node "done" [] => some .done
  | _ => none

def vKeepAlive : KeepAlive.Msg → V
  | .keepAlive c => .node "keepAlive" [.nat c]
  | .responseKeepAlive c => .node "responseKeepAlive" [.nat c]
  | .done => .node "done" []
def keepAlive? : V → Option KeepAlive.Msg
  | .node "keepAlive" [.nat c] => some (.keepAlive c)
  | .node "responseKeepAlive" [.nat c] => some (.responseKeepAlive c)
  | .node "done" [] => some .done
  | _ => none

def vPeer : PeerAddress → V
  | .v4 a p => .node "v4" [.nat a, .nat p]
  | .v6 b p => .node "v6" [.nat b, .nat p]
def peer? : V → Option PeerAddress
  | .node "v4" [.nat a, .nat p] => some (.v4 a p)
  | .node "v6" [.nat b, .nat p] => some (.v6 b p)
  | _ => none
def vPeerSharing : PeerSharing.Msg → V
  | .shareRequest n => .node "shareRequest" [.nat n]
  | .sharePeers ps => .node "sharePeers" [vList vPeer ps]
  | .done => .node "done" []
def peerSharing? : V → Option PeerSharing.Msg
  | .node "shareRequest" [.nat n] => some (.shareRequest n)
  | .node "sharePeers" [l] => (list? peer? l).map .sharePeers
  | .node "done" [] => some .done
  | _ => none

def vTable {D} (f : D → V) (vt : VersionTable D) : V := vList (vPair V.nat f) vt
def table? {D} (f : V → Option D) : V → Option (VersionTable D) := list? (pair? nat? f)
def vRefuse : RefuseReason → V
  | .versionMismatch vs => .node "versionMismatch" [vList V.nat vs]
  | .handshakeDecodeError v m => .node "handshakeDecodeError" [.nat v, .hex m]
  | .refused v m => .node "refused" [.nat v, .hex m]
def refuse? : V → Option RefuseReason
  | .node "versionMismatch" [l] => (list? nat? l).map .versionMismatch
  | .node "handshakeDecodeError" [.nat v, .hex m] => some (.handshakeDecodeError v m)
  | .node "refused" [.nat v, .hex m] => some (.refused v m)
  | _ => none
def vHandshake {D} (f : D → V) : Handshake.Msg D → V
  | .propose vt => .node "propose" [vTable f vt]
  | .accept v d => .node "accept" [.nat v, f d]
  | .refuse r => .node "refuse" [vRefuse r]
  | .queryReply vt => .node "queryReply" [vTable f vt]
def handshake? {D} (f : V → Option D) : V → Option (Handshake.Msg D)
  | .node "propose" [vt] => (table? f vt).map .propose
  | .node "accept" [.nat v, d] => (f d).map (.accept v)
  | .node "refuse" [r] => (refuse? r).map .refuse
  | .node "queryReply" [vt] => (table? f vt).map .queryReply
  | _ => none
def vN2N (d : N2NData) : V := .node "n2n" [.nat d.magic, vBool d.initiatorOnly, vOpt V.nat d.peerSharing, vOpt vBool d.query]
def n2n? : V → Option N2NData
  | .node "n2n" [.nat m, io, ps, q] => do pure ⟨m, ← bool? io, ← opt? nat? ps, ← opt? bool? q⟩
  | _ => none
def vN2C (d : N2CData) : V := .node "n2c" [.nat d.magic, vOpt vBool d.query]
def n2c? : V → Option N2CData
  | .node "n2c" [.nat m, q] => (opt? bool? q).map fun q => ⟨m, q⟩
  | _ => none

def vTxMonitor : TxMonitor.Msg → V
  | .done => .node "done" []
  | .acquire => .node "acquire" []
  | .acquired s => .node "acquired" [.nat s]
  | .release => .node "release" []
  | .awaitAcquire => .node "awaitAcquire" []
  | .requestNextTx => .node "requestNextTx" []
  | .responseNextTx tx => .node "responseNextTx" [vOpt (vPair V.nat V.hex) tx]
  | .requestHasTx id => .node "requestHasTx" [.hex id]
  | .responseHasTx b => .node "responseHasTx" [vBool b]
  | .requestSizeAndCapacity => .node "requestSizeAndCapacity" []
  | .responseSizeAndCapacity c s n => .node "responseSizeAndCapacity" [.nat c, .nat s, .nat n]
def txMonitor? : V → Option TxMonitor.Msg
  | .node "done" [] => some .done
  | .node "acquire" [] => some .acquire
  | .node "acquired" [.nat s] => some (.acquired s)
  | .node "release" [] => some .release
  | .node "awaitAcquire" [] => some .awaitAcquire
  | .node "requestNextTx" [] => some .requestNextTx
  | .node "responseNextTx" [tx] => (opt? (pair? nat? hex?) tx).map .responseNextTx
  | .node "requestHasTx" [.hex id] => some (.requestHasTx id)
  | .node "responseHasTx" [b] => (bool? b).map .responseHasTx
  | .node "requestSizeAndCapacity" [] => some .requestSizeAndCapacity
  | .node "responseSizeAndCapacity" [.nat c, .nat s, .nat n] => some (.responseSizeAndCapacity c s n)
  | _ => none

def vLocalState : LocalState.Msg → V
  | .acquire p => .node "acquire" [vOpt vPoint p]
  | .failure .pointTooOld => .node "failure" [.node "pointTooOld" []]
  | .failure .pointNotOnChain => .node "failure" [.node "pointNotOnChain" []]
  | .acquired => .node "acquired" []
  | .query q => .node "query" [.hex q]
  | .result r => .node "result" [.hex r]
  | .reAcquire p => .node "reAcquire" [vOpt vPoint p]
  | .release => .node "release" []
  | .done => .node "done" []
def localState? : V → Option LocalState.Msg
  | .node "acquire" [p] => (opt? point? p).map .acquire
  | .node "failure" [.node "pointTooOld" []] => some (.failure .pointTooOld)
  | .node "failure" [.node "pointNotOnChain" []] => some (.failure .pointNotOnChain)
  | .node "acquired" [] => some .acquired
  | .node "query" [.hex q] => some (.query q)
  | .node "result" [.hex r] => some (.result r)
  | .node "reAcquire" [p] => (opt? point? p).map .reAcquire
  | .node "release" [] => some .release
  | .node "done" [] => some .done
  | _ => none

def vLocalTx {Tx Rej} (f : Tx → V) (g : Rej → V) : LocalTx.Msg Tx Rej → V
  | .submitTx tx => .node "submitTx" [f tx]
  | .acceptTx => .node "acceptTx" []
  | .rejectTx r => .node "rejectTx" [g r]
  | .done => .node "done" []
def localTx? {Tx Rej} (f : V → Option Tx) (g : V → Option Rej) : V → Option (LocalTx.Msg Tx Rej)
  | .node "submitTx" [tx] => (f tx).map .submitTx
  | .node "acceptTx" [] => some .acceptTx
  | .node "rejectTx" [r] => (g r).map .rejectTx
  | .node "done" [] => some .done
  | _ => none
def vOpaque : OpaqueReject → V
  | .cbor raw => .node "cbor" [.hex raw]
  | .text s => .node "text" [.hex s]
def opaque? : V → Option OpaqueReject
  | .node "cbor" [.hex raw] => some (.cbor raw)
  | .node "text" [.hex s] => some (.text s)
  | _ => none

def vDmqMsg (m : DmqMsg) : V :=
  .node "dmq" [.hex m.msgId, .hex m.payload.body, .nat m.payload.kesPeriod, .nat m.payload.expiresAt, .hex m.kesSignature,
    .hex m.opCert.kesVk, .nat m.opCert.issueNumber, .nat m.opCert.startKesPeriod, .hex m.opCert.certSig, .hex m.coldVk]
def dmqMsg? : V → Option DmqMsg
  | .node "dmq" [.hex id, .hex body, .nat kp, .nat ex, .hex sg, .hex vk, .nat iss, .nat st, .hex cs, .hex cold] =>
    some ⟨id, ⟨body, kp, ex⟩, sg, ⟨vk, iss, st, cs⟩, cold⟩
  | _ => none
def vDmqReject : DmqReject → V
  | .invalid s => .node "invalid" [.hex s]
  | .alreadyReceived => .node "alreadyReceived" []
  | .expired => .node "expired" []
  | .other s => .node "other" [.hex s]
def dmqReject? : V → Option DmqReject
  | .node "invalid" [.hex s] => some (.invalid s)
  | .node "alreadyReceived" [] => some .alreadyReceived
  | .node "expired" [] => some .expired
  | .node "other" [.hex s] => some (.other s)
  | _ => none

def vDmqNotify : LocalMsgNotification.Msg → V
  | .requestNonBlocking => .node "requestNonBlocking" []
  | .replyNonBlocking ms more => .node "replyNonBlocking" [vList vDmqMsg ms, vBool more]
  | .requestBlocking => .node "requestBlocking" []
  | .replyBlocking ms => .node "replyBlocking" [vList vDmqMsg ms]
  | .clientDone => .node "clientDone" []
def dmqNotify? : V → Option LocalMsgNotification.Msg
  | .node "requestNonBlocking" [] => some .requestNonBlocking
  | .node "replyNonBlocking" [ms, more] => do pure (.replyNonBlocking (← list? dmqMsg? ms) (← bool? more))
  | .node "requestBlocking" [] => some .requestBlocking
  | .node "replyBlocking" [ms] => (list? dmqMsg? ms).map .replyBlocking
  | .node "clientDone" [] => some .clientDone
  | _ => none

def vLeiosNotify : LeiosNotify.Msg → V
  | .requestNext => .node "requestNext" []
  | .blockAnnouncement h => .node "blockAnnouncement" [.hex h]
  | .blockOffer p s => .node "blockOffer" [vPoint p, .nat s]
  | .blockTxsOffer p => .node "blockTxsOffer" [vPoint p]
  | .votes vs => .node "votes" [vList V.hex vs]
  | .done => .node "done" []
def leiosNotify? : V → Option LeiosNotify.Msg
  | .node "requestNext" [] => some .requestNext
  | .node "blockAnnouncement" [.hex h] => some (.blockAnnouncement h)
  | .node "blockOffer" [p, .nat s] => (point? p).map fun p => .blockOffer p s
  | .node "blockTxsOffer" [p] => (point? p).map .blockTxsOffer
  | .node "votes" [l] => (list? hex? l).map .votes
  | .node "done" [] => some .done
  | _ => none

def vBitmaps (b : Bitmaps) : V := vList (vPair V.nat V.nat) b
def bitmaps? : V → Option Bitmaps := list? (pair? nat? nat?)
def vLeiosFetch : LeiosFetch.Msg → V
  | .blockRequest p => .node "blockRequest" [vPoint p]
  | .block b => .node "block" [.hex b]
  | .blockTxsRequest p bm => .node "blockTxsRequest" [vPoint p, vBitmaps bm]
  | .blockTxs p bm txs => .node "blockTxs" [vPoint p, vBitmaps bm, vList V.hex txs]
  | .done => .node "done" []
def leiosFetch? : V → Option LeiosFetch.Msg
  | .node "blockRequest" [p] => (point? p).map .blockRequest
  | .node "block" [.hex b] => some (.block b)
  | .node "blockTxsRequest" [p, bm] => do pure (.blockTxsRequest (← point? p) (← bitmaps? bm))
  | .node "blockTxs" [p, bm, txs] => do pure (.blockTxs (← point? p) (← bitmaps? bm) (← list? hex? txs))
  | .node "done" [] => some .done
  | _ => none

/-! ### codecs by name -/

structure Codec where
  /-- `none` = not a value of this protocol; `some none` = the encoder returns an error -/
  enc : V → Option (Option Bytes)
  dec : Bytes → Res V

def mkCodec {M} (of? : V → Option M) (toV : M → V) (enc : M → Option E) (dec : Dec M) : Codec :=
  { enc := fun v => (of? v).map fun m => (enc m).map E.encode
    dec := fun bs => (dec bs).map toV }

def stripStack (p : String) : Option (Bool × String) :=
  if p.startsWith "n1." then some (false, (p.drop 3).toString)
  else if p.startsWith "n2." then some (true, (p.drop 3).toString)
  else none

def codecOf (proto : String) : Option Codec :=
  match stripStack proto with
  | none => none
  | some (isN2, p) =>
    match p with
    | "hsn" => some (mkCodec (handshake? n2n?) (vHandshake vN2N) (fun m => some (m.enc N2NData.enc)) (Handshake.Msg.dec N2NData.dec))
    | "hsc" => some (mkCodec (handshake? n2c?) (vHandshake vN2C) (fun m => some (m.enc N2CData.enc)) (Handshake.Msg.dec N2CData.dec))
    | "csh" => some (mkCodec (chainSync? header?) (vChainSync vHeader) (ChainSync.Msg.enc HeaderContent.enc) (ChainSync.Msg.dec HeaderContent.dec))
    | "csb" => some (mkCodec (chainSync? hex?) (vChainSync V.hex) (ChainSync.Msg.enc blockContentEnc) (ChainSync.Msg.dec blockContentDec))
    | "css" => some (mkCodec (chainSync? skipped?) (vChainSync vSkipped) (ChainSync.Msg.enc skippedEnc) (ChainSync.Msg.dec skippedDec))
    | "bf" => some (mkCodec blockFetch? vBlockFetch (fun m => some m.enc) BlockFetch.Msg.dec)
    | "txs" => some (mkCodec txSub? vTxSub (fun m => some m.enc) TxSubmission.Msg.dec)
    | "ka" => some (mkCodec keepAlive? vKeepAlive (fun m => some m.enc) KeepAlive.Msg.dec)
    | "ps" => some (mkCodec peerSharing? vPeerSharing (fun m => some m.enc) (PeerSharing.Msg.dec (if isN2 then U16MAX else U32MAX)))
    | "ls" => some (mkCodec localState? vLocalState (fun m => some m.enc) LocalState.Msg.dec)
    | "ltx" => some (mkCodec (localTx? eraTx? opaque?) (vLocalTx vEraTx vOpaque) (fun m => some (m.enc EraTx.enc OpaqueReject.enc))
        (LocalTx.Msg.dec EraTx.dec OpaqueReject.dec .text))
    | "dmqs" => some (mkCodec (localTx? dmqMsg? dmqReject?) (vLocalTx vDmqMsg vDmqReject) (fun m => some (m.enc DmqMsg.enc DmqReject.enc))
        (LocalTx.Msg.dec DmqMsg.dec DmqReject.dec .other))
    | "dmqn" => some (mkCodec dmqNotify? vDmqNotify (fun m => some m.enc) LocalMsgNotification.Msg.dec)
    | "txm" => some (mkCodec txMonitor? vTxMonitor (fun m => some m.enc) TxMonitor.Msg.dec)
    | "lnot" => some (mkCodec leiosNotify? vLeiosNotify (fun m => some m.enc) LeiosNotify.Msg.dec)
    | "lfet" => some (mkCodec leiosFetch? vLeiosFetch (fun m => some m.enc) LeiosFetch.Msg.dec)
    | _ => none

def showRes : Res V → String
  | .ok v _ => "ok " ++ v.show
  | .eoi => "err eoi"
  | .err => "err other"

def step (_ : Unit) : List String → Unit × String
  | "enc" :: proto :: toks =>
    match codecOf proto, parseAll toks with
    | some c, some v =>
      match c.enc v with
      | some (some bs) => ((), "ok " ++ Tok.hex bs)
      | some none => ((), "err enc")
      | none => ((), "bad-op")
    | _, _ => ((), "bad-op")
  | ["dec", proto, h] =>
    match codecOf proto, Tok.unhex h with
    | some c, some bs => ((), showRes (c.dec bs))
    | _, _ => ((), "bad-op")
  | ["real", n] => ((), if n.toNat?.isSome then "checked" else "bad-op")
  | ["realp", v] => ((), if v = "plutus" ∨ v = "byron" then "checked" else "bad-op")
  | ["single", h] =>
    match Tok.unhex h with
    | some bs => ((), "ok " ++ Tok.showBool (isSingleItem bs))
    | none => ((), "bad-op")
  | _ => ((), "bad-op")

def stream : Stream := { name := "msgs", σ := Unit, init := (), step := step }

end PallasVerif.Streams.Msgs
