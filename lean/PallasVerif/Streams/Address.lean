import PallasVerif.Stream
import PallasVerif.Model.Address
/-! stream `address` (C18). Stateless ops:
    `mk <shape> <n<id>|o<x>> <h1> [<h2> | <slot> <tx> <cert>]` → `ok <to_vec hex> hdr=<u8> hrp=<hrp|none> rt=<addr>`
    `parse <hex>` (`from_bytes`), `parsehex <text-hex>` (`from_hex` on arbitrary text),
    `vwrite <n>`, `vread <hex>`, `pparse <hex>`. -/
namespace PallasVerif.Streams.Address
open PallasVerif PallasVerif.Address

def showNet : Network → String
  | .testnet => "testnet"
  | .mainnet => "mainnet"
  | .other x => "other:" ++ toString x.toNat

def showAddr : Addr → String
  | .shelley n p d =>
    "shelley " ++ showNet n ++ " " ++
      (match p with | .key h => "key:" ++ Tok.hex h.val | .script h => "script:" ++ Tok.hex h.val)
      ++ " " ++
      (match d with
        | .key h => "key:" ++ Tok.hex h.val
        | .script h => "script:" ++ Tok.hex h.val
        | .pointer p => "ptr:" ++ toString p.slot ++ ":" ++ toString p.txIdx ++ ":" ++ toString p.certIdx
        | .null => "null")
  | .stake n p =>
    "stake " ++ showNet n ++ " " ++
      (match p with | .stake h => "stake:" ++ Tok.hex h.val | .script h => "script:" ++ Tok.hex h.val)

def showErr : Err → String
  | .missingHeader => "missing-header"
  | .invalidHeader => "invalid-header"
  | .invalidLength => "invalid-length"
  | .invalidHashSize => "invalid-hash-size"
  | .varuint => "varuint"
  | .unknownHrp => "unknown-hrp"
  | .badHex => "bad-hex"
  | .badBech32 => "bad-bech32"
  | .unknownFormat => "unknown-format"

def showRes : Res → String
  | .ok a => "ok " ++ showAddr a
  | .byron => "ok byron"
  | .err e => "err " ++ showErr e

def hash? (s : String) : Option Hash28 :=
  match Tok.unhex s with
  | some l => if h : l.length = 28 then some ⟨l, h⟩ else none
  | none => none

def net? (s : String) : Option Network :=
  match s.toList with
  | 'n' :: r => (String.ofList r).toNat?.bind fun n => if n < 256 then some (Network.ofU8 (UInt8.ofNat n)) else none
  | 'o' :: r => (String.ofList r).toNat?.bind fun n => if n < 256 then some (Network.other (UInt8.ofNat n)) else none
  | _ => none

def u64? (s : String) : Option Nat := (Tok.nat? s).bind fun n => if n ≤ U64MAX then some n else none

def mk? : List String → Option Addr
  | [shape, net, h1, h2] =>
    match Tok.nat? shape, net? net, hash? h1, hash? h2 with
    | some 0, some n, some a, some b => some (.shelley n (.key a) (.key b))
    | some 1, some n, some a, some b => some (.shelley n (.script a) (.key b))
    | some 2, some n, some a, some b => some (.shelley n (.key a) (.script b))
    | some 3, some n, some a, some b => some (.shelley n (.script a) (.script b))
    | _, _, _, _ => none
  | [shape, net, h1, s, t, c] =>
    match Tok.nat? shape, net? net, hash? h1, u64? s, u64? t, u64? c with
    | some 4, some n, some a, some s, some t, some c => some (.shelley n (.key a) (.pointer ⟨s, t, c⟩))
    | some 5, some n, some a, some s, some t, some c => some (.shelley n (.script a) (.pointer ⟨s, t, c⟩))
    | _, _, _, _, _, _ => none
  | [shape, net, h1] =>
    match Tok.nat? shape, net? net, hash? h1 with
    | some 6, some n, some a => some (.shelley n (.key a) .null)
    | some 7, some n, some a => some (.shelley n (.script a) .null)
    | some 14, some n, some a => some (.stake n (.stake a))
    | some 15, some n, some a => some (.stake n (.script a))
    | _, _, _ => none
  | _ => none

def step (_ : Unit) (toks : List String) : Unit × String :=
  match toks with
  | "mk" :: rest =>
    match mk? rest with
    | none => ((), "bad-op")
    | some a =>
      let hrp := match a.hrp with | .ok h => h | .error _ => "none"
      ((), "ok " ++ Tok.hex a.toVec ++ " hdr=" ++ toString a.toHeader.toNat ++ " hrp=" ++ hrp ++
        " rt=" ++ showRes (fromBytes a.toVec) ++ " rth=" ++ showRes (fromHex a.toHex))
  | ["parse", h] =>
    match Tok.unhex h with
    | some bs => ((), showRes (fromBytes bs))
    | none => ((), "bad-op")
  | ["parsehex", h] =>
    -- the token is hex of the UTF-8 text handed to `from_hex` (ASCII only in the generator)
    match Tok.unhex h with
    | some bs => ((), showRes (fromHex (bs.map fun b => Char.ofNat b.toNat)))
    | none => ((), "bad-op")
  | ["vwrite", n] =>
    match u64? n with
    | some n => ((), "ok " ++ Tok.hex (varuintWrite n))
    | none => ((), "bad-op")
  | ["vread", h] =>
    match Tok.unhex h with
    | some bs =>
      match varuintRead bs with
      | some (n, rest) => ((), "ok " ++ toString n ++ " " ++ toString (bs.length - rest.length))
      | none => ((), "err eof")
    | none => ((), "bad-op")
  | ["pparse", h] =>
    match Tok.unhex h with
    | some bs =>
      match Pointer.parse bs with
      | some p => ((), "ok " ++ toString p.slot ++ " " ++ toString p.txIdx ++ " " ++ toString p.certIdx)
      | none => ((), "err varuint")
    | none => ((), "bad-op")
  | _ => ((), "bad-op")

def stream : Stream := { name := "address", σ := Unit, init := (), step := step }

end PallasVerif.Streams.Address
