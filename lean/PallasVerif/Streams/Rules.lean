import PallasVerif.Stream
import PallasVerif.Model.Rules
/-! stream `rules` (C38), see harness/src/streams/rules.rs.
    `rl <era> <scenario..> | V <rule>=<ok|Error>* | F <key>=<value>*` → `<ok | err Error> | <rule>=<0|1>*`:
    the verdict of the model's composition (`validate`: first failing rule in source order; the error text is the one
    the implementation's own check reported for that rule) and the model's predicates for the stated rules. -/
namespace PallasVerif.Streams.Rules
open PallasVerif PallasVerif.Rules

def era? : String → Option Era
  | "byron" => some .byron
  | "shelley" => some .shelleyMA
  | "alonzo" => some .alonzo
  | "babbage" => some .babbage
  | "conway" => some .conway
  | _ => none

def ruleName : Rule → String
  | .insNotEmpty => "insNotEmpty" | .outsNotEmpty => "outsNotEmpty" | .insInUtxo => "insInUtxo"
  | .outsHaveLovelace => "outsHaveLovelace" | .validity => "validity" | .txSize => "txSize" | .minLovelace => "minLovelace"
  | .certificates => "certificates" | .preservation => "preservation" | .fee => "fee" | .networkId => "networkId"
  | .auxData => "auxData" | .witnesses => "witnesses" | .minting => "minting" | .valSize => "valSize" | .exUnits => "exUnits"
  | .languages => "languages" | .scriptDataHash => "scriptDataHash" | .wellFormed => "wellFormed"

def kv (s : String) : String × String :=
  match s.splitOn "=" with
  | [k, v] => (k, v)
  | _ => (s, "")

def get (m : List (String × String)) (k : String) : String := (m.lookup k).getD ""
def natOf (s : String) : Nat := (s.toNat?).getD 0
def optNat (s : String) : Option Nat := if s = "-" then none else s.toNat?
def bitsOf (s : String) : List Bool := if s = "-" then [] else s.toList.map (· == '1')
def b1 (s : String) : Bool := s == "1"

def coll? (s : String) : Option CollView :=
  match s.splitOn "." with
  | [flags, coin, assets] =>
    match flags.toList with
    | [a, b, c] => some ⟨a == '1', b == '1', if c == 'u' then none else some (c == 's'), natOf coin, assets == "1"⟩
    | _ => none
  | _ => none

def colls (s : String) : Option (List CollView) :=
  if s = "-" then none else if s = "e" then some [] else some ((s.splitOn ",").filterMap coll?)

def out? (s : String) : Option OutView :=
  match s.splitOn "." with
  | [l, w, flags, net] =>
    match flags.toList with
    | [m, d] => some ⟨natOf l, natOf w, m == '1', d == '1', optNat net⟩
    | _ => none
  | _ => none

def outs (s : String) : List OutView := if s = "-" then [] else (s.splitOn ",").filterMap out?

def mkView (f : List (String × String)) (vs : List (String × String)) : View :=
  { nInputs := natOf (get f "nin"), nOutputs := natOf (get f "nout"), inputsIn := bitsOf (get f "ins"),
    collateral := colls (get f "col"), refInputsIn := bitsOf (get f "ref"), validityStart := optNat (get f "start"),
    ttl := optNat (get f "ttl"), slot := natOf (get f "slot"), size := natOf (get f "size"), maxSize := natOf (get f "max"),
    fee := natOf (get f "fee"), minfeeA := natOf (get f "a"), minfeeB := natOf (get f "b"), outputs := outs (get f "outs"),
    coinsParam := natOf (get f "coins"), maxValueSize := natOf (get f "maxval"), envNetwork := natOf (get f "envnet"),
    txNetwork := optNat (get f "txnet"), plutusInWitnesses := b1 (get f "plutus"), redeemersPresent := b1 (get f "red"), maxCollateralInputs := natOf (get f "maxcol"),
    collateralPercentage := natOf (get f "pct"), paidCollateral := optNat (get f "paid"), totalCollateral := optNat (get f "total"),
    auxHashPresent := b1 (get f "auxh"), auxPresent := b1 (get f "aux"), auxHashMatches := b1 (get f "auxm"),
    external := fun r => get vs (ruleName r) == "ok" }

def splitBars (toks : List String) : List (List String) :=
  toks.foldr (fun t acc => if t = "|" then [] :: acc else match acc with | g :: gs => (t :: g) :: gs | [] => [[t]]) [[]]

def step (_ : Unit) : List String → Unit × String
  | "rl" :: era :: rest =>
    match era? era, splitBars rest with
    | some e, [_, "V" :: vtoks, "F" :: ftoks] =>
      let vs := vtoks.map kv
      let v := mkView (ftoks.map kv) vs
      let res := match validate e v with
        | none => "ok"
        | some r => "err " ++ get vs (ruleName r)
      let bits := (order e).filter (stated e) |>.map (fun r => " " ++ ruleName r ++ "=" ++ (if verdict e v r then "1" else "0"))
      ((), res ++ " |" ++ String.join bits)
    | _, _ => ((), "bad-op")
  | _ => ((), "bad-op")

def stream : Stream := { name := "rules", σ := Unit, init := (), step := step }

end PallasVerif.Streams.Rules
