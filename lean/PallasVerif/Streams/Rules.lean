import PallasVerif.Stream
import PallasVerif.Model.Rules
import PallasVerif.Streams.Value
import PallasVerif.Streams.ExUnits
import PallasVerif.Streams.Witness
/-! stream `rules` (C38), see harness/src/streams/rules.rs.
    `rl <era> <scenario..> | V <rule>=<ok|Error>* | F <key>=<value>*` → `<ok | err Error> | <rule>=<0|1>*`:
    the verdict of the model's composition (`validate`: first failing rule in source order; the error text is the one
    the implementation's own check reported for that rule) and the model's predicates for the stated rules. -/
namespace PallasVerif.Streams.Rules
open PallasVerif PallasVerif.Rules

def era? : String → Option Era
  | "byron" => some .byron
  | "shelley" => some .shelleyMA
  | "alonzo" => some .alonzo
  | "babbage" => some .babbage
  | "conway" => some .conway
  | _ => none

def ruleName : Rule → String
  | .insNotEmpty => "insNotEmpty" | .outsNotEmpty => "outsNotEmpty" | .insInUtxo => "insInUtxo"
  | .outsHaveLovelace => "outsHaveLovelace" | .validity => "validity" | .txSize => "txSize" | .minLovelace => "minLovelace"
  | .certificates => "certificates" | .preservation => "preservation" | .fee => "fee" | .networkId => "networkId"
  | .auxData => "auxData" | .witnesses => "witnesses" | .minting => "minting" | .valSize => "valSize" | .exUnits => "exUnits"
  | .languages => "languages" | .scriptDataHash => "scriptDataHash" | .wellFormed => "wellFormed"

def kv (s : String) : String × String :=
  match s.splitOn "=" with
  | [k, v] => (k, v)
  | _ => (s, "")

def get (m : List (String × String)) (k : String) : String := (m.lookup k).getD ""
def natOf (s : String) : Nat := (s.toNat?).getD 0
def optNat (s : String) : Option Nat := if s = "-" then none else s.toNat?
def bitsOf (s : String) : List Bool := if s = "-" then [] else s.toList.map (· == '1')
def b1 (s : String) : Bool := s == "1"

def coll? (s : String) : Option CollView :=
  match s.splitOn "." with
  | [flags, coin, assets] =>
    match flags.toList with
    | [a, b, c] => some ⟨a == '1', b == '1', if c == 'u' then none else some (c == 's'), natOf coin, assets == "1"⟩
    | _ => none
  | _ => none

def colls (s : String) : Option (List CollView) :=
  if s = "-" then none else if s = "e" then some [] else some ((s.splitOn ",").filterMap coll?)

def out? (s : String) : Option OutView :=
  match s.splitOn "." with
  | [l, w, flags, net] =>
    match flags.toList with
    | [m, d] => some ⟨natOf l, natOf w, m == '1', d == '1', optNat net⟩
    | _ => none
  | _ => none

def outs (s : String) : List OutView := if s = "-" then [] else (s.splitOn ",").filterMap out?

def strs (s : String) : List String := if s = "-" || s = "" then [] else s.splitOn ","
def ostrs (s : String) : List (Option String) := (strs s).map (fun x => if x = "_" then none else some x)
def digits (s : String) : List Nat := if s = "-" then [] else s.toList.map (fun c => c.toNat - 48)
def hexBytes (s : String) : List UInt8 := (Tok.unhex s).getD []
def optHex (s : String) : Option (List UInt8) := if s = "n" then none else some (hexBytes s)
def ptr? (s : String) : Option Ptr :=
  match s.splitOn "." with
  | [t, i] => some ⟨natOf t, natOf i⟩
  | _ => none
def costModel? (s : String) : Option (Nat × List Int) :=
  match s.splitOn ":" with
  | [k, m] => some (natOf k, (m.splitOn ".").filterMap String.toInt?)
  | _ => none

def mkScripts (f : List (String × String)) : ScriptView :=
  { mintPresent := b1 (get f "mintp"), mintPolicies := strs (get f "mint"), native := strs (get f "nat"), v1 := strs (get f "v1"),
    v2 := strs (get f "v2"), v3 := strs (get f "v3"), plutusFieldPresent := b1 (get f "pf"), refScripts := strs (get f "refs"),
    inputScripts := strs (get f "insc"), sortedInputScripts := ostrs (get f "sins"), sortedPolicies := strs (get f "spol"),
    sortedWithdrawalScripts := ostrs (get f "swd"), withdrawalsOk := b1 (get f "wdok"), redeemers := (strs (get f "reds")).filterMap ptr? }

def mkDatums (f : List (String × String)) : DatumView :=
  { witnessDatums := strs (get f "wdat"), inputsResolved := b1 (get f "inres"), inputDatumHashes := ostrs (get f "idh"),
    allowedDatumHashes := strs (get f "adh") }

def mkLangs (f : List (String × String)) : LangView :=
  { used := digits (get f "used"), withCostModel := digits (get f "cm"), anyByronAddress := b1 (get f "byron"),
    anyDatumOrScriptRef := b1 (get f "dsr"), anyReferenceInput := b1 (get f "anyref"), protMagic := natOf (get f "magic") }

def mkSdh (f : List (String × String)) : SdhView :=
  { provided := optHex (get f "sdhp"), witnessSetBytes := hexBytes (get f "ws"),
    costModels := (if get f "cms" = "-" then [] else ((get f "cms").splitOn ";").filterMap costModel?),
    redeemerEnc := optHex (get f "renc"),
    datumEncs := (if get f "dencs" = "n" then none else some ((strs (get f "dencs")).map hexBytes)),
    redeemerCount := natOf (get f "rcount"), costModelBytes := hexBytes (get f "cmb") }

def mkValue : List String → ValueView
  | "VAL" :: sh :: md :: "I" :: n :: rest =>
    match (Tok.nat? n).bind (fun k => Streams.Value.takeValues k rest) with
    | some (ins, "O" :: m :: r2) =>
      match (Tok.nat? m).bind (fun k => Streams.Value.takeValues k r2) with
      | some (outs, ["M", mint]) =>
        let mt : Option Value.MA := if mint = "-" then none else Streams.Value.groups? ((mint.splitOn ";").filter (· ≠ ""))
        { modelled := b1 md, shelleyEra := b1 sh, spent := ins, produced := outs, mint := mt }
      | _ => { modelled := false, shelleyEra := false, spent := [], produced := [], mint := none }
    | _ => { modelled := false, shelleyEra := false, spent := [], produced := [], mint := none }
  | _ => { modelled := false, shelleyEra := false, spent := [], produced := [], mint := none }

def mkEx : List String → ExView
  | "EX" :: c1 :: c2 :: c3 :: enc :: mm :: ms :: us =>
    let bs := (Streams.ExUnits.units? us).getD []
    let reds : Option ExUnits.Redeemers :=
      if enc = "list" then some (.list (Streams.ExUnits.keyed bs)) else if enc = "map" then some (.map (Streams.ExUnits.keyed bs)) else none
    { wits := ⟨(Streams.ExUnits.cnt? c1).getD none, (Streams.ExUnits.cnt? c2).getD none, (Streams.ExUnits.cnt? c3).getD none, reds⟩,
      maxMem := natOf mm, maxSteps := natOf ms }
  | _ => { wits := ⟨none, none, none, none⟩, maxMem := 0, maxSteps := 0 }

def mkWit : List String → WitView
  | "WIT" :: rest =>
    match Streams.Witness.parseWits rest with
    | some (ws, r1) =>
      match Streams.Witness.parseViews r1 with
      | some (ins, r2) =>
        match Streams.Witness.parseReq r2 with
        | some (req, ["N", nb]) =>
          let tbl := ws.getD []
          { hash := Streams.Witness.hashOf tbl, verify := Streams.Witness.verifyOf tbl, requiredSigners := req,
            witnesses := ws.map (·.map (·.w)), inputViews := ins, nativeOk := b1 nb, txId := [] }
        | _ => { hash := fun _ => "?", verify := fun _ _ _ => false, requiredSigners := none, witnesses := none, inputViews := [], nativeOk := true, txId := [] }
      | none => { hash := fun _ => "?", verify := fun _ _ _ => false, requiredSigners := none, witnesses := none, inputViews := [], nativeOk := true, txId := [] }
    | none => { hash := fun _ => "?", verify := fun _ _ _ => false, requiredSigners := none, witnesses := none, inputViews := [], nativeOk := true, txId := [] }
  | _ => { hash := fun _ => "?", verify := fun _ _ _ => false, requiredSigners := none, witnesses := none, inputViews := [], nativeOk := true, txId := [] }

def mkView (f : List (String × String)) (vs : List (String × String)) (val ex wit : List String) : View :=
  { nInputs := natOf (get f "nin"), nOutputs := natOf (get f "nout"), inputsIn := bitsOf (get f "ins"),
    collateral := colls (get f "col"), refInputsIn := bitsOf (get f "ref"), validityStart := optNat (get f "start"),
    ttl := optNat (get f "ttl"), slot := natOf (get f "slot"), size := natOf (get f "size"), maxSize := natOf (get f "max"),
    fee := natOf (get f "fee"), minfeeA := natOf (get f "a"), minfeeB := natOf (get f "b"), outputs := outs (get f "outs"),
    coinsParam := natOf (get f "coins"), maxValueSize := natOf (get f "maxval"), envNetwork := natOf (get f "envnet"),
    txNetwork := optNat (get f "txnet"), plutusInWitnesses := b1 (get f "plutus"), redeemersPresent := b1 (get f "red"), maxCollateralInputs := natOf (get f "maxcol"),
    collateralPercentage := natOf (get f "pct"), paidCollateral := optNat (get f "paid"), totalCollateral := optNat (get f "total"),
    auxHashPresent := b1 (get f "auxh"), auxPresent := b1 (get f "aux"), auxHashMatches := b1 (get f "auxm"),
    scripts := mkScripts f, datums := mkDatums f, langs := mkLangs f, sdh := mkSdh f, value := mkValue val, ex := mkEx ex, wit := mkWit wit,
    external := fun r => get vs (ruleName r) == "ok" }

def splitBars (toks : List String) : List (List String) :=
  toks.foldr (fun t acc => if t = "|" then [] :: acc else match acc with | g :: gs => (t :: g) :: gs | [] => [[t]]) [[]]

def step (_ : Unit) : List String → Unit × String
  | "rl" :: era :: rest =>
    match era? era, splitBars rest with
    | some e, [_, "V" :: vtoks, "F" :: ftoks, val, ex, wit] =>
      let vs := vtoks.map kv
      let v := mkView (ftoks.map kv) vs val ex wit
      let res := match validate e v with
        | none => "ok"
        | some r => "err " ++ get vs (ruleName r)
      let bits := (order e).filter (stated e v) |>.map (fun r => " " ++ ruleName r ++ "=" ++ (if verdict e v r then "1" else "0"))
      ((), res ++ " |" ++ String.join bits)
    | _, _ => ((), "bad-op")
  | _ => ((), "bad-op")

def stream : Stream := { name := "rules", σ := Unit, init := (), step := step }

end PallasVerif.Streams.Rules
