import PallasVerif.Stream
import PallasVerif.Model.Memsec
/-! stream `memsec` (C14): `eq a b`, `cmp a b` on hex strings of equal length (length 0 = the
    documented panic); `sweep a` = digest of both functions over ALL strings `b` of the length
    of `a` (length 1 or 2), in increasing big-endian order of `b`; `exh2 a0` = implementation-side
    exhaustive oracle check of all pairs of length 2 whose first string starts with `a0` (the model
    only echoes the number of pairs). -/
namespace PallasVerif.Streams.Memsec
open PallasVerif PallasVerif.Memsec

def showOrd : Ordering → String
  | .lt => "lt" | .eq => "eq" | .gt => "gt"

def ordCode : Ordering → Nat
  | .lt => 0 | .eq => 1 | .gt => 2

structure Digest where
  nlt : Nat := 0
  neq : Nat := 0
  ngt : Nat := 0
  ntrue : Nat := 0
  chk : Nat := 0
  bad : Nat := 0

def Digest.add (d : Digest) (o : Option Ordering) (e : Option Bool) : Digest :=
  match o, e with
  | some o, some e =>
    let c := ordCode o + (if e then 3 else 0)
    { nlt := d.nlt + (if o == .lt then 1 else 0), neq := d.neq + (if o == .eq then 1 else 0),
      ngt := d.ngt + (if o == .gt then 1 else 0), ntrue := d.ntrue + (if e then 1 else 0),
      chk := (d.chk * 7 + c) % 1000000007, bad := d.bad }
  | _, _ => { d with bad := d.bad + 1 }

def Digest.show (d : Digest) : String :=
  s!"ok {d.nlt} {d.neq} {d.ngt} {d.ntrue} {d.chk} {d.bad}"

def bytesOfIndex (len : Nat) (i : Nat) : List UInt8 :=
  (List.range len).map (fun j => UInt8.ofNat ((i / 256 ^ (len - 1 - j)) % 256))

def sweep (a : List UInt8) : Digest :=
  Nat.fold (256 ^ a.length) (fun i _ d =>
    let b := bytesOfIndex a.length i
    d.add (memcmp a b) (memeq a b)) {}

def step (_ : Unit) : List String → Unit × String
  | ["eq", a, b] =>
    match Tok.unhex a, Tok.unhex b with
    | some a, some b =>
      if a.length ≠ b.length then ((), "bad-op") else
      ((), match memeq a b with | some r => "ok " ++ Tok.showBool r | none => "panic")
    | _, _ => ((), "bad-op")
  | ["cmp", a, b] =>
    match Tok.unhex a, Tok.unhex b with
    | some a, some b =>
      if a.length ≠ b.length then ((), "bad-op") else
      ((), match memcmp a b with | some r => "ok " ++ showOrd r | none => "panic")
    | _, _ => ((), "bad-op")
  | ["sweep", a] =>
    match Tok.unhex a with
    | some a => if a.length = 0 ∨ a.length > 2 then ((), "bad-op") else ((), (sweep a).show)
    | none => ((), "bad-op")
  | ["exh2", a] =>
    -- implementation-only exhaustive oracle run (2^24 pairs); the model only echoes the pair count
    match Tok.unhex a with
    | some [_] => ((), "ok 16777216")
    | _ => ((), "bad-op")
  | _ => ((), "bad-op")

def stream : Stream := { name := "memsec", σ := Unit, init := (), step := step }

end PallasVerif.Streams.Memsec
