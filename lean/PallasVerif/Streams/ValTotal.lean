import PallasVerif.Stream
import PallasVerif.Streams.Value
import PallasVerif.Model.PhaseOneArith
import PallasVerif.Model.NativeScript
/-! stream `valtotal` (C33). The whole-transaction scenarios (`mt`, `sv`, `fc`, `bw`: mutated fixtures, synthesized extremes,
    fixtures with a rewritten collateral section, Byron witness corners; see harness/src/streams/valtotal.rs) are not
    modelled as a whole; for them this stream only states the outcome class the property demands of `validate_txs` for
    every decodable scenario — `ok total` (accepted or rejected with a `ValidationError`, never a panic).
    Modelled here and compared answer by answer with the code:
      `ld <era> <value> <value>`  — `lovelace_diff_or_fail` (babbage) / `conway_lovelace_diff_or_fail` (conway)
      `cb <era> <legacy return 0|1> F <fee> P <percentage> C <n> <value>^n R <value|-> T <total|->`
                                   — `check_collaterals_assets` of alonzo / babbage / conway
      `ns <low|-> <upp|-> K <n> <key hash>^n S <m> <script>^m` — `check_native_scripts` (Shelley-MA; hook `native_scripts_ok`);
                                   <script> in prefix notation: `pk <hash>` `all <k> ..` `any <k> ..` `nk <n> <k> ..` `ib <slot>` `ih <slot>`
    What is proved about the modelled rules is in `Props/C33.lean`. -/
namespace PallasVerif.Streams.ValTotal
open PallasVerif PallasVerif.PhaseOneArith

def showDiff : Value.R Int → String
  | .ok n => s!"ok {n}"
  | .err => "err"
  | .panic => "panic"

def showColl : CollRes → String
  | .ok => "ok"
  | .negativeValue => "err NegativeValue"
  | .nonLovelace => "err NonLovelaceCollateral"
  | .minLovelace => "err CollateralMinLovelace"
  | .annotation => "err CollateralAnnotation"
  | .missing => "err CollateralMissing"
  | .tooMany => "err TooManyCollaterals"
  | .panic => "panic"

def runLd : List String → String
  | [a, b] =>
    match Streams.Value.value? a, Streams.Value.value? b with
    | some x, some y => showDiff (lovelaceDiffOrFail x y)
    | _, _ => "bad-op"
  | _ => "bad-op"

def optNat? (s : String) : Option (Option Nat) := if s = "-" then some none else (Tok.nat? s).map some
def optValue? (s : String) : Option (Option Value.Value) := if s = "-" then some none else (Streams.Value.value? s).map some

def runCb (era : String) : List String → String
  | legacy :: "F" :: fee :: "P" :: pct :: "C" :: n :: rest =>
    match (Tok.nat? n).bind (fun k => Streams.Value.takeValues k rest) with
    | some (ins, ["R", r, "T", t]) =>
      match Tok.nat? fee, Tok.nat? pct, optValue? r, optNat? t with
      | some f, some p, some ret, some total =>
        if era = "alonzo" then showColl (collateralAlonzo f p ins)
        else if era = "babbage" then showColl (collateralBalance false (legacy = "1") ins ret f p total)
        else if era = "conway" then showColl (collateralBalance true (legacy = "1") (if legacy = "1" then ins.map conwayOfLegacy else ins) ret f p total)
        else "bad-op"
      | _, _, _, _ => "bad-op"
    | _ => "bad-op"
  | _ => "bad-op"

mutual
def parseNS : Nat → List String → Option (NativeScript.NS × List String)
  | 0, _ => none
  | _ + 1, "pk" :: h :: r => some (.pubkey h, r)
  | _ + 1, "ib" :: v :: r => (Tok.nat? v).map (fun n => (.invalidBefore n, r))
  | _ + 1, "ih" :: v :: r => (Tok.nat? v).map (fun n => (.invalidHereafter n, r))
  | f + 1, "all" :: k :: r => (Tok.nat? k).bind (fun n => (parseNSList f n r).map (fun (l, r') => (.all l, r')))
  | f + 1, "any" :: k :: r => (Tok.nat? k).bind (fun n => (parseNSList f n r).map (fun (l, r') => (.any l, r')))
  | f + 1, "nk" :: n :: k :: r =>
    (Tok.nat? n).bind (fun need => (Tok.nat? k).bind (fun cnt => (parseNSList f cnt r).map (fun (l, r') => (.nOfK need l, r'))))
  | _ + 1, _ => none
def parseNSList : Nat → Nat → List String → Option (List NativeScript.NS × List String)
  | _, 0, r => some ([], r)
  | 0, _ + 1, _ => none
  | f + 1, n + 1, r =>
    match parseNS f r with
    | some (s, r') => (parseNSList f n r').map (fun (l, r'') => (s :: l, r''))
    | none => none
end

def optNatTok? (s : String) : Option (Option Nat) := if s = "-" then some none else (Tok.nat? s).map some

def runNs : List String → String
  | low :: upp :: "K" :: n :: rest =>
    match optNatTok? low, optNatTok? upp, Tok.nat? n with
    | some lo, some up, some k =>
      let keys := rest.take k
      match rest.drop k with
      | "S" :: m :: toks =>
        match (Tok.nat? m).bind (fun cnt => parseNSList (toks.length + 2) cnt toks) with
        | some (scripts, []) =>
          (match NativeScript.checkNativeScripts keys lo up scripts with
           | some true => "ok true"
           | some false => "ok false"
           | none => "panic")
        | _ => "bad-op"
      | _ => "bad-op"
    | _, _, _ => "bad-op"
  | _ => "bad-op"

def step (_ : Unit) : List String → Unit × String
  | "mt" :: _ => ((), "ok total")
  | "sv" :: _ => ((), "ok total")
  | "fc" :: _ => ((), "ok total")
  | "bw" :: _ => ((), "ok total")
  | "nt" :: _ => ((), "ok total")
  | "ns" :: rest => ((), runNs rest)
  | "ld" :: _ :: rest => ((), runLd rest)
  | "cb" :: era :: rest => ((), runCb era rest)
  | _ => ((), "bad-op")

def stream : Stream := { name := "valtotal", σ := Unit, init := (), step := step }

end PallasVerif.Streams.ValTotal
