import PallasVerif.Stream
/-! stream `valtotal` (C33). The scenarios (mutated fixtures, synthesized extremes, Byron witness corners; see
    harness/src/streams/valtotal.rs) are not modelled as a whole; this stream only states the outcome class the
    property demands of `validate_txs` for every decodable scenario — `ok total` (accepted or rejected with a
    `ValidationError`, never a panic). What is proved about the modelled rules is in `Props/C33.lean`; the rules
    themselves are compared verdict-by-verdict in the streams of C34–C37 and C39. -/
namespace PallasVerif.Streams.ValTotal
open PallasVerif

def step (_ : Unit) : List String → Unit × String
  | "mt" :: _ => ((), "ok total")
  | "sv" :: _ => ((), "ok total")
  | "bw" :: _ => ((), "ok total")
  | _ => ((), "bad-op")

def stream : Stream := { name := "valtotal", σ := Unit, init := (), step := step }

end PallasVerif.Streams.ValTotal
