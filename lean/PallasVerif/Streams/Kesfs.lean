import PallasVerif.Streams.Kes
/-! stream `kesfs` (C13): the same model adapter as `kes`; the harness side runs the forward-security
    oracle (buffer scan) on it and generates longer evolution histories. -/
namespace PallasVerif.Streams.Kesfs
def stream : PallasVerif.Stream := { PallasVerif.Streams.Kes.stream with name := "kesfs" }
end PallasVerif.Streams.Kesfs
