import PallasVerif.Streams.Cborwrap
import PallasVerif.Streams.Pdata
import PallasVerif.Streams.Byron
import PallasVerif.Streams.Address
/-!
stream `decfuzz` (C09): the Lean models of further hand-written decoders that untrusted bytes reach —
the `pallas-codec` wrappers (`Model/Minicbor` + `Model/CborWrappers`, C03), `PlutusData`
(`Model/PlutusDataDec`, C07: strict parse + tree) and Byron addresses (`Model/Byron`, C19) — run on
random bytes and structure-aware mutants; their total outcome (value / error class) is compared
with the real decoders. Ops: `w dec <type> <hex>`, `p dec <hex>`, `b frombytes|decode <hex>`, `a parse <hex>` (Shelley / stake / Byron `Address::from_bytes`, `Model/Address`, C18)
= the `dec`-style ops of the streams `cborwrap`, `pdata`, `byron`.
-/
namespace PallasVerif.Streams.Decfuzz
open PallasVerif

def step (_ : Unit) : List String → Unit × String
  | "w" :: rest => ((), (Cborwrap.step .none rest).2)
  | "p" :: rest => ((), (Pdata.step () rest).2)
  | "b" :: rest => ((), (Byron.step () rest).2)
  | "a" :: rest => ((), (Address.step () rest).2)
  | _ => ((), "bad-op")

def stream : Stream := { name := "decfuzz", σ := Unit, init := (), step := step }

end PallasVerif.Streams.Decfuzz
