import PallasVerif.Stream
import PallasVerif.Model.Ed25519
/-! stream `ed25519` (C11). Stateless.
    ops: `selftest` | `xtable <filler62>` (all 65536 (byte 0, byte 31) pairs through `check_structure`) | `pk <sk32>` | `sign <sk32> <msg>` | `xcheck <ext64>` | `xpk <ext64>` |
    `xsign <ext64> <msg>` | `verify <pk32> <msg> <sig64>` | `verifyrfc <pk32> <msg> <sig64>` (model-side strict
    RFC 8032 reference; the harness answers it with an independent implementation). -/
namespace PallasVerif.Streams.Ed25519
open PallasVerif PallasVerif.Ed25519

def okHex (b : Bytes) : String := "ok " ++ Tok.hex b

def step (_ : Unit) (toks : List String) : Unit × String :=
  ((), match toks with
  | ["selftest"] => "ok " ++ Tok.showBool selfTest
  | ["pk", sk] =>
    match Tok.unhex sk with
    | some sk => if sk.length = 32 then okHex (publicKey sk) else "bad-op"
    | none => "bad-op"
  | ["sign", sk, m] =>
    match Tok.unhex sk, Tok.unhex m with
    | some sk, some m => if sk.length = 32 then okHex (sign sk m) else "bad-op"
    | _, _ => "bad-op"
  | ["xtable", f] =>
    match Tok.unhex f with
    | some f => if f.length = 62 then okHex (checkTable f) else "bad-op"
    | none => "bad-op"
  | ["xcheck", x] =>
    match Tok.unhex x with
    | some x => if x.length = 64 then "ok " ++ Tok.showBool (checkStructure x) else "bad-op"
    | none => "bad-op"
  | ["xpk", x] =>
    match Tok.unhex x with
    | some x =>
      if x.length = 64 then (match extFromBytes x with | some k => okHex (extPublicKey k) | none => "err tweaks")
      else "bad-op"
    | none => "bad-op"
  | ["xsign", x, m] =>
    match Tok.unhex x, Tok.unhex m with
    | some x, some m =>
      if x.length = 64 then (match extFromBytes x with | some k => okHex (extSign k m) | none => "err tweaks")
      else "bad-op"
    | _, _ => "bad-op"
  | ["verify", pk, m, sg] =>
    match Tok.unhex pk, Tok.unhex m, Tok.unhex sg with
    | some pk, some m, some sg =>
      if pk.length = 32 ∧ sg.length = 64 then "ok " ++ Tok.showBool (verify pk m sg) else "bad-op"
    | _, _, _ => "bad-op"
  | _ => "bad-op")

def stream : Stream := { name := "ed25519", σ := Unit, init := (), step := step }

end PallasVerif.Streams.Ed25519
