import PallasVerif.Streams.Schema
/-! stream `schemamal`: the `dec` operation of stream `schema` on mutated encodings (compared in one
    direction only by lib/props/C06.py: model accepts ⇒ implementation accepts with the same value). -/
namespace PallasVerif.Streams.SchemaMal
open PallasVerif

def stream : Stream := { name := "schemamal", σ := Unit, init := (), step := PallasVerif.Streams.Schema.step }

end PallasVerif.Streams.SchemaMal
