import PallasVerif.Stream
import PallasVerif.Model.Utxo
import PallasVerif.Model.TxView
/-! stream `utxo` (C31): `tx <era> <hex>` loads a stand-alone transaction (the model reads the
    accessors off the generic CBOR tree), then `consumes` / `produces` / `produces_at <i>` /
    `sorted` are answered by `Model/Utxo.lean`. Inputs print as `<hashhex>#<index>`, outputs as
    `<addrhex>:<coin>`. -/
namespace PallasVerif.Streams.Utxo
open PallasVerif PallasVerif.Utxo PallasVerif.TxView

def showIn (i : TxIn) : String := Tok.hex i.hash ++ "#" ++ toString i.index
def showOut (o : OutId) : String := Tok.hex o.addr ++ ":" ++ toString o.coin
def showIns (l : List TxIn) : String := Tok.showList showIn l

abbrev St := Option (Tx OutId)

def step (st : St) : List String → St × String
  | ["tx", era, hx] =>
    match EraKind.ofString? era, Tok.unhex hx with
    | some e, some bs =>
      match viewTx e bs with
      | some tx =>
        (some tx, "ok valid=" ++ Tok.showBool tx.valid ++ " in=" ++ showIns tx.inputs ++
          " out=" ++ Tok.showList showOut tx.outputs ++ " col=" ++ showIns tx.collateral ++
          " cr=" ++ Tok.showOpt showOut tx.collateralReturn)
      | none => (none, "err decode")
    | _, _ => (none, "bad-op")
  | ["consumes"] =>
    match st with
    | some tx => (st, "ok " ++ showIns (consumes tx))
    | none => (st, "err notx")
  | ["produces"] =>
    match st with
    | some tx => (st, "ok " ++ Tok.showList (fun p => toString p.1 ++ "=" ++ showOut p.2) (produces tx))
    | none => (st, "err notx")
  | ["produces_at", i] =>
    match st, Tok.nat? i with
    | some tx, some i => (st, "ok " ++ Tok.showOpt showOut (producesAt tx i))
    | none, _ => (st, "err notx")
    | _, _ => (st, "bad-op")
  | ["sorted"] =>
    match st with
    | some tx => (st, "ok " ++ showIns (inputsSortedSet tx))
    | none => (st, "err notx")
  | _ => (st, "bad-op")

def stream : Stream := { name := "utxo", σ := St, init := none, step := step }

end PallasVerif.Streams.Utxo
