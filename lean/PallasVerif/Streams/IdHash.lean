import PallasVerif.Stream
import PallasVerif.Model.IdHash
/-! stream `idhash` (C05): Lean is the oracle — it slices the spans out of the wire bytes with the
    strict generic parser and hashes them with its own BLAKE2b. `tx <era> <hex>` → `id=`,
    then `datums` / `scripts` / `inline`; `block <hex>` → `hash=`; `header <wrapper-tag> <hex>`. -/
namespace PallasVerif.Streams.IdHash
open PallasVerif PallasVerif.Cbor PallasVerif.TxView PallasVerif.IdHash

structure St where
  era : EraKind := .conway
  top : Option Item := none
  deriving Inhabited

def showHashes (l : List Bytes) : String := Tok.showList Tok.hex l

def step (st : St) : List String → St × String
  | ["tx", era, hx] =>
    match EraKind.ofString? era, Tok.unhex hx with
    | some e, some bs =>
      match parseItem bs, txId bs with
      | some (top, []), some h => ({ era := e, top := some top }, "ok id=" ++ Tok.hex h)
      | _, _ => ({}, "err decode")
    | _, _ => ({}, "bad-op")
  | ["note", _] => (st, "ok")
  | [op] =>
    match st.top with
    | none => (st, "err notx")
    | some top =>
      if st.era = .byron then (st, "ok []") else
      match bodyWits? top with
      | none => (st, "err shape")
      | some (b, w) =>
        let set := st.era = .conway
        if op = "datums" then (st, "ok " ++ showHashes ((witnessDatumSpans set w).map datumHash))
        else if op = "scripts" then (st, "ok " ++ showHashes ((nativeScriptSpans set w).map nativeScriptHash))
        else if op = "inline" then (st, "ok " ++ showHashes ((inlineDatumSpans b).map datumHash))
        else (st, "bad-op")
  | ["block", hx] =>
    match Tok.unhex hx with
    | some bs =>
      match blockHash bs with
      | some h => (st, "ok hash=" ++ Tok.hex h)
      | none => (st, "err decode")
    | none => (st, "bad-op")
  | ["hdr", tag, sub, hx] =>
    match Tok.nat? tag, Tok.unhex hx with
    | some t, some bs =>
      match firstSpan bs with
      | some sp => (st, "ok hash=" ++ Tok.hex (headerHashN2N t (if sub = "-" then none else Tok.nat? sub) sp))
      | none => (st, "err decode")
    | _, _ => (st, "bad-op")
  | ["byrontx", hx] =>
    match Tok.unhex hx with
    | some bs =>
      match firstSpan bs with
      | some sp => (st, "ok hash=" ++ Tok.hex (Blake2b.blake2b256 sp))
      | none => (st, "err decode")
    | none => (st, "bad-op")
  | ["body", _, hx] =>
    match Tok.unhex hx with
    | some bs =>
      match firstSpan bs with
      | some sp => (st, "ok hash=" ++ Tok.hex (Blake2b.blake2b256 sp))
      | none => (st, "err decode")
    | none => (st, "bad-op")
  | ["datum", hx] =>
    match Tok.unhex hx with
    | some bs =>
      match firstSpan bs with
      | some sp => (st, "ok hash=" ++ Tok.hex (datumHash sp))
      | none => (st, "err decode")
    | none => (st, "bad-op")
  | ["script", hx] =>
    match Tok.unhex hx with
    | some bs =>
      match firstSpan bs with
      | some sp => (st, "ok hash=" ++ Tok.hex (nativeScriptHash sp))
      | none => (st, "err decode")
    | none => (st, "bad-op")
  | ["header", tag, hx] =>
    match Tok.nat? tag, Tok.unhex hx with
    | some t, some bs =>
      match firstSpan bs with
      | some sp => (st, "ok hash=" ++ Tok.hex (headerHash t sp))
      | none => (st, "err decode")
    | _, _ => (st, "bad-op")
  | _ => (st, "bad-op")

def stream : Stream := { name := "idhash", σ := St, init := {}, step := step }

end PallasVerif.Streams.IdHash
