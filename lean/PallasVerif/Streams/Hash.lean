import PallasVerif.Stream
import PallasVerif.Model.Hash
import PallasVerif.Model.Blake2bArray
/-! stream `hash` (C10): Hasher / Hash<N> codecs / nonces. Stateless.
    ops: `selftest` | `chunks <bits> <hex>*` | `hash <bits> <hex>` | `tagged <bits> <tag> <hex>` |
    `cbor <bits> <tag|-> <tok>*` | `tohex <hex>` | `fromstr <n> <hex of the string's UTF-8>` |
    `serde <hex>` | `deserde <n> <hex of JSON text>` | `enc <hex>` | `dec <n> <hex>` | `fromslice <n> <hex>` | `epoch <nc> <nh> <extra|none>` |
    `rolling <prev> <vrf>`.
    CBOR tokens: `u:<n>` `n:<n>` `b:<hex>` `t:<hex>` `a:<n>` `m:<n>` `g:<n>` `T` `F` `N` `ia` `im` `ib` `brk` `h:<hex>`. -/
namespace PallasVerif.Streams.Hash
open PallasVerif PallasVerif.Blake2b PallasVerif.Hash

def parseTok (s : String) : Option Tok :=
  match s.splitOn ":" with
  | ["u", n] => (Tok.nat? n).map .uint
  | ["n", n] => (Tok.nat? n).map .nint
  | ["b", h] => (Tok.unhex h).map .bytes
  | ["t", h] => (Tok.unhex h).map .text
  | ["a", n] => (Tok.nat? n).map .array
  | ["m", n] => (Tok.nat? n).map .map
  | ["g", n] => (Tok.nat? n).map .tag
  | ["h", h] => (Tok.unhex h).map .hash
  | ["T"] => some (.bool true)
  | ["F"] => some (.bool false)
  | ["N"] => some .null
  | ["ia"] => some .beginArray
  | ["im"] => some .beginMap
  | ["ib"] => some .beginBytes
  | ["brk"] => some .brk
  | _ => none

def parseAll {α β} (f : α → Option β) : List α → Option (List β)
  | [] => some []
  | x :: xs => match f x, parseAll f xs with
    | some y, some ys => some (y :: ys)
    | _, _ => none

def okHex (b : Bytes) : String := "ok " ++ Tok.hex b

def showHexErr : HexErr → String
  | .odd => "err odd" | .length => "err length" | .char => "err char"

def showCborErr : CborErr → String
  | .eoi => "err eoi" | .type => "err type" | .msg => "err msg"

def step (_ : Unit) (toks : List String) : Unit × String :=
  ((), match toks with
  | ["selftest"] => "ok " ++ Tok.showBool selfTest
  | "chunks" :: bits :: chunks =>
    match Tok.nat? bits, parseAll Tok.unhex chunks with
    -- the array-level transcription of cryptoxide's context (Model/Blake2bArray.lean)
    | some bits, some cs => okHex (finalizeMut (cs.foldl updateMut (initA (bits / 8))))
    | _, _ => "bad-op"
  | ["hash", bits, d] =>
    match Tok.nat? bits, Tok.unhex d with
    | some bits, some d => okHex (Hash.hash bits d)
    | _, _ => "bad-op"
  | ["tagged", bits, tag, d] =>
    match Tok.nat? bits, Tok.nat? tag, Tok.unhex d with
    | some bits, some tag, some d => okHex (hashTagged bits d (UInt8.ofNat tag))
    | _, _, _ => "bad-op"
  | "cbor" :: bits :: tag :: toks =>
    match Tok.nat? bits, parseAll parseTok toks with
    | some bits, some ts =>
      if tag = "-" then okHex (hashCbor bits (cborWrites ts))
      else match Tok.nat? tag with
        | some tag => okHex (hashTaggedCbor bits (cborWrites ts) (UInt8.ofNat tag))
        | none => "bad-op"
    | _, _ => "bad-op"
  | ["tohex", h] =>
    match Tok.unhex h with
    | some h => okHex (hashToHex h)
    | none => "bad-op"
  | ["fromstr", n, s] =>
    match Tok.nat? n, Tok.unhex s with
    | some n, some s => (match hashFromStr n s with | .ok h => okHex h | .error e => showHexErr e)
    | _, _ => "bad-op"
  | ["serde", h] =>
    match Tok.unhex h with
    | some h => okHex (hashToJson h)
    | none => "bad-op"
  | ["deserde", n, j] =>
    match Tok.nat? n, Tok.unhex j with
    | some n, some j => (match hashOfJson n j with | some h => okHex h | none => "err invalid")
    | _, _ => "bad-op"
  | ["enc", h] =>
    match Tok.unhex h with
    | some h => okHex (hashEncode h)
    | none => "bad-op"
  | ["dec", n, inp] =>
    match Tok.nat? n, Tok.unhex inp with
    | some n, some inp => (match hashDecode n inp with | .ok h => okHex h | .error e => showCborErr e)
    | _, _ => "bad-op"
  | ["fromslice", n, b] =>
    match Tok.nat? n, Tok.unhex b with
    | some n, some b => (match hashFromSlice n b with | some h => okHex h | none => "panic")
    | _, _ => "bad-op"
  | ["epoch", nc, nh, extra] =>
    match Tok.unhex nc, Tok.unhex nh with
    | some nc, some nh =>
      if extra = "none" then okHex (epochNonce nc nh none)
      else match Tok.unhex extra with
        | some e => okHex (epochNonce nc nh (some e))
        | none => "bad-op"
    | _, _ => "bad-op"
  | ["rolling", prev, vrf] =>
    match Tok.unhex prev, Tok.unhex vrf with
    | some prev, some vrf => (match rollingNonce prev vrf with | some h => okHex h | none => "panic")
    | _, _ => "bad-op"
  | _ => "bad-op")

def stream : Stream := { name := "hash", σ := Unit, init := (), step := step }

end PallasVerif.Streams.Hash
