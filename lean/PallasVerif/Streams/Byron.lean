import PallasVerif.Stream
import PallasVerif.Model.Byron
/-! stream `byron` (C19): address construction and the parsing entry points. -/
namespace PallasVerif.Streams.Byron
open PallasVerif
open PallasVerif.Cbor (Bytes)
open PallasVerif.Byron

def showErr : AddrErr → String
  | .cbor e => "err cbor-" ++ e.show
  | .base58 => "err base58"
  | .hex => "err hex"
  | .missingHeader => "err missing-header"
  | .invalidHeader => "err invalid-header"
  | .notByron => "ok other"

def showAddr (a : ByronAddress) : String := Tok.hex a.payload ++ " " ++ toString a.crc

def parseAttr (t : String) : Option AddrAttr :=
  if t = "d1" then some (.addrDistr .bootstrapEra)
  else if t.startsWith "d0:" then (Tok.unhex (t.drop 3).toString).map fun h => .addrDistr (.singleKey h)
  else if t.startsWith "p:" then (Tok.unhex (t.drop 2).toString).map .derivationPath
  else if t.startsWith "n:" then (Tok.unhex (t.drop 2).toString).map .networkTag
  else none

def showAttr : AddrAttr → String
  | .addrDistr .bootstrapEra => "d1"
  | .addrDistr (.singleKey h) => "d0:" ++ Tok.hex h
  | .derivationPath b => "p:" ++ Tok.hex b
  | .networkTag b => "n:" ++ Tok.hex b

def showPayload (p : AddressPayload) : String :=
  " ".intercalate ([Tok.hex p.root, toString p.addrtype] ++ p.attributes.map showAttr)

def parseAttrs : List String → Option (List AddrAttr)
  | [] => some []
  | t :: ts => match parseAttr t, parseAttrs ts with
    | some a, some as => some (a :: as)
    | _, _ => none

/-- `Address::from_bytes`: header nibble 8 = Byron, 9..13 = invalid header, the rest are Shelley / stake
    addresses (not modelled; the generator never produces them) -/
def addrBytes (bs : Bytes) : String :=
  match bs with
  | [] => "err missing-header"
  | h :: _ =>
    let n := h.toNat / 16
    if n = 8 then
      match fromBytes bs with
      | .ok a => "ok byron " ++ showAddr a
      | .error e => showErr e
    else if 9 ≤ n ∧ n ≤ 13 then "err invalid-header"
    else "ok other"

/-- `Address::from_str`: bech32 (assumed to fail on the generated base58 / hex strings), then
    `ByronAddress::from_base58`, then `Address::from_hex` -/
def fromStr (s : String) : String :=
  match fromBase58 s with
  | .ok a => "ok byron " ++ showAddr a
  | .error _ =>
    match Tok.unhexChars s.toList with
    | some bs =>
      match addressFromBytes bs with
      | .ok a => "ok byron " ++ showAddr a
      | .error _ => "not-byron"
    | none => "not-byron"

def step (_ : Unit) : List String → Unit × String
  | "build" :: root :: ty :: attrs =>
    match Tok.unhex root, ty.toNat?, parseAttrs attrs with
    | some r, some t, some as =>
      let a := fromDecoded ⟨r, as, t⟩
      ((), "ok " ++ Tok.hex a.toVec ++ " " ++ a.toBase58)
    | _, _, _ => ((), "bad-op")
  | ["frombytes", h] | ["corpus", h] =>
    match Tok.unhex h with
    | some bs => ((), match fromBytes bs with | .ok a => "ok " ++ showAddr a | .error e => showErr e)
    | none => ((), "bad-op")
  | ["addrbytes", h] | ["addrhex", h] =>
    match Tok.unhex h with
    | some bs => ((), addrBytes bs)
    | none => ((), "bad-op")
  | ["frombase58", s] => ((), match fromBase58 s with | .ok a => "ok " ++ showAddr a | .error e => showErr e)
  | ["fromstr", s] => ((), fromStr s)
  | ["decode", h] =>
    match Tok.unhex h with
    | some bs => ((), match (ByronAddress.mk bs 0).decode with | .ok p => "ok " ++ showPayload p | .error e => "err " ++ e.show)
    | none => ((), "bad-op")
  | ["crc", h] =>
    match Tok.unhex h with
    | some bs => ((), "ok " ++ toString (crc32 bs))
    | none => ((), "bad-op")
  | _ => ((), "bad-op")

def stream : Stream := { name := "byron", σ := Unit, init := (), step := step }

end PallasVerif.Streams.Byron
