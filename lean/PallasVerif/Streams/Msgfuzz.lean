import PallasVerif.Streams.Msgs
/-! stream `msgfuzz` (C09): the `dec` op of `Streams/Msgs` on mutated / random bytes — the Lean
    message decoders are total functions, their value / `eoi` / `other` outcome is compared with
    `minicbor::decode::<Message>` of the real codecs. -/
namespace PallasVerif.Streams.Msgfuzz
open PallasVerif

def stream : Stream := { Msgs.stream with name := "msgfuzz" }

end PallasVerif.Streams.Msgfuzz
