import PallasVerif.Streams.Flat
/-! stream `flatdec`: the same adapter as `flat`, fed by the malformed-input generator (C02). -/
namespace PallasVerif.Streams.Flatdec
def stream : PallasVerif.Stream := { PallasVerif.Streams.Flat.stream with name := "flatdec" }
end PallasVerif.Streams.Flatdec
