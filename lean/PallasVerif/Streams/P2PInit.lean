import PallasVerif.Stream
import PallasVerif.Model.P2PInitiator
/-! stream `p2p_init`: the initiator behaviour model driven by commands and interface events.

  ops: `cfg maxPeers maxWarm maxHot maxErr` | `include p` | `hk [@ ord.. ; taken.. @]` | `idle [@ .. @]`
  | `startsync` | `continuesync p` | `reqblocks r` | `sendtx` | `fetcheb p eb` | `fetchebtxs p eb`
  | `ban p` | `demote p` | `connected p` | `disconnected p` | `error p` | `sent p msg` | `recv p msg..`
  The `@ .. @` part of `hk`/`idle` is the hash-map iteration order and the drained discovery subset the
  implementation used; the check copies it from the implementation's reply into the op before the
  model runs (lib/p2p_twopass.py), the model echoes it.
  reply: `ok [outputs] C[..] W[..] H[..] B[..] D[..] Q<n>/<m> | peer..`, `panic`, then `dead`. -/
namespace PallasVerif.Streams.P2PInit
open PallasVerif PallasVerif.P2P

def insSorted (x : Nat) : List Nat → List Nat
  | [] => [x]
  | y :: ys => if x ≤ y then x :: y :: ys else y :: insSorted x ys
def sortNat (l : List Nat) : List Nat := l.foldr insSorted []

def showNats (sep : String) (l : List Nat) : String := sep.intercalate (l.map toString)
def showSet (l : List Nat) : String := "[" ++ showNats "," (sortNat l) ++ "]"

/-! ### message tokens -/

def splitColon (s : String) : List String := s.splitOn ":"

def natList? (s : String) : Option (List Nat) :=
  if s = "-" || s = "" then some [] else (s.splitOn ",").mapM Tok.nat?

def pair? (s : String) : Option (Nat × Nat) :=
  match s.splitOn "-" with
  | [a, b] => match Tok.nat? a, Tok.nat? b with
    | some x, some y => some (x, y)
    | _, _ => none
  | _ => none

def pairList? (s : String) : Option (List (Nat × Nat)) :=
  if s = "-" || s = "" then some [] else (s.splitOn ",").mapM pair?

def parseMsg (t : String) : Option Msg :=
  match splitColon t with
  | ["hs.propose"] => some (.hs (.propose []))
  | ["hs.propose", tbl] => (pairList? tbl).map (fun l => .hs (.propose l))
  | ["hs.accept", v, ps] =>
    match Tok.nat? v, (if ps = "x" then some 0 else Tok.nat? ps) with
    | some v, some ps => some (.hs (.accept v ps))
    | _, _ => none
  | ["hs.refuse"] => some (.hs .refuse)
  | ["hs.query"] => some (.hs .queryReply)
  | ["ka.keepalive", c] => (Tok.nat? c).map (fun c => .ka (.keepAlive c))
  | ["ka.resp", c] => (Tok.nat? c).map (fun c => .ka (.response c))
  | ["ka.done"] => some (.ka .done)
  | ["ps.req", n] => (Tok.nat? n).map (fun n => .ps (.shareRequest n))
  | ["ps.peers", l] => (natList? l).map (fun l => .ps (.sharePeers l))
  | ["ps.done"] => some (.ps .done)
  | ["bf.req", r] => (Tok.nat? r).map (fun r => .bf (.requestRange r))
  | ["bf.clientdone"] => some (.bf .clientDone)
  | ["bf.start"] => some (.bf .startBatch)
  | ["bf.noblocks"] => some (.bf .noBlocks)
  | ["bf.block", b] => (Tok.nat? b).map (fun b => .bf (.block b))
  | ["bf.batchdone"] => some (.bf .batchDone)
  | ["cs.reqnext"] => some (.cs .requestNext)
  | ["cs.await"] => some (.cs .awaitReply)
  | ["cs.fwd", h] => (Tok.nat? h).map (fun h => .cs (.rollForward h))
  | ["cs.bwd", p] => (Tok.nat? p).map (fun p => .cs (.rollBackward p))
  | ["cs.find"] => some (.cs .findIntersect)
  | ["cs.found", p] => (Tok.nat? p).map (fun p => .cs (.intersectFound p))
  | ["cs.notfound"] => some (.cs .intersectNotFound)
  | ["cs.done"] => some (.cs .done)
  | ["tx.init"] => some (.tx .init)
  | ["tx.reqids"] => some (.tx .requestTxIds)
  | ["tx.replyids"] => some (.tx .replyTxIds)
  | ["tx.reqtxs"] => some (.tx .requestTxs)
  | ["tx.replytxs", n] => (Tok.nat? n).map (fun n => .tx (.replyTxs n))
  | ["tx.done"] => some (.tx .done)
  | ["ln.reqnext"] => some (.ln .requestNext)
  | ["ln.announce"] => some (.ln .blockAnnouncement)
  | ["ln.offer"] => some (.ln .blockOffer)
  | ["ln.txsoffer"] => some (.ln .blockTxsOffer)
  | ["ln.votes"] => some (.ln .votes)
  | ["ln.done"] => some (.ln .done)
  | ["lf.blockreq", e] => (Tok.nat? e).map (fun e => .lf (.blockRequest e))
  | ["lf.block"] => some (.lf .block)
  | ["lf.txsreq", e] => (Tok.nat? e).map (fun e => .lf (.blockTxsRequest e))
  | ["lf.blocktxs"] => some (.lf .blockTxs)
  | ["lf.done"] => some (.lf .done)
  | _ => none

def showPairs (l : List (Nat × Nat)) : String :=
  ",".intercalate (l.map (fun x => toString x.1 ++ "-" ++ toString x.2))

/-- `tbl = true`: print the proposed version table (responder side), else drop it -/
def showMsg (tbl : Bool) : Msg → String
  | .hs (.propose t) => if tbl && !t.isEmpty then "hs.propose:" ++ showPairs t else "hs.propose"
  | .hs (.accept v ps) => s!"hs.accept:{v}:{ps}"
  | .hs .refuse => "hs.refuse"
  | .hs .queryReply => "hs.query"
  | .ka (.keepAlive c) => s!"ka.keepalive:{c}"
  | .ka (.response c) => s!"ka.resp:{c}"
  | .ka .done => "ka.done"
  | .ps (.shareRequest n) => s!"ps.req:{n}"
  | .ps (.sharePeers l) => "ps.peers:" ++ (if l.isEmpty then "-" else showNats "," l)
  | .ps .done => "ps.done"
  | .bf (.requestRange r) => s!"bf.req:{r}"
  | .bf .clientDone => "bf.clientdone"
  | .bf .startBatch => "bf.start"
  | .bf .noBlocks => "bf.noblocks"
  | .bf (.block b) => s!"bf.block:{b}"
  | .bf .batchDone => "bf.batchdone"
  | .cs .requestNext => "cs.reqnext"
  | .cs .awaitReply => "cs.await"
  | .cs (.rollForward h) => s!"cs.fwd:{h}"
  | .cs (.rollBackward p) => s!"cs.bwd:{p}"
  | .cs .findIntersect => "cs.find"
  | .cs (.intersectFound p) => s!"cs.found:{p}"
  | .cs .intersectNotFound => "cs.notfound"
  | .cs .done => "cs.done"
  | .tx .init => "tx.init"
  | .tx .requestTxIds => "tx.reqids"
  | .tx .replyTxIds => "tx.replyids"
  | .tx .requestTxs => "tx.reqtxs"
  | .tx (.replyTxs n) => s!"tx.replytxs:{n}"
  | .tx .done => "tx.done"
  | .ln .requestNext => "ln.reqnext"
  | .ln .blockAnnouncement => "ln.announce"
  | .ln .blockOffer => "ln.offer"
  | .ln .blockTxsOffer => "ln.txsoffer"
  | .ln .votes => "ln.votes"
  | .ln .done => "ln.done"
  | .lf (.blockRequest e) => s!"lf.blockreq:{e}"
  | .lf .block => "lf.block"
  | .lf (.blockTxsRequest e) => s!"lf.txsreq:{e}"
  | .lf .blockTxs => "lf.blocktxs"
  | .lf .done => "lf.done"

/-! ### state -/

def showConn : Conn → String
  | .new => "n" | .connecting => "g" | .connected => "c" | .initialized => "i"
  | .disconnected => "d" | .errored => "e"

def showTag : Tag → String
  | .cold => "C" | .warm => "W" | .hot => "H" | .banned => "B"

def showHs : HsSt → String
  | .propose => "P" | .confirm _ => "C" | .accepted v ps => s!"A{v}.{ps}" | .rejected => "R" | .queryReply => "Q"

def showKa : KaSt → String
  | .client none => "C-" | .client (some c) => s!"C{c}" | .server c => s!"S{c}" | .done => "D"

def showPs : PsSt → String
  | .idle none => "I-" | .idle (some l) => "I[" ++ showNats "," l ++ "]" | .busy n => s!"B{n}" | .done => "D"

def showBf : BfSt → String
  | .idle => "I" | .busy r => s!"B{r}" | .streaming none => "S-" | .streaming (some b) => s!"S{b}" | .done => "D"

def showCs : CsSt → String
  | .idle .new => "In" | .idle (.intersection p) => s!"Ii{p}" | .idle .noIntersection => "Ix"
  | .idle (.content h) => s!"Ic{h}" | .idle (.rollback p) => s!"Ir{p}" | .idle .drained => "Id"
  | .canAwait => "A" | .mustReply => "M" | .intersect => "X" | .done => "D"

def showTx : TxSt → String
  | .init => "N" | .idle => "I" | .txIdsNonBlocking => "n" | .txIdsBlocking => "b" | .txs n => s!"T{n}" | .done => "D"

def showLn : LnSt → String
  | .idle false => "I0" | .idle true => "I1" | .busy => "B" | .done => "D"

def showLf : LfSt → String
  | .idle none => "I-" | .idle (some e) => s!"I{e}" | .awaitingBlock e => s!"A{e}"
  | .awaitingBlockTxs e => s!"T{e}" | .done => "D"

def showPeer (p : Nat) (st : Peer) : String :=
  s!"{p}:{showTag st.tag}{showConn st.conn}:v{if st.violation then 1 else 0}:e{st.errorCount}:s{if st.continueSync then 1 else 0}:" ++
  "/".intercalate [showHs st.hs, showKa st.ka, showPs st.ps, showBf st.bf, showCs st.cs, showTx st.tx,
    showLn st.ln, showLf st.lf]

def showEvent : Event → String
  | .peerInitialized p v => s!"ev.init:{p}:{v}"
  | .intersectionFound p pt => s!"ev.isect:{p}:{pt}"
  | .blockHeader p h => s!"ev.hdr:{p}:{h}"
  | .rollback p pt => s!"ev.rb:{p}:{pt}"
  | .blockBody p b => s!"ev.body:{p}:{b}"
  | .ebNotification p => s!"ev.ebnote:{p}"
  | .ebFetched p eb => s!"ev.ebfetched:{p}:{eb}"

def showOut : Out → String
  | .connect p => s!"connect:{p}"
  | .disconnect p => s!"disconnect:{p}"
  | .send p m => s!"send:{p}:" ++ showMsg false m
  | .event e => showEvent e

def showSt (ids : List Nat) (s : St) : String :=
  let ps := (sortNat ids).filterMap (fun p => (s.peers p).map (showPeer p))
  "[" ++ " ".intercalate (s.out.map showOut) ++ "] C" ++ showSet s.cold ++ " W" ++ showSet s.warm ++
  " H" ++ showSet s.hot ++ " B" ++ showSet s.banned ++ " D" ++ showSet s.discovered ++
  s!" Q{s.bfQueue.length}/{s.lfQueue.length} |" ++ String.join (ps.map (" " ++ ·))

/-! ### ops -/

/-- `@ a b ; c d @` -> (ord, taken) -/
def parseAnnot (toks : List String) : Option (List Nat × List Nat) :=
  match toks with
  | [] => some ([], [])
  | "@" :: rest =>
    let body := rest.takeWhile (· ≠ "@")
    let a := body.takeWhile (· ≠ ";")
    let b := (body.dropWhile (· ≠ ";")).drop 1
    match a.mapM Tok.nat?, b.mapM Tok.nat? with
    | some a, some b => some (a, b)
    | _, _ => none
  | _ => none

def parseEv : List String → Option Ev
  | ["include", p] => (Tok.nat? p).map .includePeer
  | "hk" :: rest => (parseAnnot rest).map (fun a => .housekeeping a.1 a.2)
  | "idle" :: rest => (parseAnnot rest).map (fun a => .idle a.1 a.2)
  | ["startsync"] => some .startSync
  | ["continuesync", p] => (Tok.nat? p).map .continueSync
  | ["reqblocks", r] => (Tok.nat? r).map .requestBlocks
  | ["sendtx"] => some .sendTx
  | ["fetcheb", p, e] => match Tok.nat? p, Tok.nat? e with
    | some p, some e => some (.fetchEb p e) | _, _ => none
  | ["fetchebtxs", p, e] => match Tok.nat? p, Tok.nat? e with
    | some p, some e => some (.fetchEbTxs p e) | _, _ => none
  | ["ban", p] => (Tok.nat? p).map .banPeer
  | ["demote", p] => (Tok.nat? p).map .demotePeer
  | ["connected", p] => (Tok.nat? p).map .connected
  | ["disconnected", p] => (Tok.nat? p).map .disconnected
  | ["error", p] => (Tok.nat? p).map .error
  | ["sent", p, m] => match Tok.nat? p, parseMsg m with
    | some p, some m => some (.sent p m) | _, _ => none
  | "recv" :: p :: ms => match Tok.nat? p, ms.mapM parseMsg with
    | some p, some ms => some (.recv p ms) | _, _ => none
  | _ => none

def msgIds : Msg → List Nat
  | .ps (.sharePeers l) => l
  | _ => []

def evIds : Ev → List Nat
  | .includePeer p | .continueSync p | .banPeer p | .demotePeer p | .connected p | .disconnected p
  | .error p | .fetchEb p _ | .fetchEbTxs p _ => [p]
  | .sent p m => p :: msgIds m
  | .recv p ms => p :: ms.flatMap msgIds
  | .housekeeping o t | .idle o t => o ++ t
  | _ => []

structure S where
  st : Option St := none
  dead : Bool := false
  ids : List Nat := []

def annotEcho : Ev → String
  | .housekeeping o t | .idle o t => "@ " ++ showNats " " o ++ " ; " ++ showNats " " t ++ " @ "
  | _ => ""

def stepS (σ : S) (toks : List String) : S × String :=
  if σ.dead then (σ, "dead") else
  match toks with
  | ["cfg", a, b, c, d] =>
    match Tok.nat? a, Tok.nat? b, Tok.nat? c, Tok.nat? d with
    | some a, some b, some c, some d =>
      let s := St.init { maxPeers := a, maxWarm := b, maxHot := c, maxErr := d }
      ({ σ with st := some s }, "ok " ++ showSt σ.ids s)
    | _, _, _, _ => (σ, "bad-op")
  | _ =>
    match σ.st, parseEv toks with
    | some s, some e =>
      let ids := (evIds e).foldl (fun acc x => sinsert x acc) σ.ids
      match step s e with
      | some s' => ({ σ with st := some s', ids := ids }, "ok " ++ annotEcho e ++ showSt ids s')
      | none => ({ σ with dead := true }, "panic")
    | _, _ => (σ, "bad-op")

def stream : Stream := { name := "p2p_init", σ := S, init := {}, step := stepS }

end PallasVerif.Streams.P2PInit
