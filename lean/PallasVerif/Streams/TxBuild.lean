import PallasVerif.Stream
import PallasVerif.Model.TxBuild
import PallasVerif.Model.TxBuildEnc
/-! stream `txbuild`: staging ops as token lines, `build` prints the canonical view of the built
    transaction (everything that comes out of a `HashMap` iteration is printed sorted). Payload
    tokens carry the `ok` bit (does pallas decode it) and scripts / datums their hash key, both
    computed by the generator with pallas-crypto / the pallas decoders. -/
namespace PallasVerif.Streams.TxBuild
open PallasVerif PallasVerif.TxBuild

def bytes? (s : String) : Option Bytes := (Tok.unhex s).map (·.map (·.toNat))

def beNat (b : Bytes) : Nat := b.foldl (fun acc x => acc * 256 + x) 0

/-- fixed-width hash token -/
def hash? (w : Nat) (s : String) : Option Hash :=
  match bytes? s with
  | some b => if b.length = w then some (beNat b) else none
  | none => none

def inp? (s : String) : Option Inp :=
  match s.splitOn ":" with
  | [h, i] => match hash? 32 h, Tok.nat? i with
    | some h, some i => some (h, i)
    | _, _ => none
  | _ => none

def hexDigits (n : Nat) : Nat → List Char
  | 0 => []
  | w + 1 => hexDigits (n / 16) w ++ [Tok.hexDigit (n % 16)]

def showHash (w : Nat) (h : Hash) : String := String.ofList (hexDigits h (2 * w))
def showBytes (b : Bytes) : String := if b.isEmpty then "-" else String.join (b.map (fun x => String.ofList (hexDigits x 2)))
def showInp (i : Inp) : String := showHash 32 i.1 ++ ":" ++ toString i.2
def showOptNat : Option Nat → String
  | none => "none"
  | some n => toString n

def sortStrings (l : List String) : List String := l.mergeSort (fun a b => decide (a ≤ b))

def showAssets {Q : Type} (sh : Q → String) (m : Assets Q) : String :=
  let ps := m.map (fun e =>
    let ns := (e.2.map (fun x => (showBytes x.1, sh x.2))).mergeSort (fun a b => decide (a.1 ≤ b.1))
    showHash 28 e.1 ++ ":{" ++ ",".intercalate (ns.map (fun x => x.1 ++ "=" ++ x.2)) ++ "}")
  "{" ++ ",".intercalate ps ++ "}"

def showOut (o : BuiltOutput) : String :=
  let d := match o.datum with
    | none => "none"
    | some (.hash b) => "h." ++ showBytes b
    | some (.inline p) => "i." ++ showBytes p.bytes
  let s := match o.script with
    | none => "none"
    | some sc => toString sc.kind ++ "." ++ showBytes sc.body.bytes
  showBytes o.addr ++ "/" ++ toString o.coin ++ "/" ++ showAssets (fun (q : Nat) => toString q) o.assets ++ "/" ++ d ++ "/" ++ s

/-- the hash value is printed when it does not depend on a `HashMap` iteration order (at most one
    redeemer and one witness datum), otherwise only its presence -/
def showSdh (t : BuiltTx) : String :=
  match t.scriptDataHash with
  | none => "0"
  | some h => if t.redeemers.length ≤ 1 && t.datums.length ≤ 1 then showBytes h else "1"

def showB8 (b : List UInt8) : String := showBytes (b.map (·.toNat))

/-- the body (hence the id) depends on a `HashMap` iteration order only through the script data hash -/
def idOrderFree (t : BuiltTx) : Bool := t.redeemers.length ≤ 1 && t.datums.length ≤ 1

/-- the witness set lists scripts per language in `HashMap` order -/
def txOrderFree (t : BuiltTx) : Bool :=
  idOrderFree t && [0, 1, 2, 3].all (fun k => (TxBuildEnc.scriptsOf t k).length ≤ 1)

/-- the id the model computes: BLAKE2b-256 of the body bytes it produces itself -/
def showId (t : BuiltTx) : String :=
  if idOrderFree t then (match TxBuildEnc.txId t with | some h => showB8 h | none => "none") else "*"

/-- the full `tx_bytes` the model produces -/
def showTxBytes (t : BuiltTx) : String :=
  if txOrderFree t then (match TxBuildEnc.txBytes t with | some b => showB8 b | none => "none") else "*"

def showTx (t : BuiltTx) : String :=
  let l (xs : List Inp) := Tok.showList showInp xs
  let sc := sortStrings (t.scripts.map (fun e => toString e.1 ++ ":" ++ showBytes e.2))
  let pd := sortStrings (t.datums.map showBytes)
  let rd := sortStrings (t.redeemers.map (fun r =>
    toString r.tag ++ ":" ++ toString r.index ++ ":" ++ showBytes r.data ++ ":" ++ toString r.mem ++ ":" ++ toString r.steps))
  "in=" ++ l t.inputs ++ " out=" ++ Tok.showList showOut t.outputs ++ " fee=" ++ toString t.fee ++
  " ttl=" ++ showOptNat t.ttl ++ " vf=" ++ showOptNat t.validFrom ++
  " mint=" ++ showAssets (fun (q : Int) => toString q) t.mint ++ " coll=" ++ l t.collateral ++
  " sig=" ++ Tok.showList (showHash 28) t.signers ++ " net=" ++ showOptNat t.networkId ++
  " cr=" ++ (match t.collateralReturn with | none => "none" | some o => showOut o) ++
  " ref=" ++ l t.refInputs ++ " sdh=" ++ showSdh t ++
  " adh=" ++ (if t.auxDataHash then "1" else "0") ++
  " sc=" ++ Tok.showList id sc ++ " pd=" ++ Tok.showList id pd ++ " rd=" ++ Tok.showList id rd ++
  " aux=" ++ (match t.aux with | none => "none" | some b => showBytes b) ++ " id=" ++ showId t ++ " tx=" ++ showTxBytes t

def showErr : Err → String
  | .assetName => "assetname" | .script => "script" | .datum => "datum" | .datumHash => "datumhash"
  -- `HashMap` iteration order decides which redeemer fails first: the three classes of that loop print alike
  | .netId => "netid" | .target => "redeemer" | .exUnits => "redeemer" | .redeemerData => "redeemer"

def kind? : String → Option Nat
  | "native" => some 0 | "v1" => some 1 | "v2" => some 2 | "v3" => some 3 | _ => none

def payload? (b ok : String) : Option Payload :=
  match bytes? b, Tok.bool? ok with
  | some b, some ok => some { bytes := b, ok }
  | _, _ => none

/-- `n` asset triples, folded through `Output::add_asset` -/
def addAssets : Nat → Res Output → List String → Option (Res Output × List String)
  | 0, o, rest => some (o, rest)
  | n + 1, o, p :: name :: amt :: rest =>
    match hash? 28 p, bytes? name, Tok.nat? amt with
    | some p, some name, some amt =>
      let o' := match o with
        | .ok o => o.addAsset p name amt
        | r => r
      addAssets n o' rest
    | _, _, _ => none
  | _, _, _ => none

def datum? : List String → Option (Option Datum × List String)
  | "none" :: rest => some (none, rest)
  | "hash" :: b :: rest => (bytes? b).map (fun b => (some (.hash b), rest))
  | "inline" :: b :: ok :: rest => (payload? b ok).map (fun p => (some (.inline p), rest))
  | _ => none

def script? : List String → Option (Option Script)
  | ["none"] => some none
  | [k, b, ok] => match kind? k, payload? b ok with
    | some k, some p => some (some { kind := k, body := p })
    | _, _ => none
  | _ => none

def output? : List String → Option (Res Output)
  | addr :: coin :: n :: rest =>
    match bytes? addr, Tok.nat? coin, Tok.nat? n with
    | some addr, some coin, some n =>
      match addAssets n (.ok { addr, coin, assets := [], datum := none, script := none }) rest with
      | some (ro, rest) =>
        match datum? rest with
        | some (d, rest) =>
          match script? rest with
          | some sc => some (match ro with
              | .ok o => .ok { o with datum := d, script := sc }
              | r => r)
          | none => none
        | none => none
      | none => none
    | _, _, _ => none
  | _ => none

def exUnits? : List String → Option (Option (Nat × Nat))
  | ["none"] => some none
  | ["some", m, s] => match Tok.nat? m, Tok.nat? s with
    | some m, some s => some (some (m, s))
    | _, _ => none
  | _ => none

def ints? : List String → Option (List Int)
  | [] => some []
  | x :: t => match Tok.int? x, ints? t with
    | some x, some t => some (x :: t)
    | _, _ => none

/-- a staging line as a builder call; `some (.err _)` / `some .panic`: a call made while assembling the
    argument (`Output::add_asset`) already failed -/
def op? : List String → Option (Res Op)
  | ["input", i] => (inp? i).map (fun i => .ok (.input i))
  | ["rminput", i] => (inp? i).map (fun i => .ok (.removeInput i))
  | ["refin", i] => (inp? i).map (fun i => .ok (.referenceInput i))
  | ["rmrefin", i] => (inp? i).map (fun i => .ok (.removeReferenceInput i))
  | ["collin", i] => (inp? i).map (fun i => .ok (.collateralInput i))
  | ["rmcollin", i] => (inp? i).map (fun i => .ok (.removeCollateralInput i))
  | "output" :: rest => (output? rest).map (fun r => r.bind (fun o => .ok (.output o)))
  | "collout" :: rest => (output? rest).map (fun r => r.bind (fun o => .ok (.collateralOutput (some o))))
  | ["clearcollout"] => some (.ok (.collateralOutput none))
  | ["rmoutput", i] => (Tok.nat? i).map (fun i => .ok (.removeOutput i))
  | ["fee", n] => (Tok.nat? n).map (fun n => .ok (.fee (some n)))
  | ["clearfee"] => some (.ok (.fee none))
  | ["validfrom", n] => (Tok.nat? n).map (fun n => .ok (.validFrom (some n)))
  | ["clearvalidfrom"] => some (.ok (.validFrom none))
  | ["invalidfrom", n] => (Tok.nat? n).map (fun n => .ok (.invalidFrom (some n)))
  | ["clearinvalidfrom"] => some (.ok (.invalidFrom none))
  | ["netid", n] => (Tok.nat? n).map (fun n => .ok (.networkId (some n)))
  | ["clearnetid"] => some (.ok (.networkId none))
  | ["mint", p, n, q] =>
    match hash? 28 p, bytes? n, Tok.int? q with
    | some p, some n, some q => some (.ok (.mintAsset p n q))
    | _, _, _ => none
  | ["rmmint", p, n] =>
    match hash? 28 p, bytes? n with
    | some p, some n => some (.ok (.removeMintAsset p n))
    | _, _ => none
  | ["signer", h] => (hash? 28 h).map (fun h => .ok (.disclosedSigner h))
  | ["rmsigner", h] => (hash? 28 h).map (fun h => .ok (.removeDisclosedSigner h))
  | ["script", k, b, ok, h] =>
    match kind? k, payload? b ok, hash? 28 h with
    | some k, some p, some h => some (.ok (.script h { kind := k, body := p }))
    | _, _, _ => none
  | ["rmscript", h] => (hash? 28 h).map (fun h => .ok (.removeScript h))
  | ["datum", b, ok, h] =>
    match payload? b ok, hash? 32 h with
    | some p, some h => some (.ok (.datum h p))
    | _, _ => none
  | ["rmdatum", _, h] => (hash? 32 h).map (fun h => .ok (.removeDatum h))
  | ["rmdatumhash", h] => (hash? 32 h).map (fun h => .ok (.removeDatum h))
  | "addlang" :: k :: _ :: costs =>
    match kind? k, ints? costs with
    | some k, some c => some (.ok (.addLanguage k c))
    | _, _ => none
  | "spendrd" :: i :: b :: ok :: ex =>
    match inp? i, payload? b ok, exUnits? ex with
    | some i, some p, some ex => some (.ok (.addRedeemer (.spend i) { data := p, exUnits := ex }))
    | _, _, _ => none
  | "mintrd" :: p :: b :: ok :: ex =>
    match hash? 28 p, payload? b ok, exUnits? ex with
    | some pid, some p, some ex => some (.ok (.addRedeemer (.mint pid) { data := p, exUnits := ex }))
    | _, _, _ => none
  | ["rmspendrd", i] => (inp? i).map (fun i => .ok (.removeRedeemer (.spend i)))
  | ["rmmintrd", p] => (hash? 28 p).map (fun p => .ok (.removeRedeemer (.mint p)))
  | ["aux", b, ok] => (payload? b ok).map (fun p => .ok (.addAux p))
  | ["clearaux"] => some (.ok .clearAux)
  | _ => none

def step (s : Staging) : List String → Staging × String
  | ["build"] =>
    match build s with
    | .ok t => (s, "ok " ++ showTx t)
    | .err e => (s, "err " ++ showErr e)
    | .panic => (s, "panic")
  | toks =>
    match op? toks with
    | none => (s, "bad-op")
    | some r =>
      match r.bind s.apply with
      | .ok s' => (s', "ok")
      | .err e => (s, "err " ++ showErr e)
      | .panic => (s, "panic")

def stream : Stream := { name := "txbuild", σ := Staging, init := {}, step := step }

end PallasVerif.Streams.TxBuild
