import PallasVerif.Stream
import PallasVerif.Model.Kes
/-! stream `kes` (C12) and its twin `kesfs` (C13, `Streams/Kesfs.lean`): sum / compact-sum KES on bytes.
    State: the current key (variant, depth, tree, period).
    ops: `keygen <sum|compact> <depth> <seed32>` -> `ok <pk> <key buffer>` | `update` -> `ok <key buffer>` / `err nomore` |
    `period` | `topk` | `sign <msg>` -> `ok <sig bytes>` | `verify <period> <pk> <msg> <sig>` -> `ok true|false` / `err sigbytes` |
    `sigrt <sig>` -> `ok <sig bytes>` / `err sigbytes`. -/
namespace PallasVerif.Streams.Kes
open PallasVerif PallasVerif.Kes

structure St where
  compact : Bool
  sk : SK conc
  lastSig : Bytes := []

def flipBit (v : Bytes) (n : Nat) : Bytes :=
  if v.isEmpty then v else
  let k := n % (v.length * 8)
  v.set (k / 8) (v.getD (k / 8) 0 ^^^ (1 <<< (UInt8.ofNat (k % 8))))

/-- `@` = the last signature made, `@flipN` = one bit of it flipped, `@cutN` = truncated -/
def sigArg (last : Bytes) (s : String) : Option Bytes :=
  if s = "@" then some last
  else if s.startsWith "@flip" then (Tok.nat? (s.drop 5).toString).map (flipBit last)
  else if s.startsWith "@cut" then (Tok.nat? (s.drop 4).toString).map (fun n => last.take (n % (last.length + 1)))
  else Tok.unhex s

def okHex (b : Bytes) : String := "ok " ++ Tok.hex b

def parseSig (compact : Bool) (d : Nat) (bs : Bytes) : Option (Sum (SumSig conc) (CSig conc)) :=
  if compact then (cSigOfBytes d bs).map .inr else (sumSigOfBytes d bs).map .inl

def step (st : Option St) (toks : List String) : Option St × String :=
  match toks, st with
  | ["keygen", v, d, seed], _ =>
    match Tok.nat? d, Tok.unhex seed with
    | some d, some seed =>
      if seed.length = 32 ∧ (v = "sum" ∨ v = "compact") then
        let r := skKeygen conc d seed
        (some { compact := v = "compact", sk := r.1 }, "ok " ++ Tok.hex r.2 ++ " " ++ Tok.hex (skBytes r.1))
      else (st, "bad-op")
    | _, _ => (st, "bad-op")
  | ["update"], some s =>
    match skUpdate conc s.sk with
    | some sk' => (some { s with sk := sk' }, okHex (skBytes sk'))
    | none => (st, "err nomore")
  | ["period"], some s => (st, "ok " ++ toString s.sk.period)
  | ["topk"], some s => (st, okHex (toPk conc s.sk.key))
  | ["sign", m], some s =>
    match Tok.unhex m with
    | some m =>
      if s.compact then
        match csign conc s.sk.depth s.sk.key m s.sk.period with
        | some sg => (some { s with lastSig := cSigBytes sg }, okHex (cSigBytes sg))
        | none => (st, "panic")
      else
        let b := sumSigBytes (sign conc s.sk.key m)
        (some { s with lastSig := b }, okHex b)
    | none => (st, "bad-op")
  | ["verify", t, pk, m, sg], some s =>
    match Tok.nat? t, Tok.unhex pk, Tok.unhex m, sigArg s.lastSig sg with
    | some t, some pk, some m, some sg =>
      if pk.length ≠ 32 then (st, "bad-op") else
      match parseSig s.compact s.sk.depth sg with
      | some (.inl g) => (st, "ok " ++ Tok.showBool (verify conc s.sk.depth g t pk m))
      | some (.inr g) => (st, "ok " ++ Tok.showBool (cverify conc s.sk.depth g t pk m))
      | none => (st, "err sigbytes")
    | _, _, _, _ => (st, "bad-op")
  | ["sigrt", sg], some s =>
    match sigArg s.lastSig sg with
    | some sg =>
      match parseSig s.compact s.sk.depth sg with
      | some (.inl g) => (st, okHex (sumSigBytes g))
      | some (.inr g) => (st, okHex (cSigBytes g))
      | none => (st, "err sigbytes")
    | none => (st, "bad-op")
  | _, _ => (st, "bad-op")

def stream : Stream := { name := "kes", σ := Option St, init := none, step := step }

end PallasVerif.Streams.Kes
