import PallasVerif.Stream
import PallasVerif.Model.Schema
import PallasVerif.Gen.SchemaEra
/-! stream `schema`: the translated era schemas run on value text / bytes
    (`enc <Type> <seed> <value text..>`, `dec <Type> <hex>`); value text as in
    harness/src/fixtures/schema_traits.rs. -/
namespace PallasVerif.Streams.Schema
open PallasVerif PallasVerif.Cbor PallasVerif.Schema

def fuel : Nat := 400

def itemOfHex (h : String) : Option Item :=
  match Tok.unhex h with
  | some bs =>
    match parseItem bs with
    | some (it, []) => some it
    | _ => none
  | none => none

def hexBody (s : String) : String := String.ofList (s.toList.drop 1)

mutual
def parseVal : Nat → List String → Option (Value × List String)
  | 0, _ => none
  | _, [] => none
  | f + 1, t :: rest =>
    if t = "T" then some (.bool true, rest)
    else if t = "F" then some (.bool false, rest)
    else if t = "U" then some (.unit, rest)
    else if t = "N" then some (.none, rest)
    else if t = "S" then
      match parseVal f rest with
      | some (v, r) => some (.some v, r)
      | none => none
    else if t = "[" then
      match parseVals f rest with
      | some (vs, r) => some (.list vs, r)
      | none => none
    else
      match t.toList with
      | 'n' :: ds => (String.ofList ds).toNat?.map (fun n => (.nat n, rest))
      | 'i' :: ds => (String.ofList ds).toInt?.map (fun i => (.int i, rest))
      | 'b' :: ds => (if ds.isEmpty then some [] else Tok.unhexChars ds).map (fun b => (.bytes b, rest))
      | 't' :: ds => (if ds.isEmpty then some [] else Tok.unhexChars ds).map (fun b => (.text b, rest))
      | 'a' :: ds => (itemOfHex (String.ofList ds)).map (fun it => (.any it, rest))
      | 'v' :: ds =>
        match (String.ofList ds).toNat?, rest with
        | some p, "[" :: r =>
          match parseVals f r with
          | some (vs, r') => some (.variant p vs, r')
          | none => none
        | _, _ => none
      | 'r' :: ds =>
        let raw : Option (Option Item) :=
          if ds = ['-'] then some none else (itemOfHex (String.ofList ds)).map some
        match raw, parseVal f rest with
        | some r0, some (v, r) => some (.raw r0 v, r)
        | _, _ => none
      | _ => none
def parseVals : Nat → List String → Option (List Value × List String)
  | 0, _ => none
  | _, [] => none
  | f + 1, t :: rest =>
    if t = "]" then some ([], rest)
    else
      match parseVal f (t :: rest) with
      | some (v, r) =>
        match parseVals f r with
        | some (vs, r') => some (v :: vs, r')
        | none => none
      | none => none
end

def hexOf (bs : Bytes) : String := String.join (bs.map Tok.hexOfByte)

mutual
def showVal : Value → List String
  | .nat n => ["n" ++ toString n]
  | .int i => ["i" ++ toString i]
  | .bytes b => ["b" ++ hexOf b]
  | .text b => ["t" ++ hexOf b]
  | .bool b => [if b then "T" else "F"]
  | .unit => ["U"]
  | .list vs => "[" :: (showVals vs ++ ["]"])
  | .none => ["N"]
  | .some v => "S" :: showVal v
  | .variant p vs => ("v" ++ toString p) :: "[" :: (showVals vs ++ ["]"])
  | .raw r v => (match r with | some it => "r" ++ hexOf it.encode | none => "r-") :: showVal v
  | .any it => ["a" ++ hexOf it.encode]
def showVals : List Value → List String
  | [] => []
  | v :: vs => showVal v ++ showVals vs
end

def schemaOf (name : String) : Option Schema := Gen.SchemaEra.table.lookup name

def step (_ : Unit) : List String → Unit × String
  | "enc" :: name :: _seed :: toks =>
    match schemaOf name, parseVal (toks.length + 1) toks with
    | some s, some (v, []) =>
      match enc Gen.SchemaEra.env fuel s v with
      | some it => ((), "ok " ++ Tok.hex it.encode)
      | none => ((), "err enc")
    | none, _ => ((), "bad-op unknown type")
    | _, _ => ((), "bad-op value text")
  | ["dec", name, h] =>
    match schemaOf name, Tok.unhex h with
    | some s, some bs =>
      match decodeBytes Gen.SchemaEra.env fuel s bs with
      | some (v, _) => ((), "ok " ++ " ".intercalate (showVal v))
      | none => ((), "err dec")
    | none, _ => ((), "bad-op unknown type")
    | _, _ => ((), "bad-op")
  | _ => ((), "bad-op")

def stream : Stream := { name := "schema", σ := Unit, init := (), step := step }

end PallasVerif.Streams.Schema
