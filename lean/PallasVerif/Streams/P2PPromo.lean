import PallasVerif.Streams.P2PInit
/-! stream `p2p_promo` (C27): the initiator model of `Streams/P2PInit.lean` under the promotion generator -/
namespace PallasVerif.Streams.P2PPromo
def stream : PallasVerif.Stream := { PallasVerif.Streams.P2PInit.stream with name := "p2p_promo" }
end PallasVerif.Streams.P2PPromo
