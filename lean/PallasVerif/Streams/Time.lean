import PallasVerif.Stream
import PallasVerif.Model.Time
import PallasVerif.Gen.Consts
/-! stream `time` (C32): the state is the current `GenesisValues` record (numeric fields).
    `net <name>` loads a well-known record from the *generated* constants (so the translator is
    cross-checked against the running constructors), `custom …` an arbitrary one. -/
namespace PallasVerif.Streams.Time
open PallasVerif PallasVerif.Time

def showG (g : Genesis) : String :=
  " ".intercalate ([g.byronEpochLength, g.byronSlotLength, g.byronKnownSlot, g.byronKnownTime,
    g.shelleyEpochLength, g.shelleySlotLength, g.shelleyKnownSlot, g.shelleyKnownTime].map toString)

def showON : Option Nat → String
  | some n => "ok " ++ toString n
  | none => "panic"

def showOP : Option (Nat × Nat) → String
  | some (a, b) => "ok " ++ toString a ++ " " ++ toString b
  | none => "panic"

def nats? (l : List String) : Option (List Nat) := l.mapM Tok.nat?

def step (g : Genesis) (toks : List String) : Genesis × String :=
  match toks with
  | ["net", n] =>
    match Gen.Consts.byName n with
    | some g' => (g', "ok " ++ showG g')
    | none => (g, "bad-op")
  | "custom" :: rest =>
    match nats? rest with
    | some [a, b, c, d, e, f, h, i] =>
      let g' : Genesis := ⟨a, b, c, d, e, f, h, i⟩
      (g', "ok " ++ showG g')
    | _ => (g, "bad-op")
  | ["start"] => (g, showON (shelleyStartEpoch g))
  | ["rel", s] =>
    match Tok.nat? s with
    | some s => (g, showOP (absoluteSlotToRelative g s))
    | none => (g, "bad-op")
  | ["abs", e, r] =>
    match Tok.nat? e, Tok.nat? r with
    | some e, some r => (g, showON (relativeSlotToAbsolute g e r))
    | _, _ => (g, "bad-op")
  | ["wall", s] =>
    match Tok.nat? s with
    | some s => (g, showON (slotToWallclock g s))
    | none => (g, "bad-op")
  | ["rt", s] =>
    match Tok.nat? s with
    | some s =>
      match absoluteSlotToRelative g s with
      | none => (g, "panic")
      | some (e, r) =>
        match relativeSlotToAbsolute g e r with
        | none => (g, "ok " ++ toString e ++ " " ++ toString r ++ " panic")
        | some s' => (g, "ok " ++ toString e ++ " " ++ toString r ++ " " ++ toString s')
    | none => (g, "bad-op")
  | ["pair", s, t] =>
    match Tok.nat? s, Tok.nat? t with
    | some s, some t =>
      match slotToWallclock g s, slotToWallclock g t with
      | some a, some b => (g, "ok " ++ toString a ++ " " ++ toString b)
      | _, _ => (g, "panic")
    | _, _ => (g, "bad-op")
  | ["magic", m] =>
    match Tok.nat? m with
    | some m =>
      match Gen.Consts.fromMagicTable.find? (·.1 = m) with
      | some (_, n) => (g, "ok " ++ n)
      | none => (g, "ok none")
    | none => (g, "bad-op")
  | _ => (g, "bad-op")

def stream : Stream := { name := "time", σ := Genesis, init := Gen.Consts.mainnet, step := step }

end PallasVerif.Streams.Time
