import PallasVerif.Stream
import PallasVerif.Model.ValidateTxs
/-! stream `validatetxs` (C39).
    `seq <n> <s0> <k> (<pre_i> <post_i> <res_i>)^k | <scenario tokens for the harness>`
    `s0` = digest of the caller's `CertState` before the call, `n` = number of transactions. The table is the
    parameter `step` of the model along the path the loop takes: entry `i` says that `validate_tx` number `i`,
    started in state `pre_i`, leaves state `post_i` and returns `res_i` (`ok` or an error class). It is recorded by
    the harness with single `validate_tx` calls; the model composes it the way `validate_txs` does and predicts the
    caller's state digest and the result of the real `validate_txs`. -/
namespace PallasVerif.Streams.ValidateTxs
open PallasVerif PallasVerif.ValidateTxs

structure Entry where
  pre : String
  post : String
  res : String

def takeEntries : Nat → List String → Option (List Entry)
  | 0, "|" :: _ => some []
  | 0, [] => some []
  | n + 1, a :: b :: c :: rest => (takeEntries n rest).map (⟨a, b, c⟩ :: ·)
  | _, _ => none

def stepOf (tbl : List Entry) : Step String Unit String := fun s i _ =>
  match tbl[i]? with
  | some e =>
    if e.pre = s then (e.post, if e.res = "ok" then none else some e.res)
    else ("bad-table", some "bad-table")
  | none => ("missing-entry", some "missing-entry")

def step (_ : Unit) : List String → Unit × String
  | "seq" :: n :: s0 :: k :: rest =>
    match Tok.nat? n, Tok.nat? k with
    | some nn, some kk =>
      match takeEntries kk rest with
      | some tbl =>
        match validateTxs (stepOf tbl) s0 (List.replicate nn ()) with
        | (s, .ok) => ((), "ok " ++ s)
        | (s, .err e) => ((), "err " ++ e ++ " " ++ s)
        | (_, .panic) => ((), "panic")
      | none => ((), "bad-op")
    | _, _ => ((), "bad-op")
  | _ => ((), "bad-op")

def stream : Stream := { name := "validatetxs", σ := Unit, init := (), step := step }

end PallasVerif.Streams.ValidateTxs
