import PallasVerif.Stream
import PallasVerif.Model.ScriptData
import PallasVerif.Streams.Pdata
/-! stream `scriptdata` (C08). Lean is the independent implementation: own CBOR encoder + BLAKE2b-256.
    Specs:  V := `none` | `views <n> (<lang> <k> <int>*k)*n`
            R := `none` | `L <n> (<tag> <idx> <PData> <mem> <steps>)*n` | `M <n> (…)*n`
            D := `none` | `raw <hex>` | `set <n> <PData>*n`
    Ops: `views V` -> bytes; `encr R` -> bytes; `hash R D V` -> digest;
         `build <ws-hex> V [expected]` -> `none` | digest | `err decode`. -/
namespace PallasVerif.Streams.Scriptdata
open PallasVerif PallasVerif.Cbor PallasVerif.PlutusData PallasVerif.ScriptData

def takeInts : Nat → List String → Option (List Int × List String)
  | 0, toks => some ([], toks)
  | n + 1, t :: rest =>
    match Tok.int? t, takeInts n rest with
    | some i, some (is, r) => some (i :: is, r)
    | _, _ => none
  | _ + 1, [] => none

def takeEntries : Nat → List String → Option (List (Nat × CostModel) × List String)
  | 0, toks => some ([], toks)
  | n + 1, lang :: k :: rest =>
    match Tok.nat? lang, Tok.nat? k with
    | some lang, some k =>
      match takeInts k rest with
      | some (cm, r) =>
        match takeEntries n r with
        | some (es, r') => some ((lang, cm) :: es, r')
        | none => none
      | none => none
    | _, _ => none
  | _ + 1, _ => none

/-- V -/
def parseViews : List String → Option (Option LanguageViews × List String)
  | "none" :: rest => some (none, rest)
  | "views" :: n :: rest =>
    match Tok.nat? n with
    | some n => (takeEntries n rest).map fun (es, r) => (some (fromList es), r)
    | none => none
  | _ => none

def takeRedeemers (fuel : Nat) : Nat → List String → Option (List Redeemer × List String)
  | 0, toks => some ([], toks)
  | n + 1, tag :: idx :: rest =>
    match Tok.nat? tag, Tok.nat? idx, Pdata.parseV fuel rest with
    | some tag, some idx, some (d, mem :: steps :: r) =>
      match Tok.nat? mem, Tok.nat? steps, takeRedeemers fuel n r with
      | some mem, some steps, some (rs, r') => some (⟨tag, idx, d, mem, steps⟩ :: rs, r')
      | _, _, _ => none
    | _, _, _ => none
  | _ + 1, _ => none

/-- R -/
def parseRedeemers (fuel : Nat) : List String → Option (Option Redeemers × List String)
  | "none" :: rest => some (none, rest)
  | "L" :: n :: rest =>
    match Tok.nat? n with
    | some n => (takeRedeemers fuel n rest).map fun (rs, r) => (some (.list rs), r)
    | none => none
  | "M" :: n :: rest =>
    match Tok.nat? n with
    | some n => (takeRedeemers fuel n rest).map fun (rs, r) => (some (Redeemers.mapOf rs), r)
    | none => none
  | _ => none

def takeValues (fuel : Nat) : Nat → List String → Option (List PData × List String)
  | 0, toks => some ([], toks)
  | n + 1, toks =>
    match Pdata.parseV fuel toks with
    | some (d, r) =>
      match takeValues fuel n r with
      | some (ds, r') => some (d :: ds, r')
      | none => none
    | none => none

/-- D (as the bytes `minicbor::encode(datums)` writes) -/
def parseDatums (fuel : Nat) : List String → Option (Option Bytes × List String)
  | "none" :: rest => some (none, rest)
  | "raw" :: h :: rest => (Tok.unhex h).map fun bs => (some bs, rest)
  | "set" :: n :: rest =>
    match Tok.nat? n with
    | some n => (takeValues fuel n rest).map fun (ds, r) => (some (datumSetBytes ds), r)
    | none => none
  | _ => none

def step (_ : Unit) (toks : List String) : Unit × String :=
  let fuel := 2 * toks.length + 2
  let r :=
    match toks with
    | "views" :: rest =>
      match parseViews rest with
      | some (some m, _) => "ok " ++ Tok.hex (viewsBytes m)
      | _ => "bad-op"
    | "encr" :: rest =>
      match parseRedeemers fuel rest with
      | some (some r, _) => "ok " ++ Tok.hex (redeemersBytes r)
      | _ => "bad-op"
    | "hash" :: rest =>
      match parseRedeemers fuel rest with
      | some (r, rest1) =>
        match parseDatums fuel rest1 with
        | some (d, rest2) =>
          match parseViews rest2 with
          | some (v, _) =>
            "ok " ++ Tok.hex (hashOf { redeemers := r.map redeemersBytes, datums := d, languageViews := v })
          | none => "bad-op"
        | none => "bad-op"
      | none => "bad-op"
    | "build" :: ws :: rest =>
      match Tok.unhex ws, parseViews rest with
      | some ws, some (v, _) =>
        match wsBuildHash ws v with
        | none => "err decode"
        | some none => "ok none"
        | some (some h) => "ok " ++ Tok.hex h
      | _, _ => "bad-op"
    | "txb" :: nin :: rest =>
      -- pallas-txbuilder: spend redeemer on input k (its index in the sorted input list is k), one datum
      let red : Option (Option Redeemer × List String) :=
        match rest with
        | "nored" :: r => some (none, r)
        | "red" :: k :: r =>
          match Tok.nat? k, Pdata.parseV fuel r with
          | some k, some (d, mem :: steps :: r') =>
            match Tok.nat? mem, Tok.nat? steps with
            | some mem, some steps => some (some ⟨0, k, d, mem, steps⟩, r')
            | _, _ => none
          | _, _ => none
        | _ => none
      match Tok.nat? nin, red with
      | some _, some (red, rest1) =>
        let dat : Option (Option PData × List String) :=
          match rest1 with
          | "nodat" :: r => some (none, r)
          | "dat" :: r => (Pdata.parseV fuel r).map fun (d, r') => (some d, r')
          | _ => none
        match dat with
        | some (dat, rest2) =>
          match parseViews rest2 with
          | some (v, _) =>
            match txBuilderHash red dat v with
            | none => "ok none"
            | some h => "ok " ++ Tok.hex h
          | none => "bad-op"
        | none => "bad-op"
      | _, _ => "bad-op"
    | _ => "bad-op"
  ((), r)

def stream : Stream := { name := "scriptdata", σ := Unit, init := (), step := step }

end PallasVerif.Streams.Scriptdata
