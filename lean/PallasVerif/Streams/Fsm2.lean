import PallasVerif.Stream
import PallasVerif.Model.Fsm
import PallasVerif.Gen.FsmN2
/-! stream `fsm2` (C24): the generated `State::apply` tables run on concrete states / messages.
    `default <proto>` — the initial state; `init <proto> <StateClass> <tok>*` — an arbitrary state
    whose payload fields are the tokens; `msg <MsgClass> <tok>*` — apply a message (tokens = payload
    fields). Replies: `ok <rendered state>` / `err <Error variant>`; a refused message leaves the
    state. -/
namespace PallasVerif.Streams.Fsm2
open PallasVerif PallasVerif.Fsm

structure St where
  proto : Option Proto := none
  cur : CState := ⟨"", []⟩

def findProto (n : String) : Option Proto := Gen.FsmN2.protos.find? (fun p => p.name = n)

def step (st : St) : List String → St × String
  | ["default", n] =>
    match findProto n with
    | some p => ({ proto := some p, cur := p.initState }, "ok " ++ p.initState.render)
    | none => (st, "bad-op")
  | "init" :: n :: cls :: toks =>
    match findProto n with
    | some p =>
      if p.stateNames.contains cls then
        let s : CState := ⟨cls, toks.map Val.atom⟩
        ({ proto := some p, cur := s }, "ok " ++ s.render)
      else (st, "bad-op")
    | none => (st, "bad-op")
  | "msg" :: cls :: toks =>
    match st.proto with
    | some p =>
      if p.msgNames.contains cls then
        match apply p st.cur ⟨cls, toks.map Val.atom⟩ with
        | .ok s' => ({ st with cur := s' }, "ok " ++ s'.render)
        | .error k => (st, "err " ++ k)
      else (st, "bad-op")
    | none => (st, "bad-op")
  | _ => (st, "bad-op")

def stream : Stream := { name := "fsm2", σ := St, init := {}, step := step }

end PallasVerif.Streams.Fsm2
