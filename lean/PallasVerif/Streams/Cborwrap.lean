import PallasVerif.Stream
import PallasVerif.Model.CborWrappers
/-! stream `cborwrap` (C03): the wrapper codecs of `Model/CborWrappers.lean` instantiated at the type
    universe of `harness/src/streams/cborwrap.rs` (dotted prefix type names). A type name is
    interpreted into a codec together with the canonical printer / parser of its values. -/
namespace PallasVerif.Streams.Cborwrap
open PallasVerif
open PallasVerif.Cbor (Bytes)
open PallasVerif.Minicbor (Res P Err)
open PallasVerif.Wrappers

/-- a codec with the canonical text form of its values (`parse` takes fuel) -/
structure Dyn (α : Type) where
  codec : Codec α
  shw : α → String
  parse : Nat → List String → Option (α × List String)

structure AnyDyn where
  {α : Type}
  d : Dyn α

def leaf {α : Type} (c : Codec α) (shw : α → String) (p : String → Option α) : Dyn α :=
  { codec := c, shw := shw,
    parse := fun _ toks => match toks with
      | t :: rest => (p t).map fun a => (a, rest)
      | [] => none }

def joinToks (xs : List String) : String := " ".intercalate xs

/-- elements up to the closing token -/
def parseUntil {α : Type} (close : String) (p : Nat → List String → Option (α × List String)) :
    Nat → List String → Option (List α × List String)
  | 0, _ => none
  | _ + 1, [] => none
  | fuel + 1, t :: rest =>
    if t = close then some ([], rest)
    else match p fuel (t :: rest) with
      | none => none
      | some (a, rest') => (parseUntil close p fuel rest').map fun (as, r) => (a :: as, r)

def showSeq {α : Type} (opn : String) (shw : α → String) (xs : List α) (close : String) : String :=
  joinToks ([opn] ++ xs.map shw ++ [close])

def parseAnyUInt (t : String) : Option AnyUInt :=
  match t.splitOn ":" with
  | [w, n] =>
    match n.toNat? with
    | none => none
    | some n =>
      if w = "w0" then some (.majorByte n) else if w = "w1" then some (.u8 n) else if w = "w2" then some (.u16 n)
      else if w = "w4" then some (.u32 n) else if w = "w8" then some (.u64 n) else none
  | _ => none

def showAnyUInt : AnyUInt → String
  | .majorByte x => "w0:" ++ toString x | .u8 x => "w1:" ++ toString x | .u16 x => "w2:" ++ toString x
  | .u32 x => "w4:" ++ toString x | .u64 x => "w8:" ++ toString x

def dNat (c : Codec Nat) : Dyn Nat := leaf c toString Tok.nat?
def dInt (c : Codec Int) : Dyn Int := leaf c toString Tok.int?
def dBool : Dyn Bool := leaf cBool Tok.showBool Tok.bool?
def dBytes (c : Codec Bytes) : Dyn Bytes := leaf c Tok.hex Tok.unhex
def dAnyUInt : Dyn AnyUInt := leaf cAnyUInt showAnyUInt parseAnyUInt
def dEmptyMap : Dyn Unit := leaf cEmptyMap (fun _ => "()") (fun t => if t = "()" then some () else none)

def dList {α : Type} (mk : Codec α → Codec (List α)) (e : Dyn α) : Dyn (List α) :=
  { codec := mk e.codec, shw := fun xs => showSeq "[" e.shw xs "]",
    parse := fun fuel toks => match fuel, toks with
      | f + 1, "[" :: rest => parseUntil "]" e.parse f rest
      | _, _ => none }

def dMaybeIndef {α : Type} (e : Dyn α) : Dyn (MaybeIndef α) :=
  { codec := cMaybeIndef e.codec,
    shw := fun v => match v with
      | .defn xs => showSeq "def[" e.shw xs "]"
      | .indef xs => showSeq "indef[" e.shw xs "]",
    parse := fun fuel toks => match fuel, toks with
      | f + 1, "def[" :: rest => (parseUntil "]" e.parse f rest).map fun (xs, r) => (.defn xs, r)
      | f + 1, "indef[" :: rest => (parseUntil "]" e.parse f rest).map fun (xs, r) => (.indef xs, r)
      | _, _ => none }

def parsePair {α β : Type} (a : Dyn α) (b : Dyn β) (fuel : Nat) (toks : List String) : Option ((α × β) × List String) :=
  match a.parse fuel toks with
  | none => none
  | some (x, r) => (b.parse fuel r).map fun (y, r') => ((x, y), r')

def dKVP {κ ν : Type} (k : Dyn κ) (v : Dyn ν) : Dyn (KVP κ ν) :=
  let shp := fun (p : κ × ν) => k.shw p.1 ++ " " ++ v.shw p.2
  { codec := cKVP k.codec v.codec,
    shw := fun x => match x with
      | .defn xs => showSeq "def{" shp xs "}"
      | .indef xs => showSeq "indef{" shp xs "}",
    parse := fun fuel toks => match fuel, toks with
      | f + 1, "def{" :: rest => (parseUntil "}" (parsePair k v) f rest).map fun (xs, r) => (.defn xs, r)
      | f + 1, "indef{" :: rest => (parseUntil "}" (parsePair k v) f rest).map fun (xs, r) => (.indef xs, r)
      | _, _ => none }

def dSame {α : Type} (c : Codec α → Codec α) (e : Dyn α) : Dyn α := { e with codec := c e.codec }

def dOptionLike {α : Type} (mk : Codec α → Codec (Option α)) (e : Dyn α) : Dyn (Option α) :=
  { codec := mk e.codec,
    shw := fun o => match o with | none => "none" | some x => "some " ++ e.shw x,
    parse := fun fuel toks => match fuel, toks with
      | _, "none" :: rest => some (none, rest)
      | f + 1, "some" :: rest => (e.parse f rest).map fun (x, r) => (some x, r)
      | _, _ => none }

def dNullable {α : Type} (e : Dyn α) : Dyn (Nullable α) :=
  { codec := cNullable e.codec,
    shw := fun o => match o with | .null => "null" | .undefined => "undef" | .some x => "some " ++ e.shw x,
    parse := fun fuel toks => match fuel, toks with
      | _, "null" :: rest => some (.null, rest)
      | _, "undef" :: rest => some (.undefined, rest)
      | f + 1, "some" :: rest => (e.parse f rest).map fun (x, r) => (.some x, r)
      | _, _ => none }

def dKeepRaw {α : Type} (e : Dyn α) : Dyn (KeepRaw α) :=
  { codec := cKeepRaw e.codec,
    shw := fun k => "kr " ++ Tok.hex k.raw ++ " " ++ e.shw k.inner,
    parse := fun fuel toks => match fuel, toks with
      | f + 1, "kr" :: h :: rest =>
        match Tok.unhex h with
        | none => none
        -- `kr - v` is a `From<T>` value (owned, empty); otherwise it was decoded (borrowed span)
        | some raw => (e.parse f rest).map fun (x, r) => (⟨if raw.isEmpty then .owned [] else .borrowed raw, x⟩, r)
      | _, _ => none }

def dPair {α β : Type} (a : Dyn α) (b : Dyn β) : Dyn (α × β) :=
  { codec := cPair a.codec b.codec,
    shw := fun p => "( " ++ a.shw p.1 ++ " " ++ b.shw p.2 ++ " )",
    parse := fun fuel toks => match fuel, toks with
      | f + 1, "(" :: rest =>
        match parsePair a b f rest with
        | some (p, ")" :: r) => some (p, r)
        | _ => none
      | _, _ => none }

/-- harness type `Attr(u8, AnyUInt)`: key and value one after the other -/
def cAttr : Codec (Nat × AnyUInt) :=
  ⟨fun p => Minicbor.encUInt p.1 ++ AnyUInt.enc p.2, Minicbor.pairOf Minicbor.u8 AnyUInt.dec⟩

def dAttr : Dyn (Nat × AnyUInt) :=
  { codec := cAttr, shw := fun p => "attr " ++ toString p.1 ++ " " ++ showAnyUInt p.2,
    parse := fun _ toks => match toks with
      | "attr" :: k :: v :: rest =>
        match k.toNat?, parseAnyUInt v with
        | some k, some v => some ((k, v), rest)
        | _, _ => none
      | _ => none }

def showNullNat : Nullable Nat → String
  | .null => "null" | .undefined => "undef" | .some x => "some " ++ toString x

def dThing : Dyn Thing :=
  { codec := ⟨Thing.enc, Thing.dec⟩,
    shw := fun t => match t with
      | .coin a => "coin " ++ showAnyUInt a | .flag b => "flag " ++ Tok.showBool b | .blob b => "blob " ++ Tok.hex b
      | .multi a n => "multi " ++ showAnyUInt a ++ " " ++ showNullNat n,
    parse := fun _ toks => match toks with
      | "coin" :: a :: rest => (parseAnyUInt a).map fun a => (.coin a, rest)
      | "flag" :: b :: rest => (Tok.bool? b).map fun b => (.flag b, rest)
      | "blob" :: b :: rest => (Tok.unhex b).map fun b => (.blob b, rest)
      | "multi" :: a :: "null" :: rest => (parseAnyUInt a).map fun a => (.multi a .null, rest)
      | "multi" :: a :: "undef" :: rest => (parseAnyUInt a).map fun a => (.multi a .undefined, rest)
      | "multi" :: a :: "some" :: n :: rest =>
        match parseAnyUInt a, n.toNat? with
        | some a, some n => some (.multi a (.some n), rest)
        | _, _ => none
      | _ => none }

/-- a dotted type name, as prefix tokens -/
def parseTy : Nat → List String → Option (AnyDyn × List String)
  | 0, _ => none
  | _ + 1, [] => none
  | fuel + 1, t :: rest =>
    let one (f : AnyDyn → AnyDyn) : Option (AnyDyn × List String) :=
      (parseTy fuel rest).map fun (a, r) => (f a, r)
    let two (f : AnyDyn → AnyDyn → AnyDyn) : Option (AnyDyn × List String) :=
      match parseTy fuel rest with
      | none => none
      | some (a, r) => (parseTy fuel r).map fun (b, r') => (f a b, r')
    match t with
    | "u8" => some (⟨dNat cU8⟩, rest)
    | "u16" => some (⟨dNat cU16⟩, rest)
    | "u32" => some (⟨dNat cU32⟩, rest)
    | "u64" => some (⟨dNat cU64⟩, rest)
    | "i64" => some (⟨dInt cI64⟩, rest)
    | "bool" => some (⟨dBool⟩, rest)
    | "bytes" => some (⟨dBytes cBytes⟩, rest)
    | "int" => some (⟨dInt cInt⟩, rest)
    | "anyuint" => some (⟨dAnyUInt⟩, rest)
    | "anycbor" => some (⟨dBytes cAnyCbor⟩, rest)
    | "nzi" => some (⟨dInt cNonZeroInt⟩, rest)
    | "pcoin" => some (⟨dNat cPositiveCoin⟩, rest)
    | "emptymap" => some (⟨dEmptyMap⟩, rest)
    | "attr" => some (⟨dAttr⟩, rest)
    | "thing" => some (⟨dThing⟩, rest)
    | "kvp" => two fun a b => ⟨dKVP a.d b.d⟩
    | "nekvp" => two fun a b => ⟨dKVP a.d b.d⟩
    | "pair" => two fun a b => ⟨dPair a.d b.d⟩
    | "mia" => one fun a => ⟨dMaybeIndef a.d⟩
    | "opp" => one fun a => ⟨dList cOPP a.d⟩
    | "wrap" => one fun a => ⟨dSame cCborWrap a.d⟩
    | "tag30" => one fun a => ⟨dSame (cTagWrap 30) a.d⟩
    | "tag258" => one fun a => ⟨dSame (cTagWrap 258) a.d⟩
    | "zoo" => one fun a => ⟨dOptionLike cZeroOrOne a.d⟩
    | "set" => one fun a => ⟨dList cSet a.d⟩
    | "neset" => one fun a => ⟨dList cSet a.d⟩
    | "keepraw" => one fun a => ⟨dKeepRaw a.d⟩
    | "nullable" => one fun a => ⟨dNullable a.d⟩
    | "vec" => one fun a => ⟨dList cVec a.d⟩
    | "opt" => one fun a => ⟨dOptionLike cOption a.d⟩
    | _ => none

def tyOf (name : String) : Option AnyDyn :=
  let toks := name.splitOn "."
  match parseTy (toks.length + 1) toks with
  | some (a, []) => some a
  | _ => none

def decOp {α : Type} (d : Dyn α) (bs : Bytes) : String :=
  match d.codec.dec bs with
  | .ok a rest => "ok " ++ d.shw a ++ " " ++ toString (bs.length - rest.length) ++ " " ++ Tok.hex (d.codec.enc a)
  | .err e => "err " ++ e.show

def rtOp {α : Type} (d : Dyn α) (toks : List String) : String :=
  match d.parse (toks.length + 1) toks with
  | some (a, []) =>
    let enc := d.codec.enc a
    match d.codec.dec enc with
    | .ok a' _ => "ok " ++ Tok.hex enc ++ " " ++ d.shw a'
    | .err e => "err " ++ e.show
  | _ => "bad-op"

/-- `mut` / `peek` on `KeepRaw<Vec<u64>>` (push k) and `KeepRaw<AnyUInt>` (assign `U16(k)`) -/
def mutOp (ty : String) (bs : Bytes) (k : Option Nat) : String :=
  if ty = "keepraw.vec.u64" then
    match KeepRaw.dec (cVec cU64) bs with
    | .err e => "err " ++ e.show
    | .ok kr _ =>
      let kr' := match k with | some k => kr.derefMut (· ++ [k]) | none => kr
      "ok " ++ Tok.hex (KeepRaw.enc (cVec cU64) kr')
  else if ty = "keepraw.anyuint" then
    match KeepRaw.dec cAnyUInt bs with
    | .err e => "err " ++ e.show
    | .ok kr _ =>
      let kr' := match k with | some k => kr.derefMut (fun _ => .u16 (k % 65536)) | none => kr
      "ok " ++ Tok.hex (KeepRaw.enc cAnyUInt kr')
  else "bad-op"

/-- the `KeepRaw` value a case is operating on (`kr.*` ops) -/
inductive Slot where
  | none
  | vec (k : KeepRaw (List Nat))
  | any (k : KeepRaw AnyUInt)

def showVecNat (xs : List Nat) : String := showSeq "[" toString xs "]"

def Slot.map (s : Slot) (f : {α : Type} → KeepRaw α → KeepRaw α) : Slot :=
  match s with
  | .none => .none
  | .vec k => .vec (f k)
  | .any k => .any (f k)

/-- one `kr.*` operation on the slot -/
def krStep (s : Slot) : List String → Slot × String
  | ["kr.dec", ty, h] =>
    match Tok.unhex h with
    | none => (s, "bad-op")
    | some bs =>
      if ty = "keepraw.vec.u64" then
        match KeepRaw.dec (cVec cU64) bs with
        | .ok k _ => (.vec k, "ok " ++ showVecNat k.inner)
        | .err e => (.none, "err " ++ e.show)
      else if ty = "keepraw.anyuint" then
        match KeepRaw.dec cAnyUInt bs with
        | .ok k _ => (.any k, "ok " ++ showAnyUInt k.inner)
        | .err e => (.none, "err " ++ e.show)
      else (s, "bad-op")
  | ["kr.from", ty, h] =>
    match Tok.unhex h with
    | none => (s, "bad-op")
    | some bs =>
      if ty = "keepraw.vec.u64" then
        match (cVec cU64).dec bs with
        | .ok a _ => (.vec (KeepRaw.from a), "ok " ++ showVecNat a)
        | .err e => (.none, "err " ++ e.show)
      else if ty = "keepraw.anyuint" then
        match cAnyUInt.dec bs with
        | .ok a _ => (.any (KeepRaw.from a), "ok " ++ showAnyUInt a)
        | .err e => (.none, "err " ++ e.show)
      else (s, "bad-op")
  | [op] =>
    match s with
    | .none => (s, if op.startsWith "kr." then "err empty" else "bad-op")
    | _ =>
      if op = "kr.own" then (s.map KeepRaw.toOwned, "ok")
      else if op = "kr.clone" then (s.map KeepRaw.clone, "ok")
      else if op = "kr.clear" then (s.map KeepRaw.clearRaw, "ok")
      else if op = "kr.peek" then
        (s, match s with | .vec k => "ok " ++ showVecNat k.inner | .any k => "ok " ++ showAnyUInt k.inner | .none => "err empty")
      else if op = "kr.unwrap" then
        (.none, match s with | .vec k => "ok " ++ showVecNat k.unwrap | .any k => "ok " ++ showAnyUInt k.unwrap | .none => "err empty")
      else if op = "kr.enc" then
        (s, match s with
          | .vec k => "ok " ++ Tok.hex (KeepRaw.enc (cVec cU64) k)
          | .any k => "ok " ++ Tok.hex (KeepRaw.enc cAnyUInt k)
          | .none => "err empty")
      else if op = "kr.raw" then
        (s, match s with | .vec k => "ok " ++ Tok.hex k.raw | .any k => "ok " ++ Tok.hex k.raw | .none => "err empty")
      else (s, "bad-op")
  | ["kr.mut", k] =>
    match k.toNat?, s with
    | some k, .vec kr => (.vec (kr.derefMut (· ++ [k])), "ok")
    | some k, .any kr => (.any (kr.derefMut (fun _ => .u16 (k % 65536))), "ok")
    | some _, .none => (s, "err empty")
    | none, _ => (s, "bad-op")
  | _ => (s, "bad-op")

/-- conversions between the wrappers that are meant to keep the form / the content -/
def convOp (name : String) (bs : Bytes) : String :=
  if name = "kvp2ne" then
    -- `NonEmptyKeyValuePairs::try_from(KeyValuePairs)`: same variant, `Err` when empty
    match (cKVP cAnyUInt cAnyUInt).dec bs with
    | .err e => "err " ++ e.show
    | .ok m _ => if m.items.isEmpty then "err empty" else "ok " ++ Tok.hex ((cKVP cAnyUInt cAnyUInt).enc m)
  else if name = "kvp2vec" then
    -- `KeyValuePairs::from(kvp.to_vec())`: always `Def`
    match (cKVP cAnyUInt cAnyUInt).dec bs with
    | .err e => "err " ++ e.show
    | .ok m _ => "ok " ++ Tok.hex ((cKVP cAnyUInt cAnyUInt).enc (.defn m.items))
  else if name = "mia2vec" then
    -- `MaybeIndefArray::to_vec()` re-encoded as a plain `Vec`
    match (cMaybeIndef cAnyUInt).dec bs with
    | .err e => "err " ++ e.show
    | .ok m _ => "ok " ++ Tok.hex ((cVec cAnyUInt).enc m.items)
  else if name = "anycbor.from_encode" then
    -- `AnyCbor::from_encode(v)` holds `to_vec(v)`
    match (cMaybeIndef cAnyUInt).dec bs with
    | .err e => "err " ++ e.show
    | .ok m _ => "ok " ++ Tok.hex (cAnyCbor.enc ((cMaybeIndef cAnyUInt).enc m))
  else if name = "set.unkeep" then
    -- `Set<T>::from(Set<KeepRaw<T>>)`: the contents, raw bytes dropped
    match (cSet (cKeepRaw cAnyUInt)).dec bs with
    | .err e => "err " ++ e.show
    | .ok ks _ => "ok " ++ Tok.hex ((cSet cAnyUInt).enc (ks.map KeepRaw.unwrap))
  else "bad-op"

def step (s : Slot) : List String → Slot × String
  | ["dec", ty, h] =>
    match tyOf ty, Tok.unhex h with
    | some a, some bs => (s, decOp a.d bs)
    | _, _ => (s, "bad-op")
  | "rt" :: ty :: _seed :: v =>
    match tyOf ty with
    | some a => (s, rtOp a.d v)
    | none => (s, "bad-op")
  | ["mut", ty, h, k] =>
    match Tok.unhex h, k.toNat? with
    | some bs, some k => (s, mutOp ty bs (some k))
    | _, _ => (s, "bad-op")
  | ["peek", ty, h] =>
    match Tok.unhex h with
    | some bs => (s, mutOp ty bs none)
    | none => (s, "bad-op")
  | ["conv", name, h] =>
    match Tok.unhex h with
    | some bs => (s, convOp name bs)
    | none => (s, "bad-op")
  | toks => krStep s toks

def stream : Stream := { name := "cborwrap", σ := Slot, init := .none, step := step }

end PallasVerif.Streams.Cborwrap
