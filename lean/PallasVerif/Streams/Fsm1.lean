import PallasVerif.Stream
import PallasVerif.Model.Agent
import PallasVerif.Gen.FsmN1
/-! stream `fsm1` (C23): the generated agent tables driven like the real agents over a multiplexer.
    ops   agent <proto> <client|server>            fresh agent                       -> ok <State>
          peer <MsgClass> <k|same|other>           the peer writes a message         -> ok
          send <MsgClass> <k>                      low-level send_message            -> ok|err <Kind> <State> sent=<MsgClass|none>
          recv                                     low-level recv_message            -> ok <MsgClass> <State> | err <Kind> <State>
          callsend <method> <MsgClass> <k>         a sending method                  -> like send
          callrecv <method>                        a receiving method                -> ok <State> | err <Kind> <State>
          comp <sendMethod> <MsgClass> <recvMethod> <k>   a method that sends, then receives
    `recv_message` fails with `AgencyIsOurs` *before* reading (the peer's message stays queued) and with
    `InvalidInbound` *after* reading (the message is consumed); an empty queue would block (`Timeout`). -/
namespace PallasVerif.Streams.Fsm1
open PallasVerif PallasVerif.Agent

structure St where
  agent : Option Agent := none
  cur : String := ""
  /-- queued peer messages: class, token was `same` (a keep-alive response echoing the outstanding cookie;
      `other` / `hi` / `top` flip bit 0 / 8 / 15 of it), epoch at which it was queued -/
  pending : List (String × Bool × Nat) := []
  /-- number of keep-alive requests sent through `send_keepalive_request` so far: a response queued with
      token `same` copies the cookie of the latest request *at that moment*, so it passes the client's
      cookie check only if no newer request was made before it is read -/
  epoch : Nat := 0

def roleName : Fsm.Agency → String
  | .client => "client" | .server => "server" | .nobody => "nobody"

def findAgent (p r : String) : Option Agent :=
  Gen.FsmN1.agents.find? (fun a => a.proto = p ∧ roleName a.role = r)

/-- `recv_message` against the queue: result (class, payload check ok), remaining queue -/
def rawRecv (a : Agent) (s : String) (epoch : Nat) (q : List (String × Bool × Nat)) :
    Except Err (String × Bool) × List (String × Bool × Nat) :=
  if a.hasAgency s then (.error "AgencyIsOurs", q) else
  match q with
  | [] => (.error "Payload", q)   -- never produced: an empty queue is reported as Timeout by the caller
  | (m, same, stamp) :: rest =>
    match a.recvMessage s m with
    | .ok () => (.ok (m, same && stamp == epoch), rest)
    | .error e => (.error e, rest)

def guardFail (a : Agent) (s f : String) : Option String := a.methodGuard f s

def doCallRecv (a : Agent) (st : St) (f : String) : St × Except Err String :=
  if !a.hasAgency st.cur ∧ st.pending.isEmpty then (st, .error "Payload") else
  match rawRecv a st.cur st.epoch st.pending with
  | (.error e, q) => ({ st with pending := q }, .error e)
  | (.ok (m, ok), q) =>
    match a.handles f m with
    | some stp =>
      if stp.cond ∧ !ok then ({ st with pending := q }, .error "Payload")
      else let s' := stp.next.getD st.cur; ({ st with pending := q, cur := s' }, .ok s')
    | none => ({ st with pending := q }, .error "InvalidInbound")

def wouldBlock (a : Agent) (st : St) : Bool := !a.hasAgency st.cur && st.pending.isEmpty

def bump (st : St) (m : String) : St := if m = "KeepAlive" then { st with epoch := st.epoch + 1 } else st

def step (st : St) : List String → St × String
  | ["agent", p, r] =>
    match findAgent p r with
    | some a => ({ agent := some a, cur := a.init, pending := [], epoch := 0 }, "ok " ++ a.init)
    | none => (st, "bad-op")
  | ["peer", m, k] =>
    match st.agent with
    | some a => if a.msgs.contains m then ({ st with pending := st.pending ++ [(m, k == "same", st.epoch)] }, "ok") else (st, "bad-op")
    | none => (st, "bad-op")
  | ["send", m, _] =>
    match st.agent with
    | some a =>
      if !a.msgs.contains m then (st, "bad-op") else
      match a.sendMessage st.cur m with
      | .ok () => (st, "ok " ++ st.cur ++ " sent=" ++ m)
      | .error e => (st, "err " ++ e ++ " " ++ st.cur ++ " sent=none")
    | none => (st, "bad-op")
  | ["recv"] =>
    match st.agent with
    | some a =>
      if wouldBlock a st then (st, "err Timeout " ++ st.cur) else
      match rawRecv a st.cur st.epoch st.pending with
      | (.ok (m, _), q) => ({ st with pending := q }, "ok " ++ m ++ " " ++ st.cur)
      | (.error e, q) => ({ st with pending := q }, "err " ++ e ++ " " ++ st.cur)
    | none => (st, "bad-op")
  | ["callsend", f, m, _] =>
    match st.agent with
    | some a =>
      match a.sends.find? (fun s => s.method = f ∧ s.msg = m) with
      | some stp =>
        match a.callSend st.cur stp with
        | .ok s' => (bump { st with cur := s' } m, "ok " ++ s' ++ " sent=" ++ m)
        | .error e => (st, "err " ++ e ++ " " ++ st.cur ++ " sent=none")
      | none => (st, "bad-op")
    | none => (st, "bad-op")
  | ["callrecv", f] =>
    match st.agent with
    | some a =>
      if let some e := guardFail a st.cur f then (st, "err " ++ e ++ " " ++ st.cur) else
      if wouldBlock a st then (st, "err Timeout " ++ st.cur) else
      match doCallRecv a st f with
      | (st', .ok s') => (st', "ok " ++ s')
      | (st', .error e) => (st', "err " ++ e ++ " " ++ st'.cur)
    | none => (st, "bad-op")
  | ["comp", f, m, g, _] =>
    match st.agent with
    | some a =>
      match a.sends.find? (fun s => s.method = f ∧ s.msg = m) with
      | some stp =>
        match a.callSend st.cur stp with
        | .error e => (st, "err " ++ e ++ " " ++ st.cur ++ " sent=none")
        | .ok s1 =>
          let st1 := bump { st with cur := s1 } m
          if let some e := guardFail a s1 g then (st1, "err " ++ e ++ " " ++ s1 ++ " sent=" ++ m) else
          if wouldBlock a st1 then (st1, "err Timeout " ++ s1 ++ " sent=" ++ m) else
          match doCallRecv a st1 g with
          | (st', .ok s') => (st', "ok " ++ s' ++ " sent=" ++ m)
          | (st', .error e) => (st', "err " ++ e ++ " " ++ st'.cur ++ " sent=" ++ m)
      | none => (st, "bad-op")
    | none => (st, "bad-op")
  | _ => (st, "bad-op")

def stream : Stream := { name := "fsm1", σ := St, init := {}, step := step }

end PallasVerif.Streams.Fsm1
