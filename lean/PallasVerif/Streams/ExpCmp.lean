import PallasVerif.Stream
import PallasVerif.Model.RefMath
/-! stream `expcmp` (C16): `expcmp <max_n> <x> <bound_x> <compare>` with `x`, `compare` the stored
    integers at precision 34; reply `ok <iterations> <GT|LT|UNKNOWN> <approx as printed>`. -/
namespace PallasVerif.Streams.ExpCmp
open PallasVerif PallasVerif.RefMath

def showEst : Est → String
  | .gt => "GT" | .lt => "LT" | .unknown => "UNKNOWN"

def step (_ : Unit) : List String → Unit × String
  | ["expcmp", maxN, x, bound, cmp] =>
    match Tok.nat? maxN, Tok.int? x, Tok.int? bound, Tok.int? cmp with
    | some maxN, some x, some bound, some cmp =>
      match refExpCmp maxN x bound cmp with
      | some r => ((), s!"ok {r.iterations} {showEst r.estimation} {Decimal.toStr ⟨34, r.approx⟩}")
      | none => ((), "panic")
    | _, _, _, _ => ((), "bad-op")
  | _ => ((), "bad-op")

def stream : Stream := { name := "expcmp", σ := Unit, init := (), step := step }

end PallasVerif.Streams.ExpCmp
