import PallasVerif.Stream
import PallasVerif.Model.FeeSize
/-! stream `feesize` (C36).
    `size <fixture> <era> <body> <wits> <aux|->`                          -> `ok <validator size> <traversal size>`
    `fee <fixture> <era> <body> <wits> <aux|-> <fee> <a> <b> <max>`        -> verdict of `validate_txs` (all other rules pass)
    `minfee <era> <fixture> <fee> <size> <a> <b>`                          -> `check_min_fee` / `check_fees` alone
    `maxsize <era> <size> <max>`                                           -> `check_tx_size` alone -/
namespace PallasVerif.Streams.FeeSize
open PallasVerif PallasVerif.FeeSize

def era? : String → Option Era
  | "shelley" => some .shelleyMA
  | "alonzo" => some .alonzo
  | "babbage" => some .babbage
  | "conway" => some .conway
  | _ => none

def parts? (b w a : String) : Option Parts :=
  match Tok.nat? b, Tok.nat? w with
  | some bb, some ww =>
    if a = "-" then some ⟨bb, ww, none⟩ else (Tok.nat? a).map (fun x => ⟨bb, ww, some x⟩)
  | _, _ => none

def showRes : Res → String
  | .ok => "ok"
  | .feeBelowMin => "err fee-below-min"
  | .maxTxSizeExceeded => "err max-size"
  | .panic => "panic"

def step (_ : Unit) : List String → Unit × String
  | ["size", _, _, b, w, a] =>
    match parts? b w a with
    | some p => ((), s!"ok {validatorSize p} {traverseSize p}")
    | none => ((), "bad-op")
  | ["fee", _, era, b, w, a, fee, ca, cb, mx] =>
    match era? era, parts? b w a, Tok.nat? fee, Tok.nat? ca, Tok.nat? cb, Tok.nat? mx with
    | some e, some p, some f, some x, some y, some m => ((), showRes (feeAndSize e p f x y m))
    | _, _, _, _, _, _ => ((), "bad-op")
  | ["minfee", _, _, fee, size, ca, cb] =>
    match Tok.nat? fee, Tok.nat? size, Tok.nat? ca, Tok.nat? cb with
    | some f, some s, some x, some y => ((), showRes (checkMinFee f x y s))
    | _, _, _, _ => ((), "bad-op")
  | ["maxsize", _, size, mx] =>
    match Tok.nat? size, Tok.nat? mx with
    | some s, some m => ((), showRes (checkTxSize s m))
    | _, _ => ((), "bad-op")
  | _ => ((), "bad-op")

def stream : Stream := { name := "feesize", σ := Unit, init := (), step := step }

end PallasVerif.Streams.FeeSize
