import PallasVerif.Stream
import PallasVerif.Model.ExUnits
/-! stream `exunits` (C37). Ops (see harness/src/streams/exunits.rs):
    `fixtures`, `unit <era> <v1> <v2> <v3> <enc> <maxmem> <maxsteps> <mem:steps>*`,
    `whole <fixture> <era> <v1> <v2> <v3> <enc> <maxmem> <maxsteps> <mem:steps>*` (the fixture is accepted
    by every other rule, so the verdict of the whole validator is the verdict of this rule). -/
namespace PallasVerif.Streams.ExUnits
open PallasVerif PallasVerif.ExUnits

def era? : String → Option Era
  | "alonzo" => some .alonzo
  | "babbage" => some .babbage
  | "conway" => some .conway
  | _ => none

def cnt? (s : String) : Option (Option Nat) :=
  if s = "-" then some none else (Tok.nat? s).map some

def unit? (s : String) : Option ExU :=
  match s.splitOn ":" with
  | [a, b] => match Tok.nat? a, Tok.nat? b with
    | some m, some st => some ⟨m, st⟩
    | _, _ => none
  | _ => none

def units? : List String → Option (List ExU)
  | [] => some []
  | t :: ts => match unit? t, units? ts with
    | some u, some us => some (u :: us)
    | _, _ => none

def keyed (us : List ExU) : List (Key × ExU) :=
  (List.range us.length).zip us |>.map (fun (i, u) => (⟨0, i⟩, u))

def showRes : Res → String
  | .ok => "ok"
  | .exceeded => "err exceeded"
  | .redeemerMissing => "err redeemer-missing"
  | .panic => "panic"

def runCheck (era v1 v2 v3 enc mm ms : String) (us : List String) : String :=
  match era? era, cnt? v1, cnt? v2, cnt? v3, Tok.nat? mm, Tok.nat? ms, units? us with
  | some e, some c1, some c2, some c3, some maxMem, some maxSteps, some bs =>
    let reds : Option (Option Redeemers) :=
      if enc = "none" then some none
      else if enc = "list" then some (some (.list (keyed bs)))
      else if enc = "map" then some (some (.map (keyed bs)))
      else none
    match reds with
    | some r => showRes (checkTxExUnits e ⟨c1, c2, c3, r⟩ maxMem maxSteps)
    | none => "bad-op"
  | _, _, _, _, _, _, _ => "bad-op"

def step (_ : Unit) : List String → Unit × String
  | ["fixtures"] => ((), "ok all-accepted")
  | "unit" :: era :: v1 :: v2 :: v3 :: enc :: mm :: ms :: us => ((), runCheck era v1 v2 v3 enc mm ms us)
  | "whole" :: _ :: era :: v1 :: v2 :: v3 :: enc :: mm :: ms :: us => ((), runCheck era v1 v2 v3 enc mm ms us)
  | _ => ((), "bad-op")

def stream : Stream := { name := "exunits", σ := Unit, init := (), step := step }

end PallasVerif.Streams.ExUnits
