import PallasVerif.Stream
import PallasVerif.Model.PlutusData
import PallasVerif.Model.PlutusDataDec
/-! stream `pdata` (C07). Value tokens in prefix form:
    `C <tag> <any|-> <d|i> <n> V*n` | `M <d|i> <n> (V V)*n` | `A <d|i> <n> V*n` | `I <int>` |
    `U <hex>` | `N <hex>` | `B <hex>`.
    Ops: `cmp V V`, `rt V`, `dec <hex>`, `decx <hex> V`. Decoding is the byte-level decoder
    `Dec.decodeBytes` (transcription of the Rust `Decode` impls over minicbor's primitives). -/
namespace PallasVerif.Streams.Pdata
open PallasVerif PallasVerif.Cbor PallasVerif.PlutusData

def di (b : Bool) : String := if b then "d" else "i"

mutual
def showV : PData → List String
  | .constr t a d fs =>
    ["C", toString t, (match a with | some n => toString n | none => "-"), di d, toString fs.length] ++ showVs fs
  | .map d kvs => ["M", di d, toString kvs.length] ++ showKvs kvs
  | .array d xs => ["A", di d, toString xs.length] ++ showVs xs
  | .int (.int i) => ["I", toString i]
  | .int (.bigU bs) => ["U", Tok.hex bs]
  | .int (.bigN bs) => ["N", Tok.hex bs]
  | .bytes bs => ["B", Tok.hex bs]
def showVs : List PData → List String
  | [] => []
  | x :: xs => showV x ++ showVs xs
def showKvs : List (PData × PData) → List String
  | [] => []
  | (k, v) :: xs => showV k ++ showV v ++ showKvs xs
end

def showS (d : PData) : String := " ".intercalate (showV d)

def flag? (s : String) : Option Bool := if s = "d" then some true else if s = "i" then some false else none

mutual
/-- recursive descent over the token list; fuel = number of tokens + 1 -/
def parseV : Nat → List String → Option (PData × List String)
  | 0, _ => none
  | fuel + 1, toks =>
    match toks with
    | "C" :: t :: a :: d :: n :: rest =>
      match Tok.nat? t, (if a = "-" then some none else (Tok.nat? a).map some), flag? d, Tok.nat? n with
      | some t, some a, some d, some n =>
        match parseVs fuel n rest with
        | some (fs, rest') => some (.constr t a d fs, rest')
        | none => none
      | _, _, _, _ => none
    | "M" :: d :: n :: rest =>
      match flag? d, Tok.nat? n with
      | some d, some n =>
        match parseKvs fuel n rest with
        | some (kvs, rest') => some (.map d kvs, rest')
        | none => none
      | _, _ => none
    | "A" :: d :: n :: rest =>
      match flag? d, Tok.nat? n with
      | some d, some n =>
        match parseVs fuel n rest with
        | some (xs, rest') => some (.array d xs, rest')
        | none => none
      | _, _ => none
    | "I" :: i :: rest => (Tok.int? i).map fun i => (.int (.int i), rest)
    | "U" :: h :: rest => (Tok.unhex h).map fun bs => (.int (.bigU bs), rest)
    | "N" :: h :: rest => (Tok.unhex h).map fun bs => (.int (.bigN bs), rest)
    | "B" :: h :: rest => (Tok.unhex h).map fun bs => (.bytes bs, rest)
    | _ => none
def parseVs : Nat → Nat → List String → Option (List PData × List String)
  | _, 0, toks => some ([], toks)
  | 0, _ + 1, _ => none
  | fuel + 1, n + 1, toks =>
    match parseV fuel toks with
    | some (x, rest) =>
      match parseVs fuel n rest with
      | some (xs, rest') => some (x :: xs, rest')
      | none => none
    | none => none
def parseKvs : Nat → Nat → List String → Option (List (PData × PData) × List String)
  | _, 0, toks => some ([], toks)
  | 0, _ + 1, _ => none
  | fuel + 1, n + 1, toks =>
    match parseV fuel toks with
    | some (k, rest) =>
      match parseV fuel rest with
      | some (v, rest') =>
        match parseKvs fuel n rest' with
        | some (xs, rest'') => some ((k, v) :: xs, rest'')
        | none => none
      | none => none
    | none => none
end

def ordS : Ordering → String
  | .lt => "lt" | .eq => "eq" | .gt => "gt"

def step (_ : Unit) (toks : List String) : Unit × String :=
  let fuel := 2 * toks.length + 2
  let r :=
    match toks with
    | "cmp" :: rest =>
      match parseV fuel rest with
      | some (a, rest') =>
        match parseV fuel rest' with
        | some (b, []) =>
          match cmp? a b with
          | some o => "ok " ++ ordS o
          | none => "panic"
        | _ => "bad-op"
      | none => "bad-op"
    | "rt" :: rest =>
      match parseV fuel rest with
      | some (a, []) =>
        let bs := encode a
        match Dec.decodeBytes bs with
        | some (d, _) => "ok " ++ Tok.hex bs ++ " " ++ showS d
        | none => "ok " ++ Tok.hex bs ++ " err"
      | _ => "bad-op"
    | "dec" :: h :: _ | "decx" :: h :: _ =>
      match Tok.unhex h with
      | some bs =>
        match Dec.decodeBytes bs with
        | some (d, _) => "ok " ++ showS d
        | none => "err decode"
      | none => "bad-op"
    | _ => "bad-op"
  ((), r)

def stream : Stream := { name := "pdata", σ := Unit, init := (), step := step }

end PallasVerif.Streams.Pdata
