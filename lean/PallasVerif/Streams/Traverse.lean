import PallasVerif.Stream
import PallasVerif.Model.Traverse
import PallasVerif.Model.TxView
import PallasVerif.Model.Blake2b
/-! stream `traverse` (C30): `block <hex>` decodes a block (probe on the first two heads, parts
    taken from the generic CBOR tree), `tx <i>` prints the i-th traversed transaction as
    `hash=<blake2b256 of the body span> wits=<fnv1a64 of the witness span> valid=<b> aux=<none|some fnv1a64>`,
    `probe <hex>` is `probe::block_era`. -/
namespace PallasVerif.Streams.Traverse
open PallasVerif PallasVerif.Cbor PallasVerif.Traverse PallasVerif.TxView

/-- FNV-1a, 64 bit — a cheap fingerprint of a span (both sides compute it over raw bytes) -/
def fnv (bs : Bytes) : UInt64 :=
  bs.foldl (fun h b => (h ^^^ b.toUInt64) * 0x100000001b3) 0xcbf29ce484222325

def showFnv (bs : Bytes) : String := toString (fnv bs).toNat

def showOutcome : Outcome → String
  | .matched e => e.toString
  | .epochBoundary => "ebb"
  | .inconclusive => "inconclusive"

/-- per transaction: (body span, witness span, success, aux span) -/
abbrev TxRec := Traverse.Tx Bytes Bytes Bytes
abbrev St := List TxRec

def recordsOf (v : BlockView) : List TxRec :=
  if v.tag = 1 then
    v.payloads.filterMap fun p =>
      match p.arrayItems? with
      | some [tx, w] => some { body := tx.encode, wits := w.encode, success := true, aux := none }
      | _ => none
  else
    cloneTxs (recordOfView v)

def countOf (v : BlockView) : Nat := if v.tag = 1 then v.payloads.length else v.bodies.length

def step (st : St) : List String → St × String
  | ["block", hx] =>
    match Tok.unhex hx with
    | some bs =>
      match eraOfOutcome (blockEra bs), viewBlock bs with
      | some e, some v =>
        let recs := recordsOf v
        (recs, "ok era=" ++ e.toString ++ " count=" ++ toString (countOf v) ++ " ntxs=" ++ toString recs.length)
      | _, _ => ([], "err decode")
    | none => ([], "bad-op")
  | ["tx", i] =>
    match Tok.nat? i with
    | some i =>
      match st[i]? with
      | some t =>
        (st, "ok hash=" ++ Tok.hex (Blake2b.blake2b256 t.body) ++ " wits=" ++ showFnv t.wits ++ " valid=" ++
          Tok.showBool t.success ++ " aux=" ++ Tok.showOpt showFnv t.aux)
      | none => (st, "ok none")
    | none => (st, "bad-op")
  | ["probe", hx] =>
    match Tok.unhex hx with
    | some bs => (st, "ok " ++ showOutcome (blockEra bs))
    | none => (st, "bad-op")
  | _ => (st, "bad-op")

def stream : Stream := { name := "traverse", σ := St, init := [], step := step }

end PallasVerif.Streams.Traverse
