import PallasVerif.Stream
import PallasVerif.Model.U5c
import PallasVerif.Model.U5cTx
/-! stream `u5c`: datums in a prefix token grammar
    `c <tag> <any|-> <n> …` | `m <n> (k v)…` | `a <n> …` | `i <int>` | `u <hex>` | `n <hex>` | `b <hex>`;
    the mapped datum is printed in the same grammar with `I <int>` / `U <hex>` / `N <hex>` integers.
    `txdatum` and `file` ops are judged by the harness oracle only and reply `done`. -/
namespace PallasVerif.Streams.U5c
open PallasVerif PallasVerif.U5c PallasVerif.U5cTx

def bytes? (s : String) : Option Bytes := (Tok.unhex s).map (·.map (·.toNat))
def hexByte (n : Nat) : String := String.ofList [Tok.hexDigit (n / 16), Tok.hexDigit (n % 16)]
def showBytes (b : Bytes) : String := if b.isEmpty then "-" else String.join (b.map hexByte)

mutual
/-- one datum from the front of the token list (fuel bounds the recursion depth + width) -/
def parse : Nat → List String → Option (PData × List String)
  | 0, _ => none
  | fuel + 1, "c" :: tag :: any :: n :: rest =>
    match Tok.nat? tag, Tok.nat? n with
    | some tag, some n =>
      let any? : Option (Option Nat) := if any = "-" then some none else (Tok.nat? any).map some
      match any?, parseN fuel n rest with
      | some any, some (fields, rest) => some (.constr tag any fields, rest)
      | _, _ => none
    | _, _ => none
  | fuel + 1, "m" :: n :: rest =>
    match Tok.nat? n with
    | some n => (parsePairs fuel n rest).map (fun (ps, rest) => (.map ps, rest))
    | none => none
  | fuel + 1, "a" :: n :: rest =>
    match Tok.nat? n with
    | some n => (parseN fuel n rest).map (fun (xs, rest) => (.array xs, rest))
    | none => none
  | _ + 1, "i" :: v :: rest => (Tok.int? v).map (fun v => (.bigInt (.int v), rest))
  | _ + 1, "u" :: b :: rest => (bytes? b).map (fun b => (.bigInt (.bigUInt b), rest))
  | _ + 1, "n" :: b :: rest => (bytes? b).map (fun b => (.bigInt (.bigNInt b), rest))
  | _ + 1, "b" :: b :: rest => (bytes? b).map (fun b => (.bytes b, rest))
  | _ + 1, _ => none
def parseN : Nat → Nat → List String → Option (List PData × List String)
  | 0, _, _ => none
  | _ + 1, 0, rest => some ([], rest)
  | fuel + 1, n + 1, rest =>
    match parse fuel rest with
    | some (d, rest) => (parseN fuel n rest).map (fun (ds, rest) => (d :: ds, rest))
    | none => none
def parsePairs : Nat → Nat → List String → Option (List (PData × PData) × List String)
  | 0, _, _ => none
  | _ + 1, 0, rest => some ([], rest)
  | fuel + 1, n + 1, rest =>
    match parse fuel rest with
    | some (k, rest) =>
      match parse fuel rest with
      | some (v, rest) => (parsePairs fuel n rest).map (fun (ps, rest) => ((k, v) :: ps, rest))
      | none => none
    | none => none
end

def showInt : UInt → String
  | .int v => "I " ++ toString v
  | .bigUInt b => "U " ++ showBytes b
  | .bigNInt b => "N " ++ showBytes b

mutual
def showData : UData → List String
  | .constr tag any fields => ("c " ++ toString tag ++ " " ++ toString any ++ " " ++ toString fields.length) :: showList fields
  | .map pairs => ("m " ++ toString pairs.length) :: showPairs pairs
  | .array items => ("a " ++ toString items.length) :: showList items
  | .bigInt i => [showInt i]
  | .bytes b => ["b " ++ showBytes b]
def showList : List UData → List String
  | [] => []
  | d :: t => showData d ++ showList t
def showPairs : List (UData × UData) → List String
  | [] => []
  | (k, v) :: t => showData k ++ showData v ++ showPairs t
end

/-! ## `txview`: the ledger view of a transaction in prefix tokens, the mapped message printed back -/

abbrev P (α : Type) := List String → Option (α × List String)

def pNat : P Nat
  | t :: r => (Tok.nat? t).map (fun n => (n, r))
  | [] => none
def pInt : P Int
  | t :: r => (Tok.int? t).map (fun n => (n, r))
  | [] => none
def pBytes : P Bytes
  | t :: r => (bytes? t).map (fun b => (b, r))
  | [] => none
def pOptNat : P (Option Nat)
  | "-" :: r => some (none, r)
  | t :: r => (Tok.nat? t).map (fun n => (some n, r))
  | [] => none
def pKw (k : String) : P Unit
  | t :: r => if t = k then some ((), r) else none
  | [] => none

/-- `n` repetitions -/
def pRep {α : Type} (p : P α) : Nat → P (List α)
  | 0, ts => some ([], ts)
  | n + 1, ts =>
    match p ts with
    | some (a, r) => (pRep p n r).map (fun (as, r') => (a :: as, r'))
    | none => none

def pCounted {α : Type} (p : P α) : P (List α) := fun ts =>
  match pNat ts with
  | some (n, r) => pRep p n r
  | none => none

def pTree : P PData := fun ts => parse (ts.length + 1) ts

def pInput : P LInput := fun ts =>
  match pBytes ts with
  | some (h, r) => (pNat r).map (fun (i, r') => ({ hash := h, index := i }, r'))
  | none => none

def pAssets {Q : Type} (q : P Q) : P (LAssets Q) :=
  pCounted (fun ts =>
    match pBytes ts with
    | some (p, r) =>
      (pCounted (fun ts => match pBytes ts with
        | some (n, r) => (q r).map (fun (x, r') => ((n, x), r'))
        | none => none) r).map (fun (as, r') => ((p, as), r'))
    | none => none)

def pNative : Nat → P NativeScript
  | 0, _ => none
  | f + 1, "k" :: r => (pBytes r).map (fun (h, r') => (.pubkey h, r'))
  | f + 1, "A" :: r => (pCounted (pNative f) r).map (fun (xs, r') => (.all xs, r'))
  | f + 1, "O" :: r => (pCounted (pNative f) r).map (fun (xs, r') => (.any xs, r'))
  | f + 1, "K" :: r =>
    match pNat r with
    | some (k, r) => (pCounted (pNative f) r).map (fun (xs, r') => (.nOfK k xs, r'))
    | none => none
  | _ + 1, "B" :: r => (pNat r).map (fun (s, r') => (.invalidBefore s, r'))
  | _ + 1, "F" :: r => (pNat r).map (fun (s, r') => (.invalidHereafter s, r'))
  | _ + 1, _ => none

def pDatumOpt : P (Option LDatum)
  | "dn" :: r => some (none, r)
  | "dh" :: r => (pBytes r).map (fun (h, r') => (some (.hash h), r'))
  | "di" :: r =>
    match pBytes r with
    | some (c, r) => (pTree r).map (fun (d, r') => (some (.inline c d), r'))
    | none => none
  | _ => none

def pScriptOpt : P (Option LScript)
  | "sn" :: r => some (none, r)
  | "sp" :: r =>
    match pNat r with
    | some (v, r) => (pBytes r).map (fun (b, r') => (some (.plutus v b), r'))
    | none => none
  | "ss" :: r => (pNative (r.length + 1) r).map (fun (s, r') => (some (.native s), r'))
  | _ => none

def pOutput : P LOutput := fun ts =>
  match pBytes ts with
  | none => none
  | some (addr, r) =>
  match pNat r with
  | none => none
  | some (coin, r) =>
  match pAssets pNat r with
  | none => none
  | some (assets, r) =>
  match pDatumOpt r with
  | none => none
  | some (datum, r) =>
  (pScriptOpt r).map (fun (script, r') => ({ address := addr, coin, assets, datum, script }, r'))

def pRedeemer : P LRedeemer := fun ts =>
  match pRep pNat 4 ts with
  | some ([tag, index, mem, steps], r) => (pTree r).map (fun (d, r') => ({ tag, index, data := d, mem, steps }, r'))
  | _ => none

/-- `hash H valid B fee O vs O ttl O tc O certs N in … ref … col … out … cr … mint … wd … pd … rd …` -/
def pTx : P LTx := fun ts =>
  match ts with
  | "hash" :: h :: "valid" :: v :: "fee" :: r =>
    match bytes? h, Tok.bool? v, pOptNat r with
    | some hash, some isValid, some (fee, "vs" :: r) =>
      match pOptNat r with
      | some (validityStart, "ttl" :: r) =>
        match pOptNat r with
        | some (ttl, "tc" :: r) =>
          match pOptNat r with
          | some (totalCollateral, "certs" :: r) =>
            match pNat r with
            | some (certs, "in" :: r) =>
              match pCounted pInput r with
              | some (inputs, "ref" :: r) =>
                match pCounted pInput r with
                | some (referenceInputs, "col" :: r) =>
                  match pCounted pInput r with
                  | some (collateral, "out" :: r) =>
                    match pCounted pOutput r with
                    | some (outputs, "cr" :: r) =>
                      match pCounted pOutput r with
                      | some (crs, "mint" :: r) =>
                        match pAssets pInt r with
                        | some (mint, "wd" :: r) =>
                          match pCounted (fun ts => match pBytes ts with
                              | some (a, r) => (pNat r).map (fun (c, r') => ((a, c), r'))
                              | none => none) r with
                          | some (withdrawals, "pd" :: r) =>
                            match pCounted (fun ts => match pBytes ts with
                                | some (h, r) => (pTree r).map (fun (d, r') => ((h, d), r'))
                                | none => none) r with
                            | some (witnessDatums, "rd" :: r) =>
                              (pCounted pRedeemer r).map (fun (redeemers, r') =>
                                ({ hash, inputs, outputs, fee, validityStart, ttl, mint, collateral,
                                   collateralReturn := crs.head?, totalCollateral, referenceInputs, withdrawals, certs,
                                   witnessDatums, redeemers, isValid }, r'))
                            | _ => none
                          | _ => none
                        | _ => none
                      | _ => none
                    | _ => none
                  | _ => none
                | _ => none
              | _ => none
            | _ => none
          | _ => none
        | _ => none
      | _ => none
    | _, _, _ => none
  | _ => none

def bi : UInt → String
  | .int v => "I" ++ toString v
  | .bigUInt b => "U" ++ showBytes b
  | .bigNInt b => "N" ++ showBytes b

mutual
def tree : UData → String
  | .constr tag any fields => "c(" ++ toString tag ++ "," ++ toString any ++ ",[" ++ ";".intercalate (trees fields) ++ "])"
  | .map pairs => "m([" ++ ";".intercalate (treePairs pairs) ++ "])"
  | .array items => "a([" ++ ";".intercalate (trees items) ++ "])"
  | .bigInt i => bi i
  | .bytes b => "b" ++ showBytes b
def trees : List UData → List String
  | [] => []
  | d :: t => tree d :: trees t
def treePairs : List (UData × UData) → List String
  | [] => []
  | (k, v) :: t => (tree k ++ "=" ++ tree v) :: treePairs t
end

mutual
def native : NativeScript → String
  | .pubkey h => "k" ++ showBytes h
  | .all xs => "A[" ++ ";".intercalate (natives xs) ++ "]"
  | .any xs => "O[" ++ ";".intercalate (natives xs) ++ "]"
  | .nOfK n xs => "K" ++ toString n ++ "[" ++ ";".intercalate (natives xs) ++ "]"
  | .invalidBefore s => "B" ++ toString s
  | .invalidHereafter s => "F" ++ toString s
def natives : List NativeScript → List String
  | [] => []
  | x :: t => native x :: natives t
end

def showAssetsU (m : List (Bytes × List (Bytes × UInt))) : String :=
  "{" ++ ",".intercalate (m.map (fun p => showBytes p.1 ++ ":{" ++ ",".intercalate (p.2.map (fun a => showBytes a.1 ++ "=" ++ bi a.2)) ++ "}")) ++ "}"

def showUOut (o : UOutput) : String :=
  showBytes o.address ++ "/" ++ bi o.coin ++ "/" ++ showAssetsU o.assets ++ "/" ++
  showBytes o.datum.hash ++ ";" ++ (match o.datum.payload with | none => "-" | some d => tree d) ++ ";" ++ showBytes o.datum.originalCbor ++ "/" ++
  (match o.script with | none => "none" | some (.native s) => "n" ++ native s | some (.plutus v b) => "p" ++ toString v ++ "." ++ showBytes b)

def showUIn (i : UInput) : String := showBytes i.txHash ++ ":" ++ toString i.outputIndex

def showUTx (t : UTx) : String :=
  "hash=" ++ showBytes t.hash ++ " in=" ++ Tok.showList showUIn t.inputs ++ " out=" ++ Tok.showList showUOut t.outputs ++
  " fee=" ++ bi t.fee ++ " vs=" ++ toString t.validityStart ++ " ttl=" ++ toString t.ttl ++ " mint=" ++ showAssetsU t.mint ++
  " col=" ++ Tok.showList showUIn t.collateral ++ " cr=" ++ (match t.collateralReturn with | none => "none" | some o => showUOut o) ++
  " tc=" ++ bi t.totalCollateral ++ " ref=" ++ Tok.showList showUIn t.referenceInputs ++
  " wd=" ++ Tok.showList (fun (w : Bytes × UInt) => showBytes w.1 ++ "=" ++ bi w.2) t.withdrawals ++ " certs=" ++ toString t.certs ++
  " pd=" ++ Tok.showList tree t.witnessDatums ++
  " rd=" ++ Tok.showList (fun (r : URedeemer) => toString r.purpose ++ ":" ++ toString r.index ++ ":" ++ toString r.mem ++ ":" ++ toString r.steps ++ ":" ++ tree r.payload) t.redeemers ++
  " ok=" ++ (if t.successful then "1" else "0")

/-- everything after the `|` of a `txview` line -/
def txviewOp (toks : List String) : String :=
  match (toks.dropWhile (· ≠ "|")).drop 1 with
  | [] => "bad-op"
  | view =>
    match pTx view with
    | some (t, []) => "ok " ++ showUTx (mapTx t)
    | _ => "bad-op"

def mapOp (toks : List String) : String :=
  match parse (toks.length + 1) toks with
  | some (d, []) => "ok " ++ " ".intercalate (showData (mapDatum d))
  | _ => "bad-op"

def step (u : Unit) : List String → Unit × String
  | "bigint" :: toks => (u, mapOp toks)
  | "datum" :: toks => (u, mapOp toks)
  | ["u64", v] => (u, match Tok.nat? v with | some v => "ok " ++ showInt (u64ToBigInt v) | none => "bad-op")
  | ["i64", v] => (u, match Tok.int? v with | some v => "ok " ++ showInt (i64ToBigInt v) | none => "bad-op")
  | "txview" :: toks => (u, txviewOp toks)
  | "txdatum" :: _ => (u, "done")
  | "file" :: _ => (u, "done")
  | _ => (u, "bad-op")

def stream : Stream := { name := "u5c", σ := Unit, init := (), step := step }

end PallasVerif.Streams.U5c
