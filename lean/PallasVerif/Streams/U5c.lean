import PallasVerif.Stream
import PallasVerif.Model.U5c
/-! stream `u5c`: datums in a prefix token grammar
    `c <tag> <any|-> <n> …` | `m <n> (k v)…` | `a <n> …` | `i <int>` | `u <hex>` | `n <hex>` | `b <hex>`;
    the mapped datum is printed in the same grammar with `I <int>` / `U <hex>` / `N <hex>` integers.
    `txdatum` and `file` ops are judged by the harness oracle only and reply `done`. -/
namespace PallasVerif.Streams.U5c
open PallasVerif PallasVerif.U5c

def bytes? (s : String) : Option Bytes := (Tok.unhex s).map (·.map (·.toNat))
def hexByte (n : Nat) : String := String.ofList [Tok.hexDigit (n / 16), Tok.hexDigit (n % 16)]
def showBytes (b : Bytes) : String := if b.isEmpty then "-" else String.join (b.map hexByte)

mutual
/-- one datum from the front of the token list (fuel bounds the recursion depth + width) -/
def parse : Nat → List String → Option (PData × List String)
  | 0, _ => none
  | fuel + 1, "c" :: tag :: any :: n :: rest =>
    match Tok.nat? tag, Tok.nat? n with
    | some tag, some n =>
      let any? : Option (Option Nat) := if any = "-" then some none else (Tok.nat? any).map some
      match any?, parseN fuel n rest with
      | some any, some (fields, rest) => some (.constr tag any fields, rest)
      | _, _ => none
    | _, _ => none
  | fuel + 1, "m" :: n :: rest =>
    match Tok.nat? n with
    | some n => (parsePairs fuel n rest).map (fun (ps, rest) => (.map ps, rest))
    | none => none
  | fuel + 1, "a" :: n :: rest =>
    match Tok.nat? n with
    | some n => (parseN fuel n rest).map (fun (xs, rest) => (.array xs, rest))
    | none => none
  | _ + 1, "i" :: v :: rest => (Tok.int? v).map (fun v => (.bigInt (.int v), rest))
  | _ + 1, "u" :: b :: rest => (bytes? b).map (fun b => (.bigInt (.bigUInt b), rest))
  | _ + 1, "n" :: b :: rest => (bytes? b).map (fun b => (.bigInt (.bigNInt b), rest))
  | _ + 1, "b" :: b :: rest => (bytes? b).map (fun b => (.bytes b, rest))
  | _ + 1, _ => none
def parseN : Nat → Nat → List String → Option (List PData × List String)
  | 0, _, _ => none
  | _ + 1, 0, rest => some ([], rest)
  | fuel + 1, n + 1, rest =>
    match parse fuel rest with
    | some (d, rest) => (parseN fuel n rest).map (fun (ds, rest) => (d :: ds, rest))
    | none => none
def parsePairs : Nat → Nat → List String → Option (List (PData × PData) × List String)
  | 0, _, _ => none
  | _ + 1, 0, rest => some ([], rest)
  | fuel + 1, n + 1, rest =>
    match parse fuel rest with
    | some (k, rest) =>
      match parse fuel rest with
      | some (v, rest) => (parsePairs fuel n rest).map (fun (ps, rest) => ((k, v) :: ps, rest))
      | none => none
    | none => none
end

def showInt : UInt → String
  | .int v => "I " ++ toString v
  | .bigUInt b => "U " ++ showBytes b
  | .bigNInt b => "N " ++ showBytes b

mutual
def showData : UData → List String
  | .constr tag any fields => ("c " ++ toString tag ++ " " ++ toString any ++ " " ++ toString fields.length) :: showList fields
  | .map pairs => ("m " ++ toString pairs.length) :: showPairs pairs
  | .array items => ("a " ++ toString items.length) :: showList items
  | .bigInt i => [showInt i]
  | .bytes b => ["b " ++ showBytes b]
def showList : List UData → List String
  | [] => []
  | d :: t => showData d ++ showList t
def showPairs : List (UData × UData) → List String
  | [] => []
  | (k, v) :: t => showData k ++ showData v ++ showPairs t
end

def mapOp (toks : List String) : String :=
  match parse (toks.length + 1) toks with
  | some (d, []) => "ok " ++ " ".intercalate (showData (mapDatum d))
  | _ => "bad-op"

def step (u : Unit) : List String → Unit × String
  | "bigint" :: toks => (u, mapOp toks)
  | "datum" :: toks => (u, mapOp toks)
  | ["u64", v] => (u, match Tok.nat? v with | some v => "ok " ++ showInt (u64ToBigInt v) | none => "bad-op")
  | ["i64", v] => (u, match Tok.int? v with | some v => "ok " ++ showInt (i64ToBigInt v) | none => "bad-op")
  | "txdatum" :: _ => (u, "done")
  | "file" :: _ => (u, "done")
  | _ => (u, "bad-op")

def stream : Stream := { name := "u5c", σ := Unit, init := (), step := step }

end PallasVerif.Streams.U5c
