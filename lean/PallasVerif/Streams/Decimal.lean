import PallasVerif.Stream
import PallasVerif.Model.Decimal
/-! stream `decimal` (C17): `Decimal` operators, rounding family, comparison, printing.
    Values travel as `<precision> <data>` (both decimal integers); every reply that is a
    `Decimal` is its `Display` string, so printing is tied on every op. -/
namespace PallasVerif.Streams.Decimal
open PallasVerif PallasVerif.Decimal

def dec? (p d : String) : Option Dec :=
  match Tok.nat? p, Tok.int? d with
  | some p, some d => some { prec := p, data := d }
  | _, _ => none

def okDec (x : Dec) : String := "ok " ++ toStr x

def showOrd : Option Ordering → String
  | none => "none" | some .lt => "lt" | some .eq => "eq" | some .gt => "gt"

def bin (f : Dec → Dec → Option Dec) (p x q y : String) : String :=
  match dec? p x, dec? q y with
  | some a, some b => (match f a b with | some r => okDec r | none => "panic")
  | _, _ => "bad-op"

def un (f : Dec → Dec) (p x : String) : String :=
  match dec? p x with
  | some a => okDec (f a)
  | none => "bad-op"

def step (_ : Unit) : List String → Unit × String
  | ["add", p, x, q, y] => ((), bin (fun a b => some (add a b)) p x q y)
  | ["sub", p, x, q, y] => ((), bin (fun a b => some (sub a b)) p x q y)
  | ["mul", p, x, q, y] => ((), bin (fun a b => some (mul a b)) p x q y)
  | ["div", p, x, q, y] => ((), bin divD p x q y)
  | ["neg", p, x] => ((), un neg p x)
  | ["abs", p, x] => ((), un abs p x)
  | ["round", p, x] => ((), un round p x)
  | ["floor", p, x] => ((), un floor p x)
  | ["ceil", p, x] => ((), un ceil p x)
  | ["trunc", p, x] => ((), un trunc p x)
  | ["show", p, x] => ((), un id p x)
  | ["cmp", p, x, q, y] =>
    match dec? p x, dec? q y with
    | some a, some b => ((), "ok " ++ showOrd (partialCmp a b) ++ " " ++ Tok.showBool (eq a b))
    | _, _ => ((), "bad-op")
  | ["fromint", n] =>
    match Tok.int? n with
    | some n => ((), okDec (ofInt n))
    | none => ((), "bad-op")
  | _ => ((), "bad-op")

def stream : Stream := { name := "decimal", σ := Unit, init := (), step := step }

end PallasVerif.Streams.Decimal
