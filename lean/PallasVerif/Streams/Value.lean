import PallasVerif.Stream
import PallasVerif.Model.Value
/-! stream `value` (C34), see harness/src/streams/value.rs.
    `pv <era> I <n> <value>^n O <m> <value>^m F <fee> M <mint|->`,
    `by I <n> <amount>^n O <m> <amount>^m S <size> A <summand> B <multiplier>` -/
namespace PallasVerif.Streams.Value
open PallasVerif PallasVerif.Value

def asset? (s : String) : Option (String × Int) :=
  match s.splitOn "=" with
  | [n, v] => (Tok.int? v).map (fun x => (n, x))
  | _ => none

def assets? : List String → Option (AMap Int)
  | [] => some []
  | t :: ts => match asset? t, assets? ts with
    | some a, some as => some (a :: as)
    | _, _ => none

def group? (s : String) : Option (String × AMap Int) :=
  match s.splitOn ":" with
  | [p, rest] => (assets? ((rest.splitOn ",").filter (· ≠ ""))).map (fun as => (p, as))
  | _ => none

def groups? : List String → Option MA
  | [] => some []
  | t :: ts => match group? t, groups? ts with
    | some g, some gs => some (g :: gs)
    | _, _ => none

def value? (s : String) : Option Value :=
  match (s.drop 1).toString.splitOn ";" with
  | c :: gs =>
    match Tok.int? c, groups? (gs.filter (· ≠ "")) with
    | some coin, some ma =>
      if s.startsWith "c" then some (.coin coin)
      else if s.startsWith "m" then some (.multi coin ma)
      else none
    | _, _ => none
  | [] => none

def takeValues : Nat → List String → Option (List Value × List String)
  | 0, rest => some ([], rest)
  | n + 1, t :: rest => match value? t, takeValues n rest with
    | some v, some (vs, r) => some (v :: vs, r)
    | _, _ => none
  | _, _ => none

def takeInts : Nat → List String → Option (List Int × List String)
  | 0, rest => some ([], rest)
  | n + 1, t :: rest => match Tok.int? t, takeInts n rest with
    | some v, some (vs, r) => some (v :: vs, r)
    | _, _ => none
  | _, _ => none

def showRes : Res → String
  | .ok => "ok"
  | .negativeValue => "err negative-value"
  | .notPreserved => "err not-preserved"
  | .wrongEra => "err wrong-era"
  | .feesBelowMin => "err fees-below-min"
  | .other => "err other"
  | .panic => "panic"

def runPv (era : String) (rest : List String) : String :=
  match rest with
  | "I" :: n :: r1 =>
    match (Tok.nat? n).bind (fun k => takeValues k r1) with
    | some (ins, "O" :: m :: r2) =>
      match (Tok.nat? m).bind (fun k => takeValues k r2) with
      | some (outs, ["F", fee, "M", mint]) =>
        let mintv : Option (Option MA) :=
          if mint = "-" then some none else (groups? ((mint.splitOn ";").filter (· ≠ ""))).map some
        match Tok.int? fee, mintv with
        | some f, some mt =>
          if era = "shelley" then showRes (checkPreservationShelleyMA true ins outs f mt)
          else if era = "allegra" || era = "mary" then showRes (checkPreservationShelleyMA false ins outs f mt)
          else if era = "alonzo" || era = "babbage" then showRes (checkPreservation ins outs f mt)
          else if era = "conway" then showRes (checkPreservationConway ins outs f mt)
          else "bad-op"
        | _, _ => "bad-op"
      | _ => "bad-op"
    | _ => "bad-op"
  | _ => "bad-op"

def runBy (rest : List String) : String :=
  match rest with
  | "I" :: n :: r1 =>
    match (Tok.nat? n).bind (fun k => takeInts k r1) with
    | some (ins, "O" :: m :: r2) =>
      match (Tok.nat? m).bind (fun k => takeInts k r2) with
      | some (outs, ["S", size, "A", a, "B", b, "R", r]) =>
        match Tok.int? size, Tok.int? a, Tok.int? b, Tok.bool? r with
        | some s, some x, some y, some rd => showRes (byronCheckFees ins outs s x y rd)
        | _, _, _, _ => "bad-op"
      | _ => "bad-op"
    | _ => "bad-op"
  | _ => "bad-op"

def step (_ : Unit) : List String → Unit × String
  | "pv" :: era :: rest => ((), runPv era rest)
  | "pvw" :: era :: rest => ((), runPv era rest)   -- the same scenario through `validate_txs` (every other rule passes)
  | "by" :: rest => ((), runBy rest)
  | _ => ((), "bad-op")

def stream : Stream := { name := "value", σ := Unit, init := (), step := step }

end PallasVerif.Streams.Value
