import PallasVerif.Streams.P2PInit
import PallasVerif.Model.P2PResponder
/-! stream `p2p_resp` (C29): the responder behaviour model.

  ops: `rcfg maxErr maxPerIp tbl` | `connected p` | `disconnected p` | `error p` | `recv p msg..` | `sent p msg`
  | `hk [@ ord.. ; @]` | `idle [@ .. @]` | `isect p pt` | `header p h` | `rollback p pt` | `blocks p b,..` | `peers p q,..`
  | `ebann p` | `eboffer p` | `ebtxsoffer p` | `votes p` | `eb p` | `ebtxs p` | `ban p` | `disc p`
  reply: `ok [outputs] B[..] A[..] n<active> IP[host:count ..] | peer..`, `panic`, then `dead`. -/
namespace PallasVerif.Streams.P2PResp
open PallasVerif PallasVerif.P2P PallasVerif.Streams.P2PInit

def showREvent : REvent → String
  | .peerInitialized p v => s!"ev.init:{p}:{v}"
  | .peerDisconnected p => s!"ev.disc:{p}"
  | .intersectionRequested p => s!"ev.isectreq:{p}"
  | .nextHeaderRequested p => s!"ev.nextreq:{p}"
  | .blockRangeRequested p r => s!"ev.rangereq:{p}:{r}"
  | .peersRequested p n => s!"ev.peersreq:{p}:{n}"
  | .txReceived p => s!"ev.txrecv:{p}"
  | .ebNotificationRequested p => s!"ev.ebnotereq:{p}"
  | .ebRequested p e => s!"ev.ebreq:{p}:{e}"
  | .ebTxsRequested p e => s!"ev.ebtxsreq:{p}:{e}"

def showROut : ROut → String
  | .disconnect p => s!"disconnect:{p}"
  | .send p m => s!"send:{p}:" ++ showMsg true m
  | .event e => showREvent e

def showRPeer (p : Nat) (st : RPeer) : String :=
  s!"{p}:{showConn st.conn}:v{if st.violation then 1 else 0}:e{st.errorCount}:" ++
  "/".intercalate [showHs st.hs, showKa st.ka, showPs st.ps, showBf st.bf, showCs st.cs, showTx st.tx,
    showLn st.ln, showLf st.lf]

def dedupNat (l : List Nat) : List Nat := l.foldl (fun acc x => sinsert x acc) []

def showRSt (ids : List Nat) (s : RSt) : String :=
  let ids := sortNat ids
  let ps := ids.filterMap (fun p => (s.peers p).map (showRPeer p))
  let hosts := sortNat (dedupNat (ids.map hostOf))
  let ips := hosts.filterMap (fun h => if s.perIp h > 0 then some s!"{h}:{s.perIp h}" else none)
  "[" ++ " ".intercalate (s.out.map showROut) ++ "] B" ++ showSet s.banned ++ " A" ++ showSet s.accepted ++
  s!" n{s.active} IP[" ++ " ".intercalate ips ++ "] |" ++ String.join (ps.map (" " ++ ·))

def parseOrd (toks : List String) : Option (List Nat) := (parseAnnot toks).map (·.1)

def provide1 (p : String) (m : Msg) : Option REv := (Tok.nat? p).map (fun p => .provide p [m])

def parseREv : List String → Option REv
  | "hk" :: rest => (parseOrd rest).map .housekeeping
  | "idle" :: rest => (parseOrd rest).map .idle
  | ["connected", p] => (Tok.nat? p).map .connected
  | ["disconnected", p] => (Tok.nat? p).map .disconnected
  | ["error", p] => (Tok.nat? p).map .error
  | ["sent", p, m] => match Tok.nat? p, parseMsg m with
    | some p, some m => some (.sent p m) | _, _ => none
  | "recv" :: p :: ms => match Tok.nat? p, ms.mapM parseMsg with
    | some p, some ms => some (.recv p ms) | _, _ => none
  | ["isect", p, x] => (Tok.nat? x).bind (fun x => provide1 p (.cs (.intersectFound x)))
  | ["header", p, x] => (Tok.nat? x).bind (fun x => provide1 p (.cs (.rollForward x)))
  | ["rollback", p, x] => (Tok.nat? x).bind (fun x => provide1 p (.cs (.rollBackward x)))
  | ["blocks", p, l] => match Tok.nat? p, natList? l with
    | some p, some l => some (.provide p ([.bf .startBatch] ++ l.map (fun b => .bf (.block b)) ++ [.bf .batchDone]))
    | _, _ => none
  | ["peers", p, l] => (natList? l).bind (fun l => provide1 p (.ps (.sharePeers l)))
  | ["ebann", p] => provide1 p (.ln .blockAnnouncement)
  | ["eboffer", p] => provide1 p (.ln .blockOffer)
  | ["ebtxsoffer", p] => provide1 p (.ln .blockTxsOffer)
  | ["votes", p] => provide1 p (.ln .votes)
  | ["eb", p] => provide1 p (.lf .block)
  | ["ebtxs", p] => provide1 p (.lf .blockTxs)
  | ["ban", p] => (Tok.nat? p).map .banPeer
  | ["disc", p] => (Tok.nat? p).map .disconnectPeer
  | _ => none

def revIds : REv → List Nat
  | .housekeeping o | .idle o => o
  | .provide p _ | .banPeer p | .disconnectPeer p | .connected p | .disconnected p | .recv p _ | .sent p _
  | .error p => [p]

structure S where
  st : Option RSt := none
  dead : Bool := false
  ids : List Nat := []

def annotEchoR : REv → String
  | .housekeeping o | .idle o => "@ " ++ showNats " " o ++ " ;  @ "
  | _ => ""

def stepS (σ : S) (toks : List String) : S × String :=
  if σ.dead then (σ, "dead") else
  match toks with
  | ["rcfg", a, b, tbl] =>
    match Tok.nat? a, Tok.nat? b, pairList? tbl with
    | some a, some b, some t =>
      let s : RSt := { maxErr := a, maxPerIp := b, supported := t }
      ({ σ with st := some s }, "ok " ++ showRSt σ.ids s)
    | _, _, _ => (σ, "bad-op")
  | _ =>
    match σ.st, parseREv toks with
    | some s, some e =>
      let ids := (revIds e).foldl (fun acc x => sinsert x acc) σ.ids
      match rStep s e with
      | some s' => ({ σ with st := some s', ids := ids }, "ok " ++ annotEchoR e ++ showRSt ids s')
      | none => ({ σ with dead := true }, "panic")
    | _, _ => (σ, "bad-op")

def stream : Stream := { name := "p2p_resp", σ := S, init := {}, step := stepS }

end PallasVerif.Streams.P2PResp
