import PallasVerif.Stream
import PallasVerif.Model.Flat
/-! stream `flat` (also run under the name `flatdec`): one `Encoder` and one `Decoder` per case.

    e.bool b | e.u8 n | e.bits n v | e.word n | e.int i | e.char cp | e.bytes hex | e.utf8 hex |
    e.bools 0110 | e.string cp* | e.filler        -> `ok <buffer len> <appended bytes>` | `err align` | `panic`
    fin                            -> filler, then a fresh decoder over the encoder's buffer
    load hex                       -> a fresh decoder over the given bytes: `ok <len>`
    d.bool | d.u8 | d.bits n | d.word | d.int | d.char | d.bytes | d.utf8 | d.bools | d.string | d.filler
                                   -> `ok <value> <pos> <used>` | `err <class> <pos> <used>` | `panic`
    d.end                          -> `ok <pos> <used> <len>`
    t.rt <kind> <value>            -> `flat::encode` then `flat::decode`: `ok <bytes> <decoded value>`
    t.dec <kind> <hex>             -> `flat::decode::<T>`: `ok <value>` | `err <class>` | `panic`
                                      (kinds: bool u8 word int char bytes utf8)
    After a `panic` every further op of the case answers `dead`. -/
namespace PallasVerif.Streams.Flat
open PallasVerif PallasVerif.Flat

structure St where
  enc : Enc := Enc.new
  dec : Option Dec := none
  dead : Bool := false

def toBytes (l : List UInt8) : List Byte := l.map (·.toBitVec)
def hexB (l : List Byte) : String := Tok.hex (l.map UInt8.ofBitVec)
def byte? (s : String) : Option Byte :=
  match Tok.nat? s with
  | some n => if n < 256 then some (BitVec.ofNat 8 n) else none
  | none => none

def bools? (s : String) : Option (List Bool) :=
  if s = "-" then some [] else
  s.toList.foldr (fun c acc => match acc with
    | none => none
    | some l => if c = '0' then some (false :: l) else if c = '1' then some (true :: l) else none) (some [])

def showBools (l : List Bool) : String :=
  if l.isEmpty then "-" else String.ofList (l.map fun b => if b then '1' else '0')

def showErr : Err → String
  | .eob => "eob"
  | .align => "align"
  | .numBits => "numbits"
  | .bytes n => "bytes " ++ toString n
  | .bits n => "bits " ++ toString n
  | .utf8 => "utf8"
  | .char c => "char " ++ toString c
  | .msg => "msg"

def encReply (st : St) (r : ERes) : St × String :=
  match r with
  | .ok e' =>
    ({ st with enc := e' }, "ok " ++ toString e'.buf.length ++ " " ++ hexB (e'.buf.drop st.enc.buf.length))
  | .err => (st, "err align")
  | .panic => ({ st with dead := true }, "panic")

def decReply {α : Type} (st : St) (sh : α → String) (r : Res α) : St × String :=
  match r with
  | .ok a d' => ({ st with dec := some d' }, "ok " ++ sh a ++ " " ++ toString d'.pos ++ " " ++ toString d'.used)
  | .err e d' => ({ st with dec := some d' }, "err " ++ showErr e ++ " " ++ toString d'.pos ++ " " ++ toString d'.used)
  | .panic => ({ st with dead := true }, "panic")

def optE (st : St) : Option Enc → St × String
  | some e' => encReply st (.ok e')
  | none => encReply st .panic

def stepEnc (st : St) : List String → St × String
  | ["e.bool", b] => match Tok.bool? b with
    | some b => encReply st (.ok (st.enc.bool b)) | none => (st, "bad-op")
  | ["e.u8", n] => match byte? n with
    | some x => encReply st (.ok (st.enc.u8 x)) | none => (st, "bad-op")
  | ["e.bits", n, v] => match Tok.nat? n, byte? v with
    | some n, some v => optE st (st.enc.bits n v) | _, _ => (st, "bad-op")
  | ["e.word", n] => match Tok.nat? n with
    | some n => optE st (st.enc.word n) | none => (st, "bad-op")
  | ["e.int", i] => match Tok.int? i with
    | some i => optE st (st.enc.word (zigzag i)) | none => (st, "bad-op")
  | ["e.char", c] => match Tok.nat? c with
    | some c => optE st (st.enc.word c) | none => (st, "bad-op")
  | ["e.bytes", h] => match Tok.unhex h with
    | some bs => encReply st (st.enc.bytes (toBytes bs)) | none => (st, "bad-op")
  | ["e.utf8", h] => match Tok.unhex h with
    | some bs => encReply st (st.enc.bytes (toBytes bs)) | none => (st, "bad-op")
  | ["e.bools", l] => match bools? l with
    | some l => encReply st (.ok (st.enc.bools l)) | none => (st, "bad-op")
  | ["e.filler"] => encReply st (.ok st.enc.filler)
  | "e.string" :: cs => match cs.mapM Tok.nat? with
    | some cs => optE st (st.enc.string cs) | none => (st, "bad-op")
  | _ => (st, "bad-op")

def stepDec (st : St) (d : Dec) : List String → St × String
  | ["d.bool"] => decReply st Tok.showBool d.bool
  | ["d.u8"] => decReply st (fun b => toString b.toNat) d.u8
  | ["d.bits", n] => match Tok.nat? n with
    | some n => decReply st (fun b => toString b.toNat) (d.bits8 n) | none => (st, "bad-op")
  | ["d.word"] => decReply st toString d.word
  | ["d.int"] => decReply st toString d.integer
  | ["d.char"] => decReply st toString d.char
  | ["d.bytes"] => decReply st hexB d.bytes
  | ["d.utf8"] => decReply st hexB d.utf8
  | ["d.bools"] => decReply st showBools (d.list Dec.bool)
  | ["d.string"] => decReply st (Tok.showList toString) d.string
  | ["d.filler"] => decReply st (fun _ => "()") d.filler
  | ["d.end"] => (st, "ok " ++ toString d.pos ++ " " ++ toString d.used ++ " " ++ toString d.buf.length)
  | _ => (st, "bad-op")

def showValue : Value → String
  | .bool b => Tok.showBool b
  | .u8 x => toString x.toNat
  | .bits _ x => toString x.toNat
  | .word w => toString w
  | .int i => toString i
  | .char c => toString c
  | .bytes bs => hexB bs
  | .utf8 bs => hexB bs
  | .bools l => showBools l
  | .string cs => Tok.showList toString cs

def topValue? (kind val : String) : Option Value :=
  match kind with
  | "bool" => (Tok.bool? val).map .bool
  | "u8" => (byte? val).map .u8
  | "word" => (Tok.nat? val).map .word
  | "int" => (Tok.int? val).map .int
  | "char" => (Tok.nat? val).map .char
  | "bytes" => (Tok.unhex val).map fun b => .bytes (toBytes b)
  | "utf8" => (Tok.unhex val).map fun b => .utf8 (toBytes b)
  | _ => none

def topKind? : String → Option Kind
  | "bool" => some .bool | "u8" => some .u8 | "word" => some .word | "int" => some .int
  | "char" => some .char | "bytes" => some .bytes | "utf8" => some .utf8 | _ => none

def topReply (r : Res Value) : String :=
  match r with
  | .ok v _ => "ok " ++ showValue v
  | .err e _ => "err " ++ showErr e
  | .panic => "panic"

def stepTop (st : St) : List String → St × String
  | ["t.rt", kind, val] =>
    match topValue? kind val with
    | none => (st, "bad-op")
    | some v =>
      match encodeTop v with
      | none => (st, "panic")
      | some bytes =>
        match decodeTop v.kind bytes with
        | .ok v' _ => (st, "ok " ++ hexB bytes ++ " " ++ showValue v')
        | .err e _ => (st, "ok " ++ hexB bytes ++ " err " ++ showErr e)
        | .panic => (st, "panic")
  | ["t.dec", kind, h] =>
    match topKind? kind, Tok.unhex h with
    | some k, some bs => (st, topReply (decodeTop k (toBytes bs)))
    | _, _ => (st, "bad-op")
  | _ => (st, "bad-op")

def step (st : St) (toks : List String) : St × String :=
  if st.dead then (st, "dead") else
  match toks with
  | ["fin"] =>
    let e' := st.enc.filler
    ({ st with enc := e', dec := some (Dec.new e'.buf) },
      "ok " ++ toString e'.buf.length ++ " " ++ hexB (e'.buf.drop st.enc.buf.length))
  | ["load", h] => match Tok.unhex h with
    | some bs => ({ st with dec := some (Dec.new (toBytes bs)) }, "ok " ++ toString bs.length)
    | none => (st, "bad-op")
  | op :: _ =>
    if op.startsWith "t." then stepTop st toks
    else if op.startsWith "e." then stepEnc st toks
    else match st.dec with
      | some d => stepDec st d toks
      | none => (st, "bad-op")
  | [] => (st, "bad-op")

def stream : Stream := { name := "flat", σ := St, init := {}, step := step }

end PallasVerif.Streams.Flat
