import PallasVerif.Stream
import PallasVerif.Model.Mux
/-! stream `mux` (C20). Payloads are given as `<len>:<seed>` (bytes `(seed + 7·i + i/256) mod 256`) so that
    65535-byte chunks fit on a line; replies carry `(length, digest)` pairs.
    Pure layer: `hdr`, `hdrdec`, `wseg`, `rseg`. Concurrent layer: `run` (the model executes one fixed
    schedule of the LTS; by `in_order_exactly_once`/`quiescent_complete` every schedule that drains gives
    the same per-agent result). -/
namespace PallasVerif.Streams.Mux
open PallasVerif PallasVerif.Mux

def genBytes (len seed : Nat) : Bytes :=
  (List.range len).map fun i => UInt8.ofNat (seed + 7 * i + i / 256)

def chunkDigest (b : Bytes) : Nat := b.foldl (fun h x => (h * 131 + x.toNat + 1) % 4294967291) 7

def seqDigest (cs : List Bytes) : Nat :=
  cs.foldl (fun h c => (h * 1000003 + chunkDigest c * 65537 + c.length) % 18446744073709551557) 0

def showChunk (b : Bytes) : String := toString b.length ++ ":" ++ toString (chunkDigest b)

def payload? (s : String) : Option Bytes :=
  match s.splitOn ":" with
  | [l, sd] => match l.toNat?, sd.toNat? with
    | some l, some sd => some (genBytes l sd)
    | _, _ => none
  | _ => none

/-- wire pieces: `f:<ts>:<proto>:<len>:<seed>` = a frame, `x:<hex>` = raw bytes -/
def piece? (s : String) : Option Bytes :=
  match s.splitOn ":" with
  | ["f", ts, q, l, sd] =>
    match ts.toNat?, q.toNat?, l.toNat?, sd.toNat? with
    | some ts, some q, some l, some sd => some (writeSegment ts (UInt16.ofNat q) (genBytes l sd))
    | _, _, _, _ => none
  | ["x", h] => Tok.unhex h
  | _ => none

partial def readAll (w : Bytes) (acc : List String) : List String :=
  match readSegment w with
  | none => acc.reverse
  | some (q, p, rest) => readAll rest ((toString q.toNat ++ ":" ++ showChunk p) :: acc)

/-- agent spec `a:<side 0|1>:<role c|s>:<proto>:<seed>:<len,len,...|->` -/
def agent? (s : String) : Option (Agent × List Bytes) :=
  match s.splitOn ":" with
  | ["a", side, role, q, sd, lens] =>
    match side.toNat?, q.toNat?, sd.toNat? with
    | some side, some q, some sd =>
      let r? : Option Role := if role = "c" then some .client else if role = "s" then some .server else none
      let ls? : Option (List Nat) := if lens = "-" then some [] else (lens.splitOn ",").mapM String.toNat?
      match r?, ls? with
      | some r, some ls =>
        some (⟨side = 1, r, UInt16.ofNat q⟩, ls.zipIdx.map fun (l, j) => genBytes l (sd + 13 * j))
      | _, _ => none
    | _, _, _ => none
  | _ => none

/-- fixed schedule: for every chunk `enqueue; muxTick; demuxTick`, then every agent dequeues until empty -/
def runPair (specs : List (Agent × List Bytes)) : Pair :=
  let agents := specs.map (·.1)
  let p0 := Pair.init agents
  let p1 := specs.foldl (fun p (a, cs) =>
    cs.foldl (fun p c => ((p.step (.enqueue a c)).step (.muxTick a.side 0)).step (.demuxTick (!a.side))) p) p0
  specs.foldl (fun p (a, _) =>
    let n := ((p.out (!a.side)).queues (recvKey a.role a.proto)).length
    (List.range n).foldl (fun p _ => p.step (.dequeue a)) p) p1

def step (_ : Unit) (toks : List String) : Unit × String :=
  match toks with
  | ["hdr", ts, q, l] =>
    match ts.toNat?, q.toNat?, l.toNat? with
    | some ts, some q, some l =>
      let h : Header := ⟨ts, UInt16.ofNat q, l⟩
      let b := h.encode
      match Header.decode b with
      | some d => ((), "ok " ++ Tok.hex b ++ " " ++ toString d.timestamp ++ " " ++ toString d.protocol.toNat ++ " " ++ toString d.payloadLen)
      | none => ((), "panic")
    | _, _, _ => ((), "bad-op")
  | ["hdrdec", h] =>
    match Tok.unhex h with
    | some b =>
      match Header.decode b with
      | some d => ((), "ok " ++ toString d.timestamp ++ " " ++ toString d.protocol.toNat ++ " " ++ toString d.payloadLen)
      | none => ((), "panic")
    | none => ((), "bad-op")
  | ["wseg", q, pl] =>
    match q.toNat?, payload? pl with
    | some q, some p =>
      let w := writeSegment 0 (UInt16.ofNat q) p
      ((), "ok " ++ Tok.hex ((w.drop 4).take 4) ++ " " ++ showChunk (w.drop 8))
    | _, _ => ((), "bad-op")
  | ["wseg2", ts, q, pl] =>
    match ts.toNat?, q.toNat?, payload? pl with
    | some ts, some q, some p =>
      let w := writeSegment ts (UInt16.ofNat q) p
      ((), "ok " ++ Tok.hex (w.take 8) ++ " " ++ showChunk (w.drop 8))
    | _, _, _ => ((), "bad-op")
  | "rseg2" :: pieces =>
    match pieces.mapM piece? with
    | some ps => ((), "ok " ++ Tok.showList id (readAll ps.flatten []))
    | none => ((), "bad-op")
  | "rseg" :: pieces =>
    match pieces.mapM piece? with
    | some ps => ((), "ok " ++ Tok.showList id (readAll ps.flatten []))
    | none => ((), "bad-op")
  | "run" :: specs =>
    match specs.mapM agent? with
    | some ss =>
      let p := runPair ss
      ((), "ok " ++ " ".intercalate (ss.map fun (a, _) =>
        let d := (p.out (!a.side)).delivered.filterMap fun x => if x.1 = recvKey a.role a.proto then some x.2 else none
        toString d.length ++ ":" ++ toString (seqDigest d)))
    | none => ((), "bad-op")
  | _ => ((), "bad-op")

def stream : Stream := { name := "mux", σ := Unit, init := (), step := step }

end PallasVerif.Streams.Mux
