import PallasVerif.Stream
import PallasVerif.Model.ConwayValue
/-! stream `numwrap` (C04): direct and embedded decodes of `PositiveCoin` / `NonZeroInt`. -/
namespace PallasVerif.Streams.Numwrap
open PallasVerif
open PallasVerif.Cbor (Bytes)
open PallasVerif.Minicbor (Res P)
open PallasVerif.Wrappers PallasVerif.ConwayValue

def showAssets {α : Type} (q : α → String) (m : Multiasset α) : String :=
  " ".intercalate (["["] ++ m.map (fun p =>
    " ".intercalate ([Tok.hex p.1, "["] ++ p.2.map (fun a => Tok.hex a.1 ++ " " ++ q a.2) ++ ["]"])) ++ ["]"])

def top {α : Type} (p : P α) (shw : α → String) (h : String) : String :=
  match Tok.unhex h with
  | none => "bad-op"
  | some bs =>
    match p bs with
    | .ok a _ => "ok " ++ shw a
    | .err e => "err " ++ e.show

def step (_ : Unit) : List String → Unit × String
  | ["pcoin", h] => ((), top PositiveCoin.dec toString h)
  | ["nzi", h] => ((), top NonZeroInt.dec toString h)
  | ["value", h] =>
    ((), top value (fun v => match v with
      | .coin c => "coin " ++ toString c
      | .multiasset c m => "multi " ++ toString c ++ " " ++ showAssets toString m) h)
  | ["mint", h] => ((), top mint (showAssets toString) h)
  | ["donation", h] => ((), top donation (Tok.showOpt toString) h)
  | ["try_pcoin", n] =>
    match n.toNat? with
    | some n => ((), match PositiveCoin.tryFrom n with | some x => "ok " ++ toString x | none => "err zero")
    | none => ((), "bad-op")
  | ["try_nzi", n] =>
    match n.toInt? with
    | some n => ((), match NonZeroInt.tryFrom n with | some x => "ok " ++ toString x | none => "err zero")
    | none => ((), "bad-op")
  | _ => ((), "bad-op")

def stream : Stream := { name := "numwrap", σ := Unit, init := (), step := step }

end PallasVerif.Streams.Numwrap
