import PallasVerif.Streams.P2PInit
/-! stream `p2p_events` (C29): the initiator model of `Streams/P2PInit.lean` under arbitrary,
    mostly protocol-violating, event sequences -/
namespace PallasVerif.Streams.P2PEvents
def stream : PallasVerif.Stream := { PallasVerif.Streams.P2PInit.stream with name := "p2p_events" }
end PallasVerif.Streams.P2PEvents
