import PallasVerif.Stream
import PallasVerif.Model.Rollback
/-! stream `rollback`: points are tokens `origin` | `<slot>:<hashhex>` compared as text
    (the harness prints points canonically, so textual equality = `Point::eq`). -/
namespace PallasVerif.Streams.Rollback
open PallasVerif PallasVerif.Rollback

def showBuf (b : Buf String) : String := Tok.showList id b

def step (b : Buf String) : List String → Buf String × String
  | ["fwd", p] => let b' := rollForward b p; (b', "ok " ++ showBuf b')
  | ["back", p] =>
    let (e, b') := rollBack b p
    (b', (match e with | .handled => "ok handled " | .outOfScope => "ok outofscope ") ++ showBuf b')
  | ["pop", d] =>
    match Tok.nat? d with
    | some d => let (ps, b') := popWithDepth b d; (b', "ok " ++ showBuf ps ++ " " ++ showBuf b')
    | none => (b, "bad-op")
  | ["position", p] => (b, "ok " ++ Tok.showOpt toString (position b p))
  | ["size"] => (b, "ok " ++ toString (size b))
  | ["latest"] => (b, "ok " ++ Tok.showOpt id (latest b))
  | ["oldest"] => (b, "ok " ++ Tok.showOpt id (oldest b))
  | _ => (b, "bad-op")

def stream : Stream := { name := "rollback", σ := Buf String, init := [], step := step }

end PallasVerif.Streams.Rollback
