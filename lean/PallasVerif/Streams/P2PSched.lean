import PallasVerif.Streams.P2PInit
import PallasVerif.Model.P2PNet
import PallasVerif.Model.P2PDomain
/-! stream `p2p_sched` (C28): the initiator model behind an abstract connection per peer with a
  specification-conformant responder (`Model/P2PNet.lean`).

  ops: `cfg ..` | every command op of `p2p_init` (`include p`, `hk`, `idle`, `startsync`, `continuesync p`,
  `reqblocks r`, `fetcheb p e`, `fetchebtxs p e`, `ban p`, `demote p`, `sendtx`) | `connect p` | `confirm p`
  | `confirmall` | `arrive p` | `arriveall` | `reply p proto k` | `deliver p n` | `drop p` | `fail p`
  reply: `ok [@..@] <initiator state as in p2p_init> | obs<n> L<p>=<link> ..` -/
namespace PallasVerif.Streams.P2PSched
open PallasVerif PallasVerif.P2P PallasVerif.Streams.P2PInit

def showWire (w : Wire) : String :=
  (match w.hs with | .propose => "P" | .confirm => "C" | .done => "D") ++
  (match w.ka with | .client => "C" | .server => "S" | .done => "D") ++
  (match w.ps with | .idle => "I" | .busy => "B" | .done => "D") ++
  (match w.bf with | .idle => "I" | .busy => "B" | .streaming => "S" | .done => "D") ++
  (match w.cs with | .idle => "I" | .canAwait => "A" | .mustReply => "M" | .intersect => "X" | .done => "D") ++
  (match w.tx with | .init => "N" | .idle => "I" | .txIdsBlocking => "b" | .txIdsNonBlocking => "n" | .txs => "T" | .done => "D") ++
  (match w.ln with | .idle => "I" | .busy => "B" | .done => "D") ++
  (match w.lf with | .idle => "I" | .awaitingBlock => "A" | .awaitingBlockTxs => "T" | .done => "D")

def showLink (p : Nat) : LinkSt → Option String
  | .down => none
  | .pending => some s!"L{p}=pending"
  | .up l => some s!"L{p}=up/u{l.unconfirmed.length}/r{l.toResp.length}/i{l.toInit.length}/{showWire l.w}"

def showSys (ids : List Nat) (y : Sys) (outs : List Out) : String :=
  showSt ids { y.st with out := outs } ++ s!" | obs{y.observed.length}" ++
  String.join ((sortNat ids).filterMap (fun p => (showLink p (y.links p)).map (" " ++ ·)))

def parseProto : String → Option Proto
  | "hs" => some .hs | "ka" => some .ka | "cs" => some .cs | "ps" => some .ps | "bf" => some .bf
  | "tx" => some .tx | "ln" => some .ln | "lf" => some .lf | _ => none

def parseSched (toks : List String) : Option Sched :=
  match toks with
  | ["connect", p] => (Tok.nat? p).map .connect
  | ["confirm", p] => (Tok.nat? p).map .confirm
  | ["arrive", p] => (Tok.nat? p).map .arrive
  | ["reply", p, x, k] => match Tok.nat? p, parseProto x, Tok.nat? k with
    | some p, some x, some k => some (.reply p x k) | _, _, _ => none
  | ["deliver", p, n] => match Tok.nat? p, Tok.nat? n with
    | some p, some n => some (.deliver p n) | _, _ => none
  | ["drop", p] => (Tok.nat? p).map .drop
  | ["fail", p] => (Tok.nat? p).map .fail
  | _ => match parseEv toks with
    | some e => if isCommand e then some (.ev e) else none
    | none => none

def schedIds : Sched → List Nat
  | .ev e => evIds e
  | .connect p | .confirm p | .arrive p | .reply p _ _ | .deliver p _ | .drop p | .fail p => [p]

/-- did this schedule step feed an event to the initiator (then its outputs are shown) -/
def outsAfter (y y' : Sys) (a : Sched) : List Out :=
  match a with
  | .ev _ => y'.st.out
  | .arrive _ | .reply _ _ _ => []
  | _ => if y'.st.out.isEmpty then [] else y'.st.out

/-- repeat a per-peer step over all known peers until nothing is queued (fuel = total queue length) -/
def drainAll (mk : Nat → Sched) (pending : LinkSt → Nat) (ids : List Nat) (y : Sys) : Option Sys :=
  (sortNat ids).foldl (fun acc p =>
    match acc with
    | none => none
    | some y => (List.range (pending (y.links p))).foldl (fun acc _ =>
        match acc with | none => none | some y => sysStep y (mk p)) (some y)) (some y)

def unconfCount : LinkSt → Nat
  | .up l => l.unconfirmed.length | _ => 0
def toRespCount : LinkSt → Nat
  | .up l => l.toResp.length | _ => 0

structure S where
  y : Option Sys := none
  dead : Bool := false
  ids : List Nat := []
  dom : Bool := true      -- every step so far satisfied `stepOKb` (the domain of `initiator_conformant_delayed`)

def annotOf : Sched → String
  | .ev e => annotEcho e
  | _ => ""

def stepS (σ : S) (toks : List String) : S × String :=
  if σ.dead then (σ, "dead") else
  match toks with
  | ["cfg", a, b, c, d] =>
    match Tok.nat? a, Tok.nat? b, Tok.nat? c, Tok.nat? d with
    | some a, some b, some c, some d =>
      let y := Sys.init { maxPeers := a, maxWarm := b, maxHot := c, maxErr := d }
      ({ σ with y := some y, dom := true }, "ok " ++ showSys σ.ids y [] ++ " dom1")
    | _, _, _, _ => (σ, "bad-op")
  | ["confirmall"] =>
    match σ.y with
    | some y => match drainAll .confirm unconfCount σ.ids y with
      | some y' => ({ σ with y := some y' }, "ok " ++ showSys σ.ids y' [] ++ (if σ.dom then " dom1" else " dom0"))
      | none => ({ σ with dead := true }, "panic")
    | none => (σ, "bad-op")
  | ["arriveall"] =>
    match σ.y with
    | some y => match drainAll .arrive toRespCount σ.ids y with
      | some y' => ({ σ with y := some y' }, "ok " ++ showSys σ.ids y' [] ++ (if σ.dom then " dom1" else " dom0"))
      | none => ({ σ with dead := true }, "panic")
    | none => (σ, "bad-op")
  | _ =>
    match σ.y, parseSched toks with
    | some y, some a =>
      let ids := (schedIds a).foldl (fun acc x => sinsert x acc) σ.ids
      match sysStep y a with
      | some y' =>
        -- outputs are shown only when an event reached the initiator in this step
        let fed := match a with
          | .arrive _ | .reply _ _ _ => false
          | .ev _ => true
          | _ => decide (y'.st.out ≠ y.st.out) || true
        let outs := if fed then (match a with
          | .ev _ => y'.st.out
          | .connect p => (match y.links p with | .pending => y'.st.out | _ => [])
          | .confirm p => (match y.links p with | .up l => (if l.unconfirmed.isEmpty then [] else y'.st.out) | _ => [])
          | .deliver p _ => (match y.links p with | .up l => (if l.toInit.isEmpty then [] else y'.st.out) | _ => [])
          | .drop p | .fail p => (match y.links p with | .down => [] | _ => y'.st.out)
          | _ => []) else []
        let dom := σ.dom && stepOKb y a
        ({ σ with y := some y', ids := ids, dom := dom }, "ok " ++ annotOf a ++ showSys ids y' outs ++ (if dom then " dom1" else " dom0"))
      | none => ({ σ with dead := true }, "panic")
    | _, _ => (σ, "bad-op")

def stream : Stream := { name := "p2p_sched", σ := S, init := {}, step := stepS }

end PallasVerif.Streams.P2PSched
