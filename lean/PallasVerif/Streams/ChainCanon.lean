import PallasVerif.Streams.Chain
import PallasVerif.Model.SchemaCanon
/-! model-only stream `chaincanon`: for the ops of stream `chain`, whether the artefact is canonical for its
    schema (`Model/SchemaCanon.lean`), i.e. whether `C06_chain_iso_partial` applies to it. -/
namespace PallasVerif.Streams.ChainCanon
open PallasVerif PallasVerif.Cbor PallasVerif.Schema PallasVerif.Streams.Schema PallasVerif.Streams.Chain

def flag (s : Schema) (bs : Bytes) : String :=
  match parseItem bs with
  | some (it, []) =>
    match dec Gen.SchemaEra.env fuel s it with
    | some _ => if canon Gen.SchemaEra.env fuel s it then "ok canonical" else "ok not-canonical"
    | none => "err dec"
  | _ => "err dec"

def step (_ : Unit) : List String → Unit × String
  | ["blk", _, h] =>
    match Tok.unhex h with
    | some bs =>
      match (blockType bs).bind schemaOf with
      | some s => ((), flag (.tuple [.uint 16, s]) bs)
      | none => ((), "err dec")
    | none => ((), "bad-op")
  | [_, name, h] =>
    match Tok.unhex h, schemaOf name with
    | some bs, some s => ((), flag s bs)
    | _, _ => ((), "bad-op")
  | _ => ((), "bad-op")

def stream : Stream := { name := "chaincanon", σ := Unit, init := (), step := step }

end PallasVerif.Streams.ChainCanon
