import PallasVerif.Stream
import PallasVerif.Model.Witness
/-! stream `witness` (C35). One op = one witness check on the real code; the op carries the view the
    validator has (witness bytes with, per witness, the Blake2b-224 key hash and the independent Ed25519
    verdict; the per-input views; required signers), so `hash` and `verify` of the model are instantiated by
    lookup tables built from the op.

    `vk <era> <fixture> <mode> W <n|none> (<vkey> <sig> <keyhash> <0|1>)^n I <n> <view>^n R <n|none> <hash>^n N <0|1>`
    `rq <era> W <n|none> (...)^n R <n|none> <hash>^n <msg>`          (check_required_signers alone)
    views: `m` not in UTxO, `x` skipped, `u` undecodable, `k:<hash>`, `s:<0|1>`. -/
namespace PallasVerif.Streams.Witness
open PallasVerif PallasVerif.Witness

structure WTok where
  w : Wit
  h : String
  valid : Bool

def takeWits : Nat → List String → Option (List WTok × List String)
  | 0, rest => some ([], rest)
  | n + 1, vk :: sg :: h :: v :: rest =>
    match Tok.unhex vk, Tok.unhex sg, Tok.bool? v, takeWits n rest with
    | some a, some b, some ok, some (ws, rest') => some (⟨⟨a, b⟩, h, ok⟩ :: ws, rest')
    | _, _, _, _ => none
  | _, _ => none

def parseWits : List String → Option (Option (List WTok) × List String)
  | "W" :: "none" :: rest => some (none, rest)
  | "W" :: n :: rest =>
    match Tok.nat? n with
    | some k => match takeWits k rest with
      | some (ws, rest') => some (some ws, rest')
      | none => none
    | none => none
  | _ => none

def view? (s : String) : Option (InputView String) :=
  if s = "m" then some .notInUtxo
  else if s = "x" then some .skipped
  else if s = "u" then some .undecodable
  else match s.splitOn ":" with
    | ["k", h] => some (.key h)
    | ["s", b] => (Tok.bool? b).map .script
    | _ => none

def takeViews : Nat → List String → Option (List (InputView String) × List String)
  | 0, rest => some ([], rest)
  | n + 1, t :: rest =>
    match view? t, takeViews n rest with
    | some v, some (vs, rest') => some (v :: vs, rest')
    | _, _ => none
  | _, _ => none

def parseViews : List String → Option (List (InputView String) × List String)
  | "I" :: n :: rest => match Tok.nat? n with
    | some k => takeViews k rest
    | none => none
  | _ => none

def parseReq : List String → Option (Option (List String) × List String)
  | "R" :: "none" :: rest => some (none, rest)
  | "R" :: n :: rest =>
    match Tok.nat? n with
    | some k => if k ≤ rest.length then some (some (rest.take k), rest.drop k) else none
    | none => none
  | _ => none

def hashOf (tbl : List WTok) (key : Bytes) : String :=
  match tbl.find? (fun t => t.w.vkey == key) with
  | some t => t.h
  | none => "?"

def verifyOf (tbl : List WTok) (key _msg sig : Bytes) : Bool :=
  match tbl.find? (fun t => t.w.vkey == key && t.w.sig == sig) with
  | some t => t.valid
  | none => false

def showErr : Err → String
  | .vkWitnessMissing => "wit-missing"
  | .vkWrongSignature => "wrong-sig"
  | .reqSignerMissing => "req-missing"
  | .reqSignerWrongSig => "req-wrong-sig"
  | .inputDecoding => "input-decoding"
  | .inputNotInUtxo => "input-not-in-utxo"
  | .missingScriptWitness => "script-wit-missing"
  | .scriptDenial => "script-denial"

def showR : R Unit → String
  | .ok () => "ok"
  | .err e => "err " ++ showErr e
  | .panic => "panic"

def runVk (era : String) (rest : List String) : String :=
  match parseWits rest with
  | some (ws, r1) =>
    match parseViews r1 with
    | some (ins, r2) =>
      match parseReq r2 with
      | some (req, ["N", nb]) =>
        match Tok.bool? nb with
        | some nativeOk =>
          let tbl := ws.getD []
          let wits := ws.map (·.map (·.w))
          if era = "shelley" then showR (checkWitnessesShelley (hashOf tbl) (verifyOf tbl) wits ins nativeOk [])
          else if era = "alonzo" || era = "babbage" then showR (checkWitnessSet (hashOf tbl) (verifyOf tbl) false req wits ins [])
          else if era = "conway" then showR (checkWitnessSet (hashOf tbl) (verifyOf tbl) true req wits ins [])
          else "bad-op"
        | none => "bad-op"
      | _ => "bad-op"
    | none => "bad-op"
  | none => "bad-op"

def runRq (rest : List String) : String :=
  match parseWits rest with
  | some (ws, r1) =>
    match parseReq r1 with
    | some (req, [_msg]) =>
      let tbl := ws.getD []
      showR (checkRequiredSigners (hashOf tbl) (verifyOf tbl) req (ws.map (·.map (·.w))) [])
    | _ => "bad-op"
  | none => "bad-op"

def step (_ : Unit) : List String → Unit × String
  | "vk" :: era :: _fixture :: _mode :: rest => ((), runVk era rest)
  | "sy" :: era :: _nin :: _req :: rest => ((), runVk (if era = "mary" then "shelley" else era) rest)
  | "rq" :: _era :: rest => ((), runRq rest)
  | _ => ((), "bad-op")

def stream : Stream := { name := "witness", σ := Unit, init := (), step := step }

end PallasVerif.Streams.Witness
