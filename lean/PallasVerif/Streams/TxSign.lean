import PallasVerif.Stream
import PallasVerif.Model.TxSign
/-! stream `txsign`: keys and signatures are opaque hex tokens; `sign` carries the public key and the
    signature the generator computed for the fixture's id (the model's signer), so a different
    signature produced by the implementation shows as a reply difference. -/
namespace PallasVerif.Streams.TxSign
open PallasVerif PallasVerif.TxSign

abbrev St := Option (Built String String Nat Nat)

def showEntry (e : String × String) : String := e.1 ++ ":" ++ e.2

def showState (t : Built String String Nat Nat) (v : Nat) : String :=
  let m := (t.sigs.getD []).mergeSort (fun a b => decide (a.1 ≤ b.1))
  let w := match t.wits with
    | none => "none"
    | some ws => Tok.showList showEntry ws
  "m=" ++ Tok.showList showEntry m ++ " w=" ++ w ++
    " body=" ++ (if t.body = v then "1" else "0") ++ " id=" ++ (if t.id = v then "1" else "0")

def reply (old : Built String String Nat Nat) : Res (Built String String Nat Nat) → St × String
  | .ok t => (some t, "ok " ++ showState t old.body)
  | .panic => (some old, "panic")

def step (st : St) : List String → St × String
  | ["new", v] =>
    match Tok.nat? v with
    | some v => let t : Built String String Nat Nat := fresh v v; (some t, "ok " ++ showState t v)
    | none => (st, "bad-op")
  | ["sign", _, pk, sig] =>
    match st with
    | some t => reply t (sign (SK := Unit) (fun _ => pk) (fun _ _ => sig) t ())
    | none => (st, "bad-op")
  | ["add", pk, sig, _] =>
    match st with
    | some t => reply t (addSignature t pk sig)
    | none => (st, "bad-op")
  | ["remove", pk] =>
    match st with
    | some t => reply t (removeSignature t pk)
    | none => (st, "bad-op")
  | _ => (st, "bad-op")

def stream : Stream := { name := "txsign", σ := St, init := none, step := step }

end PallasVerif.Streams.TxSign
