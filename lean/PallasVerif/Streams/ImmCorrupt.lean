import PallasVerif.Stream
import PallasVerif.Model.ChunkReader
import PallasVerif.Model.ImmutableDbFiles
/-! stream `immcorrupt`: `chunk <label> <primary> <secondary> <chunk> [blocks…]` gives the bytes of the
    three files of one chunk; the reply lists what the chunk reader yields. `dbread` ops are judged
    by the harness oracle only and reply `done`. -/
namespace PallasVerif.Streams.ImmCorrupt
open PallasVerif PallasVerif.ChunkReader

def bytes? (s : String) : Option Bytes := (Tok.unhex s).map (·.map (·.toNat))

def hexByte (n : Nat) : String := String.ofList [Tok.hexDigit (n / 16), Tok.hexDigit (n % 16)]
def showBytes (b : Bytes) : String := if b.isEmpty then "-" else String.join (b.map hexByte)

def showItem : BlockItem Nat → String
  | .block b => "b:" ++ showBytes b
  | .readErr => "E:read"
  | .indexErr => "E:index"

/-! ## `dbx`: a whole database given as files; chunk bytes are symbolic (`block index * 2^24 + offset`) -/
open PallasVerif.ImmutableDb PallasVerif.ImmutableDbFiles

abbrev Blk := Block String

structure Db where
  files : List (ChunkFiles Nat)
  /-- global block table: (length, block) -/
  table : List (Nat × Blk)

def symBase : Nat := 16777216

/-- `MultiEraBlock::decode` on a slice of a chunk file: the slice starts at the first byte of a block
    and holds all of it (bytes after the block are not looked at); anything else does not decode -/
def decodeSym (table : List (Nat × Blk)) (slice : List Nat) : Option Blk :=
  match slice with
  | [] => none
  | s0 :: _ =>
    if s0 % symBase = 0 then
      match table[s0 / symBase]? with
      | some (len, b) => if len ≤ slice.length then some b else none
      | none => none
    else none

def blk? (s : String) : Option Blk :=
  match s.splitOn ":" with
  | [a, h] => (Tok.nat? a).map (fun a => { slot := a, hash := h })
  | _ => none

/-- `nb` × (`len` `slot:hash`) -/
def blocks? : Nat → List String → Option (List (Nat × Blk) × List String)
  | 0, r => some ([], r)
  | n + 1, len :: b :: r =>
    match Tok.nat? len, blk? b, blocks? n r with
    | some len, some b, some (bs, r') => some ((len, b) :: bs, r')
    | _, _, _ => none
  | _, _ => none

def symsOf (base : Nat) : List (Nat × Blk) → List Nat
  | [] => []
  | (len, _) :: t => (List.range len).map (fun j => base * symBase + j) ++ symsOf (base + 1) t

/-- `k` × (`P` `S` `clen` `nb` blocks…) -/
def chunks? : Nat → Nat → List String → Option (List (ChunkFiles Nat) × List (Nat × Blk))
  | 0, _, [] => some ([], [])
  | 0, _, _ => none
  | k + 1, base, p :: s :: clen :: nb :: r =>
    match bytes? p, bytes? s, Tok.nat? clen, Tok.nat? nb with
    | some p, some s, some clen, some nb =>
      match blocks? nb r with
      | some (bs, r') =>
        match chunks? k (base + nb) r' with
        | some (fs, tbl) => some ({ primary := p, secondary := s, chunk := (symsOf base bs).take clen } :: fs, bs ++ tbl)
        | none => none
      | none => none
    | _, _, _, _ => none
  | _, _, _ => none

def hashPrefix (h : String) : Nat := (h.toList.take 8).foldl (fun acc c => acc * 16 + (Tok.hexVal c).getD 0) 0
def showBlk (b : Blk) : String := toString b.slot ++ ":" ++ b.hash
def digest (bs : List Blk) : String :=
  let f := bs.foldl (fun acc b => (acc * 33 + b.slot + hashPrefix b.hash) % 4294967296) 0
  match bs.head?, bs.getLast? with
  | some a, some z => toString bs.length ++ " " ++ toString f ++ " " ++ showBlk a ++ " " ++ showBlk z
  | _, _ => "0 0"

def collect : List (Item String) → Except String (List Blk)
  | [] => .ok []
  | .blk b :: t => match collect t with
    | .ok bs => .ok (b :: bs)
    | .error e => .error e
  | .readErr :: _ => .error "read"
  | .garbage :: _ => .error "decode"

def showErrDb : ImmutableDb.Err → String
  | .cannotFind => "notfound" | .decode => "decode" | .read => "read" | .originMissing => "origin"

def replyItems : ImmutableDb.Res (List (Item String)) → String
  | .ok items => match collect items with
    | .ok bs => "ok " ++ digest bs
    | .error e => "err " ++ e
  | .err e => "err " ++ showErrDb e
  | .panic => "panic"

def step (db : Db) : List String → Db × String
  | "chunk" :: _ :: p :: s :: c :: _ =>
    match bytes? p, bytes? s, bytes? c with
    | some p, some s, some c =>
      (db, match readChunk p s c with
        | none => "err open"
        | some items => "ok " ++ Tok.showList showItem items)
    | _, _, _ => (db, "bad-op")
  | "dbread" :: _ => (db, "done")
  | "dbx" :: _ :: k :: rest =>
    match Tok.nat? k with
    | some k =>
      match chunks? k 0 rest with
      | some (files, table) => ({ files, table }, "ok " ++ toString files.length ++ " " ++ toString table.length)
      | none => (db, "bad-op")
    | none => (db, "bad-op")
  | ["xreadall"] => (db, replyItems (.ok (ImmutableDbFiles.readBlocks (decodeSym db.table) db.files)))
  | ["xtip"] =>
    (db, match ImmutableDbFiles.getTip (decodeSym db.table) db.files with
      | .ok none => "ok none"
      | .ok (some b) => "ok some " ++ showBlk b
      | .err e => "err " ++ showErrDb e
      | .panic => "panic")
  | ["xfrom", s, h] =>
    match Tok.nat? s with
    | some s => (db, replyItems (ImmutableDbFiles.readBlocksFromPoint (decodeSym db.table) db.files s (if h = "-" then none else some h)))
    | none => (db, "bad-op")
  | _ => (db, "bad-op")

def stream : Stream := { name := "immcorrupt", σ := Db, init := { files := [], table := [] }, step := step }

end PallasVerif.Streams.ImmCorrupt
