import PallasVerif.Stream
import PallasVerif.Model.ChunkReader
/-! stream `immcorrupt`: `chunk <label> <primary> <secondary> <chunk> [blocks…]` gives the bytes of the
    three files of one chunk; the reply lists what the chunk reader yields. `dbread` ops are judged
    by the harness oracle only and reply `done`. -/
namespace PallasVerif.Streams.ImmCorrupt
open PallasVerif PallasVerif.ChunkReader

def bytes? (s : String) : Option Bytes := (Tok.unhex s).map (·.map (·.toNat))

def hexByte (n : Nat) : String := String.ofList [Tok.hexDigit (n / 16), Tok.hexDigit (n % 16)]
def showBytes (b : Bytes) : String := if b.isEmpty then "-" else String.join (b.map hexByte)

def showItem : BlockItem Nat → String
  | .block b => "b:" ++ showBytes b
  | .readErr => "E:read"
  | .indexErr => "E:index"

def step (u : Unit) : List String → Unit × String
  | "chunk" :: _ :: p :: s :: c :: _ =>
    match bytes? p, bytes? s, bytes? c with
    | some p, some s, some c =>
      (u, match readChunk p s c with
        | none => "err open"
        | some items => "ok " ++ Tok.showList showItem items)
    | _, _, _ => (u, "bad-op")
  | "dbread" :: _ => (u, "done")
  | _ => (u, "bad-op")

def stream : Stream := { name := "immcorrupt", σ := Unit, init := (), step := step }

end PallasVerif.Streams.ImmCorrupt
