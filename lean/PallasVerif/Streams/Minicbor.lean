import PallasVerif.Stream
import PallasVerif.Model.Minicbor
/-! stream `minicbor`: `buf <hex>` installs a fresh `Decoder`; every further op is one primitive call on
    it, replying `ok <value> @<position>` or `err <class>`; after an error the decoder is dead
    (`err dead`), because the position after a failed call is not part of the model. -/
namespace PallasVerif.Streams.Minicbor
open PallasVerif
open PallasVerif.Cbor (Bytes)
open PallasVerif.Minicbor (Res P Err DType posOf)
namespace M
export PallasVerif.Minicbor (datatype u8 u16 u32 u64 i8 i16 i32 i64 int bool null undefined simple bytes
  bytesIter str strIter array map tag skip vec option tuple2 mapIter)
end M

structure St where
  buf : Bytes
  cur : Option Bytes

def showChunks (cs : List Bytes) : String := Tok.showList Tok.hex cs

def run {α : Type} (st : St) (p : P α) (sh : α → String) : St × String :=
  match st.cur with
  | none => (st, "err dead")
  | some cur =>
    match p cur with
    | .ok a rest => ({ st with cur := some rest }, "ok " ++ sh a ++ " @" ++ toString (posOf st.buf rest))
    | .err e => ({ st with cur := none }, "err " ++ e.show)

def showOptNat (o : Option Nat) : String := Tok.showOpt toString o

def step (st : St) : List String → St × String
  | ["buf", h] =>
    match Tok.unhex h with
    | some bs => ({ buf := bs, cur := some bs }, "ok " ++ toString bs.length)
    | none => (st, "bad-op")
  | ["position"] =>
    match st.cur with
    | none => (st, "err dead")
    | some cur => (st, "ok " ++ toString (posOf st.buf cur))
  | ["datatype"] =>
    match st.cur with
    | none => (st, "err dead")
    | some cur =>
      match M.datatype cur with
      | .ok t => (st, "ok " ++ t.show)
      | .error e => ({ st with cur := none }, "err " ++ e.show)
  | ["probe_skip"] =>
    -- `let mut p = d.probe(); p.skip()?; p.position()` — the main decoder does not move
    match st.cur with
    | none => (st, "err dead")
    | some cur =>
      match M.skip cur with
      | .ok _ rest => (st, "ok " ++ toString (posOf st.buf rest))
      | .err e => (st, "ok err-" ++ e.show)
  | ["u8"] => run st M.u8 toString
  | ["u16"] => run st M.u16 toString
  | ["u32"] => run st M.u32 toString
  | ["u64"] => run st M.u64 toString
  | ["i8"] => run st M.i8 toString
  | ["i16"] => run st M.i16 toString
  | ["i32"] => run st M.i32 toString
  | ["i64"] => run st M.i64 toString
  | ["int"] => run st M.int toString
  | ["bool"] => run st M.bool Tok.showBool
  | ["null"] => run st M.null (fun _ => "null")
  | ["undefined"] => run st M.undefined (fun _ => "undefined")
  | ["simple"] => run st M.simple toString
  | ["bytes"] => run st M.bytes Tok.hex
  | ["bytes_iter"] => run st M.bytesIter showChunks
  | ["str"] => run st M.str Tok.hex
  | ["str_iter"] => run st M.strIter showChunks
  | ["array"] => run st M.array showOptNat
  | ["map"] => run st M.map showOptNat
  | ["tag"] => run st M.tag toString
  | ["skip"] => run st M.skip (fun _ => "skipped")
  | ["vec_u64"] => run st (M.vec M.u64) (Tok.showList toString)
  | ["vec_int"] => run st (M.vec M.int) (Tok.showList toString)
  | ["vec_vec_u8"] => run st (M.vec (M.vec M.u8)) (Tok.showList (Tok.showList toString))
  | ["opt_u64"] => run st (M.option M.u64) showOptNat
  | ["opt_bytes"] => run st (M.option M.bytes) (Tok.showOpt Tok.hex)
  | ["pair_u64"] => run st (M.tuple2 M.u64 M.u64) (fun p => toString p.1 ++ " " ++ toString p.2)
  | ["map_u64_bytes"] =>
    run st (M.mapIter M.u64 M.bytes) (Tok.showList (fun p => toString p.1 ++ ":" ++ Tok.hex p.2))
  | _ => (st, "bad-op")

def stream : Stream := { name := "minicbor", σ := St, init := ⟨[], none⟩, step := step }

end PallasVerif.Streams.Minicbor
