import PallasVerif.Stream
import PallasVerif.Model.Reassembly
/-! stream `reasm` (C21). The message decoder of the model is `itemDec` ("one well-formed CBOR item").
    `n1 <proto> <tag> <count> <chunk hex>*`  — `count` calls of `recv_full_msg` over the given chunks
    `n2 <tag> <rawchannel>:<hex>*`     — `read_full_msgs` once per segment, starting from empty partials -/
namespace PallasVerif.Streams.Reasm
open PallasVerif PallasVerif.Reassembly

/-- channels `AnyMessage::from_payload` knows -/
def supported : List Nat := [0, 2, 3, 4, 8, 10, 18, 19]

def tbl : Table Bytes := fun c => if c.toNat ∈ supported then some itemDec else none

/-- tail-recursive hex parser (`Tok.unhex` recurses once per byte, too slow for 65535-byte tokens) -/
def unhexFast (s : String) : Option Bytes :=
  if s = "-" then some []
  else
    let r := s.foldl (fun (st : Option (List UInt8 × Option Nat)) c =>
      match st with
      | none => none
      | some (acc, pending) =>
        match Tok.hexVal c with
        | none => none
        | some v =>
          match pending with
          | none => some (acc, some v)
          | some hi => some (UInt8.ofNat (hi * 16 + v) :: acc, none)) (some ([], none))
    match r with
    | some (acc, none) => some acc.reverse
    | _ => none

def runN1 (dec : Decoder Bytes) : Nat → Bytes → List Bytes → List String → String
  | 0, _, _, acc => "ok " ++ Tok.showList id acc.reverse ++ " end=done"
  | n + 1, temp, chunks, acc =>
    match recvFullMsg dec temp chunks with
    | .msg m t c => runN1 dec n t c (Tok.hex m :: acc)
    | .blocked _ => "ok " ++ Tok.showList id acc.reverse ++ " end=blocked"
    | .error => "ok " ++ Tok.showList id acc.reverse ++ " end=error"

def seg? (s : String) : Option (UInt16 × Bytes) :=
  match s.splitOn ":" with
  | [c, h] => match c.toNat?, unhexFast h with
    | some c, some b => if c < 65536 then some (UInt16.ofNat c, b) else none
    | _, _ => none
  | _ => none

def insertSorted (k : Nat) : List Nat → List Nat
  | [] => [k]
  | x :: xs => if k < x then k :: x :: xs else if k = x then x :: xs else x :: insertSorted k xs

def step (_ : Unit) (toks : List String) : Unit × String :=
  match toks with
  | ["kdec", h] =>
    -- the keep-alive decoder model against the real one (both stacks) on arbitrary bytes
    match Tok.unhex h with
    | some bs =>
      match kDec bs with
      | .ok (.keepAlive c) pos => ((), "ok keepalive " ++ toString c.toNat ++ " " ++ toString pos)
      | .ok (.response c) pos => ((), "ok response " ++ toString c.toNat ++ " " ++ toString pos)
      | .ok .done pos => ((), "ok done " ++ toString pos)
      | .eoi => ((), "err eoi")
      | .fail => ((), "err other")
    | none => ((), "bad-op")
  | ["bfdec", h] =>
    -- the block-fetch decoder model against the real one (both stacks) on arbitrary bytes
    match Tok.unhex h with
    | some bs =>
      let showPt : Pt → String := fun p => match p with
        | .origin => "origin"
        | .specific s hsh => toString s ++ ":" ++ Tok.hex hsh
      match bfDec bs with
      | .ok (.requestRange a b) pos => ((), "ok range " ++ showPt a ++ " " ++ showPt b ++ " " ++ toString pos)
      | .ok .clientDone pos => ((), "ok clientdone " ++ toString pos)
      | .ok .startBatch pos => ((), "ok startbatch " ++ toString pos)
      | .ok .noBlocks pos => ((), "ok noblocks " ++ toString pos)
      | .ok (.block body) pos => ((), "ok block " ++ Tok.hex body ++ " " ++ toString pos)
      | .ok .batchDone pos => ((), "ok batchdone " ++ toString pos)
      | .eoi => ((), "err eoi")
      | .fail => ((), "err other")
    | none => ((), "bad-op")
  | ["csdec", h] =>
    -- the chain-sync (header content) decoder model against the real one (both stacks)
    match Tok.unhex h with
    | some bs =>
      let showPt : Pt → String := fun p => match p with
        | .origin => "origin"
        | .specific s hsh => toString s ++ ":" ++ Tok.hex hsh
      let showTip : Tip → String := fun t => showPt t.point ++ "@" ++ toString t.blockNo
      let showHdr : Header → String := fun c => "v" ++ toString c.variant ++ "/" ++
        (match c.byronPrefix with | some (a, b) => toString a ++ "," ++ toString b | none => "-") ++ "/" ++ Tok.hex c.cbor
      match csDec bs with
      | .ok .requestNext pos => ((), "ok next " ++ toString pos)
      | .ok .awaitReply pos => ((), "ok await " ++ toString pos)
      | .ok (.rollForward c t) pos => ((), "ok fwd " ++ showHdr c ++ " " ++ showTip t ++ " " ++ toString pos)
      | .ok (.rollBackward q t) pos => ((), "ok bwd " ++ showPt q ++ " " ++ showTip t ++ " " ++ toString pos)
      | .ok (.findIntersect ps) pos => ((), "ok find " ++ Tok.showList showPt ps ++ " " ++ toString pos)
      | .ok (.intersectFound q t) pos => ((), "ok found " ++ showPt q ++ " " ++ showTip t ++ " " ++ toString pos)
      | .ok (.intersectNotFound t) pos => ((), "ok notfound " ++ showTip t ++ " " ++ toString pos)
      | .ok .done pos => ((), "ok done " ++ toString pos)
      | .eoi => ((), "err eoi")
      | .fail => ((), "err other")
    | none => ((), "bad-op")
  | ["csenc", h] =>
    match Tok.unhex h with
    | some bs =>
      match csDec bs with
      | .ok m _ => ((), "ok " ++ Tok.hex (csEnc m))
      | _ => ((), "err decode")
    | none => ((), "bad-op")
  | ["bfenc", h] =>
    -- re-encode what the model decodes (the harness does the same with the real codec)
    match Tok.unhex h with
    | some bs =>
      match bfDec bs with
      | .ok m _ => ((), "ok " ++ Tok.hex (bfEnc m))
      | _ => ((), "err decode")
    | none => ((), "bad-op")
  | ["kenc", k, c] =>
    match k.toNat?, c.toNat? with
    | some k, some c =>
      if c < 65536 ∧ k < 3 then
        ((), "ok " ++ Tok.hex (kEnc (if k = 0 then .keepAlive (UInt16.ofNat c) else if k = 1 then .response (UInt16.ofNat c) else .done)))
      else ((), "bad-op")
    | _, _ => ((), "bad-op")
  | "sent" :: _ => ((), "ok")
  | "sent2" :: _ => ((), "ok")
  | "n1" :: proto :: _tag :: count :: chunks =>
    match count.toNat?, chunks.mapM unhexFast with
    | some n, some cs => ((), runN1 (if proto = "localtxsubmission" then ltxDec else itemDec) n [] cs [])
    | _, _ => ((), "bad-op")
  | "n2" :: _tag :: segs =>
    match segs.mapM seg? with
    | some ss =>
      let r := readAll tbl (fun _ => none) ss
      let keys := ss.foldl (fun acc s => insertSorted (s.1 &&& ~~~PROTOCOL_SERVER).toNat acc) []
      let parts := keys.filterMap fun k =>
        match r.2 (UInt16.ofNat k) with
        | some b => some (toString k ++ "=" ++ toString b.length)
        | none => none
      ((), "ok " ++ Tok.showList (fun x => toString x.1.toNat ++ ":" ++ Tok.hex x.2) r.1 ++ " partial=" ++
        Tok.showList id parts)
    | none => ((), "bad-op")
  | _ => ((), "bad-op")

def stream : Stream := { name := "reasm", σ := Unit, init := (), step := step }

end PallasVerif.Streams.Reasm
