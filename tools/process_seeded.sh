#!/bin/bash
# usage: tools/process_seeded.sh <tag> <crate> ["<existing tests cmd>"]  — confirm, keep, run the check, record the outcome
TAG=$1; CRATE=$2; TESTS=${3:-"cargo test -p $CRATE --offline"}
OUT=/var/tmp/seed-$TAG/out
DEMO=$(ls $OUT/demo/*.rs | head -1)
/verif/tools/confirm_seeded.sh $OUT $DEMO $CRATE/tests/seeded_demo.rs "cargo test -p $CRATE --test seeded_demo --offline" "$TESTS" | tee /tmp/confirm-$TAG.log
grep -q "^CONFIRMED" /tmp/confirm-$TAG.log || { echo "seeded $TAG not confirmed; not kept"; exit 1; }
/verif/tools/keep_seeded.sh $TAG "tools/confirm_seeded.sh in scratch worktree: demo passes on original, fails with patch; existing tests pass with patch: $TESTS"
/verif/tools/run_seeded.sh $TAG quick | tee /tmp/run-$TAG.log
python3 - $TAG <<'PY'
import json,sys,re
tag=sys.argv[1]
p=f"/verif/seeded/{tag}/meta.json"; m=json.load(open(p))
log=open(f"/tmp/run-{tag}.log").read()
m["check_quick"]={"rc": int(re.search(r"rc=(\d+)",log).group(1)), "lines":[l for l in log.splitlines() if "VIOLATION" in l][:4]}
json.dump(m,open(p,"w"),indent=1)
PY
