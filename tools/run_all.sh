#!/bin/bash
# run every claimed check (quick) sequentially on /repo; summary to /tmp/runall.summary
cd /verif
: > /tmp/runall.summary
for p in $(python3 -c "import json;print(' '.join(c['property_id'] for c in json.load(open('/verif/MANIFEST.json'))['checks']))"); do
  s=$(date +%s)
  ./check $p ${1:+--tier $1} > /tmp/chk-$p.out 2> /tmp/chk-$p.err; rc=$?
  e=$(date +%s)
  echo "$p rc=$rc viol=$(grep -c VIOLATION /tmp/chk-$p.out) known=$(grep -c KNOWN-FINDING /tmp/chk-$p.out) $((e-s))s | $(tail -1 /tmp/chk-$p.err | cut -c1-160)" >> /tmp/runall.summary
done
echo DONE >> /tmp/runall.summary
