#!/bin/bash
# run every claimed check sequentially; usage: tools/run_all.sh [quick|thorough]; summary -> $RUNALL_SUMMARY (default /tmp/runall.summary)
ROOT="$(cd "$(dirname "$0")/.." && pwd)"
OUT=${RUNALL_SUMMARY:-/tmp/runall.summary}
LOGS=${RUNALL_LOGS:-/tmp}
cd "$ROOT"
: > "$OUT"
for p in $(python3 -c "import json;print(' '.join(c['property_id'] for c in json.load(open('$ROOT/MANIFEST.json'))['checks']))"); do
  s=$(date +%s)
  ./check $p ${1:+--tier $1} > "$LOGS/chk-$p.out" 2> "$LOGS/chk-$p.err"; rc=$?
  e=$(date +%s)
  echo "$p rc=$rc viol=$(grep -c '^VIOLATION' "$LOGS/chk-$p.out") known=$(grep -c '^KNOWN-FINDING' "$LOGS/chk-$p.out") $((e-s))s | $(tail -1 "$LOGS/chk-$p.err" | cut -c1-160)" >> "$OUT"
done
echo DONE >> "$OUT"
