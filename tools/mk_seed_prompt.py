#!/usr/bin/env python3
"""tools/mk_seed_prompt.py Cxx tag -> creates worktree /var/tmp/seed-<tag>/repo and prints the prompt path."""
import json, os, subprocess, sys
pid, tag = sys.argv[1], sys.argv[2]
base = f"/var/tmp/seed-{tag}"
os.makedirs(base, exist_ok=True)
if not os.path.exists(base + "/repo"):
    subprocess.check_call(["git", "-C", "/repo", "worktree", "add", "-q", base + "/repo", "-b", f"seed-{tag}"])
for l in open("/verif/properties.jsonl"):
    p = json.loads(l)
    if p["id"] == pid:
        break
t = open("/var/tmp/pv-prompts/seed_common.md").read()
anch = "; ".join(p["anchors"]["files"]) + " | mechanisms: " + "; ".join(f"{m['name']} ({m.get('where','')})" for m in p["anchors"]["mechanism"])
for k, v in {"@DIR@": base + "/repo", "@BR@": f"seed-{tag}", "@SCRATCH@": base, "@ID@": pid, "@TITLE@": p["title"],
             "@STATEMENT@": p["statement"], "@QUANT@": p["quantifier"]["text"], "@WHY@": p["why_tests_cant"], "@ANCHORS@": anch}.items():
    t = t.replace(k, v)
import glob
prev = []
for d in sorted(glob.glob(f"/verif/seeded/{pid}-*/meta.json")):
    prev.append("  - " + json.load(open(d)).get("summary", "")[:400])
if prev:
    t = t.replace("Your job: produce ONE realistic change", "Other engineers have already produced the following changes for this property; yours must be of a DIFFERENT kind, in a "
                  "different function or mechanism of the anchored code, needing a different trigger:\n" + "\n".join(prev) + "\n\nYour job: produce ONE realistic change")
open(base + "/prompt.md", "w").write(t)
print(base + "/prompt.md")
