#!/bin/bash
# Confirm a seeded change independently: in scratch worktree /var/tmp/seed-confirm (reset to /repo main),
#   (1) demo passes on the original, (2) demo fails with the patch, (3) given existing-test command passes with the patch.
# usage: tools/confirm_seeded.sh <src-out-dir> <demo-src-file> <demo-dst-relpath> "<demo cmd>" "<existing tests cmd>"
set -u
OUT=$1; DSRC=$2; DDST=$3; DEMO=$4; TESTS=$5
W=/var/tmp/seed-confirm
cd $W && git checkout -q --detach main 2>/dev/null; git reset -q --hard main; git clean -qfd
export CARGO_NET_OFFLINE=true
mkdir -p "$(dirname $W/$DDST)"; cp "$DSRC" "$W/$DDST"
echo "== demo on original"; (cd $W && eval "$DEMO") > /tmp/confirm-orig.log 2>&1; R1=$?; echo "rc=$R1"
git -C $W apply "$OUT/patch.diff" || { echo "patch does not apply"; exit 2; }
echo "== demo with patch"; (cd $W && eval "$DEMO") > /tmp/confirm-patched.log 2>&1; R2=$?; echo "rc=$R2"
rm -f "$W/$DDST"
echo "== existing tests with patch"; (cd $W && eval "$TESTS") > /tmp/confirm-tests.log 2>&1; R3=$?; echo "rc=$R3"; grep -E "test result|Summary" /tmp/confirm-tests.log | tail -5
git -C $W reset -q --hard main; git -C $W clean -qfd
if [ $R1 -eq 0 ] && [ $R2 -ne 0 ] && [ $R3 -eq 0 ]; then echo "CONFIRMED"; else echo "NOT CONFIRMED (orig=$R1 patched=$R2 tests=$R3)"; fi
