#!/bin/bash
# integrator helper: merge agent branch wN (verif) and cherry-pick its pallas commits into /repo main.
set -e
N=$1
cd /verif
echo "== verif: merging w$N"
if ! git merge --no-edit w$N; then
  # evidence files are rewritten by every run: take the branch's copy; Cargo.lock is re-resolved by cargo;
  # anything else is a real conflict
  for f in $(git diff --name-only --diff-filter=U); do
    case "$f" in
      evidence/*) git checkout --theirs "$f" && git add "$f" ;;
      harness/Cargo.lock) git checkout --ours "$f" && git add "$f" ;;
      *) echo "MERGE CONFLICT in /verif: $f"; exit 1 ;;
    esac
  done
  git commit -qm "merge w$N (evidence: branch copy; Cargo.lock: ours, re-resolved by cargo)"
fi
echo "== repo: cherry-picking w$N commits"
cd /repo
for c in $(git log --no-merges --reverse --format=%H main..w$N); do
  subj=$(git log -1 --format=%s $c)
  if git log main --format=%s | grep -qxF "$subj"; then echo "skip (already on main): $subj"; continue; fi
  echo "pick: $subj"
  git cherry-pick $c || { echo "CHERRY-PICK CONFLICT $c"; exit 1; }
done
cd /verif && ./check manifest && ./check validate | grep -v '^ok' || true
