#!/bin/bash
# integrator helper: merge agent branch wN (verif) and cherry-pick its pallas commits into /repo main.
set -e
N=$1
cd /verif
echo "== verif: merging w$N"
git merge --no-edit w$N || { echo "MERGE CONFLICT in /verif"; exit 1; }
echo "== repo: cherry-picking w$N commits"
cd /repo
for c in $(git log --reverse --format=%H main..w$N); do
  subj=$(git log -1 --format=%s $c)
  if git log main --format=%s | grep -qxF "$subj"; then echo "skip (already on main): $subj"; continue; fi
  echo "pick: $subj"
  git cherry-pick $c || { echo "CHERRY-PICK CONFLICT $c"; exit 1; }
done
cd /verif && ./check manifest && ./check validate | grep -v '^ok' || true
