#!/bin/bash
# usage: tools/keep_seeded.sh <tag> "<what I ran to confirm>"   (copies /var/tmp/seed-<tag>/out into /verif/seeded/<tag>/)
set -e
TAG=$1; RAN=$2
mkdir -p /verif/seeded/$TAG && cp -r /var/tmp/seed-$TAG/out/* /verif/seeded/$TAG/
python3 - "$TAG" "$RAN" <<'PY'
import json,sys
tag,ran=sys.argv[1:3]
p=f"/verif/seeded/{tag}/meta.json"
m=json.load(open(p))
m["confirmed_by_integrator"]=ran
json.dump(m,open(p,"w"),indent=1)
PY
