#!/bin/bash
# Run the check of a seeded change against /repo: apply seeded/<id>/patch.diff, run ./check <prop>, undo.
# usage: tools/run_seeded.sh <seeded-id> [tier]
set -u
ID=$1; TIER=${2:-quick}
D=/verif/seeded/$ID
PROP=$(python3 -c "import json;print(json.load(open('$D/meta.json'))['property'])")
cd /repo && git diff --quiet || { echo "/repo is dirty; refusing"; exit 2; }
git -C /repo apply "$D/patch.diff" || { echo "patch does not apply"; exit 2; }
cd /verif && ./check "$PROP" --tier "$TIER" > "/tmp/seeded-$ID.out" 2> "/tmp/seeded-$ID.err"; RC=$?
git -C /repo checkout -- . 
# the evidence file now describes the patched tree: restore the committed one (from the unchanged tree)
git -C /verif checkout -- "evidence/$PROP.json" 2>/dev/null
echo "seeded=$ID property=$PROP tier=$TIER rc=$RC"; grep -h "VIOLATION\|KNOWN-FINDING" "/tmp/seeded-$ID.out" | head -5
exit $RC
