#!/bin/bash
# Re-run every kept seeded change against the current /verif + /repo (quick tier) and record the outcome in its meta.json.
cd /verif
: > /tmp/regress.summary
for d in seeded/*/; do
  tag=$(basename $d)
  out=$(tools/run_seeded.sh $tag quick 2>&1)
  rc=$(echo "$out" | grep -o "rc=[0-9]*" | head -1 | cut -d= -f2)
  first=$(echo "$out" | grep "^VIOLATION" | head -1)
  echo "$tag rc=$rc $first" >> /tmp/regress.summary
  python3 - "$tag" "$rc" "$first" <<'PY'
import json,sys
tag,rc,first=sys.argv[1:4]
p=f"/verif/seeded/{tag}/meta.json"; m=json.load(open(p))
m["final_check"]={"rc": int(rc) if rc.isdigit() else None, "first_line": first.replace("/verif/replays/","")}
json.dump(m,open(p,"w"),indent=1)
PY
done
echo DONE >> /tmp/regress.summary
