"""Tie A for C06: era ledger codecs -> schema terms.

Reads pallas-primitives/src/{lib.rs, alonzo,babbage,conway,byron}/model.rs of the tree under
verification and regenerates

  * lean/PallasVerif/Gen/SchemaEra.lean   one `Schema` term per type (minicbor-derive attributes
                                          `#[n(i)]`/`#[b(i)]`, `#[cbor(map|array|flat|index_only|transparent|tag(t))]`,
                                          `codec_by_datatype!` arms, type aliases, generic instantiation),
                                          the environment of recursive types, the name table, `unknowns`
  * harness/src/fixtures/schema_gen.rs    `Show` / `Arb` impls for the same items (field by field, so the
                                          value text the two sides exchange follows the same parse) and the
                                          name -> Rust type dispatch

It is a bracket-matching reader of a regular subset of Rust, and fails closed: anything it cannot
classify inside a *claimed* type (CLAIMED below) becomes an entry of `unknowns`, and
`Props/C06.lean` proves `unknowns = []` by `decide`, so an unparsed construct breaks the build.
Types with a hand-written `impl Encode/Decode` are mapped to the hand-written schemas of
`Model/SchemaHand.lean` by name (HAND); an unlisted hand-written impl is an `unknown`.
"""
import os
import re
import sys

FILES = [("crate", "pallas-primitives/src/lib.rs"),
         ("alonzo", "pallas-primitives/src/alonzo/model.rs"),
         ("babbage", "pallas-primitives/src/babbage/model.rs"),
         ("conway", "pallas-primitives/src/conway/model.rs"),
         ("byron", "pallas-primitives/src/byron/model.rs")]

# hand-written codecs: (module, name) -> Lean term of Model/SchemaHand.lean
HAND = {
    ("crate", "RationalNumber"): ("Hand.rationalNumber", [r"e\.tag\(Tag::new\(30\)\)\?;\s*e\.array\(2\)\?;", r"d\.tag\(\)\?;\s*d\.array\(\)\?;"]),
    ("conway", "CostModels"): ("Hand.conwayCostModels", [r"BTreeMap<u64, CostModel>\s*=\s*d\.decode_with",
                                                          r"for \(k, v\) in self\.unknown\.iter\(\)\s*\{\s*e\.u64\(\*k\)\?;\s*e\.encode_with\(v, ctx\)\?;"]),
}

# types whose Show / Arb impls are written by hand in harness/src/fixtures/schema_traits.rs
HAND_RUST = {("crate", "RationalNumber"), ("conway", "CostModels")}

# leaf / wrapper types known by name (pallas-codec, pallas-crypto, minicbor, std)
LEAF = {
    "u8": ".uint 8", "u16": ".uint 16", "u32": ".uint 32", "u64": ".uint 64",
    "i8": ".sint 8", "i16": ".sint 16", "i32": ".sint 32", "i64": ".sint 64",
    "bool": ".bool", "String": ".text", "Bytes": ".bytes", "ByteVec": ".bytes", "Int": ".int",
    "PositiveCoin": ".posCoin", "NonZeroInt": ".nzint", "EmptyMap": ".emptyMap", "AnyCbor": ".any",
    "PlutusData": ".any",
}
WRAP1 = {"Vec": ".vec", "Option": ".opt", "KeepRaw": ".keepRaw", "Nullable": ".nullable", "Set": ".set",
         "NonEmptySet": ".set", "MaybeIndefArray": ".maybeIndef", "CborWrap": ".cborWrap",
         "ZeroOrOneArray": ".zeroOrOne"}
WRAP2 = {"BTreeMap": ".btmap", "KeyValuePairs": ".kvPairs", "NonEmptyKeyValuePairs": ".kvPairs"}
# wrappers that can hold a KeepRaw only through their parameters; everything in LEAF is raw-free
TYNAMES = {"U8": ".u8", "U16": ".u16", "U32": ".u32", "U64": ".u64", "I8": ".i8", "I16": ".i16", "I32": ".i32",
           "I64": ".i64", "Int": ".int", "Bytes": ".bytes", "BytesIndef": ".bytesIndef", "String": ".string",
           "StringIndef": ".stringIndef", "Array": ".array", "ArrayIndef": ".arrayIndef", "Map": ".map",
           "MapIndef": ".mapIndef", "Tag": ".tag", "Bool": ".bool", "Null": ".null", "Undefined": ".undefined",
           "Simple": ".simple", "F16": ".f16", "F32": ".f32", "F64": ".f64"}

# types whose schema the property check claims (must translate completely)
CLAIMED = None  # set from lib/derive_claimed.txt


class Unknown(Exception):
    pass


# ----------------------------------------------------------------------------- lexing helpers

def strip_comments(src):
    out, i, n = [], 0, len(src)
    while i < n:
        c = src[i]
        if src.startswith("//", i):
            j = src.find("\n", i)
            i = n if j < 0 else j
        elif src.startswith("/*", i):
            depth, i = 1, i + 2
            while i < n and depth:
                if src.startswith("/*", i):
                    depth, i = depth + 1, i + 2
                elif src.startswith("*/", i):
                    depth, i = depth - 1, i + 2
                else:
                    i += 1
        elif c == '"':
            j = i + 1
            while j < n and src[j] != '"':
                j += 2 if src[j] == "\\" else 1
            out.append('""')
            i = j + 1
        else:
            out.append(c)
            i += 1
    return "".join(out)


OPEN, CLOSE = "([{", ")]}"


def match_close(s, i):
    """s[i] is an opening bracket; index of its partner"""
    depth = 0
    n = len(s)
    while i < n:
        c = s[i]
        if c in OPEN:
            depth += 1
        elif c in CLOSE:
            depth -= 1
            if depth == 0:
                return i
        i += 1
    raise Unknown("unbalanced brackets")


def split_top(s, sep=","):
    """split on `sep` outside (), [], {}, <>"""
    parts, depth, cur = [], 0, []
    i, n = 0, len(s)
    while i < n:
        c = s[i]
        if c in OPEN or c == "<":
            depth += 1
        elif c in CLOSE:
            depth -= 1
        elif c == ">" and not (i > 0 and s[i - 1] in "-="):
            depth -= 1
        if c == sep and depth == 0:
            parts.append("".join(cur))
            cur = []
        else:
            cur.append(c)
        i += 1
    if "".join(cur).strip():
        parts.append("".join(cur))
    return [p.strip() for p in parts]


def take_attrs(s):
    """leading `#[...]` attributes of s -> (list of attribute bodies, rest)"""
    attrs = []
    s = s.lstrip()
    while s.startswith("#["):
        j = match_close(s, 1)
        attrs.append(s[2:j].strip())
        s = s[j + 1:].lstrip()
    return attrs, s


# ----------------------------------------------------------------------------- items

class Item:
    def __init__(self, kind, name, attrs, generics, body, text):
        self.kind, self.name, self.attrs, self.generics, self.body, self.text = kind, name, attrs, generics, body, text


def parse_generics(s):
    """`<'b, V, S>` / `<const VERSION: usize>` -> list of (kind, name) and the rest"""
    s = s.lstrip()
    if not s.startswith("<"):
        return [], s
    depth, i = 0, 0
    while True:
        if s[i] == "<":
            depth += 1
        elif s[i] == ">":
            depth -= 1
            if depth == 0:
                break
        i += 1
    gens = []
    for g in split_top(s[1:i]):
        g = g.strip()
        if g.startswith("'"):
            gens.append(("life", g.split(":")[0].strip()))
        elif g.startswith("const "):
            gens.append(("const", g[6:].split(":")[0].strip()))
        else:
            gens.append(("type", g.split(":")[0].strip()))
    return gens, s[i + 1:]


def scan_items(src):
    """top-level items of a module file"""
    items = []
    i, n = 0, len(src)
    while i < n:
        while i < n and src[i].isspace():
            i += 1
        if i >= n:
            break
        start = i
        attrs, rest = take_attrs(src[i:])
        i = n - len(rest)
        # item text runs to the first `;` at depth 0 or to the end of its `{}` block
        j = i
        depth = 0
        while j < n:
            c = src[j]
            if c in OPEN:
                k = match_close(src, j)
                if c == "{" and depth == 0:
                    j = k + 1
                    m2 = re.match(r"\s*;", src[j:])
                    if m2:
                        j += m2.end()
                    # `struct X {...}` / `enum` / `impl` / `fn` / `mod` / macro!{} end here
                    break
                j = k + 1
                continue
            if c == ";":
                j += 1
                break
            j += 1
        text = src[i:j].strip()
        i = j
        if not text:
            continue
        head = re.sub(r"^pub(\([^)]*\))?\s+", "", text)
        m = re.match(r"(struct|enum)\s+(\w+)", head)
        if m:
            gens, rest2 = parse_generics(head[m.end():])
            rest2 = re.sub(r"^\s*where[^{(;]*", "", rest2).lstrip()
            items.append(Item(m.group(1), m.group(2), attrs, gens, rest2, text))
            continue
        m = re.match(r"type\s+(\w+)", head)
        if m:
            gens, rest2 = parse_generics(head[m.end():])
            rhs = rest2.split("=", 1)[1].rstrip(";").strip()
            items.append(Item("type", m.group(1), attrs, gens, rhs, text))
            continue
        m = re.match(r"use\s+(.*);$", head, re.S)
        if m:
            items.append(Item("use", None, attrs, [], m.group(1).strip(), text))
            continue
        m = re.match(r"codec_by_datatype!\s*\{(.*)\}$", head, re.S)
        if m:
            items.append(Item("bytype", None, attrs, [], m.group(1).strip(), text))
            continue
        m = re.match(r"impl\b(.*?)\bfor\s+([\w:]+)", head, re.S)
        if m and re.search(r"\b(Encode|Decode)\s*<", m.group(1)):
            items.append(Item("impl", m.group(2).split("::")[-1], attrs, [], "Decode" if re.search(r"\bDecode\s*<", m.group(1)) else "Encode", text))
            continue
        items.append(Item("other", None, attrs, [], "", text))
    return items


# ----------------------------------------------------------------------------- types

class Ty:
    """Rust type expression: path with generic args, or a tuple"""

    def __init__(self, path=None, args=None, tup=None):
        self.path, self.args, self.tup = path, args or [], tup

    def __repr__(self):
        if self.tup is not None:
            return "(" + ", ".join(map(repr, self.tup)) + ")"
        return "::".join(self.path) + ("<" + ", ".join(map(repr, self.args)) + ">" if self.args else "")


def parse_type(s):
    s = s.strip()
    if s.startswith("("):
        j = match_close(s, 0)
        if j != len(s) - 1:
            raise Unknown(f"type `{s}`")
        inner = s[1:j].strip()
        if inner.endswith(","):
            inner = inner[:-1]
        return Ty(tup=[parse_type(p) for p in split_top(inner)])
    if s.startswith("'"):
        return Ty(path=[s])          # lifetime argument
    if s.startswith("&") or s.startswith("[") or s.startswith("dyn ") or s.startswith("impl "):
        raise Unknown(f"type `{s}`")
    m = re.match(r"^[\w:]+", s)
    if not m:
        raise Unknown(f"type `{s}`")
    path = [p for p in m.group(0).split("::") if p]
    rest = s[m.end():].strip()
    args = []
    if rest:
        if not (rest.startswith("<") and rest.endswith(">")):
            raise Unknown(f"type `{s}`")
        args = [parse_type(a) for a in split_top(rest[1:-1])]
    return Ty(path=path, args=args)


# ----------------------------------------------------------------------------- the translator

def lean_list(xs):
    return "[" + ", ".join(xs) + "]"


class Translator:
    def __init__(self, repo):
        self.mods = {}        # module -> {name: Item} for struct/enum/type
        self.uses = {}        # module -> {local name: (module, name)}
        self.bytype = {}      # module -> {enum name: macro body}
        self.hand_impl = {}   # module -> set of names with a manual Encode/Decode impl
        self.globs = {}       # module -> [modules glob-imported]
        for mod, rel in FILES:
            src = open(os.path.join(repo, rel)).read()
            src = strip_comments(src)
            src = re.sub(r"#\[cfg\(test\)\]\s*mod\s+\w+\s*\{", "#[cfg(test)] mod __tests {", src)
            # drop test modules
            while True:
                m = re.search(r"#\[cfg\(test\)\]\s*mod __tests \{", src)
                if not m:
                    break
                j = match_close(src, m.end() - 1)
                src = src[:m.start()] + src[j + 1:]
            self.mods[mod], self.uses[mod], self.bytype[mod], self.hand_impl[mod], self.globs[mod] = {}, {}, {}, {}, []
            for it in scan_items(src):
                if it.kind in ("struct", "enum", "type"):
                    self.mods[mod][it.name] = it
                elif it.kind == "use":
                    self.add_use(mod, it.body)
                elif it.kind == "bytype":
                    name = re.match(r"(\w+)", it.body).group(1)
                    self.bytype[mod][name] = it.body
                elif it.kind == "impl":
                    self.hand_impl[mod].setdefault(it.name, {})[it.body] = it.text
        self.defs = []          # (lean name, term) in dependency order
        self.memo = {}          # instance key -> lean reference term
        self.progress = []      # instance keys being translated
        self.env = []           # [key] of recursive instances
        self.envinfo = {}       # key -> (display name, body lean name, kinds, noraw)
        self.noraw = {}         # lean name -> bool
        self.table = []         # (display name, lean ref, rust type)
        self.unknowns = []
        self.soft = []
        self.skipped = []
        self.rust_impls = []    # generated Rust text
        self.rust_table = []
        self.snap_used = set()
        try:
            import json
            self.snapshot = json.load(open(os.path.join(os.path.dirname(os.path.abspath(__file__)), "derive_snapshot.json")))
        except OSError:
            self.snapshot = {"defs": {}}
        self.done_rust = set()

    # -- imports
    def add_use(self, mod, body):
        def walk(prefix, s):
            s = s.strip()
            m = re.match(r"^([\w:]*?)(?:::)?\{(.*)\}$", s, re.S)
            if m:
                pre = prefix + [p for p in m.group(1).split("::") if p]
                for part in split_top(m.group(2)):
                    walk(pre, part)
                return
            m = re.match(r"^([\w:]+?)(?:\s+as\s+(\w+))?$", s)
            if not m:
                if s.endswith("*"):
                    path = prefix + [p for p in s[:-1].split("::") if p]
                    tgt = self.path_module(path)
                    if tgt:
                        self.globs[mod].append(tgt)
                return
            path = prefix + [p for p in m.group(1).split("::") if p]
            local = m.group(2) or path[-1]
            if local == "self":
                return
            tgt = self.path_module(path[:-1])
            if tgt is not None:
                self.uses[mod][local] = (tgt, path[-1])
        walk([], body)

    def path_module(self, path):
        """module a `use` path prefix names, if it is one of ours"""
        p = [x for x in path if x not in ("self",)]
        if p and p[0] in ("crate", "pallas_primitives"):
            p = p[1:]
            if not p:
                return "crate"
            if p[0] in self.mods if hasattr(self, "mods") else False:
                return p[0]
            if p[0] in ("alonzo", "babbage", "conway", "byron"):
                return p[0]
            if p[0] in ("plutus_data", "framework"):
                return None
            return None
        if p and p[0] in ("alonzo", "babbage", "conway", "byron") and len(p) == 1:
            return p[0]
        return None

    def lookup(self, mod, name, seen=None):
        """(module, Item) of a type name used in module `mod`"""
        seen = seen or set()
        if (mod, name) in seen:
            return None
        seen.add((mod, name))
        if name in self.mods[mod]:
            return mod, self.mods[mod][name]
        if name in self.uses[mod]:
            m2, n2 = self.uses[mod][name]
            return self.lookup(m2, n2, seen)
        for g in self.globs[mod]:
            r = self.lookup(g, name, seen)
            if r:
                return r
        return None

    # -- type -> schema term
    def schema_of(self, mod, ty, subst):
        """returns (lean term, noraw)"""
        if ty.tup is not None:
            parts = [self.schema_of(mod, t, subst) for t in ty.tup]
            return ".tuple " + lean_list([p[0] for p in parts]), all(p[1] for p in parts)
        path = ty.path
        name = path[-1]
        umod = mod          # generic arguments are resolved where the type expression is written
        targs = [a for a in ty.args if not (a.tup is None and a.path[0].startswith("'"))]
        nargs = [a for a in targs if a.tup is None and a.path[0].isdigit()]      # const generic arguments
        if len(path) == 1 and name in subst:
            return subst[name]
        if len(path) > 1:
            pm = self.path_module(path[:-1])
            if pm is not None:
                mod = pm
            elif path[-2] in ("bytes",) and name == "ByteVec":
                return ".bytes", True
            elif name in LEAF or name in WRAP1 or name in WRAP2 or name in ("Hash", "TagWrap", "Box"):
                pass
            else:
                raise Unknown(f"path `{'::'.join(path)}`")
        found = self.lookup(mod, name)
        if found is None:
            if name in LEAF and not targs:
                return LEAF[name], True
            if name == "Hash" and len(targs) == 1:
                return f".hash {int(targs[0].path[0])}", True
            if name == "Box" and len(targs) == 1:
                return self.schema_of(umod, targs[0], subst)
            if name in WRAP1 and len(targs) == 1:
                t, nr = self.schema_of(umod, targs[0], subst)
                return f"{WRAP1[name]} ({t})", nr and name != "KeepRaw"
            if name in WRAP2 and len(targs) == 2:
                a, na = self.schema_of(umod, targs[0], subst)
                b, nb = self.schema_of(umod, targs[1], subst)
                return f"{WRAP2[name]} ({a}) ({b})", na and nb
            if name == "TagWrap" and len(targs) == 2:
                t, nr = self.schema_of(umod, targs[0], subst)
                return f".tagWrap {int(targs[1].path[0])} ({t})", nr
            raise Unknown(f"type `{ty}` in {mod}")
        dmod, item = found
        targs = [a for a in targs if a not in nargs]
        return self.instance(dmod, item, [self.schema_of(umod, a, subst) for a in targs], targs)

    def instance(self, dmod, item, argterms, targs):
        type_params = [g for g in item.generics if g[0] == "type"]
        if len(type_params) != len(argterms):
            raise Unknown(f"generic arity of {dmod}::{item.name}")
        key = (dmod, item.name, tuple(a[0] for a in argterms))
        if key in self.memo:
            return self.memo[key]
        if key in self.progress:
            # recursive type: goes through the environment
            if key not in self.env:
                self.env.append(key)
            return f".ref {self.env.index(key)}", None   # noraw decided when the cycle closes
        self.progress.append(key)
        subst = {}
        ai = 0
        for g in item.generics:
            if g[0] == "type":
                subst[g[1]] = argterms[ai]
                ai += 1
        lname = self.lean_name(key)
        try:
            term, nr = self.translate_item(dmod, item, subst)
        except Unknown as e:
            # fail closed (the build breaks on `unknowns = []`), but keep a model: the schema this item had at the
            # last complete translation (lib/derive_snapshot.json). The correspondence run then shows, on concrete
            # values, where the changed codec departs from the last verified one.
            self.progress.pop()
            ent = self.snapshot["defs"].get(lname)
            if ent is None or key in self.env:
                raise
            msg = f"{dmod}.{item.name}: {e} (model falls back to the pinned schema)"
            if msg not in self.soft:
                self.soft.append(msg)
            self.use_snapshot(lname)
            ref = (lname, ent["noraw"])
            self.memo[key] = ref
            return ref
        except Exception:
            self.progress.pop()
            raise
        else:
            self.progress.pop()
        if key in self.env:
            idx = self.env.index(key)
            # a `None` noraw inside came from the self reference: resolve as the rest says
            nr = True if nr is None else nr
            self.defs.append((lname + "_body", term))
            self.envinfo[key] = (f"{dmod}.{item.name}", lname + "_body", self.top_kinds(term), nr)
            ref = (f".ref {idx}", nr)
        else:
            self.defs.append((lname, term))
            ref = (lname, nr)
        self.memo[key] = ref
        return ref

    def lean_name(self, key):
        dmod, name, args = key
        s = f"{dmod}_{name}"
        if args:
            s += "_" + re.sub(r"\W+", "_", "_".join(args)).strip("_")
        return s

    def top_kinds(self, term):
        t = term.lstrip("(").lstrip()
        if t.startswith(".enumFlat") or t.startswith(".struct .array none") or t.startswith(".sumFixed"):
            return "[.array]"
        if t.startswith(".struct .map none"):
            return "[.map]"
        if t.startswith(".struct"):
            return "[.tag]"
        if t.startswith(".byType"):
            m = re.match(r"\.byType \[(.*)\] (none|\(some)", t, re.S)
            tys = re.findall(r"\(\d+, \[([^\]]*)\]", m.group(1))
            allt = []
            for x in tys:
                allt += [y.strip() for y in x.split(",") if y.strip()]
            if m.group(2) != "none":
                allt.insert(0, ".array")
            return lean_list(allt)
        raise Unknown("kinds of a recursive type with an unexpected top node")

    @staticmethod
    def and_nr(xs):
        """noraw of a composite: False dominates, None (self reference) is neutral"""
        if any(x is False for x in xs):
            return False
        if any(x is None for x in xs):
            return None
        return True

    # -- items
    def cbor_attrs(self, attrs):
        res = {}
        for a in attrs:
            m = re.match(r"cbor\((.*)\)$", a, re.S)
            if m:
                for part in split_top(m.group(1)):
                    if not part:
                        continue
                    mm = re.match(r"(\w+)(?:\((.*)\))?$", part, re.S)
                    if not mm:
                        raise Unknown(f"attribute `{a}`")
                    res[mm.group(1)] = mm.group(2)
            mm = re.match(r"([nb])\((\d+)\)$", a)
            if mm:
                res["index"] = int(mm.group(2))
        return res

    def derives(self, item):
        ds = " ".join(a for a in item.attrs if a.startswith("derive"))
        return ("Encode" in re.findall(r"\w+", ds), "Decode" in re.findall(r"\w+", ds))

    def parse_fields(self, body, named, need_index=True):
        """body without the outer brackets -> [(index, rust field name or position, type text, attrs)]"""
        fields = []
        for pos, part in enumerate(split_top(body)):
            if not part:
                continue
            attrs, rest = take_attrs(part)
            rest = re.sub(r"^pub(\([^)]*\))?\s+", "", rest)
            ca = self.cbor_attrs(attrs)
            for k in ca:
                if k not in ("index",):
                    raise Unknown(f"field attribute `{k}`")
            if "index" not in ca:
                if need_index:
                    raise Unknown("field without #[n(..)]")
                ca["index"] = pos
            if named:
                fname, ty = rest.split(":", 1)
                fields.append((ca["index"], fname.strip(), ty.strip()))
            else:
                fields.append((ca["index"], str(pos), rest.strip()))
        idxs = [f[0] for f in fields]
        if idxs != sorted(idxs) or len(set(idxs)) != len(idxs):
            raise Unknown("field indices not increasing in declaration order")
        return fields

    def field_terms(self, dmod, fields, subst):
        terms, nrs = [], []
        for idx, _, ty in fields:
            t, nr = self.schema_of(dmod, parse_type(ty), subst)
            terms.append(f"({idx}, {t})")
            nrs.append(nr)
        return lean_list(terms), self.and_nr(nrs)

    def translate_item(self, dmod, item, subst):
        if item.name in self.bytype[dmod]:
            return self.translate_bytype(dmod, item, subst)
        if item.kind == "type":
            return self.schema_of(dmod, parse_type(item.body), subst)
        if item.name in self.hand_impl[dmod] and item.name not in self.bytype[dmod]:
            h = HAND.get((dmod, item.name))
            if h:
                texts = " ".join(self.hand_impl[dmod][item.name].values())
                for pat in h[1]:
                    if not re.search(pat, texts):
                        raise Unknown(f"hand-written codec of {dmod}::{item.name} no longer has the shape its schema was written from (/{pat}/)")
                return h[0], True
            if item.kind == "enum":
                return self.translate_hand_sum(dmod, item, subst)
            raise Unknown(f"hand-written codec of {dmod}::{item.name} has no hand-written schema")
        if item.name in self.bytype[dmod]:
            return self.translate_bytype(dmod, item, subst)
        enc, dec = self.derives(item)
        if not (enc and dec):
            raise Unknown(f"{dmod}::{item.name} derives neither Encode nor Decode and has no known codec")
        ca = self.cbor_attrs(item.attrs)
        for k in ca:
            if k not in ("map", "array", "flat", "index_only", "transparent", "tag"):
                raise Unknown(f"container attribute `{k}` on {dmod}::{item.name}")
        if item.kind == "struct":
            body = item.body
            named = body.startswith("{")
            if not (named or body.startswith("(")):
                raise Unknown("unit struct")
            j = match_close(body, 0)
            fields = self.parse_fields(body[1:j], named, need_index="transparent" not in ca)
            if "transparent" in ca:
                if len(fields) != 1:
                    raise Unknown("transparent with several fields")
                self.rust_transparent(dmod, item, fields[0], named)
                return self.schema_of(dmod, parse_type(fields[0][2]), subst)
            layout = ".map" if "map" in ca else ".array"
            tag = f"(some {int(ca['tag'])})" if "tag" in ca else "none"
            ft, nr = self.field_terms(dmod, fields, subst)
            self.rust_struct(dmod, item, fields, named)
            return f".struct {layout} {tag} {ft}", nr
        # enum
        j = match_close(item.body, 0)
        variants = []
        for part in split_top(item.body[1:j]):
            if not part:
                continue
            attrs, rest = take_attrs(part)
            va = self.cbor_attrs(attrs)
            for k in va:
                if k != "index":
                    raise Unknown(f"variant attribute `{k}`")
            m = re.match(r"(\w+)\s*(.*)$", rest, re.S)
            vname, vbody = m.group(1), m.group(2).strip()
            if "index" not in va:
                raise Unknown("variant without #[n(..)]")
            if vbody.startswith("="):
                raise Unknown("explicit discriminant")
            variants.append((va["index"], vname, vbody))
        if "index_only" in ca:
            if any(v[2] for v in variants):
                raise Unknown("index_only enum with fields")
            self.rust_enum(dmod, item, [(v[1], None, []) for v in variants])
            return ".enumIdx " + lean_list([str(v[0]) for v in variants]), True
        if "flat" not in ca or "map" in ca:
            raise Unknown(f"enum {dmod}::{item.name} is neither flat nor index_only")
        vts, nrs, rv = [], [], []
        for idx, vname, vbody in variants:
            if not vbody:
                vts.append(f"({idx}, [])")
                rv.append((vname, None, []))
                continue
            named = vbody.startswith("{")
            k = match_close(vbody, 0)
            fields = self.parse_fields(vbody[1:k], named)
            ft, nr = self.field_terms(dmod, fields, subst)
            vts.append(f"({idx}, {ft})")
            nrs.append(nr)
            rv.append((vname, named, fields))
        self.rust_enum(dmod, item, rv)
        return ".enumFlat " + lean_list(vts), self.and_nr(nrs)

    def enum_variants_plain(self, item):
        """variants of an enum without derive attributes: [(name, [type text])]"""
        j = match_close(item.body, 0)
        res = []
        for part in split_top(item.body[1:j]):
            if not part:
                continue
            attrs, rest = take_attrs(part)
            m = re.match(r"(\w+)\s*(.*)$", rest, re.S)
            vname, vbody = m.group(1), m.group(2).strip()
            if not vbody:
                res.append((vname, []))
            elif vbody.startswith("("):
                k = match_close(vbody, 0)
                res.append((vname, split_top(vbody[1:k])))
            else:
                raise Unknown("struct variant in a codec_by_datatype enum")
        return res

    def translate_hand_sum(self, dmod, item, subst):
        """hand-written `[variant, field..]` sums: the enum definition gives the payload types, the
        match arms of `decode` give the variant numbers, and the `e.array(n)` / variant number of every
        `encode` arm is cross-checked against them"""
        impls = self.hand_impl[dmod][item.name]
        if set(impls) != {"Encode", "Decode"}:
            raise Unknown(f"{dmod}::{item.name}: only one of Encode/Decode is hand-written")
        dec, enc = impls["Decode"], impls["Encode"]
        m = re.search(r"d\.array\(\)\?;\s*let\s+variant\s*=\s*d\.(u8|u16)\(\)\?;\s*match\s+variant\s*\{", dec)
        if not m:
            raise Unknown(f"{dmod}::{item.name}: decoder is not `array, variant, match`")
        bits = m.group(1)[1:]
        k = dec.index("{", m.end() - 1)
        arms_txt = dec[k + 1:match_close(dec, k)]
        variants = self.enum_variants_plain(item)
        vpos = {v[0]: i for i, v in enumerate(variants)}
        idx_of = {}
        other = None
        for arm in split_top(arms_txt):
            arm = arm.strip()
            if not arm:
                continue
            pat, rhs = arm.split("=>", 1)
            pat, rhs = pat.strip(), rhs.strip()
            if re.fullmatch(r"\d+", pat):
                mm = re.match(r"Ok\(\s*" + item.name + r"::(\w+)\b", rhs)
                if not mm or mm.group(1) not in vpos:
                    raise Unknown(f"{dmod}::{item.name}: decode arm `{pat}`")
                vname = mm.group(1)
                if rhs.count("d.decode_with(ctx)?") != len(variants[vpos[vname]][1]):
                    raise Unknown(f"{dmod}::{item.name}::{vname}: decoder reads a different number of fields than the variant has")
                idx_of[vname] = int(pat)
            elif pat == "_" and rhs.startswith("Err("):
                pass
            elif re.fullmatch(r"[a-z]\w*", pat):
                # catch-all: `x => Ok(Name::Other(x, d.decode_with(ctx)?))`, `Other` declared last with the number first
                mm = re.match(r"Ok\(\s*" + item.name + r"::(\w+)\(\s*" + pat + r"\s*,", rhs)
                if not mm or mm.group(1) != variants[-1][0] or other is not None:
                    raise Unknown(f"{dmod}::{item.name}: catch-all decode arm `{pat}`")
                other = mm.group(1)
                otys = variants[-1][1]
                if not otys or otys[0].strip() != "u" + bits:
                    raise Unknown(f"{dmod}::{item.name}::{other}: first field is not the variant number")
                if rhs.count("d.decode_with(ctx)?") != len(otys) - 1:
                    raise Unknown(f"{dmod}::{item.name}::{other}: decoder reads a different number of fields than the variant has")
            else:
                raise Unknown(f"{dmod}::{item.name}: decode arm `{pat}`")
        if set(idx_of) | ({other} if other else set()) != set(vpos):
            raise Unknown(f"{dmod}::{item.name}: variants without a decode arm")
        # encoder arms
        for vname, tys in variants:
            mm = re.search(item.name + r"::" + vname + r"\b[^=]*=>\s*\{(.*?)Ok\(\(\)\)", enc, re.S)
            if not mm:
                raise Unknown(f"{dmod}::{item.name}::{vname}: no encode arm")
            body = mm.group(1)
            if vname == other:
                m3 = re.match(r"\s*e\.array\((\d+)\)\?;\s*e\.u" + bits + r"\(\*\w+\)\?;(.*)$", body, re.S)
                if not m3:
                    raise Unknown(f"{dmod}::{item.name}::{vname}: encode arm is not `array(n), number, fields`")
                nf = len(re.findall(r"e\.encode(?:_with)?\(", m3.group(2)))
                if int(m3.group(1)) != len(tys):
                    self.soft.append(f"{dmod}.{item.name}: {vname}: encoder writes array({m3.group(1)}) for a variant with {len(tys)} field(s)")
                if nf != len(tys) - 1:
                    self.soft.append(f"{dmod}.{item.name}: {vname}: encoder writes {nf} payload field(s), the variant has {len(tys) - 1}")
                continue
            m2 = re.match(r"\s*e\.array\((\d+)\)\?;\s*e\.(?:u8|u16|encode_with)\((\d+)(?:,\s*ctx)?\)\?;(.*)$", body, re.S)
            if not m2:
                raise Unknown(f"{dmod}::{item.name}::{vname}: encode arm is not `array(n), variant, fields`")
            n, idx, rest = int(m2.group(1)), int(m2.group(2)), m2.group(3)
            nf = len(re.findall(r"e\.encode(?:_with)?\(", rest))
            # a disagreement between the two impls is recorded (the build breaks on `unknowns = []`), and the
            # schema is still emitted from the decoder's reading, so that the correspondence run can show the
            # concrete value on which encoder and decoder disagree
            if n != 1 + len(tys):
                self.soft.append(f"{dmod}.{item.name}: {vname}: encoder writes array({n}) for a variant with {len(tys)} field(s)")
            if nf != len(tys):
                self.soft.append(f"{dmod}.{item.name}: {vname}: encoder writes {nf} field(s), the variant has {len(tys)}")
            if idx != idx_of[vname]:
                self.soft.append(f"{dmod}.{item.name}: {vname}: encoder writes variant {idx}, decoder expects {idx_of[vname]}")
        vts, nrs, oterm = [], [], None
        for vname, tys in variants:
            if vname == other:
                sts = [self.schema_of(dmod, parse_type(t), subst) for t in tys[1:]]
                oterm = lean_list([x[0] for x in sts])
            else:
                sts = [self.schema_of(dmod, parse_type(t), subst) for t in tys]
                vts.append(f"({idx_of[vname]}, {lean_list([x[0] for x in sts])})")
            nrs += [x[1] for x in sts]
        self.rust_plain_enum(dmod, item, variants, other_excl=sorted(idx_of.values()) if other else None)
        if other:
            return f".sumOther {bits} {lean_list(vts)} {oterm}", self.and_nr(nrs)
        return f".sumFixed {bits} {lean_list(vts)}", self.and_nr(nrs)

    def translate_bytype(self, dmod, item, subst):
        """`codec_by_datatype! { Name, T1 | T2 => Variant, .., (a, b => Many) }`"""
        # the macro may be written on an alias (babbage/conway TransactionOutput): resolve to the enum
        body = self.bytype[dmod][item.name]
        target = item
        tsubst = subst
        if item.kind == "type":
            ty = parse_type(item.body)
            found = self.lookup(dmod, ty.path[-1]) if len(ty.path) == 1 else (self.path_module(ty.path[:-1]), None)
            if len(ty.path) > 1:
                m2 = self.path_module(ty.path[:-1])
                found = self.lookup(m2, ty.path[-1])
            if not found or found[1].kind != "enum":
                raise Unknown(f"codec_by_datatype on {dmod}::{item.name}: alias target is not an enum")
            tmod, target = found
            targs = [a for a in ty.args if not (a.tup is None and a.path[0].startswith("'"))]
            argterms = [self.schema_of(dmod, a, subst) for a in targs]
            tsubst = {}
            ai = 0
            for g in target.generics:
                if g[0] == "type":
                    tsubst[g[1]] = argterms[ai]
                    ai += 1
            vmod = tmod
        else:
            vmod = dmod
        variants = self.enum_variants_plain(target)
        vpos = {v[0]: i for i, v in enumerate(variants)}
        parts = split_top(body)
        alts, many, nrs = [], "none", []
        for part in parts[1:]:
            if part.startswith("("):
                inner = part[1:match_close(part, 0)].strip()
                if not inner:
                    continue
                vars_, vname = inner.split("=>")
                vname = vname.strip()
                tys = variants[vpos[vname]][1]
                if len(tys) != len(split_top(vars_)):
                    raise Unknown("many-field variant arity")
                sts = [self.schema_of(vmod, parse_type(t), tsubst) for t in tys]
                many = f"(some ({vpos[vname]}, {lean_list([s[0] for s in sts])}))"
                nrs += [s[1] for s in sts]
            else:
                tys_, vname = part.split("=>")
                vname = vname.strip()
                tynames = [t.strip() for t in tys_.split("|")]
                for t in tynames:
                    if t not in TYNAMES:
                        raise Unknown(f"datatype `{t}`")
                ptys = variants[vpos[vname]][1]
                if len(ptys) != 1:
                    raise Unknown("one-payload arm on a variant with several fields")
                st, nr = self.schema_of(vmod, parse_type(ptys[0]), tsubst)
                alts.append(f"({vpos[vname]}, {lean_list([TYNAMES[t] for t in tynames])}, {st})")
                nrs.append(nr)
        self.rust_plain_enum(vmod, target, variants)
        return f".byType {lean_list(alts)} {many}", self.and_nr(nrs)

    # -- Rust side (Show / Arb), one impl per item definition
    def rust_generics(self, item, bound):
        ps, args = [], []
        for k, n in item.generics:
            if k == "life":
                ps.append(n)
                args.append(n)
            elif k == "const":
                ps.append(f"const {n}: usize")
                args.append(n)
            else:
                ps.append(f"{n}: {bound}" + (" + Clone" if True else ""))
                args.append(n)
        return ("<" + ", ".join(ps) + ">" if ps else ""), ("<" + ", ".join(args) + ">" if args else "")

    def rust_path(self, dmod, name):
        return f"pallas_primitives::{name}" if dmod == "crate" else f"pallas_primitives::{dmod}::{name}"

    def rust_struct(self, dmod, item, fields, named):
        if (dmod, item.name) in self.done_rust:
            return
        self.done_rust.add((dmod, item.name))
        path = self.rust_path(dmod, item.name)
        for bound, _ in (("Show", 0),):
            ig, ag = self.rust_generics(item, "Show")
            acc = "".join(f" self.{f[1]}.show(o);" for f in fields)
            self.rust_impls.append(f"impl{ig} Show for {path}{ag} {{ fn show(&self, o: &mut Vec<String>) {{ o.push(\"[\".into());{acc} o.push(\"]\".into()); }} }}")
        ig, ag = self.rust_generics(item, "Arb")
        if named:
            init = "Self { " + ", ".join(f"{f[1]}: Arb::arb(g, d + 1)" for f in fields) + " }"
        else:
            init = "Self(" + ", ".join("Arb::arb(g, d + 1)" for _ in sorted(fields, key=lambda f: int(f[1]))) + ")"
        self.rust_impls.append(f"impl{ig} Arb for {path}{ag} {{ fn arb(g: &mut Rng, d: u32) -> Self {{ {init} }} }}")

    def rust_transparent(self, dmod, item, field, named):
        if (dmod, item.name) in self.done_rust:
            return
        self.done_rust.add((dmod, item.name))
        path = self.rust_path(dmod, item.name)
        ig, ag = self.rust_generics(item, "Show")
        self.rust_impls.append(f"impl{ig} Show for {path}{ag} {{ fn show(&self, o: &mut Vec<String>) {{ self.{field[1]}.show(o); }} }}")
        ig, ag = self.rust_generics(item, "Arb")
        init = f"Self {{ {field[1]}: Arb::arb(g, d) }}" if named else "Self(Arb::arb(g, d))"
        self.rust_impls.append(f"impl{ig} Arb for {path}{ag} {{ fn arb(g: &mut Rng, d: u32) -> Self {{ {init} }} }}")

    def rust_enum(self, dmod, item, variants, other_excl=None):
        """variants: [(name, named?, fields)] for derived enums; `other_excl`: the last variant is a catch-all whose
        first field (the variant number) must avoid these values"""
        if (dmod, item.name) in self.done_rust:
            return
        self.done_rust.add((dmod, item.name))
        path = self.rust_path(dmod, item.name)
        ig, ag = self.rust_generics(item, "Show")
        arms, gens = [], []
        for pos, (vname, named, fields) in enumerate(variants):
            if named is None:
                arms.append(f"Self::{vname} => {{ o.push(\"v{pos}\".into()); o.push(\"[\".into()); o.push(\"]\".into()); }}")
                gens.append(f"{pos} => Self::{vname},")
            elif named:
                binds = ", ".join(f[1] for f in fields)
                acc = "".join(f" {f[1]}.show(o);" for f in fields)
                arms.append(f"Self::{vname} {{ {binds} }} => {{ o.push(\"v{pos}\".into()); o.push(\"[\".into());{acc} o.push(\"]\".into()); }}")
                gens.append(f"{pos} => Self::{vname} {{ " + ", ".join(f"{f[1]}: Arb::arb(g, d + 1)" for f in fields) + " },")
            else:
                binds = ", ".join(f"f{f[1]}" for f in fields)
                acc = "".join(f" f{f[1]}.show(o);" for f in fields)
                arms.append(f"Self::{vname}({binds}) => {{ o.push(\"v{pos}\".into()); o.push(\"[\".into());{acc} o.push(\"]\".into()); }}")
                args = ["Arb::arb(g, d + 1)" for _ in fields]
                if other_excl is not None and pos == len(variants) - 1:
                    args[0] = "{ let mut x: u8 = Arb::arb(g, d + 1); while [" + ", ".join(f"{v}u8" for v in other_excl) + "].contains(&x) { x = x.wrapping_add(1); } x }"
                gens.append(f"{pos} => Self::{vname}(" + ", ".join(args) + "),")
        self.rust_impls.append(f"impl{ig} Show for {path}{ag} {{ fn show(&self, o: &mut Vec<String>) {{ match self {{ {' '.join(arms)} }} }} }}")
        ig, ag = self.rust_generics(item, "Arb")
        gens[-1] = re.sub(r"^\d+ =>", "_ =>", gens[-1])
        self.rust_impls.append(f"impl{ig} Arb for {path}{ag} {{ fn arb(g: &mut Rng, d: u32) -> Self {{ match g.below({len(variants)}) {{ {' '.join(gens)} }} }} }}")

    def rust_plain_enum(self, dmod, item, variants, other_excl=None):
        self.rust_enum(dmod, item, [(v[0], False if v[1] else None, [(i, str(i), t) for i, t in enumerate(v[1])]) for v in variants],
                       other_excl=other_excl)

    # -- driver
    def root_items(self):
        """(module, name, item, display name) of every codec type that gets a table / dispatch entry"""
        for mod, _ in FILES:
            for name, item in self.mods[mod].items():
                disp = name if mod == "crate" else f"{mod}.{name}"
                tparams = [g for g in item.generics if g[0] == "type"]
                if tparams:
                    continue        # generic definitions are reached through their instantiating aliases
                if item.kind == "type":
                    # aliases are table entries only when they instantiate one of our generic items
                    try:
                        ty = parse_type(item.body)
                    except Unknown:
                        continue
                    if ty.tup is not None or not any(a.tup is not None or not a.path[0].startswith("'") for a in ty.args):
                        continue
                    found = self.lookup(mod, ty.path[-1]) if len(ty.path) == 1 else None
                    if len(ty.path) > 1 and self.path_module(ty.path[:-1]):
                        found = self.lookup(self.path_module(ty.path[:-1]), ty.path[-1])
                    if not found or not any(g[0] == "type" for g in found[1].generics):
                        continue
                if any(a.startswith("deprecated") for a in item.attrs):
                    continue
                if item.kind != "type" and not self.is_codec_item(mod, item):
                    continue        # not a codec type at all (e.g. babbage::VrfDerivation)
                yield mod, name, item, disp

    def is_codec_item(self, mod, item):
        return any(self.derives(item)) or item.name in self.hand_impl[mod] or item.name in self.bytype[mod]

    def gen_rust_all(self):
        """Show / Arb impls and the dispatch table from the *type definitions* alone (declaration order), so that the
        implementation side of the correspondence and its round-trip oracle keep running on every type even when a
        codec can no longer be translated into a schema."""
        for mod, _ in FILES:
            for name, item in self.mods[mod].items():
                if item.kind not in ("struct", "enum") or (mod, name) in HAND_RUST:
                    continue
                if not self.is_codec_item(mod, item) and not any(g[0] == "type" for g in item.generics):
                    continue
                try:
                    if item.kind == "struct":
                        body = item.body
                        named = body.startswith("{")
                        if not (named or body.startswith("(")):
                            continue
                        fields = []
                        for pos, part in enumerate(split_top(body[1:match_close(body, 0)])):
                            if not part:
                                continue
                            _, rest = take_attrs(part)
                            rest = re.sub(r"^pub(\([^)]*\))?\s+", "", rest)
                            if named:
                                fname, ty = rest.split(":", 1)
                                fields.append((pos, fname.strip(), ty.strip()))
                            else:
                                fields.append((pos, str(pos), rest.strip()))
                        if any(re.match(r"cbor\(.*\btransparent\b", a, re.S) for a in item.attrs) and len(fields) == 1:
                            self.rust_transparent(mod, item, fields[0], named)
                        else:
                            self.rust_struct(mod, item, fields, named)
                    else:
                        variants = []
                        for part in split_top(item.body[1:match_close(item.body, 0)]):
                            if not part:
                                continue
                            _, rest = take_attrs(part)
                            m = re.match(r"(\w+)\s*(.*)$", rest, re.S)
                            vname, vbody = m.group(1), m.group(2).strip()
                            if not vbody:
                                variants.append((vname, None, []))
                                continue
                            vnamed = vbody.startswith("{")
                            vf = []
                            for pos, fp in enumerate(split_top(vbody[1:match_close(vbody, 0)])):
                                if not fp:
                                    continue
                                _, r2 = take_attrs(fp)
                                r2 = re.sub(r"^pub(\([^)]*\))?\s+", "", r2)
                                if vnamed:
                                    fname, ty = r2.split(":", 1)
                                    vf.append((pos, fname.strip(), ty.strip()))
                                else:
                                    vf.append((pos, str(pos), r2.strip()))
                            variants.append((vname, vnamed, vf))
                        self.rust_enum(mod, item, variants, other_excl=self.catch_all_exclusions(mod, item, variants))
                except Exception:
                    continue
        self.rust_table = []
        for mod, name, item, disp in self.root_items():
            if item.kind != "type" and (mod, name) not in self.done_rust and (mod, name) not in HAND_RUST:
                continue
            rust = self.rust_path(mod, name) + ("<" + ", ".join("'_" if g[0] == "life" else "1" for g in item.generics) + ">" if item.generics else "")
            self.rust_table.append((disp, rust))

    def catch_all_exclusions(self, mod, item, variants):
        """for a hand-written sum whose decoder has a catch-all arm bound to the last variant (its first field being
        the variant number): the numbers of the listed arms, which the generator must not put into that field"""
        impls = self.hand_impl[mod].get(item.name, {})
        dec = impls.get("Decode")
        if not dec or not variants or variants[-1][1] is not False or not variants[-1][2]:
            return None
        if variants[-1][2][0][2].strip() not in ("u8", "u16"):
            return None
        m = re.search(r"match\s+variant\s*\{", dec)
        if not m:
            return None
        k = dec.index("{", m.end() - 1)
        arms = split_top(dec[k + 1:match_close(dec, k)])
        nums = [int(a.split("=>")[0].strip()) for a in arms if re.fullmatch(r"\d+", a.split("=>")[0].strip())]
        catch = any(re.fullmatch(r"[a-z]\w*", a.split("=>")[0].strip()) and (item.name + "::" + variants[-1][0]) in a for a in arms if "=>" in a)
        return sorted(nums) if catch else None

    def use_snapshot(self, lname):
        """define `lname` (and what it refers to) from the pinned snapshot of the last complete translation"""
        if lname in self.snap_used or any(n == lname for n, _ in self.defs):
            return
        ent = self.snapshot["defs"].get(lname)
        if ent is None:
            raise Unknown(f"no pinned schema for {lname}")
        self.snap_used.add(lname)
        for dep in re.findall(r"\b(?:crate|alonzo|babbage|conway|byron)_\w+\b", ent["term"]):
            if dep != lname:
                self.use_snapshot(dep)
        self.defs.append((lname, ent["term"]))

    def run(self, claimed):
        self.gen_rust_all()
        for mod, name, item, disp in self.root_items():
            rust = self.rust_path(mod, name) + ("<" + ", ".join("'_" if g[0] == "life" else "1" for g in item.generics) + ">" if item.generics else "")
            try:
                ref, nr = self.instance(mod, item, [], [])
                self.table.append((disp, ref, rust))
            except Unknown as e:
                self.progress = []
                (self.unknowns if disp in claimed else self.skipped).append(f"{disp}: {e}")
            except Exception as e:  # malformed source: fail closed
                self.progress = []
                (self.unknowns if disp in claimed else self.skipped).append(f"{disp}: {type(e).__name__} {e}")
        self.unknowns += self.soft
        # dispatch order = generation order of the stream: small types first, so that the first case that shows a
        # broken codec is (close to) the smallest value that does
        terms = dict(self.defs)
        size_memo = {}

        def closure(n, seen):
            if n in seen or n not in terms:
                return
            seen.add(n)
            for dep in re.findall(r"\b(?:crate|alonzo|babbage|conway|byron)_\w+\b", terms[n]):
                closure(dep, seen)

        def size(disp):
            ref = next((r for d, r, _ in self.table if d == disp), None)
            if ref is None:
                return 10 ** 6
            names = re.findall(r"\b(?:crate|alonzo|babbage|conway|byron)_\w+\b", ref) or []
            if ref.startswith(".ref"):
                names = [self.envinfo[self.env[int(ref.split()[1])]][1]]
            seen = set()
            for n in names:
                closure(n, seen)
            return sum(len(terms[n]) for n in seen) + len(ref)

        order = {d: (size(d), i) for i, (d, _) in enumerate(self.rust_table)}
        self.rust_table.sort(key=lambda e: order[e[0]])
        have = {t[0] for t in self.table}
        for c in sorted(claimed):
            if c not in have and not any(u.startswith(c + ":") for u in self.unknowns):
                self.unknowns.append(f"{c}: claimed type not found in the sources")

    def lean_text(self):
        L = ["-- GENERATED by lib/translate_derive.py from pallas-primitives/src/{lib.rs,*/model.rs} — do not edit",
             "import PallasVerif.Model.SchemaHand",
             "namespace PallasVerif.Gen.SchemaEra", "open PallasVerif.Schema", ""]
        for n, t in self.defs:
            L.append(f"def {n} : Schema := {t}")
        L.append("")
        L.append("/-- recursive types, referenced as `.ref i` -/")
        ents = []
        for key in self.env:
            disp, body, kinds, nr = self.envinfo[key]
            ents.append(f"  ⟨\"{disp}\", {body}, {kinds}, {'true' if nr else 'false'}⟩")
        L.append("def envTypes : List EnvEntry := [\n" + ",\n".join(ents) + "]")
        L.append("def env : Env := { types := envTypes, customs := Hand.customs }")
        L.append("")
        L.append("/-- every translated type: name in the line protocol, schema -/")
        L.append("def table : List (String × Schema) := [\n" + ",\n".join(f"  (\"{d}\", {r})" for d, r, _ in self.table) + "]")
        L.append("")
        L.append("/-- constructs of claimed types the translator could not classify (must be empty) -/")
        L.append("def unknowns : List String := " + lean_list(['"' + u.replace('"', "'").replace("\\", "/") + '"' for u in self.unknowns]))
        L.append("")
        L.append("/-- types outside the claimed set that were not translated (reported, not claimed) -/")
        L.append("def skipped : List String := " + lean_list(['"' + u.replace('"', "'").replace("\\", "/") + '"' for u in self.skipped]))
        L.append("")
        L.append("end PallasVerif.Gen.SchemaEra")
        return "\n".join(L) + "\n"

    def rust_text(self):
        R = ["// GENERATED by lib/translate_derive.py from pallas-primitives/src/{lib.rs,*/model.rs} — do not edit",
             "// Show / Arb impls follow the same parse as lean/PallasVerif/Gen/SchemaEra.lean (fields in #[n] order,",
             "// variants by declaration position).", "use super::schema_traits::{Arb, Show};", "use crate::fw::Rng;", ""]
        R += self.rust_impls
        R.append("")
        R.append("/// name in the line protocol -> the Rust type, applied to the per-type operations")
        R.append("macro_rules! schema_dispatch { ($name:expr, $op:ident, $($arg:expr),*) => { match $name {")
        for d, rust in self.rust_table:
            R.append(f"    \"{d}\" => $op!({rust}, $($arg),*),")
        R.append("    _ => None,")
        R.append("} } }")
        R.append("pub(crate) use schema_dispatch;")
        R.append("pub const TYPE_NAMES: &[&str] = &[" + ", ".join(f"\"{d}\"" for d, _ in self.rust_table) + "];")
        return "\n".join(R) + "\n"


def write_if_changed(path, txt):
    try:
        if open(path).read() == txt:
            return
    except OSError:
        pass
    os.makedirs(os.path.dirname(path), exist_ok=True)
    with open(path, "w") as f:
        f.write(txt)


def claimed_names():
    p = os.path.join(os.path.dirname(os.path.abspath(__file__)), "derive_claimed.txt")
    return {l.strip() for l in open(p) if l.strip() and not l.startswith("#")}


def translate(repo, lean_dir):
    """entry point used by lib/props/C06.py (signature of every translator)"""
    tr = Translator(repo)
    tr.run(claimed_names())
    write_if_changed(os.path.join(lean_dir, "PallasVerif", "Gen", "SchemaEra.lean"), tr.lean_text())
    root = os.path.dirname(lean_dir)
    write_if_changed(os.path.join(root, "harness", "src", "fixtures", "schema_gen.rs"), tr.rust_text())
    return tr


def pin(repo):
    """write lib/derive_snapshot.json from a complete translation of `repo` (run deliberately, like updating
    derive_claimed.txt, when pallas legitimately changes)"""
    import json
    tr = Translator(repo)
    tr.snapshot = {"defs": {}}
    tr.run(claimed_names())
    if tr.unknowns:
        raise SystemExit("not pinning: " + "; ".join(tr.unknowns))
    nr = {ref[0]: ref[1] for ref in tr.memo.values()}
    snap = {"defs": {n: {"term": t, "noraw": bool(nr.get(n, False))} for n, t in tr.defs if not n.endswith("_body")}}
    p = os.path.join(os.path.dirname(os.path.abspath(__file__)), "derive_snapshot.json")
    with open(p, "w") as f:
        json.dump(snap, f, indent=0, sort_keys=True)
        f.write("\n")
    print("pinned", len(snap["defs"]), "schemas")


if __name__ == "__main__":
    if len(sys.argv) > 2 and sys.argv[1] == "--pin":
        pin(sys.argv[2])
        sys.exit(0)
    repo = sys.argv[1] if len(sys.argv) > 1 else os.environ.get("PV_REPO", "/repo")
    root = os.path.dirname(os.path.dirname(os.path.abspath(__file__)))
    tr = translate(repo, os.path.join(root, "lean"))
    print("translated", len(tr.table), "types;", len(tr.env), "recursive")
    for u in tr.unknowns:
        print("UNKNOWN", u)
    for u in tr.skipped:
        print("skipped", u)
