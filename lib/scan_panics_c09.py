"""Syntactic inventory of panic sites in the hand-written decoder files anchored by C09.

Every site = (file, enclosing fn, kind, normalized line text). Kinds: unwrap, expect, panic!
(panic!/unreachable!/todo!/unimplemented!), assert, index (`x[i]`), slice (`x[a..b]`),
copy_from_slice, arith (`+ - * / % << >>` and their assignments on non-literal operands, `as`
narrowing is not a panic). `#[cfg(test)]` modules, comments, strings and attributes are skipped.

The inventory is regenerated on every run into lean/PallasVerif/Gen/PanicSitesC09.lean together with
the audited allow-list lib/panic_audit_C09.json; a site that is not in the allow-list is `unaudited`
and the theorem `Props/C09.panic_sites_all_audited : unaudited = []` (by decide) stops holding —
a NEW panic site in these files breaks the check until someone audits it (fail closed). An
allow-list entry that no longer matches anything is reported as `stale` (warning only).
"""
import json
import os
import re

FILES = [
    # network: message codecs and their helpers
    "pallas-network/src/miniprotocols/common.rs",
    "pallas-network/src/miniprotocols/blockfetch/codec.rs",
    "pallas-network/src/miniprotocols/chainsync/codec.rs",
    "pallas-network/src/miniprotocols/handshake/protocol.rs",
    "pallas-network/src/miniprotocols/handshake/n2n.rs",
    "pallas-network/src/miniprotocols/handshake/n2c.rs",
    "pallas-network/src/miniprotocols/keepalive/codec.rs",
    "pallas-network/src/miniprotocols/peersharing/codec.rs",
    "pallas-network/src/miniprotocols/txsubmission/codec.rs",
    "pallas-network/src/miniprotocols/txmonitor/codec.rs",
    "pallas-network/src/miniprotocols/localstate/codec.rs",
    "pallas-network/src/miniprotocols/localtxsubmission/codec.rs",
    "pallas-network/src/miniprotocols/localtxsubmission/protocol.rs",
    "pallas-network/src/miniprotocols/localtxsubmission/primitives.rs",
    "pallas-network/src/miniprotocols/localstate/queries_v16/codec.rs",
    "pallas-network/src/miniprotocols/localstate/queries_v16/mod.rs",
    "pallas-network/src/miniprotocols/localstate/queries_v16/primitives.rs",
    "pallas-network/src/miniprotocols/localmsgsubmission/codec.rs",
    "pallas-network/src/miniprotocols/localmsgnotification/codec.rs",
    "pallas-network2/src/protocol/common.rs",
    "pallas-network2/src/protocol/blockfetch.rs",
    "pallas-network2/src/protocol/chainsync.rs",
    "pallas-network2/src/protocol/handshake/mod.rs",
    "pallas-network2/src/protocol/handshake/n2n.rs",
    "pallas-network2/src/protocol/handshake/n2c.rs",
    "pallas-network2/src/protocol/keepalive.rs",
    "pallas-network2/src/protocol/peersharing.rs",
    "pallas-network2/src/protocol/txsubmission.rs",
    "pallas-network2/src/protocol/leiosnotify.rs",
    "pallas-network2/src/protocol/leiosfetch.rs",
    # ledger: decode entry points and hand-written decoders
    "pallas-traverse/src/block.rs",
    "pallas-traverse/src/tx.rs",
    "pallas-traverse/src/header.rs",
    "pallas-traverse/src/output.rs",
    "pallas-traverse/src/probe.rs",
    "pallas-addresses/src/lib.rs",
    "pallas-addresses/src/byron.rs",
    "pallas-addresses/src/varuint.rs",
    "pallas-codec/src/utils.rs",
    "pallas-primitives/src/plutus_data.rs",
    "pallas-crypto/src/hash/hash.rs",
]

KINDS = ["unwrap", "expect", "panic!", "assert", "index", "slice", "copy_from_slice", "arith"]


def blank_noise(src):
    """comments, string / char literals and attributes replaced by spaces (line structure kept)"""
    out, i, n = [], 0, len(src)
    while i < n:
        c = src[i]
        if src.startswith("//", i):
            j = src.find("\n", i)
            j = n if j < 0 else j
            out.append(" " * (j - i))
            i = j
        elif src.startswith("/*", i):
            j = src.find("*/", i)
            j = n if j < 0 else j + 2
            out.append(re.sub(r"[^\n]", " ", src[i:j]))
            i = j
        elif c == '"' or (c == "r" and re.match(r'r#*"', src[i:])):
            if c == "r":
                m = re.match(r'r(#*)"', src[i:])
                end = '"' + m.group(1)
                j = src.find(end, i + len(m.group(0)))
                j = n if j < 0 else j + len(end)
            else:
                j = i + 1
                while j < n and src[j] != '"':
                    j += 2 if src[j] == "\\" else 1
                j += 1
            out.append('"' + re.sub(r"[^\n]", " ", src[i + 1:j - 1]) + '"' if j - i >= 2 else src[i:j])
            i = j
        elif c == "'" and re.match(r"'(\\.[^']*|[^'\\])'", src[i:]):
            m = re.match(r"'(\\.[^']*|[^'\\])'", src[i:])
            out.append("' '" + " " * (len(m.group(0)) - 3))
            i += len(m.group(0))
        elif c == "#" and re.match(r"#!?\[", src[i:]):
            depth, j = 0, src.index("[", i)
            while j < n:
                depth += src[j] == "["
                depth -= src[j] == "]"
                j += 1
                if depth == 0:
                    break
            out.append(re.sub(r"[^\n]", " ", src[i:j]))
            i = j
        else:
            out.append(c)
            i += 1
    return "".join(out)


def cut_test_modules(raw, clean):
    """blank `#[cfg(test)] mod x { .. }` (found in the raw text, blanked in the clean text)"""
    for m in re.finditer(r"#\[cfg\(test\)\]\s*(?:pub\s+)?mod\s+\w+\s*\{", raw):
        b = m.end() - 1
        depth, j = 0, b
        while j < len(clean):
            depth += clean[j] == "{"
            depth -= clean[j] == "}"
            j += 1
            if depth == 0:
                break
        clean = clean[:m.start()] + re.sub(r"[^\n]", " ", clean[m.start():j]) + clean[j:]
    return clean


ARITH = re.compile(r"(?<![=<>!&|+\-*/%^:])(\+=|-=|\*=|/=|%=|<<=|>>=|<<|>>|\+|\*|/|%|(?<=[\w)\]] )-(?= [\w(]))(?![=>])")
INDEX = re.compile(r"[\w)\]]\[([^\]\[]*)\]")


def sites_of_line(line):
    res = []
    if "$(" in line or re.search(r"\$\w+\s*:\s*\w+", line):
        return res                                              # macro_rules! pattern / repetition syntax
    if re.search(r"\.unwrap\(\)", line):
        res.append("unwrap")
    if re.search(r"\.expect\(", line):
        res.append("expect")
    if re.search(r"\b(panic|unreachable|todo|unimplemented)!", line):
        res.append("panic!")
    if re.search(r"\b(debug_)?assert(_eq|_ne)?!", line):
        res.append("assert")
    if "copy_from_slice" in line:
        res.append("copy_from_slice")
    for m in INDEX.finditer(line):
        inner = m.group(1)
        if ".." in inner:
            res.append("slice")
        elif inner.strip() and not re.fullmatch(r"\s*[A-Za-z_][\w:<>, ]*;\s*[\w:]+\s*", inner):
            res.append("index")
    # arithmetic: skip generic bounds / type positions / ranges / lifetimes / pointers-derefs
    code = re.sub(r"\b(impl|where|dyn)\b.*", "", line)          # trait bounds `A + B`
    if re.match(r"\s*[A-Z]\w*\s*:\s*[\w:<>'(), +]+,?\s*\{?\s*$", code):
        code = ""                                               # where-clause line `T: A + B,`
    prev = None
    while prev != code:                                         # generic argument lists, innermost first
        prev = code
        code = re.sub(r"<[^<>()]*>", "", code)
    code = re.sub(r"\.\.=?", " ", code)                         # ranges
    code = re.sub(r"&\s*'\w+|&mut\b|&", " ", code)
    code = re.sub(r"->|=>", " ", code)
    code = re.sub(r"(?<![\w)\]])\*(?=[\w(&])", " ", code)       # unary deref
    code = re.sub(r"(?<![\w)\]] )-(?=[\w(])", " ", code)        # unary minus
    if ARITH.search(code) and not re.match(r"\s*(use|pub use|mod|pub mod|extern)\b", code):
        res.append("arith")
    return sorted(set(res))


def scan_file(repo, rel):
    raw = open(os.path.join(repo, rel)).read()
    clean = cut_test_modules(raw, blank_noise(raw))
    raw_lines, lines = raw.split("\n"), clean.split("\n")
    sites, fn_stack, depth = [], [], 0
    for ln, line in enumerate(lines):
        m = re.search(r"\bfn\s+(\w+)", line)
        if m:
            fn_stack.append([m.group(1), depth, False])
        kinds = sites_of_line(line)
        fn = fn_stack[-1][0] if fn_stack else "-"
        text = re.sub(r"\s+", " ", re.sub(r"\s*//.*$", "", raw_lines[ln]).strip())
        for k in kinds:
            sites.append({"file": rel, "fn": fn, "kind": k, "text": text[:160], "line": ln + 1})
        depth += line.count("{") - line.count("}")
        while fn_stack:
            top = fn_stack[-1]
            if not top[2] and depth > top[1]:
                top[2] = True
            if (top[2] and depth <= top[1]) or (not top[2] and ";" in line and depth <= top[1]):
                fn_stack.pop()
            else:
                break
    return sites


def key(s):
    return (s["file"], s["fn"], s["kind"], s["text"])


def scan(repo):
    sites, problems = [], []
    for rel in FILES:
        try:
            sites += scan_file(repo, rel)
        except OSError as e:
            problems.append(f"{rel}: {e!r}")
    return sites, problems


def lean_str(s):
    return '"' + s.replace("\\", "\\\\").replace('"', '\\"') + '"'


def translate(repo, lean_root):
    root = os.path.dirname(os.path.dirname(os.path.abspath(__file__)))
    audit = json.load(open(os.path.join(root, "lib", "panic_audit_C09.json")))
    allow = {}
    for e in audit["sites"]:
        allow[(e["file"], e["fn"], e["kind"], e["text"])] = e
    sites, problems = scan(repo)
    seen, rows, unaudited = set(), [], list(problems)
    counts, occ = {}, {}
    for s in sites:
        k = key(s)
        e = allow.get(k)
        occ[k] = occ.get(k, 0) + 1
        if e and occ[k] > e.get("count", 1):
            e = None                                            # more occurrences than were audited
        verdict = e["verdict"] if e else "UNAUDITED"
        seen.add(k)
        counts[verdict] = counts.get(verdict, 0) + 1
        rows.append((s, verdict))
        if not e:
            unaudited.append(f"{s['file']}:{s['line']} fn {s['fn']} [{s['kind']}] {s['text']}")
    stale = [k for k in allow if k not in seen]
    out = ["-- GENERATED by lib/scan_panics.py from the pallas sources + lib/panic_audit_C09.json — do not edit",
           "namespace PallasVerif.Gen.PanicSitesC09",
           "/-- (file, fn, kind, verdict) of every syntactic panic site in the anchored decoder files -/",
           "def sites : List (String × String × String × String) := ["]
    out.append(",\n".join("  (%s, %s, %s, %s)" % (lean_str(s["file"]), lean_str(s["fn"]), lean_str(s["kind"]), lean_str(v)) for s, v in rows))
    out.append("]")
    out.append("/-- sites (or unreadable files) without an audit entry -/")
    out.append("def unaudited : List String := [" + ",\n  ".join(lean_str(u) for u in unaudited) + "]")
    out.append("/-- audit entries that match nothing any more (informational) -/")
    out.append("def stale : Nat := %d" % len(stale))
    out.append("def filesScanned : Nat := %d" % (len(FILES) - len(problems)))
    out.append("def filesExpected : Nat := %d" % len(FILES))
    out.append("end PallasVerif.Gen.PanicSitesC09\n")
    from lib import core
    core.write_if_changed(os.path.join(lean_root, "PallasVerif", "Gen", "PanicSitesC09.lean"), "\n".join(out))
    return {"sites": len(rows), "by_verdict": counts, "unaudited": len(unaudited), "stale": len(stale)}


if __name__ == "__main__":
    import sys
    sites, problems = scan(sys.argv[1])
    by = {}
    for s in sites:
        by.setdefault((s["file"], s["kind"]), 0)
        by[(s["file"], s["kind"])] += 1
    for k in sorted(by):
        print(by[k], k)
    print(len(sites), "sites", problems)
    if len(sys.argv) > 2:
        for s in sites:
            if sys.argv[2] in s["file"]:
                print(s["line"], s["fn"], s["kind"], "::", s["text"])
