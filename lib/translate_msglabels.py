"""Tie A of C22: (label, declared arity) of every label-dispatched message encoder of both network
stacks, extracted from the `e.array(n)?` / `.u16(k)?` calls of the hand-written `Encode` impls and
written to lean/PallasVerif/Gen/MsgLabels.lean. `Props/C22.labels_match_sources` compares the table
with the model by `decide`. Fails closed: an arm that cannot be classified, a configured encoder that
is missing, or a `Message` encoder in a file that is not configured becomes an `unknowns` entry
(and `translator_no_unknowns` no longer holds)."""
import os
import re

# file (relative to the pallas root) -> {Rust type: model table name}
CONFIG = {
    "pallas-network/src/miniprotocols/blockfetch/codec.rs": {"Message": "blockfetch"},
    "pallas-network/src/miniprotocols/chainsync/codec.rs": {"Message": "chainsync"},
    "pallas-network/src/miniprotocols/handshake/protocol.rs": {"Message": "handshake", "RefuseReason": "refusereason"},
    "pallas-network/src/miniprotocols/keepalive/codec.rs": {"Message": "keepalive"},
    "pallas-network/src/miniprotocols/peersharing/codec.rs": {"PeerAddress": "peeraddress", "Message": "peersharing"},
    "pallas-network/src/miniprotocols/txsubmission/codec.rs": {"Message": "txsubmission"},
    "pallas-network/src/miniprotocols/txmonitor/codec.rs": {"Message": "txmonitor"},
    "pallas-network/src/miniprotocols/localstate/codec.rs": {"Message": "localstate"},
    "pallas-network/src/miniprotocols/localtxsubmission/codec.rs": {"Message": "localtxsubmission"},
    "pallas-network/src/miniprotocols/localmsgnotification/codec.rs": {"Message": "localmsgnotification"},
    "pallas-network/src/miniprotocols/localmsgsubmission/codec.rs": {"DmqMsgRejectReason": "dmqrejectreason"},
    "pallas-network2/src/protocol/blockfetch.rs": {"Message": "blockfetch"},
    "pallas-network2/src/protocol/chainsync.rs": {"Message": "chainsync"},
    "pallas-network2/src/protocol/handshake/mod.rs": {"Message": "handshake", "RefuseReason": "refusereason"},
    "pallas-network2/src/protocol/keepalive.rs": {"Message": "keepalive"},
    "pallas-network2/src/protocol/peersharing.rs": {"PeerAddress": "peeraddress", "Message": "peersharing"},
    "pallas-network2/src/protocol/txsubmission.rs": {"Message": "txsubmission"},
    "pallas-network2/src/protocol/leiosnotify.rs": {"Message": "leiosnotify"},
    "pallas-network2/src/protocol/leiosfetch.rs": {"Message": "leiosfetch"},
}
SCAN_DIRS = ["pallas-network/src/miniprotocols", "pallas-network2/src/protocol"]
IMPL = re.compile(r"impl\s*(?:<[^{]*?>)?\s*(?:[\w:]+::)?Encode<[^>]*>\s*for\s+(\w+)")


def strip_comments(src):
    src = re.sub(r"/\*.*?\*/", " ", src, flags=re.S)
    return re.sub(r"//[^\n]*", "", src)


def block(src, i):
    """src[i] == '{' -> index just past the matching '}'"""
    depth = 0
    for j in range(i, len(src)):
        if src[j] == "{":
            depth += 1
        elif src[j] == "}":
            depth -= 1
            if depth == 0:
                return j + 1
    raise ValueError("unbalanced braces")


def arms(body):
    """top-level `pat => { .. }` / `pat => expr,` arms of a match body (text between its braces)"""
    res, i, n = [], 0, len(body)
    while i < n:
        m = re.compile(r"=>").search(body, i)
        if not m:
            break
        pat = body[i:m.start()].strip()
        j = m.end()
        while j < n and body[j].isspace():
            j += 1
        if j < n and body[j] == "{":
            k = block(body, j)
            res.append((pat, body[j:k]))
            i = k
            while i < n and body[i] in ", \n\t":
                i += 1
        else:
            depth, k = 0, j
            while k < n and not (body[k] == "," and depth == 0):
                depth += body[k] in "([{"
                depth -= body[k] in ")]}"
                k += 1
            res.append((pat, body[j:k]))
            i = k + 1
    return res


def encoders(src):
    """{type: [(pattern, arm text)]} for every `impl Encode for T` whose fn body has `match self {`"""
    out = {}
    for m in IMPL.finditer(src):
        b = src.index("{", m.end())
        e = block(src, b)
        body = src[b:e]
        mm = re.search(r"match\s+self\s*\{", body)
        if not mm:
            continue
        mb = body.index("{", mm.start())
        out[m.group(1)] = arms(body[mb + 1:block(body, mb) - 1])
    return out


def classify(arm):
    a = re.search(r"\be\s*\.\s*array\(\s*([^)]*?)\s*\)", arm)
    if not a:
        return None
    if not re.fullmatch(r"\d+", a.group(1)):
        return ("unknown", "non-literal outer array length `%s`" % a.group(1))
    lab = re.compile(r"\.\s*u(?:8|16)\(\s*(\d+)\s*\)").search(arm, a.end())
    if not lab:
        return ("unknown", "no literal label after e.array")
    # nothing but `?`, `;`, whitespace and `e` may stand between array(..) and the label call
    between = arm[a.end():lab.start()]
    if re.sub(r"[?;\se]", "", between):
        return ("unknown", "label is not the first item after e.array: `%s`" % between.strip()[:40])
    return (int(lab.group(1)), int(a.group(1)))


def extract(repo):
    rows, unknowns = [], []
    for rel, types in CONFIG.items():
        path = os.path.join(repo, rel)
        try:
            encs = encoders(strip_comments(open(path).read()))
        except (OSError, ValueError) as e:
            unknowns.append(f"{rel}: {e!r}")
            continue
        for ty, name in types.items():
            if ty not in encs:
                unknowns.append(f"{rel}: no `impl Encode for {ty}` with `match self`")
                continue
            table = []
            for pat, arm in encs[ty]:
                c = classify(arm)
                if c is None:
                    unknowns.append(f"{rel}: {ty} arm `{pat[:40]}` has no e.array")
                elif c[0] == "unknown":
                    unknowns.append(f"{rel}: {ty} arm `{pat[:40]}`: {c[1]}")
                else:
                    table.append(c)
            rows.append((rel, name, table))
    # a message encoder in a file that is not configured
    for d in SCAN_DIRS:
        for dirpath, _, files in os.walk(os.path.join(repo, d)):
            for f in sorted(files):
                rel = os.path.relpath(os.path.join(dirpath, f), repo)
                if not f.endswith(".rs") or rel in CONFIG:
                    continue
                src = strip_comments(open(os.path.join(dirpath, f)).read())
                for m in IMPL.finditer(src):
                    if m.group(1) == "Message":
                        unknowns.append(f"{rel}: unconfigured message encoder")
    return rows, unknowns


def lean_str(s):
    return '"' + s.replace("\\", "\\\\").replace('"', '\\"') + '"'


def translate(repo, lean_root):
    rows, unknowns = extract(repo)
    out = ["-- GENERATED by lib/translate_msglabels.py from the pallas sources — do not edit",
           "namespace PallasVerif.Gen.MsgLabels",
           "/-- (source file, model table, (label, declared arity) of each encoder arm in source order) -/",
           "def extracted : List (String × String × List (Nat × Nat)) := ["]
    out.append(",\n".join("  (%s, %s, [%s])" % (lean_str(rel), lean_str(name), ", ".join("(%d, %d)" % t for t in table))
                          for rel, name, table in rows))
    out.append("]")
    out.append("def unknowns : List String := [" + ", ".join(lean_str(u) for u in unknowns) + "]")
    out.append("def expectedEncoders : Nat := %d" % sum(len(t) for t in CONFIG.values()))
    out.append("end PallasVerif.Gen.MsgLabels\n")
    from lib import core
    core.write_if_changed(os.path.join(lean_root, "PallasVerif", "Gen", "MsgLabels.lean"), "\n".join(out))


if __name__ == "__main__":
    import sys
    r, u = extract(sys.argv[1])
    for row in r:
        print(row)
    print("unknowns", u)
