"""Inventory of trap-capable constructs in pallas-codec/src/flat/decode/decoder.rs (advisory tie for C02).

Every line of a non-bigint `fn` that indexes / slices the buffer, shifts, or does machine-integer
arithmetic is keyed by (fn name, whitespace-normalised text). `AUDITED` maps each key known at the
time the model was written to the place of Model/Flat.lean that models it (explicit `panic` outcome,
or `arith_sites_in_range`). A key that is not in `AUDITED` does not fail the check by itself (a
harmless rewrite of such a line must stay quiet); it is reported in the evidence and makes the check
run the malformed-input stream on additional seeds, so a new trap site has to survive a wider hunt.
"""
import os
import re

TRAP = re.compile(r"buffer\[|<<|>>|\+=|-=| \+ | - | \* | / | % |unwrap\(|expect\(|panic!|unreachable!|assert")


def scan(repo):
    path = os.path.join(repo, "pallas-codec/src/flat/decode/decoder.rs")
    src = open(path).read()
    sites = []
    fn, skip_next, depth, fn_depth, skipping = None, False, 0, None, False
    for raw in src.split("\n"):
        line = raw.split("//")[0].rstrip()
        s = line.strip()
        if s.startswith("#[cfg(feature = \"num-bigint\")]"):
            skip_next = True
            continue
        m = re.match(r"\s*(?:pub(?:\([^)]*\))?\s+)?fn\s+(\w+)", line)
        if m and fn is None:
            fn, fn_depth, skipping = m.group(1), depth, skip_next
            skip_next = False
        if s.startswith("use "):
            skip_next = False
        if fn is not None and not skipping and s and not m and TRAP.search(s) and "FnOnce" not in s:
            sites.append((fn, re.sub(r"\s+", " ", s)))
        depth += line.count("{") - line.count("}")
        if fn is not None and depth <= fn_depth and "}" in line:
            fn = None
    return sorted(set(sites))


AUDITED = {
    ("bit", "let b = self.buffer[self.pos] & (128 >> self.used_bits) > 0;"): "Dec.bit: index + `128 >> used_bits` panic arms",
    ("bits8", "let leading_zeroes = 8 - num_bits;"): "Dec.bits8: guarded by `num_bits > 8` (IncorrectNumBits)",
    ("bits8", "let r = (self.buffer[self.pos] << self.used_bits as usize) >> leading_zeroes;"): "Dec.bits8: index + two shift panic arms",
    ("bits8", "let unused_bits = 8 - self.used_bits as usize;"): "Dec.bits8: `used > 8` panic arm",
    ("bits8", "r | (self.buffer[self.pos + 1] >> (unused_bits + leading_zeroes))"): "Dec.bits8: second index + shift panic arms",
    ("byte_array", "blk_len = self.buffer[self.pos];"): "Dec.blkLoop: `d1.buf[d1.pos]?` panic arm",
    ("byte_array", "let decoded_array = &self.buffer[self.pos..self.pos + blk_len as usize];"): "Dec.blkLoop: slice-past-end panic arm",
    ("byte_array", "let mut blk_len = self.buffer[self.pos];"): "Dec.byteArray: index panic arm",
    ("byte_array", "self.ensure_bytes(blk_len as usize + 1)?;"): "arith_sites_in_range (blk_len + 1)",
    ("byte_array", "self.pos += 1"): "arith_sites_in_range (pos += 1)",
    ("byte_array", "self.pos += 1;"): "arith_sites_in_range (pos += 1)",
    ("byte_array", "self.pos += blk_len as usize;"): "arith_sites_in_range (pos += blk_len)",
    ("drop_bits", "let all_used_bits = num_bits as i64 + self.used_bits;"): "arith_sites_in_range (drop_bits)",
    ("drop_bits", "self.pos += all_used_bits as usize / 8;"): "arith_sites_in_range (drop_bits)",
    ("drop_bits", "self.used_bits = all_used_bits % 8;"): "Dec.dropBits",
    ("ensure_bits", "> (self.buffer.len() as isize - self.pos as isize) * 8 - self.used_bits as isize"): "arith_sites_in_range (ensure_bits)",
    ("ensure_bytes", "if required_bytes as isize > self.buffer.len() as isize - self.pos as isize {"): "arith_sites_in_range (ensure_bytes)",
    ("increment_buffer_by_bit", "self.pos += 1;"): "arith_sites_in_range (increment_buffer_by_bit)",
    ("increment_buffer_by_bit", "self.used_bits += 1;"): "arith_sites_in_range (increment_buffer_by_bit)",
    ("string", "s += &self.char()?.to_string();"): "String append (no trap)",
    ("word", ".filter(|x| (x >> shl) == word7 as usize)"): "Dec.wordLoop: `shl ≥ 64` panic arm",
    ("word", "shl += 7;"): "Dec.wordLoop: `shl + 7 ≥ 2^64` panic arm",
}


def extra(run):
    """SPEC['extra'] hook of C02."""
    from lib import core
    try:
        sites = scan(core.REPO)
    except Exception as e:  # unreadable source: say so, hunt wider
        sites, err = [], repr(e)
        run.notes.append("flat_sites: " + err)
    unaud = [f"{fn}: {txt}" for fn, txt in sites if (fn, txt) not in AUDITED]
    gone = [f"{fn}: {txt}" for fn, txt in AUDITED if (fn, txt) not in sites]
    run.extra_cov["trap_sites_scanned"] = len(sites)
    run.extra_cov["trap_sites_unaudited"] = unaud
    run.extra_cov["trap_sites_no_longer_present"] = gone
    if unaud or not sites:
        core.log("C02: decoder.rs has trap-capable lines the model was not audited against:", unaud[:6], "- hunting on more seeds")
        for k in (1, 2, 3):
            for s in run.spec.get("streams", []):
                run.do_stream(s, scale=2, seed_offset=5000 * k)
