"""Tie A translator: constants of the pallas sources -> lean/PallasVerif/Gen/Consts.lean.

Regenerated on every run from the working tree under verification (core.REPO):

  * pallas-traverse/src/wellknown.rs  `GenesisValues::{mainnet,testnet,preview,preprod}` struct literals
    (numeric fields; `magic`/`network_id` resolved through the `pub const` table of the same file),
    plus the `from_magic` dispatch table.
  * multiplexer constants of both network stacks (HEADER_LEN, MAX_SEGMENT_PAYLOAD_LENGTH, queue sizes, the
    `^ 0x8000` direction masks of Plexer::subscribe_client/_server, PROTOCOL_SERVER).

Fails closed: a constructor, field or value that is not understood becomes an entry of `unknowns`
(a list of strings) and the generated file carries `theorem unknowns_nil : unknowns = [] := by decide`,
so the Lean build (an obligation of every consuming property) breaks instead of silently skipping it.
A missing network or a missing required field is reported the same way.
"""
import os
import re

NETWORKS = ["mainnet", "testnet", "preview", "preprod"]
NUM_FIELDS = [
    ("byron_epoch_length", "byronEpochLength", 32),
    ("byron_slot_length", "byronSlotLength", 32),
    ("byron_known_slot", "byronKnownSlot", 64),
    ("byron_known_time", "byronKnownTime", 64),
    ("shelley_epoch_length", "shelleyEpochLength", 32),
    ("shelley_slot_length", "shelleySlotLength", 32),
    ("shelley_known_slot", "shelleyKnownSlot", 64),
    ("shelley_known_time", "shelleyKnownTime", 64),
]
OTHER_NUM = ["magic", "network_id"]
STR_FIELDS = ["byron_known_hash", "shelley_known_hash"]


def strip_rust_comments(src):
    src = re.sub(r"/\*.*?\*/", " ", src, flags=re.S)
    return re.sub(r"//[^\n]*", "", src)


def match_brace(src, i):
    """index just past the brace block opening at src[i] == '{' (string literals respected)"""
    assert src[i] == "{"
    depth, j, n = 0, i, len(src)
    while j < n:
        c = src[j]
        if c == '"':
            j += 1
            while j < n and src[j] != '"':
                j += 2 if src[j] == "\\" else 1
        elif c == "{":
            depth += 1
        elif c == "}":
            depth -= 1
            if depth == 0:
                return j + 1
        j += 1
    raise ValueError("unbalanced braces")


def parse_int(tok, consts):
    tok = tok.strip()
    m = re.fullmatch(r"([0-9][0-9_]*)(?:u8|u16|u32|u64|usize)?", tok)
    if m:
        return int(m.group(1).replace("_", ""))
    m = re.fullmatch(r"0x([0-9a-fA-F_]+)(?:u8|u16|u32|u64|usize)?", tok)
    if m:
        return int(m.group(1).replace("_", ""), 16)
    if re.fullmatch(r"[A-Z][A-Z0-9_]*", tok) and tok in consts:
        return consts[tok]
    return None


def lean_str(s):
    return '"' + s.replace("\\", "\\\\").replace('"', '\\"') + '"'


def parse_wellknown(path):
    unknowns = []
    src = strip_rust_comments(open(path).read())
    consts = {}
    for m in re.finditer(r"pub\s+const\s+([A-Z0-9_]+)\s*:\s*u64\s*=\s*([^;]+);", src):
        v = parse_int(m.group(2), {})
        if v is None:
            unknowns.append(f"const {m.group(1)} = {m.group(2).strip()}")
        else:
            consts[m.group(1)] = v
    nets = {}
    # every `pub fn <name>() -> Self {` of the impl block: a constructor of GenesisValues
    for m in re.finditer(r"pub\s+fn\s+(\w+)\s*\(\s*\)\s*->\s*Self\s*\{", src):
        name = m.group(1)
        body = src[m.end() - 1: match_brace(src, m.end() - 1)]
        lit = re.fullmatch(r"\{\s*GenesisValues\s*(\{.*\})\s*\}", body, flags=re.S)
        if not lit:
            unknowns.append(f"constructor {name}: body is not a single GenesisValues literal")
            continue
        inner = lit.group(1).strip()[1:-1]
        fields = {}
        # split on top-level commas (values are ints, idents or "str".to_string(), possibly over 2 lines)
        for part in re.split(r",(?=(?:[^\"]*\"[^\"]*\")*[^\"]*$)", inner):
            part = part.strip()
            if not part:
                continue
            fm = re.fullmatch(r"(\w+)\s*:\s*(.+)", part, flags=re.S)
            if not fm:
                unknowns.append(f"constructor {name}: field `{' '.join(part.split())}`")
                continue
            fields[fm.group(1)] = " ".join(fm.group(2).split())
        rec = {}
        for f, _, bits in NUM_FIELDS:
            if f not in fields:
                unknowns.append(f"constructor {name}: missing field {f}")
                continue
            v = parse_int(fields[f], consts)
            if v is None or v >= 2 ** bits:
                unknowns.append(f"constructor {name}: {f} = {fields[f]}")
                continue
            rec[f] = v
        for f in OTHER_NUM:
            v = parse_int(fields.get(f, "?"), consts)
            if v is None:
                unknowns.append(f"constructor {name}: {f} = {fields.get(f)}")
            else:
                rec[f] = v
        for f in STR_FIELDS:
            sm = re.fullmatch(r"\"([0-9a-f]*)\"\s*\.to_string\(\)", fields.get(f, "?"))
            if not sm:
                unknowns.append(f"constructor {name}: {f} = {fields.get(f)}")
            else:
                rec[f] = sm.group(1)
        for f in fields:
            if f not in [x[0] for x in NUM_FIELDS] + OTHER_NUM + STR_FIELDS:
                unknowns.append(f"constructor {name}: unexpected field {f}")
        nets[name] = rec
    for n in NETWORKS:
        if n not in nets:
            unknowns.append(f"network constructor {n} not found")
    for n in nets:
        if n not in NETWORKS:
            unknowns.append(f"unexpected GenesisValues constructor {n}")
    # from_magic dispatch: MAGIC => Some(Self::name())
    magic = []
    fm = re.search(r"pub\s+fn\s+from_magic\s*\([^)]*\)\s*->\s*Option<GenesisValues>\s*\{", src)
    if not fm:
        unknowns.append("from_magic not found")
    else:
        body = src[fm.end() - 1: match_brace(src, fm.end() - 1)]
        mm = re.search(r"match\s+magic\s*\{", body)
        if not mm:
            unknowns.append("from_magic: no `match magic`")
        else:
            arms = body[mm.end() - 1: match_brace(body, mm.end() - 1)][1:-1]
            for arm in arms.split(","):
                arm = " ".join(arm.split())
                if not arm:
                    continue
                am = re.fullmatch(r"(\w+) => Some\(Self::(\w+)\(\)\)", arm)
                if am and parse_int(am.group(1), consts) is not None:
                    magic.append((parse_int(am.group(1), consts), am.group(2)))
                elif arm == "_ => None":
                    pass
                else:
                    unknowns.append(f"from_magic arm `{arm}`")
    return nets, magic, unknowns


MUX_CONSTS = [
    # (lean name, file, regex with one group = the literal)
    ("mux1HeaderLen", "pallas-network/src/multiplexer.rs", r"const\s+HEADER_LEN\s*:\s*usize\s*=\s*([0-9a-fx_]+)\s*;"),
    ("mux1MaxSegmentPayloadLength", "pallas-network/src/multiplexer.rs", r"pub\s+const\s+MAX_SEGMENT_PAYLOAD_LENGTH\s*:\s*usize\s*=\s*([0-9a-fx_]+)\s*;"),
    ("mux1EgressQueueBuffer", "pallas-network/src/multiplexer.rs", r"const\s+EGRESS_MSG_QUEUE_BUFFER\s*:\s*usize\s*=\s*([0-9a-fx_]+)\s*;"),
    ("mux1IngressQueueBuffer", "pallas-network/src/multiplexer.rs", r"const\s+INGRESS_MSG_QUEUE_BUFFER\s*:\s*usize\s*=\s*([0-9a-fx_]+)\s*;"),
    ("mux1ClientRecvMask", "pallas-network/src/multiplexer.rs", r"fn\s+subscribe_client\b[^}]*?self\.demuxer\.subscribe\(\s*protocol\s*\^\s*([0-9a-fx_]+)\s*\)"),
    ("mux1ServerSendMask", "pallas-network/src/multiplexer.rs", r"fn\s+subscribe_server\b[^}]*?AgentChannel::for_server\(\s*protocol\s*\^\s*([0-9a-fx_]+)\s*,"),
    ("mux2HeaderLen", "pallas-network2/src/bearer.rs", r"const\s+HEADER_LEN\s*:\s*usize\s*=\s*([0-9a-fx_]+)\s*;"),
    ("mux2MaxSegmentPayloadLength", "pallas-network2/src/lib.rs", r"pub\s+const\s+MAX_SEGMENT_PAYLOAD_LENGTH\s*:\s*usize\s*=\s*([0-9a-fx_]+)\s*;"),
    ("mux2ProtocolServer", "pallas-network2/src/protocol/common.rs", r"pub\s+const\s+PROTOCOL_SERVER\s*:\s*u16\s*=\s*([0-9a-fx_]+)\s*;"),
]
# subscribe_* must keep their plain halves: client sends `protocol`, server listens on `protocol`
MUX_SHAPES = [
    ("subscribe_client sends under `protocol`", "pallas-network/src/multiplexer.rs", r"fn\s+subscribe_client\b[^}]*?AgentChannel::for_client\(\s*protocol\s*,"),
    ("subscribe_server listens on `protocol`", "pallas-network/src/multiplexer.rs", r"fn\s+subscribe_server\b[^}]*?self\.demuxer\.subscribe\(\s*protocol\s*\)"),
]


def parse_mux(repo):
    vals, unknowns, cache = {}, [], {}
    def src(f):
        if f not in cache:
            try:
                cache[f] = strip_rust_comments(open(os.path.join(repo, f)).read())
            except OSError:
                cache[f] = None
        return cache[f]
    for name, f, rx in MUX_CONSTS:
        t = src(f)
        ms = re.findall(rx, t, flags=re.S) if t is not None else []
        v = parse_int(ms[0], {}) if len(ms) == 1 else None
        if v is None:
            unknowns.append(f"{name}: expected exactly one parsable match in {f}")
            v = 0
        vals[name] = v
    for what, f, rx in MUX_SHAPES:
        t = src(f)
        if t is None or len(re.findall(rx, t, flags=re.S)) != 1:
            unknowns.append(f"{what}: shape not found in {f}")
    return vals, unknowns


def translate(repo, lean_root):
    path = os.path.join(repo, "pallas-traverse", "src", "wellknown.rs")
    nets, magic, unknowns = parse_wellknown(path)
    mux, mux_unknowns = parse_mux(repo)
    unknowns = unknowns + mux_unknowns
    out = []
    out.append("-- GENERATED by lib/translate_consts.py from pallas-traverse/src/wellknown.rs — do not edit")
    out.append("import PallasVerif.Model.Time")
    out.append("namespace PallasVerif.Gen.Consts")
    out.append("open PallasVerif.Time")
    out.append("")
    zero = {f: 0 for f, _, _ in NUM_FIELDS}
    for n in NETWORKS:
        rec = dict(zero)
        rec.update({k: v for k, v in nets.get(n, {}).items() if k in zero})
        out.append(f"/-- `GenesisValues::{n}()` -/")
        out.append(f"def {n} : Genesis :=")
        body = ",\n    ".join(f"{lf} := {rec[f]}" for f, lf, _ in NUM_FIELDS)
        out.append("  { " + body + " }")
        out.append(f"def {n}Magic : Nat := {nets.get(n, {}).get('magic', 0)}")
        out.append(f"def {n}NetworkId : Nat := {nets.get(n, {}).get('network_id', 0)}")
        out.append("")
    out.append("/-- name -> record, for the line-protocol driver -/")
    out.append("def byName : String → Option Genesis")
    for n in NETWORKS:
        out.append(f"  | \"{n}\" => some {n}")
    out.append("  | _ => none")
    out.append("")
    out.append("/-- `GenesisValues::from_magic` dispatch table (magic, constructor name) -/")
    out.append("def fromMagicTable : List (Nat × String) := ["
               + ", ".join(f"({m}, {lean_str(n)})" for m, n in magic) + "]")
    out.append("")
    out.append("/-! multiplexer constants (pallas-network/src/multiplexer.rs, pallas-network2/src/{bearer,lib,protocol/common}.rs) -/")
    for name, _, _ in MUX_CONSTS:
        out.append(f"def {name} : Nat := {mux[name]}")
    out.append("")
    out.append("/-- constructs the translator could not classify (must be empty) -/")
    out.append("def unknowns : List String := [" + ", ".join(lean_str(u) for u in unknowns) + "]")
    out.append("theorem unknowns_nil : unknowns = [] := by decide")
    out.append("")
    out.append("end PallasVerif.Gen.Consts")
    txt = "\n".join(out) + "\n"
    dst = os.path.join(lean_root, "PallasVerif", "Gen", "Consts.lean")
    os.makedirs(os.path.dirname(dst), exist_ok=True)
    try:
        if open(dst).read() == txt:
            return
    except OSError:
        pass
    with open(dst, "w") as f:
        f.write(txt)


translate.__name__ = "translate_consts"

if __name__ == "__main__":
    import sys
    translate(sys.argv[1], sys.argv[2])
