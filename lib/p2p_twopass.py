"""Two-pass correspondence for the P2P behaviour streams (C27/C28/C29).

`InitiatorBehavior::housekeeping` iterates a `HashMap` (and `drain_new_peers` a `HashSet`) whose order
depends on a per-process random hasher, so the order is an *input* of the model (`Ev.housekeeping ord
taken`, universally quantified in the theorems) that only the running implementation can supply. The
harness prints the order it is about to use / the subset it drained as `@ ord.. ; taken.. @` at the
front of its reply; this module copies that annotation into the op before the Lean driver runs, and
the model echoes it. Everything else (diff, shrink, replay, search) is core.py unchanged: the wrapper
replaces `core.run_pair` for the registered stream names only.
"""
import re
import subprocess

from lib import core

STREAMS = set()
_orig_run_pair = core.run_pair
_ANN = re.compile(r"@([^@]*)@")


def annotate(ops_text, impl_text):
    replies = {}
    for cid, lines in core.parse_blocks(impl_text):
        replies[cid] = [l for l in lines if not l.startswith("!")]
    out, cid, k = [], None, 0
    for line in ops_text.split("\n"):
        s = line.strip()
        if s.startswith("case "):
            cid, k = s.split()[1], 0
            out.append(line)
        elif not s or s.startswith("#") or s == "end":
            out.append(line)
        else:
            rep = replies.get(cid, [])
            r = rep[k] if k < len(rep) else ""
            k += 1
            m = _ANN.search(r)
            base = re.sub(r"\s*@.*$", "", line.rstrip())
            out.append(base + (" @" + m.group(1) + "@" if m else ""))
    return "\n".join(out)


def run_pair(stream, ops_text, timeout=1800):
    if stream not in STREAMS:
        return _orig_run_pair(stream, ops_text, timeout)
    problems = []
    try:
        rc, impl, err = core.sh([core.PVH, "run", stream], inp=ops_text, timeout=timeout)
        if rc != 0:
            problems.append(f"harness exited {rc} on stream {stream}: {err[-500:]}")
    except subprocess.TimeoutExpired:
        impl, problems = "", problems + [f"harness timed out on stream {stream}"]
    try:
        rc, model, err = core.sh([core.DRIVER, stream], inp=annotate(ops_text, impl), timeout=timeout)
        if rc != 0:
            problems.append(f"lean driver exited {rc} on stream {stream}: {err[-500:]}")
    except subprocess.TimeoutExpired:
        model, problems = "", problems + [f"lean driver timed out on stream {stream}"]
    return impl, model, problems


def enable(*names):
    STREAMS.update(names)
    core.run_pair = run_pair
