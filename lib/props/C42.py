SPEC = {
    "id": "C42",
    "level": "proof",
    "lean_modules": ["PallasVerif.Props.C42"],
    "required_theorems": ["read_all", "stack_length", "no_chunk_db_is_empty", "single_chunk_db_is_empty", "two_chunk_db_serves_the_older", "tip_is_last", "binary_search_picks_containing_chunk", "binary_search_total",
                          "read_from_point_eq", "from_existing_point", "from_fuzzy_slot", "absent_exact_fails", "right_hash_wrong_slot_fails", "right_slot_wrong_hash_fails",
                          "fuzzy_before_first_fails", "fuzzy_full_fails_at_witness", "read_from_point_total", "getTip_ne_panic", "from_origin"],
    "streams": [{"name": "immdb", "quick": 150, "thorough": 4000, "timeout": 3000}],
    "rule": "databases: verbatim copies of the test_data chunk files (quick: all three, two single-file subsets and the empty directory; "
            "thorough: every contiguous subset incl. the three single-file ones and the empty one — with 0 or 1 file nothing is immutable) and re-chunked layouts of 2..36 real blocks (runs or strided samples of the 1777+ blocks of test_data) cut "
            "into 0, 1 (one case in eight each) or 2..6 non-empty chunks with empty relative slots in the primary index; the newest chunk is always present and "
            "skipped. Per database: read_blocks, get_tip and 8..150 read_blocks_from_point queries (existing blocks as exact "
            "points, block slots / slots between blocks / before the first / beyond the tip as fuzzy points, wrong hash at a "
            "block slot, right hash at a wrong slot, blocks of the skipped chunk, and `near misses` of a block: its hash at slot-1 / slot+1 / "
            "slot+-1000 / a gap slot / a neighbour's slot, its slot with either neighbour's hash, gap slots with either neighbour's hash; "
            "for the verbatim test_data copies these are generated around the first and last block of every chunk and a sample); every 12th case (thorough: every case) queries "
            "every block exactly and every block slot and its neighbours fuzzily. One case in six drives the two private helpers "
            "through verif_hooks on arbitrary (also unsorted, repeated, empty) inputs. distinct = sha1 of op text; non-trivial = "
            "the case hit an exact point beyond the first chunk of a >= 2-chunk database, a fuzzy slot between blocks and an "
            "absent exact point",
    "trusted_base": [
        "Model/ImmutableDb.lean is a hand transcription of chunk_binary_search (loop with explicit fuel, index and subtraction "
        "panic sites), iterate_till_point, build_stack_of_chunk_names (sort/pop/reverse as dropLast.reverse), ChunkReaders, "
        "read_blocks, read_blocks_from_point (Point::Specific arm), get_tip; tie = stream `immdb` (digest count/fold/first/last "
        "of every block sequence read, error classes, the two helpers via guarded hooks)",
        "outside the model: directory listing, file I/O, the chunk/primary/secondary readers (modelled separately for C43), "
        "MultiEraBlock::decode (a block is its (slot, hash)); the Point::Origin arm is modelled with the genesis test as a predicate "
        "(theorem from_origin); no block of test_data is a genesis block, so the stream only exercises its OriginMissing and empty arms",
    ],
    "assumptions": [
        "Intact: immutable chunks non-empty, slots strictly increasing along the chain (the pinned suite asserts the same of the "
        "test database); chunk file names sort in chain order",
    ],
    "explanation": "Deviation #27 of DESIGN §6 (exact point beyond the tip accepted with an empty iterator) was reproduced by this check "
                   "(absent-exact-point-accepted where=beyond-tip) and repaired (`fix: hardano reports an exact point past the tip as "
                   "not found`). A second deviation was found: a fuzzy point before the first block is refused with CannotFindBlock "
                   "(binary search finds no chunk) although the property and the function's doc promise the suffix from the first block "
                   "at or after the slot; the pinned test read_blocks_from_point_test demands CannotFindBlock for Point::Specific(0, "
                   "vec![]) on the test database, so it cannot be repaired without editing a test: known finding, full clause FuzzyFull "
                   "refuted at a witness, from_fuzzy_slot is the proved part. Self-tests run: (1) chunk_binary_search `Less => left = mid + 1` -> exit 1, VIOLATION binary-search-wrong-chunk / existing-exact-point-refused / fuzzy-point-refused where=between-blocks with replays; (2) (4) seeded change C42-b (newest chunk kept when it is the only file) -> exit 1, VIOLATION read-all-differs / tip-differs / origin-wrong-error / absent-exact-point-accepted where=empty-db / fuzzy-point-wrong-suffix where=empty-db with 2-line replays on the single-file copy of 02019; (3) seeded change C42-a (acceptance check of iterate_till_point reduced to `hash.is_empty() || hash ==`) -> exit 1, VIOLATION absent-exact-point-accepted where=between-blocks with a two-line replay (block hash at an empty slot below it); pop+reverse rewritten as truncate + into_iter().rev().collect() -> quiet (only the KNOWN-FINDING line).",
}
