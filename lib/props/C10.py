SPEC = {
    "id": "C10",
    "level": "proof",
    "lean_modules": ["PallasVerif.Props.C10"],
    "required_theorems": ["stream_eq_oneshot", "stream_eq_oneshot_array", "blake2b_eq_rfc_indexed", "hash_tagged_eq", "hash_cbor_eq", "hash_tagged_cbor_eq", "hash_hex_roundtrip", "hash_json_roundtrip",
                          "hash_from_str_length", "hash_cbor_roundtrip", "hash_decode_rejects", "hash_decode_length",
                          "epoch_nonce_def", "rolling_nonce_def", "rolling_nonce_panics_iff"],
    "streams": [{"name": "hash", "quick": 300, "thorough": 6000}],
    "rule": "EXHAUSTIVE in every run: all 256 tag bytes; every byte-string length 0..66 through Hash<28>/Hash<32> CBOR decode (both head "
            "forms) and From<&[u8]>; every hex-string length 0..2N+3 through FromStr; every first byte 0x00..0xff of the CBOR input with 0 / 2 / 40 "
            "following bytes; every VRF length 0..70 and 128 for the rolling nonce. SAMPLED: a case = one batch of ops (chunked hash of 0..4096 bytes [thorough 16384] split at random points incl. block boundaries and "
            "empty chunks, one-shot hash, tagged hash [tag = case number mod 256, so every tag byte], hash_cbor / hash_tagged_cbor of a random "
            "minicbor token sequence incl. real Hash<N> values, hex print/parse with wrong lengths 0..65 / odd / bad characters / non-ASCII, serde to/from JSON (strings, unterminated strings, numbers, null), "
            "CBOR encode/decode with all head widths, wrong lengths 0..64, indefinite, wrong types, truncations, From<&[u8]>, epoch nonce "
            "with/without extra entropy, rolling nonce with 32/64/other VRF lengths); distinct = sha1 of the op text; non-trivial = the batch "
            "hashes more than 128 bytes in at least two non-empty chunks (so the kept-back block logic of update_mut runs)",
    "trusted_base": [
        "Model/Blake2b.lean (RFC 7693 F/G/IV/SIGMA + cryptoxide ContextDyn update_mut/internal_final), Model/Blake2bArray.lean (the same context "
        "at the level of its fixed 128-byte array + cursor, which is what the stream runs; proved to refine the former) and "
        "Model/Hash.lean (Hasher entry points as input() sequences, hex 0.4.3 decode_to_slice, minicbor 0.26.5 Decoder::bytes, nonces) are hand "
        "transcriptions; tie = stream `hash` (digest / codec result / error class / panic compared on every op)",
        "the compression function's agreement with cryptoxide's compress_b (reference / AVX / AVX2 back ends) is established only by that "
        "correspondence plus the RFC 7693 / pallas doc vectors in op `selftest`, not by proof",
        "harness oracle: an independent RFC 7693 implementation in Rust (harness/src/fixtures/blake2b_ref.rs)",
    ],
    "assumptions": [
        "total input below 2^64 bytes (cryptoxide's increment_counter would hit an overflow check in the dev profile; the model's counter is a Nat)",
        "feature `relaxed` of pallas-crypto off (the harness builds it that way)",
        "serde impls of Hash<N> are driven through serde_json on JSON texts whose string body needs no unescaping; serde error details are one class",
    ],
    "explanation": "self-tests run on a scratch edit of the pallas worktree (reverted afterwards): hash_tagged with the tag appended after "
                   "the bytes -> exit 1, VIOLATION tagged-digest with a one-op replay; Hash::decode accepting any byte string of at least N "
                   "bytes (copy of the relaxed branch) -> exit 1, VIOLATION cbor-wrong-length-accepted; harmless: hash_tagged with one "
                   "concatenated input() call -> exit 0, quiet.",
}
