from lib.translate_consts import translate as translate_consts

SPEC = {
    "id": "C20",
    "level": "proof",
    "lean_modules": ["PallasVerif.Props.C20"],
    "required_theorems": ["header_roundtrip", "read_write_segment", "frames_parse", "inv_run", "chan_in_order_exactly_once",
                          "chan_quiescent_complete", "chan_delivered_subscribed", "peer_key", "no_cross",
                          "in_order_exactly_once", "quiescent_complete", "no_leak", "len_overflow_breaks_framing", "consts_match",
                          "send_msg_chunks_spec"],
    "translators": [translate_consts],
    "streams": [{"name": "mux", "quick": 450, "thorough": 9000, "timeout": 3000}],
    "rule": "two kinds of cases. pure (2 of 3): 3..10 ops among hdr (header bytes both ways, both stacks), hdrdec (arbitrary 0..12 byte "
            "slices), wseg/wseg2 (Muxer::mux / network2 write_segment observed as raw bytes on a UnixStream pair; payload 0, 1, 7..9, "
            "255..257, 65534, 65535, random; a few 65536/65537/70000 beyond the maximum), rseg/rseg2 (Demuxer::read_segment / network2 "
            "read_segment fed 1..6 independently framed segments, optionally followed by an incomplete one). concurrent (1 of 3): one "
            "`run` op = two real Plexers over a UnixStream pair on a 4-thread runtime, 2..6 agents (both sides, both roles, protocol ids "
            "0,2,3,5,8,0x7fff, peers mostly present, some without subscribed peer), 0..30 (thorough: ..200) chunks each of 0..65535 "
            "bytes, random yield_now between operations. distinct = sha1 of op text; non-trivial = a run in which at least two wire "
            "protocols share one direction and >= 10 chunks are sent, or a pure case with both a write and a read of segments",
    "trusted_base": [
        "Model/Mux.lean is a hand transcription of Header/From impls, write_segment, read_segment and of the Plexer as an LTS (atomic "
        "ticks, unbounded FIFO queues, history variables); tie = stream `mux`: header bytes, raw bearer bytes, parsed segments, and for "
        "`run` the per-agent received sequence (count + order-sensitive digest) of the real concurrent system vs the model's",
        "lib/translate_consts.py regenerates the framing constants and the 0x8000 direction masks from multiplexer.rs / bearer.rs "
        "(consts_match by decide; fails closed)",
    ],
    "assumptions": [
        "tokio task scheduling, mpsc FIFO order and fairness, read_exact over a real socket, back-pressure (bounded queues) and I/O "
        "errors are runtime behaviour the model does not exhibit: ticks are atomic, queues unbounded FIFO, every schedule is an "
        "arbitrary interleaving of enqueue / muxTick / demuxTick / dequeue (the concurrent `run` ops sample the real behaviour)",
        "protocol ids are < 0x8000 (the direction bit is free) and chunks are at most 65535 bytes (len_overflow_breaks_framing shows "
        "why); subscriptions happen before the plexer is spawned (Plexer::spawn consumes it)",
        "in the harness an agent uses two AgentChannel handles (one to enqueue, one to dequeue) because both operations need &mut self; "
        "the end of a concurrent run is decided without a clock: after the senders of a side are done a marker chunk is sent on a "
        "reserved protocol in the same direction (FIFO), and a receiver still pending after the marker has nothing more to get",
    ],
    "explanation": "Self-tests run: subscribe_server without `^ 0x8000` (caught: consts translator fails closed + delivery-missing "
                   "VIOLATION with a `run` replay); EGRESS_MSG_QUEUE_BUFFER 100 -> 128 (quiet).",
}
