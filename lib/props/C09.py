from lib import scan_panics_c09 as scan_panics


def _panic_sites(repo, lean_root):
    info = scan_panics.translate(repo, lean_root)
    _panic_sites.info = info


def _extra(run):
    info = getattr(_panic_sites, "info", None)
    if info:
        run.extra_cov["panic_inventory"] = info


SPEC = {
    "id": "C09",
    "abort_is_violation": True,  # the property is totality: a process abort / hang of the real code on a case is a violation
    "level": "other",
    "lean_modules": ["PallasVerif.Props.C09"],
    "required_theorems": ["panic_sites_all_audited", "all_anchored_files_scanned", "peeraddress_bits_fit_u128",
                          "decoded_peeraddress_in_range", "skip_never_out_of_fuel", "vec_anycbor_never_out_of_fuel",
                          "message_element_loops_never_out_of_fuel", "wrappers_never_diverge", "wrapper_leaves_never_diverge",
                          "plutusdata_decoder_is_total_and_exact", "byron_decoders_never_diverge"],
    "translators": [_panic_sites],
    "extra": _extra,
    "streams": [{"name": "msgfuzz", "quick": 700, "thorough": 40000},
                {"name": "decfuzz", "quick": 1200, "thorough": 40000},
                {"name": "artfuzz", "quick": 2500, "thorough": 120000, "timeout": 3000}],
    "rule": "msgfuzz: one case = one generated message of some (protocol, variant) of either stack and 8 (thorough 12) byte strings "
            "derived from its encoding (random bytes, every kind of prefix, two messages back to back / a foreign protocol's message, "
            "1-3 structure-aware edits: bit flip, byte set, truncation at a head, length-field / integer / major-type corruption, "
            "indefinite-isation, planted break, splice, delete, insert), each through minicbor::decode::<Message>; decfuzz: one case = one base "
            "input harvested from the generators of the cborwrap (C03), pdata (C07), byron (C19) and address (C18) streams, from the "
            "witness table of fixtures/mutate.rs or from the Byron address vectors, and 7 (thorough 10) mutants of it (truncation at every "
            "length, structure-aware edits, random bytes), each decoded by the real decoder (pallas-codec wrapper at the registry type, "
            "PlutusData, ByronAddress::from_bytes / minicbor::decode, Address::from_bytes) and by the Lean model, outcomes compared "
            "(value rendering or error class); artfuzz: one case = "
            "one artefact (every .block/.tx/.header of test_data, the headers / first transactions / outputs / addresses inside them, "
            "address test vectors, the 203 reject reasons of the localtxsubmission tests, label seeds for every hand-written "
            "node-to-client payload decoder) unmutated + 6 (thorough 10) mutants through MultiEraBlock::decode + probe, MultiEraTx::decode "
            "(+ decode_for_era x7), MultiEraHeader::decode, MultiEraOutput::decode (x7 eras), Address::from_bytes, Address::from_bech32 / from_str / ByronAddress::from_base58 on mutated text, minicbor::decode of "
            "the payload types (incl. KeepRaw<PlutusData>, DatumOption, conway TransactionOutput); every second mutant starts with a "
            "structure-aware edit on the parsed CBOR tree, which descends into byte strings holding exactly one item (#6.24 wraps, KeepRaw'd "
            "sub-items) and repairs the enclosing length heads: drop a break, plant a break, cut the (inner) buffer exactly at an item "
            "boundary at any depth, definite <-> indefinite at a single site, bytes -> chunked, splice a minimal witness of a hand-written "
            "decoder branch (tag-102 / compact Constr, bignum tags, bounded-bytes chunks, Nullable, MaybeIndefArray, Set tag 258, cbor-wrap; "
            "each also one byte short and with a trailing break) over a random item; the first cases splice every witness into the inline "
            "datum of synthesized outputs and of real post-Alonzo transactions; one case in sixteen feeds random byte strings to a random entry point; distinct = sha1 of the op text; non-trivial = the case has at least one accepted and one rejected input",
    "trusted_base": [
        "network half: Model/NetCodec.lean + Model/NetMsg.lean (hand transcription of the minicbor primitives and of every message "
        "decoder), compared with the real decoders on every msgfuzz input (value, end-of-input, other error)",
        "hand-written ledger decoders inside the model: Model/Minicbor.lean + Model/CborWrappers.lean (C03), Model/PlutusDataDec.lean (C07), "
        "Model/Byron.lean (C19), Model/Address.lean (C18) — hand transcriptions, compared with the real decoders on every decfuzz input",
        "rest of the ledger half: NOT modelled — catch_unwind around the public decode entry points on mutated artefacts (search, no proof); the Lean "
        "stream only states the demanded outcome class",
        "lib/scan_panics_c09.py (regex inventory of panic sites in 41 anchored files) + the human audit lib/panic_audit_C09.json",
    ],
    "assumptions": [
        "panic-freedom of the derived (minicbor-derive) and hand-written ledger decoders is sampled, not proved",
        "the `relaxed` feature of pallas-crypto (Hash::decode without length check, panics on short input) is off, as in the default build",
        "allocation failure on absurd declared lengths is not a panic in the sense of the property (none was observed: minicbor does not pre-allocate)",
    ],
    "explanation": "level `other`: theorems cover the panic inventory audit (fail closed), the absence of fuel artefacts in the decoder models "
                   "(messages, codec wrappers, Byron addresses; PlutusData is exact: strict parse + tree) and the only arithmetic of the message "
                   "decoders; the property itself is decided by model/implementation comparison (network messages, wrappers, PlutusData, "
                   "addresses) and structure-aware mutation search (the derived ledger decoders). Self-tests: Hash::decode without the length check (caught by artfuzz panic + new unaudited slice "
                   "site), `_ => unreachable!()` restored in DRep::decode (caught by both), reordering of match arms in a decoder (quiet); "
                   "seeded/C09-a (Constr tag-102 steps past the end of the buffer when the break is missing): artfuzz reports `panic decode tx babbage` "
                   "with the spliced transaction as replay, decfuzz reports impl-ok / model-err on `p dec`.",
}
