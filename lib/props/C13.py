SPEC = {
    "id": "C13",
    "level": "proof",
    "lean_modules": ["PallasVerif.Props.C13"],
    "required_theorems": ["forward_secure", "forward_secure_evolved", "material_derive", "forward_secure_concrete", "future_derivable", "current_leaf_present", "material_under"],
    "streams": [{"name": "kesfs", "quick": 20, "thorough": 420}],
    "rule": "a case = one complete evolution history: keygen (sum / compact sum alternating, depth cycling through 1..7, random non-zero seed) "
            "followed by update until the key refuses (2^d - 1 updates + the failing one); after every update the real key buffer is compared "
            "byte for byte with the model's and scanned at every byte offset for the seed of every tree node that derives an earlier period's "
            "leaf (seeds recomputed with an independent BLAKE2b); distinct = sha1 of the op text; non-trivial = the history crossed the half-way "
            "point 2^(d-1) (the Ordering::Equal branch that regenerates the subtree and must zero the consumed seed)",
    "trusted_base": [
        "Model/Kes.lean (see C12) with the symbolic instance `sym`: seeds named by their path from the root, so `derives` is `prefix`; "
        "`material` = the leaf secret key and the stored right-child seeds of the layout; tie = stream `kesfs` (whole key buffer after every "
        "update, all depths 1..7, both constructions) — the bytes outside the `material` slots being public keys / zeros / period is exactly what "
        "that comparison checks",
        "harness oracle: independent recomputation of every node seed (fixtures/blake2b_ref.rs) + window scan of the real buffer; caller's seed "
        "buffer zeroed by keygen; key buffer zeroed when the key object is dropped",
    ],
    "assumptions": [
        "symbolic seeds: a seed derives exactly the leaves below it (no BLAKE2b preimage/collision shortcuts)",
        "only memory reachable through KesSk::as_bytes (and the caller's seed buffer) is observed; stack temporaries of keygen_slice and "
        "allocator residue are runtime behaviour outside the model",
    ],
    "explanation": "self-tests run on a scratch edit of the pallas worktree (reverted afterwards): Seed::split_slice without the final "
                   "zeroing -> exit 1, VIOLATION caller-seed-not-zeroed and past-seed-in-buffer sum2 period=3 (4-op replay); Ordering::Equal "
                   "branch regenerating from a copy of the stored seed (slot not zeroed) -> exit 1, VIOLATION past-seed-in-buffer; harmless: "
                   "zeroing with fill(0) instead of copy_from_slice -> exit 0, quiet.",
}
