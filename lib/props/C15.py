SPEC = {
    "id": "C15",
    "level": "proof",
    "lean_modules": ["PallasVerif.Props.C15"],
    "required_theorems": ["E_eq", "exp_zero", "exp_neg_is_recip", "iterations_le_cap", "ln_fails_iff_nonpos", "ln_panics_of_nonpos",
                          "pow_special_cases", "findE_brackets_partial", "taylor_lower_partial", "exp_lower_partial",
                          "exp_two_sided_unit_partial", "within_error_bound_unit_partial"],
    "streams": [{"name": "refmath", "quick": 800, "thorough": 40000}],
    "rule": "cases of 2..8 ops `exp x` / `ln x` / `pow x y` on stored integers at precision 34. Positive values: 1, e +-2 ulp, "
            "e^k +-1 ulp (k 2..12), 1 +- <500 ulp, 0.9 (= 1 - f), k/100, integers < 1000, exact powers of ten 1e-30..1e6, random "
            "digits at every decimal magnitude 1e-30..1e6; exp arguments of both signs (|x| mostly <= 60, some to 1e3, thorough: "
            "rarely to 1e5 - exp arguments in 1e5..1e6 are not sampled: a 400 000-digit result takes minutes to print in the model); ln also at 0 and negatives (documented panic); pow bases incl. 0, 1, 0.9, negatives, exponents 0, 1, "
            "2..9, (0,1), 1e-10..1e2, both signs. distinct = sha1 of op text; non-trivial = the case has both an argument < 1 and an "
            "argument > 10 of exp/ln",
    "trusted_base": ["Model/RefMath.lean is a hand transcription of ref_exp / mp_exp_taylor / ipow / mp_ln_n / find_e / ref_ln / "
                     "ref_pow (loops on fuel = iteration caps); tie = stream `refmath`: all 34+ printed digits of every result equal "
                     "(the repository's golden files are empty, so the Lean model is the digit oracle)",
                     "harness oracle for closeness to the true value: 100-digit interval enclosures of e^a and ln a with num-bigint "
                     "(independent of dashu and of the model); tolerances are empirical, stated in refmath.rs (exp: 1e-23 relative per "
                     "unit of the scaling exponent; ln: 2e-24 absolute per unit of |ln x| + 1, plus 8 ulp / x; pow: propagated)",
                     "Mathlib: Real.exp, Real.sum_le_exp_of_nonneg, Real.exp_nat_mul"],
    "assumptions": ["the two-sided 'within the reference's error bound of the true value' clause is proved only for exp on "
                    "-1 <= x <= 1 (within_error_bound_unit_partial: 4.3e-24) plus the one-sided exp_lower_partial for all x >= 0; for "
                    "exp outside the unit interval, ln and pow it is NOT proved (WithinErrorBoundFull stays a visible definition) and "
                    "is sampled against interval enclosures",
                    "find_e's i64 exponents cannot overflow for any value that fits in memory (not modelled)"],
    "explanation": "self-test (pallas worktree, reverted): ipow_ odd branch scaling before the multiply, and mp_ln_n using n % 2 == 0 "
                   "for the curr_a step, must give VIOLATION with a concrete op; inlining div_qr must stay quiet",
}


def _search(run):
    """For this property the executable Lean model IS the reference the English statement names
    ("exactly the values computed by the reference algorithm"), so an op on which the real
    implementation and the reference disagree is itself a concrete failing input."""
    from lib import core
    for b in run.broken:
        if b.get("kind") == "correspondence" and b.get("case") is not None and b.get("stream"):
            case = b["case"]
            try:
                small = core.shrink(b["stream"], case, lambda x: x.diff_at is not None)
                case = core.CaseResult(case.cid, small)
            except Exception:
                pass
            return {"stream": b["stream"], "key": "differs-from-reference-model", "detail": b["detail"], "case": case,
                    "source": "correspondence"}
    return None


SPEC["search"] = _search
