SPEC = {
    "id": "C39",
    "level": "proof",
    "lean_modules": ["PallasVerif.Props.C39"],
    "required_theorems": ["validate_txs_spec", "validate_txs_ok_iff", "validate_txs_err_atomic", "validate_txs_never_partial",
                          "loopMem_caller", "direct_is_not_atomic"],
    "streams": [{"name": "validatetxs", "quick": 400, "thorough": 15000}],
    "rule": "a case = 1-2 `seq` ops: a sequence of 0-12 Shelley-MA / Alonzo fixtures (pool registration, stake registration+delegation, "
            "MIR, plain, scripts, minting) and of synthesized own-key Mary transactions carrying 1-3 stake-key registrations / "
            "deregistrations over six credentials (a second certificate that collides leaves the first one applied to the working "
            "state), in random order with repeats, each optionally invalidated (~badsig: fails in the witness "
            "rule after its certificates were applied to the working state; ~nowits; ~noutxo: fails before the certificates), one "
            "environment and block slot, initial CertState empty or the union of the members' fixture states; validate_txs is run on it "
            "and the canonical CertState dump compared before/after; distinct = sha1 of op text; non-trivial = the call succeeded and "
            "changed the state, or failed at a point where the working copy already differed from the caller's state",
    "trusted_base": ["Model/ValidateTxs.lean is a hand transcription of validate_txs (clone, loop with `?`, commit) with the caller's "
                     "and the working state as separate variables; `validate_tx` is a parameter (`step`) of the model and of every "
                     "theorem; the stream instantiates it with the behaviour recorded from single validate_tx calls (state digests), "
                     "and the model's prediction of result + caller state digest is compared with the real validate_txs",
                     "the canonical CertState dump (harness/src/streams/validatetxs.rs `dump`: every map sorted, every field included)",
                     "harness/src/fixtures (ported test data)"],
    "assumptions": ["fewer than 2^32 transactions per call (the usize -> u32 index conversion panics beyond; the atomic clause is proved "
                    "for that case too)",
                    "CertState::clone is a deep copy (derive(Clone) over HashMaps of owned values)"],
    "explanation": "Self-tests run: (1) validate_txs validating against `cert_state` directly (no delta copy) -> VIOLATION "
                   "(cert-state-changed-on-failure) with a replay such as [pool_reg~badsig]; (2) commit `*cert_state = delta_state` "
                   "dropped -> VIOLATION (cert-state-not-in-order-state-on-success); (3) harmless: clone moved into a helper / "
                   "`for` rewritten with try_for_each -> quiet.",
}
