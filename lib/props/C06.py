from lib import translate_derive

import os
import re


def search(run):
    """Failing-input search when an obligation broke (a codec the translator can no longer read, a generated schema
    outside the fragment of the theorem, ..) and the regular run saw no violation: many more generated values of
    exactly the types the translator complained about and of the types that contain them, on the implementation
    with its round-trip oracle. Returns the first violation that is not a known finding."""
    from lib import core
    tr = translate_derive.Translator(core.REPO)
    tr.run(translate_derive.claimed_names())
    names = sorted({u.split(":")[0].strip() for u in tr.unknowns})
    broken = " ".join(b.get("detail", "") + " " + b.get("name", "") for b in run.broken)
    names += [d for d, _ in tr.rust_table if re.search(r"\b" + re.escape(d.replace(".", "_")) + r"\b", broken) and d not in names]
    if not names or not os.path.exists(core.PVH):
        return None
    findings = core.load_findings(run.prop)
    old = os.environ.get("PV_SCHEMA_ONLY")
    os.environ["PV_SCHEMA_ONLY"] = ",".join(names)
    try:
        for k in range(1, 7):
            rc, ops, err = core.sh([core.PVH, "gen", "schema", "--seed", str(run.seed + 7000 * k), "--cases", "4000", "--tier", run.tier], timeout=900)
            if rc != 0 or not ops:
                return None
            impl, model, problems = core.run_pair("schema", ops, timeout=1800)
            for r in core.compare(ops, impl, model):
                for key, detail in r.viols:
                    if not any(re.search(f["key_regex"], key) for f in findings):
                        return {"stream": "schema", "key": key, "detail": detail, "case": r, "source": f"search PV_SCHEMA_ONLY={','.join(names)} seed={run.seed + 7000 * k}"}
    finally:
        if old is None:
            os.environ.pop("PV_SCHEMA_ONLY", None)
        else:
            os.environ["PV_SCHEMA_ONLY"] = old
    return None


def extra(run):
    """Decoding of mutated encodings (stream `schemamal`), compared in ONE direction: whenever the strict model
    decoder accepts an input, pallas must accept it with the same value. The converse is outside the tie (pallas
    reads through mismatched container heads in its hand-written codecs, ignores trailing bytes, and minicbor-derive
    swallows unknown-variant errors of Option fields); how often that happened is recorded in the evidence."""
    import collections
    from lib import core
    n = 1120 if run.tier == "quick" else 44800
    rc, ops, err = core.sh([core.PVH, "gen", "schemamal", "--seed", str(run.seed), "--cases", str(n), "--tier", run.tier], timeout=1800)
    if rc != 0:
        run.broken.append({"kind": "correspondence", "name": "stream schemamal", "detail": "generator failed: " + err[-300:]})
        return
    impl, model, problems = core.run_pair("schemamal", ops, timeout=3600)
    for p in problems:
        run.broken.append({"kind": "correspondence", "name": "stream schemamal", "stream": "schemamal", "detail": p})
    st = collections.Counter()
    for r in core.compare(ops, impl, model, model_only=True):
        run.evaluations += 1
        bad = None
        for k, op in enumerate(r.ops):
            i = r.impl[k] if k < len(r.impl) else "<none>"
            m = r.model[k] if k < len(r.model) else "<none>"
            if i == "panic":
                c = "impl-panic"
            elif m.startswith("ok") and any(t.startswith("a") for t in m.split()[1:]):
                c = "model-accepts-value-with-opaque-plutusdata (not compared)"
            elif m.startswith("ok") and i == m:
                c = "both-accept-same-value"
            elif m.startswith("ok"):
                c, bad = "MODEL-ACCEPTS-IMPL-DIFFERS", k
            elif i.startswith("ok"):
                c = "impl-accepts-model-rejects (outside the tie)"
            else:
                c = "both-reject"
            st[c] += 1
        if bad is not None:
            r.diff_at = bad
            run.broken.append({"kind": "correspondence", "name": "stream schemamal", "stream": "schemamal", "case": r,
                               "detail": f"case {r.cid} op#{bad} `{r.ops[bad][:200]}`: the model decoder accepts (`{r.model[bad][:200]}`) but pallas "
                                         f"answers `{r.impl[bad][:200]}`"})
        else:
            run.traces_ok += 1
    run.extra_cov["mutated_input_decoding"] = {"cases": n, "inputs": sum(st.values()), "classes": dict(st),
                                               "relation": "model accepts => implementation accepts with the same value"}
    run.streams_run.append({"stream": "schemamal", "seed": run.seed, "cases": n})
    # hypothesis of C06_chain_iso_partial evaluated on the corpus: is each artefact canonical for its schema?
    cs = next((x for x in SPEC["streams"] if x["name"] == "chain"), None)
    if cs:
        rc, cops, err = core.sh([core.PVH, "gen", "chain", "--seed", str(run.seed), "--cases", str(cs.get(run.tier, cs["quick"])), "--tier", run.tier], timeout=1800)
        if rc == 0 and cops:
            rc2, out, err2 = core.sh([core.DRIVER, "chaincanon"], inp=cops, timeout=7200)
            cc = collections.Counter(l for _, ls in core.parse_blocks(out) for l in ls)
            run.extra_cov["chain_canonical"] = {"artefacts": sum(cc.values()), "classes": dict(cc),
                                                "meaning": "`ok canonical` = the artefact decodes and satisfies `canon` (Model/SchemaCanon.lean), so "
                                                           "C06_chain_iso_partial proves that the model re-encodes it to the same item"}


SPEC = {
    "search": search,
    "extra": extra,
    "id": "C06",
    "level": "proof",
    "lean_modules": ["PallasVerif.Props.C06"],
    "required_theorems": ["schema_roundtrip", "schema_roundtrip_exact", "C06_roundtrip_partial", "C06_roundtrip_exact_partial",
                          "translator_complete", "table_ok", "env_valid", "keepraw_reencodes", "keepraw_iso_bytes",
                          "vec_keepraw_reencodes", "vec_never_indefinite", "block_shapes", "C06_block_iso_partial",
                          "customs_iso", "C06_chain_iso_partial", "C06_chain_iso_bytes_partial"],
    "translators": [translate_derive.translate],
    "streams": [{"name": "schema", "quick": 1120, "thorough": 56000},
                {"name": "chain", "quick": 20, "thorough": 2000, "timeout": 7200}],
    "rule": "stream schema: one case per (type, seed), types taken round-robin from the translated table (all 112 on every run): "
            "a generated value of the Rust type (boundary-weighted ints over the full CBOR range, byte/text lengths 0,23,24,255,256, "
            "containers 0..3 and 23..25 elements, every enum variant incl. the Byron catch-all ones, Def/Indef wrappers, null/undefined) is "
            "encoded by pallas and by the Lean schema interpreter (bytes compared), the bytes are decoded by both (value text compared), and "
            "- unless the value holds an opaque PlutusData item - a well-formedness preserving rewrite of the encoding (wider int / length / "
            "tag heads, indefinite maps) is decoded by both; distinct = sha1 of the op text; non-trivial = the value text has at least 5 tokens. "
            "stream chain: one case per on-chain artefact: every *.block / *.tx / *.header of test_data plus blocks of the three immutable-DB "
            "chunks in test_data (split with an independent strict CBOR walker; quick: 20 of them and no artefact above 60 kB, thorough: all 1783 "
            "and genesis.block); pallas decodes (MultiEraBlock::decode / typed Tx and header decode) and re-encodes, the Lean interpreter does the "
            "same with the translated schema; compared: type, re-encoding == input, token count and FNV-64 digest of the decoded value text "
            "(raws included); non-trivial = decoded by both",
    "trusted_base": [
        "lib/translate_derive.py (tie A): bracket-matching reader of the five anchored files; fails closed through `unknowns = []`; "
        "a translation error shows as a byte difference in stream `schema`, whose value text is produced by Show impls generated from the same parse",
        "Model/Schema.lean: hand transcription of the encode/decode semantics of minicbor 0.26.5, minicbor-derive 0.16.2 and pallas-codec utils "
        "(validated only by the correspondence: same bytes, same decoded value, on generated values of every translated type and on the chain corpus)",
        "Model/SchemaHand.lean: RationalNumber and Conway CostModels written by hand from the source (the translator checks the source still has that shape)",
    ],
    "assumptions": [
        "dec is a tree reading of minicbor's sequential decoder. Tie on decoding: (i) exact agreement (accept/reject and value) on every encoder output, on "
        "well-formedness preserving re-encodings of them (wider heads, indefinite maps, repeated last map entry) and on the whole chain corpus; (ii) on "
        "mutated inputs (stream schemamal: foreign sub-items, lengthened/shortened arrays, changed variant numbers / keys, byte flips, truncation) only "
        "`model accepts => pallas accepts with the same value`. Outside the tie: inputs the model rejects and pallas accepts - hand-written codecs that do "
        "not compare the array length with what they read (Relay, RationalNumber, Byron sums, the many-field arm of codec_by_datatype!), unit variants of "
        "flat enums followed by surplus elements, the unread break of an indefinite array in hand-written sums, trailing bytes, minicbor-derive swallowing "
        "an unknown-variant error of an Option field, input that is not well-formed CBOR; their number per run is in the evidence "
        "(coverage.mutated_input_decoding)",
        "PlutusData is an opaque well-formed item here (its codec is C07's subject); generated values are built in memory (KeepRaw::from, empty raw); "
        "raw-carrying values are exercised through the chain corpus",
        "value invariants the Rust types enforce or document are part of the value domain: NonZeroInt != 0, PositiveCoin != 0, BTreeMap keys strictly increasing "
        "in the derived Ord, String is valid UTF-8, Conway CostModels.unknown holds language ids >= 3, Byron TxIn/Twit/TxFeePol::Other carries a "
        "variant number that no listed variant uses (source comments `u8 .ne 0` / `.gt 2`; TxIn::Other(0, b) would decode as Variant0)",
    ],
    "explanation": "Self-tests on the author's pallas worktree (reverted afterwards): (1) Relay::SingleHostName encoded with e.array(4): translator records "
                   "`encoder writes array(4) for a variant with 2 field(s)` (translator_complete fails), stream schema shows 8401.. vs 8301.. and the "
                   "independent strict-CBOR oracle reports `wf Relay` / `wf conway.Certificate`: exit 1, VIOLATION with a concrete `enc` replay; "
                   "(2) e.encode_with(0, ctx) -> e.u8(0) in Relay::SingleHostAddr: quiet, exit 0; (3) unchanged tree before the two fixes: "
                   "rt-value conway.CostModels.. and chain-iso alonzo.Block indef-container@1.1 reported with replays.",
}
