from lib import translate_derive

SPEC = {
    "id": "C06",
    "level": "proof",
    "lean_modules": ["PallasVerif.Props.C06"],
    "required_theorems": ["schema_roundtrip", "C06_roundtrip_partial", "C06_roundtrip_exact_partial", "translator_complete",
                          "table_ok", "env_valid", "keepraw_reencodes", "keepraw_iso_bytes"],
    "translators": [translate_derive.translate],
    "streams": [{"name": "schema", "quick": 1224, "thorough": 61200}],
    "rule": "stream schema: one case per (type, seed), types taken round-robin from the translated table (all 102 on every run): "
            "a generated value of the Rust type (boundary-weighted ints over the full CBOR range, byte/text lengths 0,23,24,255,256, "
            "containers 0..3 and 23..25 elements, every enum variant, Def/Indef wrappers, null/undefined) is encoded by pallas and by the "
            "Lean schema interpreter (bytes compared), then the bytes are decoded by both (value text compared); distinct = sha1 of the op "
            "text; non-trivial = the value text has at least 5 tokens (a container or a non-trivial sum)",
    "trusted_base": [
        "lib/translate_derive.py (tie A): bracket-matching reader of the five anchored files; fails closed through `unknowns = []`; "
        "a translation error shows as a byte difference in stream `schema`, whose value text is produced by Show impls generated from the same parse",
        "Model/Schema.lean: hand transcription of the encode/decode semantics of minicbor 0.26.5, minicbor-derive 0.16.2 and pallas-codec utils "
        "(validated only by the correspondence: same bytes, same decoded value, on generated values of every translated type)",
        "Model/SchemaHand.lean: RationalNumber and Conway CostModels written by hand from the source (the translator checks the source still has that shape)",
    ],
    "assumptions": [
        "dec is a tree reading of minicbor's sequential decoder: equal on items whose container heads match their content (all encoder outputs, all chain data); "
        "where minicbor reads through a mismatched head the model rejects",
        "PlutusData is an opaque well-formed item here (its codec is C07's subject); values are built in memory (KeepRaw::from, empty raw)",
        "value invariants the Rust types enforce through private fields are part of the value domain: NonZeroInt != 0, BTreeMap keys strictly increasing "
        "in the derived Ord, String is valid UTF-8, Conway CostModels.unknown holds language ids >= 3",
    ],
    "explanation": "Self-tests run on the author's pallas worktree (reverted afterwards): see manifest.d/C06.json level_note.",
}
