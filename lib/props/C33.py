from lib import scan_panics_c33


def _panic_sites(repo, lean_root):
    _panic_sites.info = scan_panics_c33.translate(repo, lean_root)


def _extra(run):
    info = getattr(_panic_sites, "info", None)
    if info:
        run.extra_cov["panic_inventory"] = info
    run.extra_cov["modelled_rules"] = [
        "check_tx_ex_units (Alonzo/Babbage/Conway)", "check_min_fee / check_fees + check_tx_size (four post-Byron eras)",
        "check_collaterals_assets of Alonzo / Babbage / Conway: collateral sum, lovelace_diff_or_fail / conway_lovelace_diff_or_fail (every arm, `f - s` as a panic site), percentage arithmetic, annotation", "compute_min_lovelace arithmetic (all eras)",
        "Shelley-MA deposit / refund arithmetic and the MIR total", "check_preservation_of_value + value arithmetic of utils.rs (all eras)",
        "Byron check_fees", "eval_native_script / check_native_scripts of Shelley-MA (six constructors, short-circuiting all / any, the u32 n-of-k count as a panic site)", "verification-key witness and required-signer checks (four post-Byron eras)", "validate_txs loop"]
    run.extra_cov["no_partial_operation_in_own_code"] = [
        "script / datum / redeemer / minting-policy / language rules, script-integrity and auxiliary-data hash checks: stated as total "
        "functions of the observations in Model/Rules.lean (C38); script_rule_sites_benign: every inventoried site inside their functions "
        "is a method named unwrap (KeepRaw / CborWrap) or the infallible Vec encoder of cost_model_cbor - what can panic there is callee code"]
    run.extra_cov["unmodelled_search_only"] = [
        "UTxO look-ups, address decoding, network-id rules (no arithmetic; callee code)",
        "hashing and encoding called by the script-integrity / auxiliary-data rules (ScriptData::build_for, minicbor encode, Hasher)",
        "Shelley-MA certificates (except the MIR total)",
        "Byron witness rule (address decoding, spending data, signature check)",
        "code of pallas-traverse / pallas-addresses / pallas-primitives / pallas-codec / pallas-crypto reached from the validators"]


SPEC = {
    "id": "C33",
    "abort_is_violation": True,  # the property is totality: a process abort / hang of the real code on a case is a violation
    "level": "other",
    "lean_modules": ["PallasVerif.Props.C33", "PallasVerif.Proofs.ValueTotal"],
    "required_theorems": ["validate_total", "panic_sites_all_audited", "all_anchored_files_scanned", "exunits_total", "min_fee_total",
                          "fee_and_size_total", "collateral_total", "subU64_panics_iff", "lovelace_diff_total", "collateral_balance_total",
                          "collateral_rule_total", "collateral_alonzo_total", "script_rule_sites_benign", "eval_total", "count_total",
                          "native_scripts_total", "nOfK_zero", "min_lovelace_total", "deposits_total", "mir_total", "preservation_total",
                          "preservation_total_shelleyMA", "preservation_total_conway", "byron_fees_total", "witness_total",
                          "witness_total_shelley", "validate_txs_total"],
    "translators": [_panic_sites],
    "extra": _extra,
    "streams": [{"name": "valtotal", "quick": 500, "thorough": 30000, "timeout": 3000}],
    "rule": "first case: the Byron witness / address corners of DESIGN §6 #31 on both Byron fixtures. A generated case = 1-3 `mt` ops (one of "
            "the 24 fixtures of five eras with 0-3 structure-aware byte edits of the transaction - quantity-like integers set to 0, 2^62.., "
            "2^63-1, 2^63, 2^64-1, sign flipped; byte strings (keys, signatures, hashes, asset names, addresses) shortened / lengthened / "
            "emptied with their payload; container counts +-1 / 0; or a generic edit of fixtures/mutate.rs - optionally 1-2 edits of one UTxO "
            "entry and an override of minfee_a / minfee_b / block slot / collateral percentage / Byron fee coefficients) + 1-3 `sv` ops (a "
            "correctly signed synthesized transaction of one of six eras with boundary-weighted coin / asset / mint / fee quantities, zero "
            "quantities, outputs in the legacy or the post-Alonzo form, optionally a collateral section with collateral return and total "
            "collateral) + 1-2 collateral groups: collateral inputs (lovelace only / with assets in one or every input; 1.5 x fee, 0-2, "
            "boundary values), collateral return (absent / lovelace only / same assets / other assets / a zero-quantity asset; holding "
            "less, as much, one more, much more lovelace than the inputs, 0, 2^64-1), total collateral (absent, exact, +-1) as `cb` "
            "(check_collaterals_assets alone through verif_hooks, answer compared with Model/PhaseOneArith.collateralAlonzo / "
            "collateralBalance), `ld` (utils::lovelace_diff_or_fail / conway_lovelace_diff_or_fail on the summed inputs and the return, "
            "compared with lovelaceDiffOrFail) and `sv` (the same section in a correctly signed whole transaction) + half of the time `fc` "
            "(one of the fixtures that carry collateral, the collateral UTxO entries and body keys 16 / 17 rewritten the same way); + 1-2 native-script groups: 1-2 "
            "generated scripts of depth <= 3 over all six constructors (n-of-k with n = 0, k, k+1, 1, 2, 2^32-1, 2^32-2; empty lists; key hashes of "
            "signing and non-signing keys; time locks on, one before and one after the validity bounds, 0, 2^64-1; validity start / TTL "
            "present or absent) as `ns` (check_native_scripts alone through verif_hooks, compared with Model/NativeScript) and `nt` (the "
            "same scripts in the witness set of a correctly signed Shelley / Allegra / Mary transaction that passes every earlier rule); every "
            "whole-transaction scenario that still decodes goes through validate_txs under catch_unwind with a location-recording panic "
            "hook; distinct = sha1 of op text; non-trivial = at least one scenario of the case decoded and was validated",
    "trusted_base": ["level `other`: the theorems cover the rules that have a Lean model (listed in coverage.modelled_rules; the models are tied "
                     "verdict-by-verdict to the code by the streams of C34-C37 and C39) and the audited inventory; the rest of the "
                     "validators (coverage.unmodelled_search_only) is exercised by stream `valtotal` only - search, not proof",
                     "lib/scan_panics_c33.py (regex inventory of panic sites in phase1/*.rs, utils.rs, utils/*.rs) + the human audit "
                     "lib/panic_audit_C33.json (an entry may name the guard it relies on as a regex; the scanner re-checks it in front of every "
                     "occurrence, so `guarded` does not survive the removal of the guard); panic sites inside the crates the validators call are not inventoried",
                     "harness/src/fixtures (ported test data, synth builder, mutate.rs of C09)"],
    "assumptions": ["protocol parameters are those of a Cardano network ('well-known'): coins-per-byte / min-utxo below 2^32, deposits below "
                    "2^40 - with arbitrary parameters compute_min_lovelace and the Shelley deposit products are unchecked u64 "
                    "multiplications (min_lovelace_total / deposits_total state the bound)",
                    "fewer than 2^32 transactions per validate_txs call (index conversion)",
                    "a transaction or UTxO entry that does not decode is outside the property (decoder totality is C09)"],
    "explanation": "Unchanged tree: 18 panic sites reproduced by the stream (corpus/C33/valtotal-panic-sites.ops) and repaired by three fix: "
                   "commits (known_findings.d/C33.json). Self-tests: (1) add_lovelace with `+` instead of checked_add -> VIOLATION (panic "
                   "pallas-validate/src/utils.rs attempt_to_add_with_overflow) with a replay; (2) verify_signature back to copy_from_slice -> "
                   "VIOLATION + new unaudited site breaks panic_sites_all_audited; (3) harmless: reordering two independent checks in "
                   "validate_babbage_tx -> quiet; (4) seeded C33-a (`f >= s` dropped from the Multiasset/Multiasset arm of "
                   "conway_lovelace_diff_or_fail) -> VIOLATION panic utils.rs attempt_to_subtract_with_overflow with a replay, model/impl "
                   "differences on `ld` / `cb`, and panic_sites_all_audited broken (guard regex of the audit entry no longer matches); (5) seeded C33-b (n-of-k counting down "
                   "from n with an unguarded `missing -= 1`) -> VIOLATION panic shelley_ma.rs attempt_to_subtract_with_overflow, replay = an `nt "
                   "shelley` transaction whose witness set holds `nk 0 3 ..` with a satisfied sub-script, plus model/impl differences on `ns`.",
}
