def _extra(run):
    run.extra_cov["rules_with_stated_predicate"] = {
        "shelley_ma": ["insNotEmpty", "insInUtxo", "validity", "txSize", "minLovelace", "preservation (C34 model; transactions without certificates)",
                       "fee (min fee)", "networkId", "auxData", "witnesses (C35 model: key witnesses + native-script witnesses)", "minting"],
        "alonzo/babbage/conway": ["insNotEmpty", "insInUtxo (+collateral, +reference inputs)", "validity", "fee (min fee + collateral count/kind/"
                                  "amount/annotation)", "preservation (C34 model; transactions without certificates)", "minLovelace", "valSize",
                                  "networkId (outputs + body)", "txSize", "exUnits (C37 model)", "minting", "wellFormed (empty in the code)",
                                  "witnesses = needed scripts + datum witnesses + redeemer coverage + required signers + key witnesses (C35 model)",
                                  "languages", "auxData", "scriptDataHash (Conway: Model/ScriptData + Blake2b on the witness-set bytes; "
                                  "Alonzo/Babbage: BLAKE2b-256 of the observed re-encoded redeemers, datums, era cost-model bytes)"],
        "byron": ["insNotEmpty", "txSize"]}
    run.extra_cov["rules_composed_by_observed_verdict_only"] = [
        "certificates (Shelley-MA)", "preservation of transactions that carry certificates (deposit terms are not in Model/Value)",
        "Byron: outsNotEmpty, insInUtxo, outsHaveLovelace, fee, witnesses"]


SPEC = {
    "id": "C38",
    "level": "proof",
    "lean_modules": ["PallasVerif.Props.C38"],
    "required_theorems": ["accept_implies_all_rules", "violates_rule_rejected", "first_failure", "accept_iff", "accepted_inputs_present",
                          "accepted_validity", "accepted_min_lovelace", "accepted_value_size", "accepted_network", "accepted_min_fee",
                          "accepted_collateral_partial", "collateralOk_spec", "full_collateral_fails_at_witness", "accepted_aux_data",
                          "stated_rules_cover", "stated_script_rules", "accepted_minting", "minting_subsumed", "accepted_scripts", "accepted_redeemers",
                          "accepted_datums", "accepted_input_datums_covered", "accepted_languages", "accepted_script_data_hash_conway",
                          "accepted_script_data_hash_alonzo", "accepted_script_data_hash_babbage", "accepted_no_script_data_hash",
                          "accepted_value_balanced", "accepted_value_balanced_shelleyMA", "accepted_value_balanced_conway", "accepted_ex_units",
                          "accepted_signatures", "collateral_amount_iff", "collateral_accepts_at_required", "collateral_rejects_one_below",
                          "truncated_quotient_is_weaker", "balanceAmounts_iff", "alonzoAmounts_iff", "min_fee_boundary", "tx_size_boundary",
                          "upper_bound_boundary", "lower_bound_boundary", "value_size_boundary", "min_lovelace_boundary"],
    "extra": _extra,
    "streams": [{"name": "rules", "quick": 150, "thorough": 6000}],
    "rule": "seed-independent part: each of the 24 fixtures and of 85 synthesized own-key transactions (5 eras x 17 body variants: no inputs, "
            "no/expired TTL, future validity start, body network id, foreign output network, output below min ada, aux-data hash without / "
            "with / with wrong aux data, a mint under a native-script policy with / without the script, a required signer with / without "
            "its key witness) unmutated and with every single applicable mutator; plus structural variants of the "
            "synthesized transactions - every combination of the optional fields a rule's code branches on (collateral x reference "
            "inputs, each also with mint / aux data / no TTL / validity start, and all together) - each unmutated and with one "
            "mutator per rule that breaks that rule alone. Threshold mutators sit exactly on, one below and one "
            "above each boundary: slot = TTL-1 / TTL / TTL+1 and start-1 / start / start+1, size limit = size-1 / size / size+1, min fee = "
            "fee-1 / fee / fee+1, coins-per-byte (min utxo value) = the largest value every output meets, +1, -1, value-size limit = "
            "largest output size, +-1, 0, max ex-units = the redeemers' total, mem-1, steps-1, 0, max collateral inputs = count, "
            "count-1, 0, paid collateral = required, required-1, required+1 (required = ceil(fee*pct/100)) for four percentages with "
            "fee*pct mod 100 = 0, 1, 50, 99 (colpaid: percentage + coin of collateral input 0) in all three Plutus eras. Others: other "
            "network, coins-per-byte raised, collateral percentage raised, a spent / collateral / reference input removed from the UTxO, "
            "collateral re-addressed to a script / given assets / coin lowered, a witness-set field (key witnesses, native scripts, "
            "Plutus v1/v2/v3 scripts, datums, redeemers) removed, an extra redeemer / datum added, the first redeemer's budget changed "
            "(only the script-integrity hash notices), an inline datum put on a key-locked input's UTxO entry / a reference input "
            "re-addressed to a Byron address (only the language rule notices), aux data removed / altered, a used language's cost model "
            "removed / changed, the lovelace of a spent UTxO entry changed; seeded part: random pairs and triples of mutators. Per op: "
            "every check_* alone (rule_verdicts hook), validate_txs, and the observations of Model/Rules.View; distinct = sha1 of op "
            "text; non-trivial = at least one mutator took effect",
    "trusted_base": ["partial: the theorems are about Model/Rules.lean - the rule order of the five validators and a stated predicate for every "
                     "rule the property statement names, over plain observations of the transaction, the UTxO set and the parameters; the "
                     "extraction of these observations (harness/src/streams/rules.rs `view`, `script_facts`, `value_section`, `ex_section`, "
                     "`wit_section`) is hand-written, trusted harness code. Tie = stream `rules`: (a) per rule, the model's predicate on the "
                     "extracted observations equals what the real check_* answers alone, (b) composition, the model's first failing rule and "
                     "its error equal validate_txs' result",
                     "Alonzo / Babbage script-integrity hash: the re-encoding of redeemers and datums and the era's cost-model bytes are "
                     "observed (pallas' own encoder, hook cost_model_bytes), the model states which concatenation is hashed; Conway is "
                     "computed from the witness-set bytes by Model/ScriptData.lean (C08) + Model/Blake2b.lean",
                     "hash and signature verification enter the witness model as functions (`hash`, `verify`); script hashes, datum "
                     "hashes, value sizes in words and address decoding are observations",
                     "not modelled (observed verdict only, coverage.rules_composed_by_observed_verdict_only): Shelley-MA certificates, the "
                     "value rule of transactions with certificates, the Byron rules other than non-empty inputs and size",
                     "harness/src/fixtures (ported test data, synth keys)"],
    "assumptions": ["`violates just that rule` is realised by mutators that leave the body untouched (environment, UTxO, witness set, aux "
                    "data) on mainnet fixtures, and by re-signed synthesized transactions for body-level changes",
                    "value size in words (get_val_size_in_words) and address decoding are observations, not modelled",
                    "from Alonzo on check_minting is implied by the needed-scripts part of check_witness_set with the same error "
                    "(minting_subsumed): removing only that call is not observable there; the rule is separately enforced in Shelley-MA"],
    "explanation": "Known finding reproduced on every run: collateral rules are skipped for Babbage/Conway transactions whose Plutus scripts "
                   "are all reference scripts (repair verified to break 2 pinned Conway tests whose fixtures carry an inconsistent collateral "
                   "UTxO). Self-tests, each giving VIOLATION with a concrete replay: check_network_id dropped from validate_babbage_tx; "
                   "check_upper_bound `<` -> `<=` (conway); collateral count bound +1 (alonzo); check_minting dropped (shelley_ma); "
                   "check_needed_scripts dropped (babbage); check_datums dropped (alonzo); check_redeemers dropped (conway); "
                   "check_languages dropped (babbage); check_script_data_hash dropped (conway, alonzo); check_preservation_of_value dropped "
                   "(alonzo); check_tx_ex_units dropped (babbage); check_required_signers dropped (conway); seeded C38-a (truncating "
                   "division in the Babbage minimum-collateral comparison) -> rule-not-enforced rule=fee era=babbage on "
                   "fx:babbage.successful_mainnet_tx_with_minting colpaid=161:963973. Seeded C38-b (early return in Babbage check_all_ins_in_utxos skips the reference-input "
                   "check when there is no collateral field) -> rule-not-enforced rule=insInUtxo era=babbage on sy:babbage:ref dropref=0. "
                   "Quiet as they must be: check_min_lovelace / "
                   "check_output_val_size swapped, a temporary inlined in check_witness_set, check_minting dropped from validate_conway_tx "
                   "(equivalent by minting_subsumed).",
}
