def _extra(run):
    run.extra_cov["rules_with_stated_predicate"] = {
        "shelley_ma": ["insNotEmpty", "insInUtxo", "validity", "txSize", "minLovelace", "fee(min fee)", "networkId", "auxData"],
        "alonzo/babbage/conway": ["insNotEmpty", "insInUtxo (+collateral, +reference inputs)", "validity", "fee (min fee + collateral count/kind/"
                                  "amount/annotation)", "minLovelace", "valSize", "networkId (outputs + body)", "txSize", "auxData"],
        "byron": ["insNotEmpty", "txSize"]}
    run.extra_cov["rules_composed_by_observed_verdict_only"] = [
        "preservation (C34)", "exUnits (C37)", "witnesses = needed scripts + datums + redeemer coverage + required signers + vkey witnesses "
        "(signature part: C35)", "minting policy witnesses", "languages", "scriptDataHash", "wellFormed", "certificates",
        "Byron: outsNotEmpty, insInUtxo, outsHaveLovelace, fee, witnesses"]


SPEC = {
    "id": "C38",
    "level": "other",
    "lean_modules": ["PallasVerif.Props.C38"],
    "required_theorems": ["accept_implies_all_rules", "violates_rule_rejected", "first_failure", "accept_iff", "accepted_inputs_present",
                          "accepted_validity", "accepted_min_lovelace", "accepted_value_size", "accepted_network", "accepted_min_fee",
                          "accepted_collateral_partial", "collateralOk_spec", "full_collateral_fails_at_witness", "accepted_aux_data",
                          "stated_rules_cover"],
    "extra": _extra,
    "streams": [{"name": "rules", "quick": 150, "thorough": 6000}],
    "rule": "seed-independent part: each of the 24 fixtures and of 65 synthesized own-key transactions (5 eras x 13 body variants: no inputs, "
            "no/expired TTL, future validity start, body network id, foreign output network, output below min ada, aux-data hash without / "
            "with / with wrong aux data) unmutated and with every single applicable mutator (slot past TTL / at TTL / before start, other "
            "network, size limit = size-1 / size, min fee = fee+1, coins-per-byte raised, value-size limit 0, max collateral 0, collateral "
            "percentage raised, a spent / collateral / reference input removed from the UTxO, collateral re-addressed to a script / given "
            "assets / coin lowered, a witness-set field (native scripts, Plutus v1/v2/v3 scripts, datums, redeemers) removed, aux data "
            "removed / altered, a used language's cost model removed); seeded part: random pairs and triples of mutators. Per op: every "
            "check_* alone (rule_verdicts hook), validate_txs, and the observations of Model/Rules.View; distinct = sha1 of op text; "
            "non-trivial = at least one mutator took effect",
    "trusted_base": ["level `other`: the theorems are about Model/Rules.lean (rule order of the five validators + nine stated predicates over "
                     "observations); tie = stream `rules`: (a) per rule, the model's predicate on the extracted observations equals what the "
                     "real check_* answers alone, (b) composition, the model's first failing rule and its error equal validate_txs' result; "
                     "the extraction of the observations (harness/src/streams/rules.rs `view`) is hand-written and trusted",
                     "rules without a stated predicate take part through their observed verdict only (coverage."
                     "rules_composed_by_observed_verdict_only); for them the property is decided by mutation search alone",
                     "harness/src/fixtures (ported test data, synth keys)"],
    "assumptions": ["`violates just that rule` is realised by mutators that leave the body untouched (environment, UTxO, witness set, aux "
                    "data) on mainnet fixtures, and by re-signed synthesized transactions for body-level changes",
                    "value size in words (get_val_size_in_words) and address decoding are observations, not modelled"],
    "explanation": "Known finding reproduced on every run: collateral rules are skipped for Babbage/Conway transactions whose Plutus scripts "
                   "are all reference scripts (repair verified to break 2 pinned Conway tests whose fixtures carry an inconsistent collateral "
                   "UTxO). Self-tests: (1) check_network_id dropped from validate_babbage_tx -> VIOLATION (rule-fails-alone-but-accepted "
                   "rule=networkId) with replay; (2) check_upper_bound `<` turned into `<=` in conway.rs -> VIOLATION; (3) harmless: "
                   "check_min_lovelace and check_output_val_size swapped in validate_babbage_tx -> quiet unless both fail (then the "
                   "first-failure error differs: documented correspondence break).",
}
