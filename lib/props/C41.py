SPEC = {
    "id": "C41",
    "level": "proof",
    "lean_modules": ["PallasVerif.Props.C41"],
    "required_theorems": ["sign_inv", "sign_in_step", "witnesses_valid", "wits_never_empty", "fresh_inv"],
    "streams": [{"name": "txsign", "quick": 400, "thorough": 12000}],
    "rule": "a case = one built Conway transaction (40 fixture shapes: 1-3 inputs, 1-3 outputs with/without assets and inline "
            "datums, mint, required signers, witness-set datums, validity bounds) followed by 1..40 ops sign/add_signature/"
            "remove_signature over a pool of 1..4 keys (3 plain + 1 extended Ed25519 key; add_signature with verifying and with "
            "bit-flipped signatures); distinct = sha1 of op text; non-trivial = the case replaced a signature of a key that "
            "already had one, removed a present signature and removed an absent one",
    "trusted_base": [
        "Model/TxSign.lean is a hand transcription of BuiltTransaction::{sign,add_signature,remove_signature} (Conway arm): "
        "HashMap as association list, vkeywitness as Option(list) in wire order, NonEmptySet::from_vec, unwrap as panic; "
        "tie = stream `txsign` (map sorted by key, witness list in wire order, body-unchanged and id-unchanged flags compared "
        "after every op on real built transactions)",
        "decode_fragment/encode_fragment of conway::Tx is taken to be the identity on (body bytes, witness list, rest): sampled by "
        "the stream (body bytes and id are re-extracted from tx_bytes after every op), not proved",
        "Ed25519 (pallas-crypto) is a parameter of the model: `sgn`/`pubOf`, validity is an abstract predicate in witnesses_valid; "
        "the harness oracle verifies every witness against the id with pallas-crypto",
    ],
    "assumptions": [
        "the transaction comes from build_conway_raw (era Conway, signatures None, no vkey witnesses): fresh_inv",
        "witnesses_valid assumes out-of-band signatures handed to add_signature verify (add_signature does not check them); "
        "the stream also feeds non-verifying ones and only demands that they are kept in step",
    ],
    "explanation": "Deviation #26 of DESIGN §6 was reproduced by this check on the unchanged tree (duplicate-witness after signing "
                   "twice with one key; panic when removing the last or an absent signature), then repaired in pallas "
                   "(`fix: txbuilder keeps one witness per key and allows removing the last signature`); the model is the "
                   "repaired code, the unrepaired arms are kept as Props.C41.Unfixed with the proved negations. Self-tests run: "
                   "(1) remove_signature updating only the map -> VIOLATION witnesses-differ-from-map with replay; "
                   "(2) retain rewritten as a filter/collect -> quiet.",
}
