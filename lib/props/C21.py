SPEC = {
    "id": "C21",
    "level": "proof",
    "lean_modules": ["PallasVerif.Props.C21"],
    "required_theorems": ["reassembly_network1", "reassembly_network1_progress", "recv_after_all_blocks", "skipping_loop_stalls",
                          "reassembly_network2", "recvFullMsg_spec", "drain_spec", "unsupported_channel",
                          "good_keepalive", "reassembly_network1_keepalive", "reassembly_network2_keepalive",
                          "good_blockfetch", "reassembly_network1_blockfetch", "reassembly_network2_blockfetch",
                          "good_chainsync", "reassembly_network1_chainsync", "reassembly_network2_chainsync",
                          "good_lenCodec", "reassembly_network1_lenCodec"],
    "streams": [{"name": "reasm", "quick": 400, "thorough": 8000, "timeout": 3000}],
    "rule": "a case = one random sequence of 1..8 real protocol messages of one mini-protocol (network1: handshake n2n/n2c, chainsync "
            "header/block content, blockfetch, txsubmission, keepalive, peersharing, local state query, local tx submission, tx monitor; "
            "network2 AnyMessage: handshake, keepalive, chainsync, peersharing, blockfetch, txsubmission, leios-notify, leios-fetch; "
            "payload sizes 0..70000 so that messages span several 65535-byte segments) and several ops replaying its concatenated encoding "
            "under different splits: every split point (streams <= 64 bytes: all 2-way splits over the ops of successive cases), 1-byte "
            "segments, random split sets, empty chunks, one chunk; n1 = network1 ChannelBuffer::recv_full_msg behind a real plexer pair, "
            "n2 = network2 read_full_msgs (random direction bit, other channels interleaved). 2 cases in 80 are big boundary cases: block-fetch streams whose last or "
            "middle message ends exactly at k x 65535 bytes (k = 1, 2), one byte before or after, cut into 65535-byte segments as "
            "send_msg_chunks / into_chunks do, for both stacks; a recv that is still pending after everything sent has been demuxed is "
            "reported as a stall. 1 in 8 ops is malformed (an ill-formed byte "
            "0xff / 0x1c injected at a message boundary, or the stream truncated). keep-alive, block-fetch and chain-sync-header cases additionally carry kenc/kdec, bfenc/bfdec and csenc/csdec "
            "ops (the codec models against the real decoders of both stacks on valid, truncated, extended, every head width, "
            "indefinite strings, other tags, wrong types and random bytes). distinct = sha1 of op text; non-trivial = the case "
            "replays a stream of >= 2 messages under >= 2 different splits of which one cuts inside a message",
    "trusted_base": [
        "Model/Reassembly.lean is a hand transcription of try_decode_message / recv_full_msg (network1) and try_decode_msg / "
        "from_payload dispatch / read_full_msgs (network2), generic in the decoder; tie = stream `reasm`: the real receive paths fed "
        "with real protocol messages under the given split, against the model instantiated with a `one well-formed CBOR item` decoder "
        "(messages compared as bytes, end state done/blocked/error, network2 partial-buffer sizes per channel)",
        "the harness oracle states the property directly: received messages re-encode to exactly the sent encodings, in order, no "
        "error, no blocked call, no bytes left in any partial buffer",
    ],
    "assumptions": [
        "Good dec enc (round trip + no look-ahead, proper prefix => end-of-input, non-empty encodings, empty buffer => end-of-input) "
        "is a hypothesis of the generic theorems; it is proved for the keep-alive, block-fetch and node-to-node chain-sync codecs of both stacks "
        "(good_keepalive, good_blockfetch, good_chainsync, over a model of minicbor's array()/u8()/u16()/u64()/tag()/bytes()/Vec "
        "decoding tied by the kdec/bfdec/csdec ops); for the other "
        "pallas message decoders it is NOT proved here (C22's "
        "schema layer) and only sampled by replaying real messages at every split",
        "chunks reach recv_full_msg in order, exactly once (C20)",
    ],
    "explanation": "The unchanged tree violated the property in two decoders (both reproduced by this check first, then repaired by `fix:` "
                   "commits, pinned suite re-run): txmonitor ResponseNextTx looked at the bytes after the message (wrong message at a segment "
                   "boundary after the label, or when another message followed in the same buffer); localtxsubmission took end-of-input on an "
                   "empty buffer (zero-length segment) for a plain-string rejection. Minimized inputs are in corpus/C21 and replayed on every "
                   "run. Not generated, because pallas cannot send and receive them (C22 deviations owned by other properties): PeerAddress::V6 "
                   "(array(8) header with 6 items), localtxsubmission RejectTx (encoder/decoder disagree), n2n VersionData with exactly one of "
                   "peer_sharing/query set. Self-tests run: try_decode_message dropping the bytes after a decoded message (caught: "
                   "reassembly-network1 VIOLATION for every protocol, concrete replays); try_decode_message treating every error as "
                   "need-more (caught as model/implementation disagreement on the malformed ops: impl blocks, model errors; replay = the "
                   "shrunk case); drain(0..pos) -> split_off (quiet). `blocked` is decided without a clock (FIFO marker chunk). "
                   "A thorough run on the integrated tree found a model infidelity (not a code defect): on a buffer that does not start "
                   "with an array head the local-tx-submission decoder tries the whole buffer as UTF-8 text (the node's plain-string "
                   "rejection) and returns RejectTx; the stream's decoder for that protocol (ltxDec) now transcribes this, the case is in "
                   "corpus/C21/reasm-localtxsubmission-plain-string.ops.",
}
