SPEC = {
    "id": "C25",
    "level": "proof",
    "lean_modules": ["PallasVerif.Props.C25"],
    "required_theorems": ["accept_sound_stack1", "disjoint_refuses_stack1", "order_independent_stack1",
                          "accept_sound_stack2", "disjoint_refuses_stack2", "order_independent_stack2", "stack2_never_panics",
                          "refusals_sound_stack1", "refusals_sound_stack2", "highest_common_decides_stack1",
                          "highest_common_decides_stack2", "magic_high_bits_refused_stack2"],
    "streams": [{"name": "negotiate", "quick": 600, "thorough": 30000}],
    "rule": "one negotiation per case, alternating the two stacks: version tables of 0..16 entries each; version numbers from "
            "overlapping / identical / disjoint / boundary pools over the full u64 range, including numbers that collide under u8/u16/u32 "
            "narrowing (13, 13+2^8, 13+2^16, 13+2^32, 13|2^63 side by side and across the two tables); version data = (magic u64, "
            "initiator-only, peer sharing Option<u8>, query Option<bool>), magics from {mainnet, 1, 2, testnet, 0, 4, u32::MAX, u64::MAX} and "
            "their collisions m+2^8, m+2^16, m+2^32, m^2^63, m+j*2^32; 2/3 of the cases make the common versions agree completely, 1/3 then "
            "spoil only the highest common one in a single field (half of these: a magic equal to ours in the low 8/16/32/63 bits and "
            "different above); distinct = sha1 of the op text; non-trivial = the two tables share at least one version number",
    "trusted_base": [
        "Model/Negotiate.lean: hand transcription of handshake::Server::handshake (pallas-network) and "
        "HandshakeResponder::try_accept_handshake (pallas-network2) over association lists; tie = stream `negotiate` (Tie B): the real "
        "server agent over a real multiplexer (peer writes Propose, reply read off the wire, return value compared with it) and the real "
        "HandshakeResponder through ResponderState::apply_msg + visit_inbound_msg; both put the tables into real HashMaps whose "
        "iteration order differs from the order the model sees",
    ],
    "assumptions": [
        "HashMap<u64, D> = association list with unique keys in an unspecified order (order independence is proved, not assumed)",
        "`sort_by_key(Reverse)` is modelled by Lean's stable mergeSort; `max_by_key` returns the last maximum (std documentation)",
        "stack 1 compares whole version data (equal data implies equal magic); the theorem is stated for every projection `magic`",
        "version numbers and magics are u64 in the code and unbounded naturals compared by equality in the model (no narrowing); the "
        "stream draws them from the whole u64 range incl. values that collide under 8/16/32-bit truncation, and Props/C25 has 64-bit witnesses",
    ],
    "explanation": "Self-tests in the pallas worktree: (1) network1 `sort_by_key(|v| v.0)` (ascending): stream negotiate reports "
                   "neg1-accept-not-highest -> exit 1 with replay; (2) network2 `.min_by_key`: neg2-accept-not-highest; (3) harmless: "
                   "`sort_by(|a, b| b.0.cmp(&a.0))`: quiet.",
}
