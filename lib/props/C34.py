SPEC = {
    "id": "C34",
    "level": "proof",
    "lean_modules": ["PallasVerif.Props.C34", "PallasVerif.Proofs.Value"],
    "required_theorems": ["one_way_inclusion_is_unsound", "preservation_sound", "preservation_sound_shelleyMA", "preservation_sound_conway", "byron_fees_sound",
                          "mergePolicies_tot", "tot_eq_of_equal"],
    "streams": [{"name": "value", "quick": 400, "thorough": 20000}],
    "rule": "a case = 2-5 `pv` ops, half of them repeated as `pvw` = the same scenario as a correctly signed whole transaction (own keys, "
            "native-script minting policies, fixtures::synth) through validate_txs; pv = (check_preservation_of_value of one of shelley/allegra/mary/alonzo/babbage/conway through verif_hooks on a "
            "synthesized body + UTxO: 1-3 spent values, 1-2 produced values, fee, optional mint; 14% name / policy asymmetries around an exactly balanced transaction (an asset name on the produced side only / on the consumed side only under a policy both sides hold, the same name under another policy, a name swapped, a zero-quantity entry on one side); 14% burns around what the spent inputs hold (exactly, one past, twice, far beyond; the asset in one input or spread over every input, one or two policies, optionally next to a fresh mint of another asset of the same policy) with outputs that carry the exact rest or, for an over-burnt asset, what a clamping (0) / sign-dropping (|difference|) / wrapping (2^64 - n) / ignoring implementation would produce; 40% 'related' scenarios whose outputs "
            "balance inputs+mint-fee exactly and are then perturbed by one unit / one asset half of the time, 11% sums crossing 2^63/2^64 "
            "in either input order, 11% burns of assets no input holds balanced by an output of 2^64-n, 10% boundary-weighted junk) + a "
            "Byron check_fees op half of the time (outputs at, below and above inputs - min fee; a quarter of them with redeem-only inputs); the oracle recomputes every balance "
            "with 128-bit integers; distinct = sha1 of op text; non-trivial = the case has both an accepted and a rejected check",
    "trusted_base": ["Model/Value.lean is a hand transcription of the value arithmetic of utils.rs (add_values, add_minted_value, coerce_*, "
                     "add_multiasset_values, values_are_equal, multi_asset_included and the conway_* family) and of "
                     "check_preservation_of_value / get_consumed / get_produced of the four post-Byron validators and Byron check_fees; "
                     "BTreeMap/HashMap = association lists; tie = stream `value` (verdict class per op)",
                     "the tie is per rule (verif_hooks, `pv`) and through the whole validate_txs (`pvw`: synthesized, correctly signed "
                     "transactions with fee/min-ada/size rules relaxed so that this rule decides the verdict); Byron is per rule only",
                     "harness/src/fixtures (ported test data, Byron address template)"],
    "assumptions": ["sums that do not fit u64/i64 are the NegativeValue-class error (checked_add since the C33 fix), in every build profile",
                    "transactions without certificates, withdrawals, treasury or donation fields (as the property states); Byron redeem-only "
                    "transactions are exempt from the minimum fee (as in the Byron rules) but not from outputs <= inputs",
                    "Conway: spent/produced values and the mint have unique keys (decoded BTreeMaps); Conway Legacy-form outputs are not "
                    "generated (their conversion only adds PositiveCoin unwraps)"],
    "explanation": "Self-tests run: (1) values_are_equal without the coin comparison (`if f != s` dropped) -> VIOLATION "
                   "(value-not-conserved ... ada); (2) the Conway None arm reverted to `i64::from(new) as u64` -> VIOLATION (also from "
                   "corpus/C34); (3) harmless: add_same_policy_assets without the clone (entry API) -> quiet; "
                   "(4) seeded C34-a (Conway burn through saturating_sub: burning more than the inputs hold clamps to 0) -> VIOLATION "
                   "value-not-conserved era=conway asset with-burn with a concrete accepted transaction (inputs 31, mint -62, outputs 0); (5) seeded C34-b (multi_assets_are_equal as policy count + one inclusion) -> VIOLATION value-not-conserved "
                   "... asset no-burn with an accepted transaction whose outputs carry an asset name the inputs lack.",
}
