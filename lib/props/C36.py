SPEC = {
    "id": "C36",
    "level": "proof",
    "lean_modules": ["PallasVerif.Props.C36"],
    "required_theorems": ["validator_size_eq_ledger_size", "fee_boundary_accept", "fee_boundary_reject", "size_boundary_accept",
                          "size_boundary_reject", "accept_iff", "boundary_accept", "boundary_reject_fee", "boundary_reject_size"],
    "streams": [{"name": "feesize", "quick": 300, "thorough": 12000}],
    "rule": "first case: `size` for every post-Byron fixture (validator size, traversal size, serialised length - 1). A generated case = "
            "2-4 `fee` ops (a fixture through validate_txs with minfee_a/minfee_b re-priced so that fee - min is 0, -1, +1, +-random and "
            "max_transaction_size = size, size-1, size+1, original, random) + `minfee`/`maxsize` ops (the rule hooks on arbitrary "
            "size/coefficients incl. u32 overflow); distinct = sha1 of op text; non-trivial = the case has both an accepted and a "
            "rejected check (the `size` case always)",
    "trusted_base": ["Model/FeeSize.lean is a hand transcription of MultiEraTx::size (size.rs), get_*_tx_size (utils.rs), check_min_fee / "
                     "check_fees, check_tx_size and the rule order of each validate_*_tx; tie = stream `feesize` (sizes and verdict "
                     "class per op, whole-transaction and per rule)",
                     "`ledgerSize` in Props/C36.lean is stated from the CDDL (array head + body + witness set + aux|null); the harness "
                     "oracle measures it independently as len(serialised tx) - 1",
                     "harness/src/fixtures (ported test data)"],
    "assumptions": ["the transaction is a definite-length 3/4-element array (1-byte head), as every fixture and every on-chain tx is",
                    "size < 2^32; the minimum fee is computed in u64 from u32 operands (C33 fix) and always fits (fee_formula_fits)"],
    "explanation": "Self-tests run: (1) `+ 1` reintroduced in get_conway_tx_size -> VIOLATION (validator-size-not-ledger-size era=conway / "
                   "rejects-at-ledger-boundary); (2) check_tx_size `>` turned into `>=` in babbage.rs -> VIOLATION; (3) harmless: "
                   "check_min_fee comparison rewritten as `min > fee` -> quiet.",
}
