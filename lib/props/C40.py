SPEC = {
    "id": "C40",
    "level": "proof",
    "lean_modules": ["PallasVerif.Props.C40"],
    "required_theorems": ["build_no_panic", "build_inputs_canonical", "build_redeemers_point_at_targets",
                          "mint_policies_ascending", "build_mint_content", "build_mint_no_zero", "mint_asset_accumulates",
                          "build_outputs_content", "build_content", "build_id_is_hash_of_body_span"],
    "streams": [{"name": "txbuild", "quick": 500, "thorough": 20000}],
    "rule": "a case = 4..90 staging calls (add/remove inputs from a pool of 5 tx hashes x boundary indexes incl. repeats, reference "
            "and collateral inputs, outputs with 0..4 assets incl. quantity 0 / 2^63 / 2^64-1 and 33-byte names, datum hash / "
            "inline datum / script refs, remove_output, fee, mint/burn with cancelling and extreme amounts, remove_mint_asset, "
            "validity bounds, network id incl. invalid, signers, scripts, witness datums, language views, spend/mint redeemers "
            "with and without ex-units / decodable data / existing target, aux data, collateral return) with `build` interleaved "
            "and at the end; distinct = sha1 of op text; non-trivial = a build succeeded and (a built redeemer has index > 0, "
            "or the case staged a duplicate input and a mint that cancelled to zero)",
    "trusted_base": [
        "Model/TxBuild.lean is a hand transcription of the StagingTransaction builder methods and build_conway_raw / "
        "build_babbage_raw (HashMap as association list, Hash<N> as the big-endian number, sort as insertion sort, `?` as bind, "
        "arithmetic overflow / Vec::remove / unwrap as explicit panic outcomes); tie = stream `txbuild`: reply of every staging "
        "call and, for every build, the canonical rendering of the *decoded* built transaction (all fields named by the property) "
        "compared with the model's BuiltTx",
        "not modelled, only sampled by that stream: CBOR encoding of conway::Tx and its decoding, whether a caller payload decodes "
        "(a bit on the op line computed with the pallas decoders), the Blake2b hashes that key scripts/datums (token on the op "
        "line, checked against pallas-crypto by the harness), values of script_data_hash / auxiliary_data_hash (presence in the "
        "model; the harness recomputes the aux hash)",
        "id clause: theorem build_id_is_hash_of_body_span is about a parameterised hash and encoder (Lean BLAKE2b is another "
        "engineer's module); on the implementation the harness recomputes Blake2b-256 (pallas-crypto) over the body bytes it "
        "slices out of tx_bytes with minicbor positions and compares with tx_hash on every successful build",
    ],
    "assumptions": [
        "HashMap iteration order is unspecified: witness-set scripts, datums and redeemers are compared as sorted lists, and the "
        "three error classes of the redeemer loop (target missing, ex-units missing, undecodable redeemer data) reply alike",
        "a zero-quantity asset (staged directly or by cancelling mints) is read as 'absent': the property's 'mint/outputs are the "
        "staged ones' is checked modulo zero entries, which Conway cannot represent (NonZeroInt / PositiveCoin)",
        "panics of *staging* calls (u64/i64 `+=` overflow in add_asset/mint_asset under overflow checks, remove_output out of "
        "range) are modelled as panic outcomes and compared, but are not counted against C40, whose no-panic clause is about build",
    ],
    "explanation": "Deviation #25 of DESIGN §6 was reproduced by this check on the unchanged tree (panic build cause=zero-mint-quantity, "
                   "cause=zero-output-asset, cause=redeemer-without-ex-units; inputs-not-the-canonical-set kind=duplicate; "
                   "redeemer-pointer purpose=spend), then repaired by three `fix:` commits in pallas-txbuilder; the model is the "
                   "repaired code. corpus/C40/txbuild-sec6-25.ops keeps the witnesses. Self-tests run: (1) mint policies sorted in reverse before indexing (sort_unstable_by_key(Reverse)) -> exit 1, VIOLATION redeemer-pointer purpose=mint with a 4-op replay; (2) sort_unstable_by_key -> sort_by_key / sort() -> quiet.",
}
