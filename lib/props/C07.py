SPEC = {
    "id": "C07",
    "level": "proof",
    "lean_modules": ["PallasVerif.Props.C07"],
    "required_theorems": ["cmp_total", "cmp_refl", "cmp_swap", "cmp_trans", "cmp_le_trans", "cmp_eq_congr",
                          "bigint_cmp_is_compare_rank", "eq_ignores_def_indef", "cmp_ignores_def_indef",
                          "chunks_join", "chunks_shape", "bytes_encoding", "encode_single_item",
                          "pdata_roundtrip", "pdata_roundtrip_exact", "decoder_refines_tree",
                          "pdata_roundtrip_bytes", "pdata_roundtrip_bytes_exact", "bytes_any_chunking",
                          "decoded_in_quantifier", "decoded_cmp_total", "decode_reencode_stable"],
    "streams": [{"name": "pdata", "quick": 1500, "thorough": 60000}],
    "rule": "a case = three related PlutusData values (depth 0..4, width 0..3; tags 121..127, 1280..1400, 102 with any_constructor; "
            "Int / BigUInt / BigNInt incl. leading zeros, -0 and magnitudes around 2^64; byte strings of 0,1,2,31,32,63..66,127..129,192,193 "
            "and random 0..260 bytes): all 9 ordered comparisons, encode+decode of each, decode of an alternative valid encoding of each "
            "(non-minimal heads, arbitrary chunking), one malformed/truncated input, every 4th case a tag-102 input with an unchecked inner "
            "array head (0,1,2,3,23 elements, wide heads, indefinite, trailing junk, nested in array/map); plus max(4, cases/50) cases with constructor tags "
            "outside the quantifier (0,2,3,5,101,103,120,128,1279,1401,2^64-1, 102 without any_constructor) where only impl-vs-model "
            "agreement (incl. the panic outcome) is compared; distinct = sha1 of op text; non-trivial = the case "
            "contains a comparison that is `eq` between textually different values AND a strict (`lt`/`gt`) comparison",
    "trusted_base": ["Model/PlutusData.lean is a hand transcription of pallas-primitives/src/plutus_data.rs (the three Ord impls, "
                     "constr_index with its two panic sites, Encode/Decode of PlutusData, BigInt, Constr, BoundedBytes, and of "
                     "MaybeIndefArray / KeyValuePairs from pallas-codec); tie = stream `pdata` (comparison outcome incl. panic, "
                     "encoded bytes, decoded value compared on every op)",
                     "Model/PlutusDataDec.lean transcribes the Decode impls of PlutusData / BigInt / Constr / BoundedBytes / MaybeIndefArray / "
                     "KeyValuePairs together with the minicbor 0.26.5 Decoder primitives they call (datatype incl. its peek, tag, probe, int, "
                     "u64, bytes, bytes_iter, array, map, array_iter_with, map_iter_with) at byte level, leniencies included (tag 102: any "
                     "array head, break not consumed); it is the decoder the stream compares with the Rust on values, alternative valid "
                     "encodings, malformed/truncated input and tag-102 leniency inputs; minicbor's error classes are collapsed to `err`"],
    "assumptions": ["values satisfy wfTag (every Constr tag in 121..127, 1280..1400, or 102 with any_constructor present); elsewhere "
                    "Constr::constr_index panics and cmp/== is undefined (proved: cmp_panics_on_invalid_tag, "
                    "cmp_panics_on_missing_any_constructor; DESIGN §6 #7, outside the property's quantifier)"],
    "explanation": "Order laws are proved for all values (mutual structural induction, any depth/width); the harness oracle checks "
                   "reflexivity/antisymmetry/transitivity on every triple of each case on the real impl, equality up to def/indef by an "
                   "independent structural comparison, round trip structurally, and the 64-byte chunk shape by an independent CBOR walker. "
                   "Self-tests run (pallas worktree edits, reverted): BigInt::cmp without `.reverse()` for two negatives -> VIOLATION "
                   "order-transitive (-0 < -1 < +0 = -0); CHUNK_SIZE 32 -> VIOLATION chunking; decoder tag range 1280..=1399 -> VIOLATION "
                   "roundtrip-decode-error; refactor skip_while -> position+slice in to_bytes -> quiet.",
}
