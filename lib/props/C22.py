from lib import translate_msglabels


def _labels(repo, lean_root):
    translate_msglabels.translate(repo, lean_root)


SPEC = {
    "id": "C22",
    "level": "proof",
    "lean_modules": ["PallasVerif.Props.C22"],
    "required_theorems": [
        "handshake_n2n", "handshake_n2c", "chainsync_headers", "chainsync_blocks", "chainsync_skipped", "blockfetch",
        "txsubmission", "keepalive", "peersharing_n1", "peersharing_n2", "txmonitor", "localstate", "localtxsubmission_envelope", "localtxsubmission_partial",
        "localmsgsubmission", "localmsgnotification", "leiosnotify", "leiosfetch", "declared_len_matches",
        "labels_match_sources", "translator_no_unknowns", "translator_found_all", "okAny_ok", "anycbor_invalid_utf8_is_rejected",
    ],
    "translators": [_labels],
    "streams": [{"name": "msgs", "quick": 1200, "thorough": 60000}],
    "rule": "one case = one generated message (every variant of every protocol of both stacks in turn: 25 protocol instances, "
            "157 (protocol, variant) pairs; boundary-weighted integers, byte strings of length 0/23/24/255/256, lists of 0/1/23/24/25 "
            "elements, random well-formed AnyCbor payloads with non-minimal heads and indefinite containers) as ops `enc` (text -> bytes), "
            "`single` (strict parser on the implementation's bytes), `dec` (bytes -> text); distinct = sha1 of the op text; "
            "non-trivial = the message carries at least one field (not a bare label)",
    "trusted_base": [
        "Model/NetCodec.lean: hand transcription of the minicbor 0.26.5 Decoder primitives (u8..u64, bool, bytes, str, array, map, tag, "
        "datatype, skip, Vec/Option/tuple/BTreeMap decoding) and of the Encoder's minimal heads; Model/NetMsg.lean: hand transcription "
        "of every message encoder/decoder of pallas-network and pallas-network2",
        "tie A: lib/translate_msglabels.py (regex + brace matching over the Encode impls) regenerates Gen/MsgLabels.lean on every run; "
        "tie B: stream `msgs` compares bytes, strict-parser verdict and decoded value of the real codecs with the model",
        "harness/src/fixtures/netmsg.rs: text form of messages, independent strict CBOR reader used as oracle",
    ],
    "assumptions": [
        "message fields are within the ranges of their Rust types and in a representable combination (valid predicates of Model/NetMsg.lean)",
        "opaque AnyCbor payloads are exactly one well-formed item whose text strings are UTF-8 (Decoder::skip, on which AnyCbor::decode "
        "relies, is proved exact on every such item, indefinite containers included, and rejects non-UTF-8 text)",
        "text fields are valid UTF-8 (Rust String); tx-monitor ResponseNextTx(None) is decoded from a buffer that ends with the message",
    ],
    "explanation": "WF + RT + declared lengths are Lean theorems over all message values (Props/C22.lean); the stream ties the model "
                   "to the code. Self-tests run: blockfetch RequestRange array(3)->array(2) (caught: labels_match_sources + "
                   "not-single-item VIOLATION with replay), chainsync Tip encodes block number as u32 cast (caught by correspondence + "
                   "roundtrip oracle), refactor `e.array(3)?.u16(0)?` split into two statements (quiet).",
}
