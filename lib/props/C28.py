from lib import p2p_twopass, translate_fsm

p2p_twopass.enable("p2p_sched")

SPEC = {
    "id": "C28",
    "level": "proof",
    "lean_modules": ["PallasVerif.Props.C28"],
    "required_theorems": ["initiator_conformant_fails_at_witness", "initiator_conformant_partial", "initiator_conformant_delayed", "emitOK_complement", "inDomain_of_check",
                          "emit_permitted_by_own_view",
                          "lockstep_is_schedule", "lockstep_run_is_schedule"],
    "translators": [translate_fsm.translate_n2],
    "streams": [{"name": "p2p_sched", "quick": 800, "thorough": 25000}],
    "rule": "schedules (10..300 steps, 1..3 peers) of commands (hk/idle, include, startsync, continuesync, reqblocks, fetcheb, "
            "ban/demote) interleaved with connect / confirm (Sent) / arrive / reply (7 protocols, 1..4 reply choices) / deliver "
            "(batches of 1..3) / drop / fail steps against a specification-conformant simulated responder; two thirds of the "
            "cases stay inside the theorem's domain (Sends confirmed at once, or only after they reached the responder and were perhaps "
            "answered), one third delay confirmations arbitrarily; distinct = sha1 of op text; non-trivial = at least five Sends were emitted to live connections and at "
            "least one responder reply was delivered",
    "trusted_base": [
        "lib/translate_fsm.py (Tie A, shared with C24): Gen/FsmN2.lean is regenerated from pallas-network2/src/protocol/* on every "
        "run; Proofs/P2PProtoTie.lean proves the eight `apply` machines of Model/P2PProto.lean equal to it (acceptance + successor class)",
        "Model/P2PNet.lean: specification tables (DESIGN App. A) + abstract connection/responder, composed with the initiator "
        "model of C27/C29; tie = stream `p2p_sched`: harness and Lean driver interpret the same abstract schedule, the harness "
        "against the real InitiatorBehavior with its own Rust copy of the connection/responder simulation and of the spec tables",
        "two-pass correspondence (lib/p2p_twopass.py) for the hash-map iteration order of housekeeping",
    ],
    "assumptions": [
        "real TCP timing is abstracted into the schedule space (any interleaving of confirm/arrive/reply/deliver per connection, "
        "FIFO per direction); Sent/Recv are only produced for live connections; Disconnected is delivered when the connection is dropped",
        "the simulated responder never emits on tx-submission (the initiator never sends Init)",
        "partial: initiator_conformant_delayed covers every schedule of the general semantics in which (a) no Send of protocol X is queued "
        "for a connection with an unconfirmed Send of X (the complement is the known finding, emitOK_complement) and (b) no reply of "
        "protocol X is delivered while the X request is unconfirmed; schedules violating (b) are sampled only",
    ],
    "explanation": "every reply line carries `dom0/dom1` = whether all steps so far satisfy the side conditions of initiator_conformant_delayed, computed by Model/P2PDomain.lean on the model side and independently by the harness (compared like any other reply field); a violation observed while still in the domain is keyed `nonconformant-in-domain` and never matches the known finding. self-tests on the pallas worktree (reverted afterwards): chainsync visit_tagged without the is_idle guard -> "
                   "VIOLATION (nonconformant cs.reqnext in-state-A, replay of 14 steps); "
                   "keepalive guard inverted -> VIOLATION; logging / let-else refactor of blockfetch peer_is_available -> quiet.",
}
