SPEC = {
    "id": "C04",
    "level": "proof",
    "lean_modules": ["PallasVerif.Props.C04"],
    "required_theorems": [
        "positiveCoin_decoded_nonzero", "nonZeroInt_decoded_nonzero", "decoded_satisfies_checked_constructor",
        "zero_encodings_rejected", "nonzero_encodings_accepted", "value_quantities_nonzero", "mint_quantities_nonzero", "donation_nonzero", "positiveCoin_accepts_only_uint_heads", "nonZeroInt_accepts_only_int_heads",
    ],
    "streams": [{"name": "numwrap", "quick": 1500, "thorough": 150000}],
    "rule": "1..4 ops per case over {pcoin, nzi, value, mint, donation <hex>, try_pcoin, try_nzi <n>}; integers boundary-weighted "
            "(0, 1, 2, 23, 24, 255, 65536, 2^63-1, 2^64-1, +-), every head width that can carry the value, 1 in 10 as an RFC 8949 bignum (tag 2/3 + empty/minimal/zero-padded bytes); Value/Mint with 0..2 "
            "policies x 0..2 assets, definite or indefinite outer map, duplicate policy ids / asset names, zero quantities in ~1/4 "
            "of the positions; donation spliced into a real conway::TransactionBody; non-trivial = the case has both an accepted "
            "non-zero quantity and an encoding rejected with the message class. distinct = sha1 of op text.",
    "trusted_base": [
        "Model/CborWrappers.lean (PositiveCoin.dec / NonZeroInt.dec, transcribed from utils.rs after the fix) and Model/ConwayValue.lean "
        "(conway::Value via codec_by_datatype!, Multiasset via minicbor's BTreeMap decoder, Hash<28>); tie = stream `numwrap` "
        "(decoded quantities in BTreeMap order, error class compared)",
        "the donation field is modelled as the field's own decode call (Option<PositiveCoin>); the surrounding derive(Decode) of "
        "TransactionBody is exercised by the harness (real TransactionBody decode) but not modelled",
    ],
    "assumptions": ["Model/Minicbor.lean agrees with minicbor 0.26.5 (validated by stream `minicbor`, see C03)"],
    "explanation": "self-tests run on the pallas worktree (then reverted): (break) NonZeroInt::decode without the zero check -> exit 1, VIOLATION replay "
                   "numwrap-viol-zero-accepted wrapper=NonZeroInt site=direct; (harmless) other error message texts for both wrappers -> exit 0, quiet; "
                   "unchanged tree -> exit 0.",
}
