SPEC = {
    "id": "C02",
    "level": "proof",
    "lean_modules": ["PallasVerif.Props.C02"],
    "required_theorems": ["dec_total", "dec_total_single", "call_safe", "pos_le_len", "decode_list_with_total", "decode_top_total",
                          "orig_bool_panics", "orig_word_panics", "orig_bits8_zero_panics"],
    "streams": [{"name": "flatdec", "quick": 1500, "thorough": 40000}],
    "rule": "a case loads a byte string (all strings of length <= 1 in quick / <= 2 in thorough exhaustively, runs of 0xff/0x80, "
            "truncated or bit-flipped valid encodings, damaged block lists, UTF-8 edge material, random <= 64 bytes) and calls public "
            "decoder entry points on one Decoder (every entry point at a chosen bit offset, or a random call sequence of 1..10 calls); "
            "distinct = sha1 of the op text; non-trivial = at least one call returned a value and at least one returned an error",
    "trusted_base": ["Model/Flat.lean is a hand transcription of pallas-codec/src/flat/decode/decoder.rs (after the three fix: commits) with "
                     "every trap site (index, slice, shift >= width, usize subtraction, loop fuel) as an explicit panic outcome; tie = stream "
                     "`flatdec` (value / error class / pos / used_bits compared after every call, real code run under catch_unwind in the "
                     "dev profile, overflow checks on)"],
    "assumptions": ["usize/isize additions on pos/len-sized quantities are computed in Nat/Int in the model: every such quantity is "
                    "bounded by 8*len+8, so they cannot wrap for buffers below 2^60 bytes",
                    "String::from_utf8 and char::from_u32 (std) are modelled at their documented semantics (they do not panic)"],
}
