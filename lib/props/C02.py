from lib import flat_sites

SPEC = {
    "id": "C02",
    "abort_is_violation": True,  # the property is totality: a process abort / hang of the real code on a case is a violation
    "level": "proof",
    "lean_modules": ["PallasVerif.Props.C02"],
    "required_theorems": ["dec_total", "dec_total_single", "call_safe", "pos_le_len", "decode_list_with_total", "decode_top_total", "arith_sites_in_range",
                          "orig_bool_panics", "orig_word_panics", "orig_bits8_zero_panics"],
    "streams": [{"name": "flatdec", "quick": 2000, "thorough": 60000}],
    "extra": flat_sites.extra,
    "rule": "a case loads a byte string (all strings of length <= 1 in quick / <= 2 in thorough exhaustively, runs of 0xff/0x80, "
            "truncated or bit-flipped valid encodings, damaged block lists, UTF-8 edge material, random <= 64 bytes) and calls public "
            "decoder entry points on one Decoder (every entry point at a chosen bit offset, or a random call sequence of 1..10 calls); "
            "distinct = sha1 of the op text; non-trivial = at least one call returned a value and at least one returned an error",
    "trusted_base": ["Model/Flat.lean is a hand transcription of pallas-codec/src/flat/decode/decoder.rs (after the three fix: commits) with "
                     "every trap site (index, slice, shift >= width, usize subtraction, loop fuel) as an explicit panic outcome; tie = stream "
                     "`flatdec` (value / error class / pos / used_bits compared after every call, real code run under catch_unwind in the "
                     "dev profile, overflow checks on)"],
    "explanation": "Unchanged tree: the check reported VIOLATION dec-panic-bool / -bits / -bools / -word / -int / -char / -string with replays (load - ; d.bool | load 00 ; d.bits 0 | load ff x11 ; d.word ...), repaired by three fix: commits (pinned suite 707/707). Self-tests on scratch edits (reverted): (1) bits8 without ensure_bits: exit 1, VIOLATION dec-panic-u8 (load - ; d.u8) and five more keys; (2) the shift check of word removed again: exit 1, VIOLATION dec-panic-word (eleven 0xff); (3) harmless: ensure_bytes / ensure_bits definitions reordered: exit 0, 1773/1773 agree.",
    "assumptions": ["usize/isize additions on pos/len-sized quantities are computed in Nat/Int in the model: every such quantity is "
                    "bounded by 8*len+8, so they cannot wrap for buffers below 2^60 bytes",
                    "String::from_utf8 and char::from_u32 (std) are modelled at their documented semantics (they do not panic)"],
}
