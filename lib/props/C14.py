SPEC = {
    "id": "C14",
    "level": "proof",
    "lean_modules": ["PallasVerif.Props.C14"],
    "required_theorems": ["mask_cases", "final_cases", "no_overflow_cases", "step_spec", "acc_eq_firstDiff",
                          "memcmp_eq_lex", "memeq_iff", "empty_panics", "acc_in_table"],
    "streams": [{"name": "memsec", "quick": 300, "thorough": 20000}],
    "rule": "case 0 = the two length-0 panics + 256 `sweep` ops = all 2^16 pairs of length 1; then `sweep` ops over two-byte "
            "strings, each = one `a` against all 2^16 `b` (quick 16 values of `a`, thorough 1024; digest = verdict counts + "
            "order-sensitive checksum, compared with the model; every single pair is also judged by the harness oracle "
            "`==` / `Ord::cmp` on the slices); then `exh2 a0` ops: ALL pairs of length 2 whose first string starts with a0 judged on the implementation by the slice oracle only (quick 4 values of a0 = 2^26 pairs, thorough all 256 = all 2^32 pairs); then five cases of long buffers (65535, 65536, 65537, 65552, 131073 bytes) differing only at index 0 or before len-65536 (a narrowed length counter wraps there); then random pairs of length 1..257 biased to long common prefixes with "
            "adversarial tails. distinct = sha1 of op text; non-trivial = the case contains a strict verdict (lt/gt) and a "
            "pair that differs only after a common prefix",
    "trusted_base": ["Model/Memsec.lean is a hand transcription of memeq/memcmp (i32 = BitVec 32 with arithmetic shift; raw "
                     "pointers + len = two lists); tie = stream `memsec` (verdict per pair; digests over exhaustive sweeps)",
                     "constant-TIME behaviour itself (no data-dependent branch/latency, read_volatile) is not modelled: only the "
                     "functional agreement the property states"],
    "assumptions": ["callers pass pointers valid for `len` bytes (the functions are `unsafe`); the model reads two lists of equal length"],
    "explanation": "self-test (pallas worktree, reverted): `(diff - 1) & !diff` -> `(diff - 1) & diff` and `sum |= xor` -> `sum = xor` "
                   "must give VIOLATION with a concrete pair; reversing the loop direction of memeq must stay quiet",
}
