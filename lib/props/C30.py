SPEC = {
    "id": "C30",
    "level": "proof",
    "lean_modules": ["PallasVerif.Props.C30"],
    "required_theorems": ["txs_spec", "tx_count_eq", "aux_keyed_by_index", "is_valid_iff", "txs_missing_wits",
                          "era_is_wrapper_tag", "era_probe_sound", "variant_table_values", "traverse_bytes", "cloneTxs_length"],
    "streams": [{"name": "traverse", "quick": 240, "thorough": 6000}],
    "rule": "one case = one block (`block <cbor>`: era, tx_count, txs().len()), `probe` on its first 12 bytes, then `tx i` for i = 0..n (corpus, quick: "
            "0, 1, n/2, n-1, n) printing blake2b256 of the body, a fingerprint of the raw witness set and of the raw auxiliary data, and is_valid. "
            "Corpus: every test_data/*.block pallas decodes (conway8.block is its negative fixture; genesis.block is the epoch-boundary block, plus a small synthetic one) and every 300th (thorough: 5th) block of the three immutable-db chunks. Generated: blocks re-assembled "
            "at the CBOR level from corpus headers / (body, witness set) pairs / auxiliary data of the same decoder family, tag 2..5 / 6 / 7 (tag as `07` or "
            "`18 07`, wrapper head `82` or `98 02`, inner array definite or indefinite), 0..6 transactions, aux wire map with 0..k+1 entries on keys 0..k+1 (sparse, repeated, out of range), invalid list absent or 0..3 "
            "indices (repeated, out of range), definite / indefinite arrays and maps, 1/10 with fewer and 1/10 with more witness sets than bodies; single-site encoding mutants (def<->indef incl. empty containers, head widths incl. 8-byte, chunked strings; sites spread evenly and always incl. the last) of small corpus blocks that pallas still decodes; plus "
            "two probe-only cases (15 x 15 head combinations, random short prefixes). distinct = sha1 of op text; non-trivial = block with a sparse aux "
            "map that binds an in-range index, or an invalid list naming an in-range index",
    "trusted_base": ["Model/Traverse.lean is a hand transcription of probe::block_era, clone_tx_fn!, clone_*_txs, tx_count (BTreeMap decode = insert "
                     "in wire order); tie = stream `traverse`: the Lean side splits the same block bytes with the generic CBOR tree "
                     "(Model/TxView.lean viewBlock, no typed decoder) and hashes the body spans with Model/Blake2b.lean",
                     "minicbor's Tokenizer typing of heads (Array(n) for any definite width, U8 for 0x00..=0x18) as read in minicbor 0.26.5"],
    "assumptions": ["|bodies| <= |witness sets| for txs_spec / tx_count_eq (ledger-valid blocks; the complementary behaviour is theorem txs_missing_wits "
                    "and is exercised by the generator)", "|bodies| <= 2^32 (`index as u32`)",
                    "the typed decoders accept the block at all (blocks pallas rejects are outside the property)"],
    "explanation": "self-tests run on a scratch edit of the pallas worktree: clone_tx_fn `x.contains(&(index as u32))` -> `&(index as u32 + 1)` "
                   "(exit 1, VIOLATION, replay traverse-viol-tx-validity); aux lookup `idx.eq(&(index as u32))` -> `idx.eq(&(index as u32 + 1))` caught "
                   "as tx-aux-pairing; `find_map(..)` -> `.find(..).map(..)` (behaviour preserving: quiet, exit 0)",
}
