from lib import p2p_twopass, scan_panics, translate_fsm

p2p_twopass.enable("p2p_events", "p2p_resp")

SPEC = {
    "id": "C29",
    "abort_is_violation": True,  # the property is totality: a process abort / hang of the real code on a case is a violation
    "level": "proof",
    "lean_modules": ["PallasVerif.Props.C29"],
    "required_theorems": ["initiator_no_panic_partial", "responder_no_panic_partial", "initiator_panic_only_overflow", "discovery_subtraction_needs_guard",
                          "full_statement_fails", "all_sites_discharged", "protocol_machines_match_source"],
    "translators": [scan_panics.scan_p2p, translate_fsm.translate_n2],
    "streams": [{"name": "p2p_events", "quick": 500, "thorough": 15000},
                {"name": "p2p_resp", "quick": 500, "thorough": 15000}],
    "rule": "discovery-pool family (1..3 handshaked peers asked in one round answer with 0..300 addresses, distinct or overlapping, more than asked included, limits max_peers k..k+6), counter families (limits exceeded by 8 peers, error storms around max_error_count, request queues longer than the peer set, responder connection storms per host around max_connections_per_ip) and event sequences (5..300 events, 2..12 peers) for InitiatorBehavior (stream p2p_events) and ResponderBehavior "
            "(p2p_resp): connected/disconnected/error in any order, Recv batches and Sent confirmations drawn from 41/44 message "
            "shapes of all eight mini-protocols (mostly violations in the current state), housekeeping/idle, every command; "
            "distinct = sha1 of op text; non-trivial = at least one peer completed a handshake and at least one peer was "
            "flagged with a protocol violation in the same case",
    "trusted_base": [
        "lib/translate_fsm.py (Tie A, shared with C24): Gen/FsmN2.lean is regenerated from pallas-network2/src/protocol/* on every "
        "run; Proofs/P2PProtoTie.lean proves the eight `apply` machines of Model/P2PProto.lean equal to it (acceptance + successor class)",
        "Model/P2PInitiator.lean, Model/P2PResponder.lean, Model/P2PProto.lean: hand transcriptions of pallas-network2 "
        "behavior/{initiator,responder}/* and protocol/*::State::apply; tie = streams p2p_events / p2p_resp (outputs and full "
        "per-peer state compared after every event; a panic of the implementation is caught per event)",
        "lib/scan_panics.py: syntactic panic-site inventory (unwrap/expect/panic-family macros/assert/indexing/integer "
        "operators/unknown macros) of behavior/initiator/*.rs and behavior/responder/*.rs, regenerated on every run into "
        "Gen/PanicSitesP2P.lean; Props/C29.lean proves by `decide` that every site has a discharge entry carrying a proved claim",
        "two-pass correspondence (lib/p2p_twopass.py) for the hash-map iteration order of housekeeping",
    ],
    "assumptions": [
        "partial: histories shorter than 2^32 events (error_count: u32 and two usize counters are incremented unchecked; "
        "full_statement_fails proves the unbounded statement false on the model)",
        "panics inside dependencies (opentelemetry, futures, tracing, std collections/allocation) are outside the model",
        "behavior/mod.rs (AnyMessage::payload `to_vec(..).unwrap()`, used by the interface when sending) is outside the anchored files",
    ],
    "explanation": "seeded C29-a (needs_more_peers rewritten as an unchecked remaining_capacity() > 0): VIOLATION `panic initiator hk` with an 8-event replay (one peer answers ShareRequest(100) with 150 addresses, next housekeeping panics) in addition to the inventory break. self-tests on the pallas worktree (reverted afterwards): responder try_accept_handshake without the "
                   "contains_key filter -> VIOLATION (panic responder recv hs.propose); assert! restored in propose_handshake -> "
                   "VIOLATION (panic initiator connected + new inventory site); check_confirmation early-return rewritten as "
                   "if-let, keepalive try_respond reordered -> quiet.",
}
