SPEC = {
    "id": "C08",
    "level": "proof",
    "lean_modules": ["PallasVerif.Props.C08"],
    "required_theorems": ["views_canonical", "views_keys_complete", "views_invariant_of_collect", "views_order",
                          "views_plutus_order", "v1_entry_quirk", "views_single_item", "hash_formula", "no_hash_iff", "build_keeps_inputs",
                          "datum_only_has_empty_views", "ws_hash_formula", "txbuilder_hash_formula"],
    "streams": [{"name": "scriptdata", "quick": 1000, "thorough": 20000}],
    "rule": "5 real transactions (witness set bytes + on-chain script_data_hash), the 8 subsets of {V1,V2,V3}, then per case: a language "
            "view map (60% subsets of {0,1,2}, else ids from {0,1,2,3,4,22,23,24,25,100,254,255}; cost vectors of 0,1,23,24,166,255..257 or "
            "0..11 coefficients incl. negative, > 2^32, i64::MIN/MAX), redeemers as list or map (0..3 entries, PlutusData depth 0..2, edgy "
            "u32/u64), datums none / built set / raw on-chain bytes (optional tag 258, definite or indefinite), one `hash`, one `build` on a "
            "generated witness set (fields 0,4,5,6 in any order, definite or indefinite map; every 4th case with redeemer bytes pallas "
            "would not write itself: indefinite list, 8-byte heads, unsorted / indefinite map), sometimes a truncated witness set; every 3rd "
            "case a pallas-txbuilder build (1..3 inputs, optional spend redeemer, optional witness datum, the case's language views) "
            "whose body hash is checked against the formula over the witness set it emitted; "
            "distinct = sha1 of op text; non-trivial = the case hashes something AND encodes a language view map with >= 2 languages "
            "(or is a real transaction)",
    "trusted_base": ["Model/ScriptData.lean is a hand transcription of pallas-primitives/src/conway/script_data.rs and of the derived "
                     "encoders of Redeemers / Redeemer / RedeemersKey / RedeemersValue / ExUnits; Lean is an independent implementation "
                     "(own CBOR writer, own BLAKE2b from Model/Blake2b.lean); tie = stream `scriptdata` (bytes of the language views and "
                     "redeemers, digests of hash / build_for compared on every op)",
                     "witness-set decoding (minicbor derive) is not modelled: the model locates keys 4 and 5 with the strict L1 parser",
                     "pallas-txbuilder: only the script_data_hash computation of build_conway_raw is modelled (txBuilderHashOf), for at most "
                     "one redeemer and one datum (its HashMap iteration order is not deterministic beyond that)"],
    "assumptions": ["language ids are u8 and the map is a BTreeMap (keys strictly ascending; proved to hold for every collected value)",
                    "witness sets given to `build` decode as conway::WitnessSet (the generator builds valid ones; truncated ones must be "
                    "rejected by both sides)"],
    "explanation": "Harness oracle = the ledger formula evaluated independently: BLAKE2b-256 over the ORIGINAL bytes of witness-set "
                   "fields 5 and 4 (located by an independent CBOR walker) and language views written by an independent canonical-CBOR "
                   "writer that sorts keys by (encoded length, bytes); real transactions are also compared with the hash in their body. "
                   "Self-tests run (pallas worktree edits, reverted): LanguageViews pushing V1 first -> VIOLATION (views-bytes, hash-formula, "
                   "build-real-tx, txbuilder-hash); iterating the BTreeMap keys without collect+sort -> quiet. On the unchanged tree the "
                   "check reproduced build-redeemers-reencoded and txbuilder-hash-datum-only / -without-script-data before the two fix commits.",
}
