SPEC = {
    "id": "C11",
    "level": "proof",
    "lean_modules": ["PallasVerif.Props.C11"],
    "required_theorems": ["verify_sign_generic", "check_depends_only_on_b0_b31", "check_table_entry", "verify_sign_standard", "verify_sign_extended", "check_structure_iff",
                          "check_structure_scalar", "clamp_satisfies", "from_bytes_accepts_iff", "verify_rejects_allzero",
                          "verifyRfc_rejects_noncanonical"],
    "streams": [{"name": "ed25519", "quick": 96, "thorough": 1600}],
    "rule": "EXHAUSTIVE in every run: check_structure / from_bytes / TryFrom over all 256x256 values of (byte 0, byte 31) (op xtable: the whole "
            "accept table is compared with the Lean checkStructure and with the bit-level oracle); every small-order or oddly encoded public key "
            "(8 torsion points + x=0-with-sign + y>=p encodings, 14 keys) x every small-order R (+ a non-canonical R) x S=0 x 4 messages; for valid "
            "signatures every S+kL that fits 32 bytes (k=1..15), all 7 non-zero values of the top three bits of S, key / R sign bit flipped, R or S "
            "zeroed. SAMPLED: a case = one random 32-byte secret key (incl. all-zero / all-ff), a message of 0..1024 bytes (boundary lengths of the SHA-512 "
            "padding included), its public key, signature and verification, 6 (thorough 24) single-bit tamperings of message / key / signature, "
            "one of {message extended, S+L, random signature, random key, swapped halves}, an extended key whose five clamping bits take "
            "combination (case number mod 32) so all 2^3*2^2 combinations come up, and a properly clamped extended key signed and verified; "
            "plus fixed cases with special public-key encodings (identity, y>=p, x=0 with sign bit, order 2/4, all-zero, off-curve); "
            "distinct = sha1 of the op text; non-trivial = the case contains both an accepted and a rejected verification",
    "trusted_base": [
        "Model/Sha512.lean (FIPS 180-4) and Model/Ed25519.lean (RFC 8032 5.1 on Nat; cryptoxide's lenient key decoding, canonical-S test, "
        "all-zero-key test, cofactorless equation compared by encoding) are hand transcriptions; tie = stream `ed25519` (public key bytes, "
        "signature bytes, verdicts, from_bytes result compared on every op) and the RFC 8032 7.1 vectors in op `selftest`",
        "harness oracle: ed25519-dalek 2.2 (+hazmat for expanded keys), an implementation independent of cryptoxide, and the RFC 8032 5.1.3 "
        "decoding rules evaluated on the key bytes",
        "UNPROVED, named: `Interp ed` — that the Edwards formulas of the model form a group in which B has order L and encode/decode are "
        "inverse; verify_sign_standard / verify_sign_extended are conditional on it (verify_sign_generic itself is unconditional over any "
        "interpreted structure and instantiated at a toy group)",
    ],
    "assumptions": [
        "SecretKey::new / SecretKeyExtended::new (RNG-driven constructors) are not driven; the bit tweaks of the latter are clamp_satisfies on the model",
        "memory scrubbing (memsec) is out of scope of C11",
    ],
    "explanation": "self-tests run on a scratch edit of the pallas worktree (reverted afterwards): check_structure without the 0b0100_0000 "
                   "test -> exit 1, VIOLATION clamp-check bits=000/00 (+ extended key / signature differ from the reference); harmless: the three "
                   "conjuncts of check_structure reordered and `== 0b0100_0000` written as `!= 0` -> exit 0, only the two KNOWN-FINDING lines.",
}
