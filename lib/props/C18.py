SPEC = {
    "id": "C18",
    "level": "proof",
    "lean_modules": ["PallasVerif.Props.C18"],
    "required_theorems": ["varuint_roundtrip", "varuint_length_le", "pointer_roundtrip", "header_spec", "address_roundtrip",
                          "hex_roundtrip", "bech32_roundtrip", "hrp_matches_network", "display_fromStr_roundtrip"],
    "streams": [{"name": "address", "quick": 1200, "thorough": 40000}],
    "rule": "a case is 4..16 ops: mk (build one of the 10 address shapes from a network id 0..15 through Network::from, random / all-00 / "
            "all-ff 28-byte hashes, pointer components boundary-weighted over the whole u64 range incl. every 7-bit group boundary; "
            "5% with a raw Network::Other(x), x in {0,1,2,15,16,17,128,255}, outside the quantifier, correspondence only), parse "
            "(from_bytes on valid, truncated, extended, header-flipped, bit-flipped, overlong-varuint and random bytes), parsehex "
            "(from_hex on valid / upper-case / odd-length / non-hex text), vwrite, vread, pparse; distinct = sha1 of op text; "
            "non-trivial = the case built a pointer address and an address with network id >= 2 inside the quantifier",
    "trusted_base": [
        "Model/Address.lean is a hand transcription of varuint.rs and of the Shelley/stake half of pallas-addresses/src/lib.rs; "
        "tie = stream `address` (to_vec bytes, header, hrp, from_bytes/from_hex results incl. error class, varuint bytes and consumed "
        "length, pointer parse compared on every op)",
        "the bech32 crate is a parameter of the model (stated law: dec (enc hrp b) = (hrp, b)); bech32 text and Display/FromStr are "
        "exercised only by the harness oracle on the real crate, not by the model",
        "header type 8 (Byron) is delegated to C19: one opaque outcome on both sides",
    ],
    "assumptions": [
        "bech32 crate: decode (encode hrp bytes) = (hrp, bytes)  (hypothesis `Lawful` of bech32_roundtrip / display_fromStr_roundtrip)",
        "for network ids 2..15 Display prints hex and FromStr reaches its hex branch only if that hex text is neither valid bech32 nor "
        "a valid Byron base58 address (explicit hypothesis of display_fromStr_roundtrip; sampled by the harness oracle)",
        "network ids are those produced by Network::from(id), id in 0..15 (CanonNet); Network::Other(0|1|>=16) is outside the quantifier",
    ],
    "explanation": "Self-tests run: `type_id << 3` in ShelleyAddress::to_header (caught: VIOLATION header/roundtrip-bytes with replay); "
                   "typeid() match -> lookup table (quiet).",
}
