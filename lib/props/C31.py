SPEC = {
    "id": "C31",
    "level": "proof",
    "lean_modules": ["PallasVerif.Props.C31"],
    "required_theorems": ["consumes_valid", "consumes_invalid", "consumes_nodup", "produces_valid", "produces_invalid",
                          "produces_at_agrees", "sorted_set_spec", "sorted_set_unique", "consumes_first_occurrence_order", "consumes_unique"],
    "streams": [{"name": "utxo", "quick": 600, "thorough": 30000}],
    "rule": "one case = one stand-alone transaction (`tx <era> <cbor>`), then consumes / produces / produces_at at 0, n-1, n, n+1 / sorted. "
            "Corpus: every test_data/*.tx and the transactions of every test_data/*.block and of every 500th (thorough: 10th) block of the immutable-db chunks (quick: first 2 per block; thorough: all), each "
            "post-Byron one under BOTH validity flags (flag byte flipped in the CBOR); generated: Alonzo/Babbage/Conway bodies with 0..8 inputs "
            "drawn from a 1..7-hash alphabet (shared prefixes, boundary indices) so duplicates are frequent, 0..4 collateral inputs with duplicates, "
            "with/without collateral return, definite/indefinite arrays, tag-258 sets; single-site encoding mutants (def<->indef incl. empty containers, head widths incl. 8-byte) of small corpus transactions that pallas still decodes. distinct = sha1 of op text; non-trivial = post-Byron tx "
            "that is flagged invalid or has a duplicated input",
    "trusted_base": ["Model/Utxo.lean is a hand transcription of MultiEraTx::{consumes,produces,produces_at,inputs_sorted_set} "
                     "(HashSet::insert filter as a list, enumerate, stable sort modelled by insertion sort + theorem sorted_set_unique, Vec::dedup_by_key); "
                     "tie = stream `utxo`: the model reads is_valid/inputs/outputs/collateral/collateral_return off the transaction bytes with the "
                     "generic CBOR tree (Model/TxView.lean, no typed decoder) and every reply line is diffed against the real API"],
    "assumptions": ["an input is identified by its (tx hash, index) pair (true of alonzo::TransactionInput and Byron TxIn::Variant0; "
                    "Byron TxIn::Other makes output_ref() panic — counted under C33, not generated here)",
                    "outputs are compared as (raw address bytes, lovelace) pairs; generated outputs carry pairwise distinct lovelace amounts"],
    "explanation": "self-tests run on a scratch edit of the pallas worktree: produces() invalid branch `(self.outputs().len(), txo)` -> `(0, txo)` "
                   "(exit 1, VIOLATION, replay utxo-viol-produces-invalid + produces-at-vs-list); inputs_sorted_set `dedup_by_key(|x| x.index())` "
                   "(exit 1, replay utxo-viol-sorted-set-members); HashSet -> BTreeSet keyed by (hash, index) in consumes (behaviour preserving: quiet, exit 0)",
}
