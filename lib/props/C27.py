from lib import p2p_twopass

p2p_twopass.enable("p2p_promo")

SPEC = {
    "id": "C27",
    "level": "proof",
    "lean_modules": ["PallasVerif.Props.C27"],
    "required_theorems": ["promo_inv", "promo_inv_of_run", "sets_consistent", "banned_never_connected", "banned_forever",
                          "ban_command_bans", "violation_bans", "error_threshold_bans"],
    "streams": [{"name": "p2p_promo", "quick": 500, "thorough": 20000}],
    "rule": "histories of InitiatorBehavior commands/events (cfg + 8..200 ops over 3, 6 or 20 peers, limits 1..4/1..2/1..2 for the "
            "small cases; include, hk/idle, connected, handshake, ban, demote, disconnected, error, violating and valid messages, "
            "peer-sharing discovery; thorough adds all 13-symbol histories of length <= 4 over 2 peers with limits 2/1/1 and the "
            "three recorded witnesses); distinct = sha1 of op text; non-trivial = the case reached a non-empty hot set and a "
            "non-empty banned set",
    "trusted_base": [
        "Model/P2PInitiator.lean + Model/P2PProto.lean are hand transcriptions of pallas-network2 behavior/initiator/* and "
        "protocol/*::State::apply (payloads abstracted to ids); tie = stream `p2p_promo`: after every op the drained outputs, "
        "the four promotion sets, discovery set, queue lengths and every tracked peer's tag/connection/violation/error count/"
        "eight protocol states are compared",
        "two-pass correspondence (lib/p2p_twopass.py): the HashMap iteration order of each housekeeping pass and the drained "
        "discovery subset are read from the running implementation and handed to the model as part of the event; the "
        "theorems quantify over them",
        "verif-hook read accessors in pallas-network2 (InitiatorState fields, discovery/blockfetch/leiosfetch queues)",
    ],
    "assumptions": [
        "histories shorter than 2^32 events for the no-panic half of promo_inv (error_count is an unchecked u32 increment); "
        "promo_inv_of_run has no bound",
        "opentelemetry gauges/counters and tracing are not modelled (no effect on state)",
        "FuturesUnordered yields ready outputs in push order (the output list is compared in order)",
    ],
    "explanation": "self-tests run on the pallas worktree (reverted afterwards): ban_peer without warm_peers.remove -> VIOLATION "
                   "(sets-overlap WB); IncludePeer guard removed -> VIOLATION (sets-overlap CW); gauge/update_metrics reorder and "
                   "promote_* rewritten with remove+insert -> quiet.",
}
