SPEC = {
    "id": "C19",
    "level": "proof",
    "lean_modules": ["PallasVerif.Props.C19"],
    "required_theorems": [
        "crc32_check_value", "from_bytes_checks_crc", "address_from_bytes_checks_crc", "from_base58_checks_crc", "mismatch_rejected",
        "byron_roundtrip_cbor", "byron_roundtrip_base58", "payload_bit_flip_rejected", "checksum_corruption_rejected", "from_bytes_any_head_widths",
        "wrong_checksum_rejected_any_width",
        "crc32_detects_single_bit_errors", "payload_roundtrip", "decode_of_from_decoded",
    ],
    "streams": [{"name": "byron", "quick": 400, "thorough": 12000}],
    "rule": "per case: `build` of a random AddressPayload (root 28 bytes, address type in {0,1,2,3,23,24,255,256,65536,2^32-1}, 0..3 "
            "attributes of the three kinds incl. repeated / out-of-order ones, path lengths 0..30), then 2 (thorough 6) re-encodings of that "
            "address with every head width for the array / tag / byte-string / checksum heads (immediate, 1, 2, 4, 8 argument bytes, non-minimal "
            "ones, indefinite and 3-element arrays, other tag numbers), intact or corrupted in the payload, in the low 32 bits or - with the "
            "8-byte head - in the upper 32 bits of the checksum field, then 1/4 valid only, 2/4 single-bit "
            "corruptions of payload or checksum bytes (6 sampled bits per case in quick; every bit of the address for 1/8 of the cases in "
            "thorough), 1/4 malformed (truncated, trailing bytes, other array heads incl. indefinite / longer arrays, random bytes with a "
            "Byron header nibble), each through a random entry point out of ByronAddress::from_bytes / from_base58, Address::from_bytes / "
            "from_hex / from_str, followed by the valid address through all five; plus the three pinned mainnet vectors, the CRC check "
            "value, and every distinct Byron output address found in test_data (blocks + immutable-db chunks; 84 addresses) as `corpus` "
            "ops. non-trivial = the case has an accepted address and one rejected with the CBOR message class (checksum / shape).",
    "trusted_base": [
        "Model/Byron.lean: hand transcription of pallas-addresses/src/byron.rs (ByronAddress derive(Encode, Decode) per minicbor-derive 0.16 "
        "array encoding, AddressPayload encoders, from_bytes after the fix, from_base58) and of the Byron branch of Address::from_bytes / "
        "from_str in lib.rs; CRC-32/ISO-HDLC defined bitwise (check value proved); tie = stream `byron` (address bytes incl. the checksum "
        "pallas computed, base58 text, payload / crc / error class of every entry point compared)",
        "the base58 crate (0.2.0) is a dependency: its codec law is a hypothesis of byron_roundtrip_base58; an executable transcription "
        "(with the crate's 132-byte limit) is compared by the stream",
    ],
    "assumptions": [
        "Address::from_str: the bech32 attempt fails on the generated base58 / hex strings (bech32 is not modelled)",
        "base58 decode of a string with more than 132 leading '1's and nothing else (index underflow in the crate) is outside the generator",
        "Model/Minicbor.lean agrees with minicbor 0.26.5 (stream `minicbor`, C03)",
    ],
    "explanation": "self-tests run on the pallas worktree (then reverted): (break) checksum compared with `>` instead of `!=` -> exit 1, VIOLATION replay "
                   "byron-viol-crc-unchecked entry=ByronAddress::from_bytes (accepted payload .. with crc 3283002); (harmless) checksum hoisted into a "
                   "local -> exit 0, quiet; unchanged tree -> exit 0 with the KNOWN-FINDING line.",
}
