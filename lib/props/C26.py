SPEC = {
    "id": "C26",
    "level": "proof",
    "lean_modules": ["PallasVerif.Props.C26"],
    "required_theorems": ["buffer_refines_spec", "rollback_found", "rollback_missing", "pop_spec", "popped_monotone", "chain_conserved", "chain_after_history", "rollBack_prefix", "rollBack_idem", "latest_after_rollback"],
    "streams": [{"name": "rollback", "quick": 400, "thorough": 20000}],
    "rule": "op sequences (0..200 ops: fwd/back/pop/position/size/latest/oldest) over a 2..7-point alphabet incl. origin and two "
            "points sharing a slot; distinct = sha1 of op text; non-trivial = the case contains both a roll-back that hit a buffered "
            "point and one that missed",
    "trusted_base": ["Model/Rollback.lean is a hand transcription of RollbackBuffer (VecDeque as List); tie = stream `rollback` "
                     "(buffer contents, effect tag, returned vectors compared after every op)"],
    "assumptions": ["Point equality is structural (derive(Eq)); points are compared as canonical text on the model side"],
}
