SPEC = {
    "id": "C03",
    "level": "proof",
    "lean_modules": ["PallasVerif.Props.C03"],
    "required_theorems": [
        "anyuint_roundtrip", "anyuint_preserves", "keepraw_preserves", "keepraw_mutation_reencodes", "keepraw_mutation_reencodes_every_history",
        "keepraw_unmutated_history_keeps_original", "anycbor_preserves",
        "nullable_roundtrip", "nullable_preserves", "maybeIndef_roundtrip", "kvp_roundtrip",
        "maybeIndef_preserves_partial", "kvp_preserves_partial", "full_pres_containers_fails_at_witness",
        "tagwrap_roundtrip", "cborwrap_roundtrip", "zeroOrOne_roundtrip", "set_roundtrip",
        "orderPreservingProperties_roundtrip", "emptyMap_roundtrip", "anycbor_captures_one_item", "skip_never_diverges",
        "byDatatype_dispatch_single", "byDatatype_dispatch_many", "codec_by_datatype_enum_roundtrip",
        "bytes_roundtrip", "int_roundtrip", "positiveCoin_roundtrip", "nonZeroInt_roundtrip",
    ],
    "streams": [
        {"name": "minicbor", "quick": 1500, "thorough": 150000},
        {"name": "cborwrap", "quick": 2500, "thorough": 200000},
    ],
    "rule": "minicbor: a buffer (well-formed items with every head width / indefinite form / nesting <= 3, truncations, every head "
            "byte x short tails, typed shapes, random bytes, one-byte mutations) followed by 1..6 primitive calls; non-trivial = at "
            "least one call accepted and one rejected. cborwrap: 58 concrete instantiations of the utils.rs wrappers (depth <= 3) x "
            "{rt <value from seed> | dec <restyled encoding: other head widths, def<->indef flips> | truncated / mutated / foreign "
            "item | KeepRaw mut/peek}; 1/10 of the cases drive a live KeepRaw through a random history of its public operations (kr.dec / "
            "kr.from, then 1..8 of to_owned, clone, deref, deref_mut+mutation, clear_raw, with encode / raw_cbor observed in between and at "
            "the end, unwrap); 1/10 run the form-keeping conversions (NonEmptyKeyValuePairs::try_from(KeyValuePairs), to_vec / From<Vec>, "
            "AnyCbor::from_encode / into_decode / unwrap, Set::from(Set<KeepRaw<_>>)); restyling also writes byte / text strings in the "
            "indefinite (chunked) form; thorough adds the exhaustive small domains (every 1- and 2-byte input of AnyUInt, every two-byte container head; every initial byte x second byte x primitive for minicbor); non-trivial = a value whose encoding is longer than one byte round-tripped, or a "
            "retaining wrapper accepted an input longer than one byte (and was compared with its re-encoding). distinct = sha1 of op text.",
    "trusted_base": [
        "Model/Minicbor.lean is a hand transcription of minicbor 0.26.5 decode/decoder.rs (+ Vec/Option/tuple/map_iter impls of decode.rs, "
        "Encoder::type_len); a Decoder{buf,pos} is represented by the suffix buf[pos..]; tie = stream `minicbor` (value, position, error class of "
        "every primitive call compared)",
        "Model/CborWrappers.lean is a hand transcription of pallas-codec/src/utils.rs and the codec_by_datatype! macro; tie = stream `cborwrap` "
        "(decoded value, consumed length, re-encoding, error class compared for 58 concrete types)",
    ],
    "assumptions": [
        "values are well formed in the sense stated in each theorem: AnyUInt::MajorByte holds an immediate value (< 24); a Nullable payload's "
        "encoding does not start with f6/f7; sequence elements never encode to something starting with the break byte; lengths < 2^64",
        "equality of KeepRaw values is equality of content (the raw bytes are a cache of the encoding: empty after From<T>, the input span after decode)",
    ],
    "explanation": "self-tests run on the pallas worktree (then reverted): (break) KeepRaw::deref_mut without clear_raw -> exit 1, VIOLATION "
                   "replay cborwrap-viol-keepraw-mut (mutated content encodes as 83010203 but the wrapper wrote 9f0102ff); (harmless) clear_raw with "
                   "Cow::Borrowed(&[]) + other error texts -> exit 0, quiet; unchanged tree -> exit 0 with the KNOWN-FINDING line.",
}
