from lib.translate_kes import translate as translate_kes

SPEC = {
    "id": "C12",
    "level": "proof",
    "lean_modules": ["PallasVerif.Props.C12"],
    "required_theorems": ["evolve_keygen", "period_after_updates", "pk_invariant", "update_fails_iff", "verify_own_period",
                          "cverify_own_period", "verify_other_period_fails", "cverify_other_period_fails", "sym_verify_iff",
                          "sym_cverify_iff", "sumSig_bytes_roundtrip", "cSig_bytes_roundtrip", "gen_unknowns", "gen_sizes", "gen_instantiations",
                          "keyBytes_length"],
    "translators": [translate_kes],
    "streams": [{"name": "kes", "quick": 20, "thorough": 420}],
    "rule": "a case = one key: construction alternates sum / compact sum, depth cycles through 1..7 (quick: 1..7 then 2,3,4,1,2,3,4), "
            "random 32-byte seed (all-zero and all-ff included); depths 1..4 (thorough: 1..5): at EVERY period get_period, to_pk, sign a random "
            "message, signature bytes round trip, verify at the own period and at EVERY other in-range period, one of {other message, other key, "
            "bit-flipped signature, truncated signature}; depths 5..7: every period is reached by update (half of the cases stop at a random "
            "period), the same checks at periods 0, last, around 2^(d-1) and a 1/12 sample, verification at 6 other periods (neighbour, other "
            "half, mirrored, random); one more update at the end of life; distinct = sha1 of the op text; non-trivial = an own-period signature "
            "was accepted and an other-period verification was rejected in the case",
    "trusted_base": [
        "Model/Kes.lean: the sum_kes!/sum_compact_kes! macros transcribed once for arbitrary depth on the tree the buffer encodes, plus the byte "
        "layout keyBytes/skBytes and the signature codecs; tie = stream `kes` (public key and the WHOLE key buffer after keygen and after every "
        "update, signature bytes, verification verdicts, from_bytes results compared on every op, depths 1..7, both constructions)",
        "primitives of the concrete instance: Model/Blake2b.lean (C10), Model/Ed25519.lean + Sha512.lean (C11), ed25519-dalek verify_strict "
        "transcribed as verifyStrict",
        "IDEALISATION (explicit hypotheses of verify_other_period_fails / cverify_other_period_fails, not axioms): HashInj (no BLAKE2b-256 "
        "collision), SigIdeal (an Ed25519 signature verifies only under its maker's key), LeavesDistinct; discharged for the symbolic instance "
        "`sym` only. verify_own_period assumes BaseCorrect (Ed25519 sign-then-verify, C11)",
    ],
    "assumptions": ["pallas-crypto built with feature `kes` (the harness does)", "KesSk::from_bytes on foreign buffers is not exercised (keys come from keygen + update)"],
    "explanation": "self-tests run on a scratch edit of the pallas worktree (reverted afterwards): compact sign_from_slice with the pk "
                   "offsets of the two branches swapped -> exit 1, VIOLATION own-period-rejected compact1 period=0 (3-op replay); sum verify "
                   "descending with `period <= half` -> exit 1, VIOLATION own-period-rejected sum1 period=1 and other-period-accepted; harmless: "
                   "Depth::half written as 1 << (d-1) -> exit 0, quiet.",
}
