SPEC = {
    "id": "C44",
    "level": "other",
    "lean_modules": ["PallasVerif.Props.C44"],
    "required_theorems": ["bigint_exact", "bigint_small_as_int", "bigint_large_as_bytes", "bigint_result_fits", "u64_exact",
                          "u64_int_fits", "i64_exact", "datum_map_preserves", "unfixed_truncates_at_witness"],
    "streams": [{"name": "u5c", "quick": 200, "thorough": 6000}],
    "rule": "file cases: blocks (*.block) and transactions (*.tx) of test_data through map_block / map_tx of BOTH schema versions "
            "(quick: a seed-dependent window of 36 of the files; thorough: all), every mapped hash / input / output address, coin, "
            "assets / fee / validity / output datum / witness datum re-extracted with pallas-traverse and compared. Generated cases: "
            "3..8 ops of: Plutus integers (CBOR ints at 0, +-1, 23/24, i64 and u64 edges, random 64-bit, 2^63..2^64, "
            "-2^64..-2^63-1; BigUInt/BigNInt byte strings of 0..12 bytes incl. leading zeros), u64 scalars through the fee and "
            "output coin of a built transaction, i64 scalars through a mint quantity, datum trees (depth <= 3; constr tags 121-127, "
            "1280-1400, 102+alternative, arbitrary tags; maps, arrays, bytes) mapped directly and carried as inline datums of built "
            "transactions through map_tx. distinct = sha1 of op text; non-trivial = the case maps an integer outside i64 and a "
            "structured (non-leaf) datum",
    "trusted_base": [
        "Model/U5c.lean is a hand transcription of u64_to_bigint, i64_to_bigint, map_plutus_bigint and the recursive "
        "map_plutus_datum/constr/map/array of pallas-utxorpc/src/shared.rs (one macro body instantiated for v1alpha and v1beta); "
        "tie = stream `u5c`: rendering of the mapped value by both schema versions vs the Lean driver",
        "NOT modelled, decided by the harness oracle on the test_data corpus and generated transactions only: Mapper::map_tx, "
        "map_tx_output, map_tx_input, map_block (field projections through pallas-traverse); prost / utxorpc-spec types; the "
        "oracle reads the source side through the same pallas-traverse accessors the mapper uses",
    ],
    "assumptions": [
        "datum_map_preserves assumes constructor tags below 2^32 (the schema field is uint32; `tag as u32`); decoded ledger data has "
        "tags 102, 121-127, 1280-1400",
        "TxInput.output_index is uint32 in the schema (`index as u32`): transaction output indexes above 2^32-1 would be truncated; "
        "none occurs in the corpus and the ledger bounds them by the transaction size",
    ],
    "explanation": "Level `other`: the Lean theorems settle two clauses of the property for all inputs (every Plutus integer is mapped "
                   "exactly and never truncated; the recursive datum mapping preserves content, by mutual structural induction) and "
                   "the two scalar helpers; the remaining clauses (hash, inputs, outputs, fee, validity of map_tx / map_block in both "
                   "versions) are decided by comparison against pallas-traverse on all test_data blocks and transactions and on "
                   "generated transactions, not proved. Deviation #29 of DESIGN §6 was reproduced by this check on the unchanged tree "
                   "(plutus-integer-not-exact range=above-i64 / below-i64, both versions, also through map_tx output datums) and "
                   "repaired (`fix: utxorpc maps Plutus integers outside i64 to big-integer bytes`); the model is the repaired code. Self-tests run: (1) u64_to_bigint taking the Int branch for every value (`value as i64` always) -> exit 1, VIOLATION scalar-not-exact op=u64 with the one-op replay `u64 18446744073709551615`; (2) the match in map_plutus_bigint rewritten as if/else-if -> quiet.",
}
