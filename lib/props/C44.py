SPEC = {
    "id": "C44",
    "level": "proof",
    "lean_modules": ["PallasVerif.Props.C44"],
    "required_theorems": ["bigint_exact", "bigint_small_as_int", "bigint_large_as_bytes", "bigint_result_fits", "u64_exact",
                          "u64_int_fits", "i64_exact", "datum_map_preserves", "unfixed_truncates_at_witness", "map_tx_preserves", "map_block_preserves",
                          "mapOutput_preserves", "mapTxDatum_preserves", "input_index_truncates_at_witness"],
    "streams": [{"name": "u5c", "quick": 200, "thorough": 30000}],
    "rule": "txview cases: for every transaction (quick: the first 4 of each block of a 36-file window; thorough: all) of the test_data blocks and tx files, and for 2 generated Conway transactions per generated case (txbuilder: 1-3 inputs, outputs with u64-edge coins, assets incl. quantities above 2^63, datum hash / inline datum trees, native / Plutus script refs, mint incl. i64::MIN/MAX, collateral + return, reference inputs, validity bounds, witness datums, a spend redeemer) and, for each of them, up to 4 legal but NON-CANONICAL re-encodings made with the CST mutator of harness/src/fixtures/w12_cst.rs (2 single-site mutations inside #6.24-wrapped items = inline datums and script refs; 2 random mutants anywhere: definite <-> indefinite, wider heads, chunked strings, swapped map entries; kept only if pallas still decodes), the ledger view read through pallas-traverse is put on the op line, both mappers run on the real transaction, and the canonical rendering of the mapped message is compared with the Lean model of map_tx applied to the view. file cases: blocks (*.block) and transactions (*.tx) of test_data through map_block / map_tx of BOTH schema versions "
            "(quick: a seed-dependent window of 36 of the files; thorough: all), every mapped hash / input / output address, coin, "
            "assets / fee / validity / output datum / witness datum re-extracted with pallas-traverse and compared. Generated cases: "
            "3..8 ops of: Plutus integers (CBOR ints at 0, +-1, 23/24, i64 and u64 edges, random 64-bit, 2^63..2^64, "
            "-2^64..-2^63-1; BigUInt/BigNInt byte strings of 0..12 bytes incl. leading zeros), u64 scalars through the fee and "
            "output coin of a built transaction, i64 scalars through a mint quantity, datum trees (depth <= 3; constr tags 121-127, "
            "1280-1400, 102+alternative, arbitrary tags; maps, arrays, bytes) mapped directly and carried as inline datums of built "
            "transactions through map_tx. distinct = sha1 of op text; non-trivial = the case (a) maps an integer outside i64 or a transaction "
            "carrying native assets or a mint, and (b) maps a structured (non-leaf) datum or a transaction with inputs and outputs",
    "trusted_base": [
        "Model/U5c.lean is a hand transcription of u64_to_bigint, i64_to_bigint, map_plutus_bigint and the recursive "
        "map_plutus_datum/constr/map/array of pallas-utxorpc/src/shared.rs (one macro body instantiated for v1alpha and v1beta); "
        "tie = stream `u5c`: rendering of the mapped value by both schema versions vs the Lean driver",
        "Model/U5cTx.lean is a hand transcription of map_tx / map_tx_output / map_tx_datum / map_tx_input / map_asset / "
        "map_any_script / map_redeemer / map_withdrawals / map_block as a projection from the ledger view; tie = `txview` ops of "
        "stream `u5c` (view extracted with the pallas-traverse accessors the mapper itself calls; the harness checks that the view "
        "on the op line is the view of the transaction it maps). NOT modelled: pallas-traverse, prost / utxorpc-spec types, "
        "version-specific extras (original_cbor of outputs and redeemers, v1beta witness redeemers are rendered but v1alpha has "
        "none), contents of certificates / governance / aux data / pparams, resolved inputs",
    ],
    "assumptions": [
        "datum_map_preserves assumes constructor tags below 2^32 (the schema field is uint32; `tag as u32`); decoded ledger data has "
        "tags 102, 121-127, 1280-1400",
        "TxInput.output_index is uint32 in the schema (`index as u32`): transaction output indexes above 2^32-1 would be truncated; "
        "none occurs in the corpus and the ledger bounds them by the transaction size",
    ],
    "explanation": "Level `proof` (partial): every clause of the property has a Lean theorem over the model of the mapper for all transaction views (map_tx_preserves with bigint_exact / datum_map_preserves / u64_exact inside), tied to both schema versions on the whole test_data corpus and generated transactions; what remains outside is named in the manifest text. Deviation #29 of DESIGN §6 was reproduced by this check on the unchanged tree "
                   "(plutus-integer-not-exact range=above-i64 / below-i64, both versions, also through map_tx output datums) and "
                   "repaired (`fix: utxorpc maps Plutus integers outside i64 to big-integer bytes`); the model is the repaired code. Self-tests run: (1) u64_to_bigint taking the Int branch for every value (`value as i64` always) -> exit 1, VIOLATION scalar-not-exact op=u64 with the one-op replay `u64 18446744073709551615`; (2) the match in map_plutus_bigint rewritten as if/else-if -> quiet. Seeded change C44-b (inline-datum hash taken over a re-encoding instead of the original bytes) -> exit 1, VIOLATION datum-hash-not-of-wire-bytes with a one-op replay (a chunked byte string 5f42613a4133ff as inline datum). Self-tests of the map_tx part: (3) validity start / ttl swapped in v1alpha map_tx -> exit 1, VIOLATION mapped-validity-differs version=v1alpha + schema-versions-disagree op=map_tx; (4) v1beta map_asset if/else rewritten as a match -> quiet.",
}
