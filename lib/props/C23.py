from lib import translate_fsm

SPEC = {
    "id": "C23",
    "level": "proof",
    "lean_modules": ["PallasVerif.Props.C23"],
    "required_theorems": ["unknowns_nil", "agents_covered", "agents_conform", "send_accepts_iff_spec", "recv_accepts_iff_spec",
                          "exchange_ends_in_prescribed_state", "agent_refines_spec", "rejected_leaves_state",
                          "agency_exclusive", "paired_no_deadlock", "paired_lockstep"],
    "translators": [translate_fsm.translate_n1],
    "streams": [{"name": "fsm1", "quick": 300, "thorough": 20000}],
    "rule": "every case drives one real agent (17: client and server of the nine protocols, tx-monitor client only) over a real Plexer on a "
            "socket pair; the first ~2000 cases are exhaustive: agent x state (reached through the public methods) x message class x "
            "{send_message, recv_message, every sending method of that message, every receiving method, every send-then-receive method "
            "with every possible queued reply}; the rest are random histories (1..30 ops, 4/5 biased to permitted exchanges); distinct = "
            "sha1 of the op text; non-trivial = the case contains at least one accepted and one refused call",
    "trusted_base": [
        "lib/translate_fsm.py translate_n1 (Tie A): regenerates lean/PallasVerif/Gen/FsmN1.lean on each run from has_agency, "
        "assert_outbound_state, assert_inbound_state, the shapes of send_message/recv_message/assert_agency_is_*, and every "
        "`self.0 = State::X` after a send or in an arm of a receiving method, of every client.rs/server.rs of the nine protocols "
        "(unattributed assignments or unparsed constructs land in `unknowns`, proved empty); cross-checked on each run by stream "
        "`fsm1` (Tie B): the real agents over a real multiplexer, replies (verdict, error variant, state() afterwards, which message "
        "reached the wire) compared with the generated tables run by the Lean driver",
        "Model/FsmSpecN1.lean (+FsmSpecN2 for the six shared protocols): specification tables typed by hand from DESIGN Appendix A; "
        "typed a second time as the Rust oracle tables in harness/src/fixtures/fsm_spec.rs",
    ],
    "assumptions": [
        "the multiplexer, the codecs and tokio are outside the model (the agent model sees message *classes*; C20-C22 cover those layers)",
        "tx-monitor is specified at the granularity of the code's State enum (one Busy state for the three StBusy kinds; the reply kind is "
        "matched by the receiving method's arms, which are part of the model) and at the wire level (MsgAwaitAcquire = Acquire, label 1)",
        "a refusal is: nothing written to the wire and state() unchanged; keepalive::Server::send_keepalive_response outside State::Server "
        "refuses by returning Ok(()) without sending (modelled as `NoOp`); localstate::Client returns the content of a permitted "
        "Failure message as Err(Acquire..) after moving to Idle (an accepted exchange)",
    ],
    "explanation": "Self-tests run in the pallas worktree: (1) chainsync client `(State::MustReply, Message::AwaitReply) => Ok(())` added to "
                   "assert_inbound_state -> agents_conform no longer checks, stream fsm1 reports n1-recv:chainsync/client:MustReply+AwaitReply "
                   "got=accept want=refuse, exit 1 with replay; (2) blockfetch server send_batch_done leaves `self.0 = State::Streaming` -> "
                   "n1-next; (3) harmless: arm order of assert_inbound_state, `matches!` form of has_agency -> quiet.",
}
