SPEC = {
    "id": "C01",
    "level": "proof",
    "lean_modules": ["PallasVerif.Props.C01"],
    "required_theorems": ["flat_roundtrip", "flat_roundtrip_from", "enc_appends", "dec_reads", "enc_total", "encode_decode_top", "list_roundtrip_generic", "enc_wire_format", "blk_roundtrip", "unzigzag_zigzag"],
    "streams": [{"name": "flat", "quick": 1000, "thorough": 60000}],
    "rule": "a case encodes 0..64 mixed values (bool, u8, bits n, word, int, char, bytes 0..1000, utf8, bool list, char string) with one "
            "Encoder after a prefix of 0..7 booleans, terminates with the filler, decodes with the same sequence of Decoder calls and "
            "checks pos = len, used_bits = 0 (1 in 10 cases is free-form incl. ill-formed `bits` for the model tie only); distinct = sha1 "
            "of the op text; non-trivial = at least two values round-tripped, at least one non-boolean value started at a non-zero bit "
            "offset, and the final at-end check ran",
    "trusted_base": ["Model/Flat.lean is a hand transcription of pallas-codec/src/flat/{encode/encoder.rs,decode/decoder.rs,zigzag.rs,mod.rs}; "
                     "tie = stream `flat` (appended encoder bytes after every encoder call; value, pos, used_bits after every decoder call)"],
    "explanation": "Self-tests run against scratch edits of the pallas worktree (reverted afterwards): (1) encoder.rs byte_unaligned `x << (8 - used_bits)` -> `(7 - used_bits)`: exit 1, VIOLATION roundtrip-u8 / roundtrip-utf8 with replays; (2) zigzag.rs usize::zigzag without the negation: exit 1, VIOLATION roundtrip-int (encoded -178772341191036 decoded 178772341191034); (3) harmless: the six special arms of Encoder::bits removed (generic arm only): exit 0, 500/500 agree.",
    "assumptions": ["usize is 64 bits; isize::zigzag / usize::zigzag are modelled on the mathematical integers (case split on the sign / low bit) "
                    "rather than as i128 bit operations; the tie compares them on boundary and random values",
                    "&str contents are valid UTF-8 (a Rust type invariant); String::from_utf8 is modelled by Unicode Table 3-7"],
}
