SPEC = {
    "id": "C01",
    "level": "proof",
    "lean_modules": ["PallasVerif.Props.C01"],
    "required_theorems": ["flat_roundtrip", "flat_roundtrip_from", "enc_appends", "dec_reads", "enc_total", "encode_decode_top", "blk_roundtrip", "unzigzag_zigzag"],
    "streams": [{"name": "flat", "quick": 500, "thorough": 20000}],
    "rule": "a case encodes 0..64 mixed values (bool, u8, bits n, word, int, char, bytes 0..1000, utf8, bool list, char string) with one "
            "Encoder after a prefix of 0..7 booleans, terminates with the filler, decodes with the same sequence of Decoder calls and "
            "checks pos = len, used_bits = 0 (1 in 10 cases is free-form incl. ill-formed `bits` for the model tie only); distinct = sha1 "
            "of the op text; non-trivial = at least two values round-tripped, at least one non-boolean value started at a non-zero bit "
            "offset, and the final at-end check ran",
    "trusted_base": ["Model/Flat.lean is a hand transcription of pallas-codec/src/flat/{encode/encoder.rs,decode/decoder.rs,zigzag.rs,mod.rs}; "
                     "tie = stream `flat` (appended encoder bytes after every encoder call; value, pos, used_bits after every decoder call)"],
    "assumptions": ["usize is 64 bits; isize::zigzag / usize::zigzag are modelled on the mathematical integers (case split on the sign / low bit) "
                    "rather than as i128 bit operations; the tie compares them on boundary and random values",
                    "&str contents are valid UTF-8 (a Rust type invariant); String::from_utf8 is modelled by Unicode Table 3-7"],
}
