SPEC = {
    "id": "C37",
    "level": "proof",
    "lean_modules": ["PallasVerif.Props.C37"],
    "required_theorems": ["exunits_sound", "exunits_needs_redeemers", "exunits_encoding_irrelevant",
                          "exunits_boundary_accept", "exunits_boundary_reject"],
    "streams": [{"name": "exunits", "quick": 300, "thorough": 12000}],
    "rule": "a case = 1-2 `whole` ops (a post-Mary fixture through validate_txs with max_tx_ex_units re-scaled around the exact "
            "redeemer sums: =, -1, +1, 0, 1, 2^64-1, random below/above) + 2-5 `unit` ops (check_tx_ex_units through verif_hooks on a "
            "synthesized witness set: 0-11 redeemers, list or map encoding, boundary-weighted u64 budgets, Plutus v1/v2/v3 script "
            "fields absent/empty/non-empty); distinct = sha1 of op text; non-trivial = the case has both an accepted and a rejected check",
    "trusted_base": ["Model/ExUnits.lean is a hand transcription of check_tx_ex_units + presence_of_plutus_scripts of alonzo.rs, "
                     "babbage.rs, conway.rs; tie = stream `exunits` (verdict class compared per op, per-rule and whole-transaction)",
                     "harness/src/fixtures (ported test data of pallas-validate/tests)"],
    "assumptions": ["a redeemer sum that leaves u64 is TxExUnitsExceeded (checked_add since the C33 fix), in every build profile",
                    "CBOR decoding of the witness set (Redeemers list/map, script sets) is pallas-primitives' and is outside this model"],
    "explanation": "Self-tests run: (1) Babbage `if mem > max.mem` only (steps comparison dropped) -> VIOLATION with replay "
                   "(exunits-over-budget era=babbage); (2) Conway loops reverted to the lazy `.iter().map()` -> VIOLATION; "
                   "(3) harmless: accumulate with `iter().fold` instead of the `for` loop -> quiet.",
}
