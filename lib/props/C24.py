from lib import translate_fsm

SPEC = {
    "id": "C24",
    "level": "proof",
    "lean_modules": ["PallasVerif.Props.C24"],
    "required_theorems": ["unknowns_nil", "protocols_covered", "apply_eq_spec_partial", "conforms_partial",
                          "C24_full_fails_at_witness", "apply_refines_spec", "history_refines_spec",
                          "apply_carries_data", "accepts_only_under_agency", "initial_state_eq_spec"],
    "translators": [translate_fsm.translate_n2],
    "streams": [{"name": "fsm2", "quick": 400, "thorough": 20000}],
    "rule": "every case is `init`/`default` + messages applied by the real State::apply; the first 522 cases are the complete "
            "(state class x message class) product of the 8 protocols, three times each with payload tokens drawn from the boundary set of each "
            "field's width (u8/u16/u32/u48/u64: 255/256, 65535/65536, 2^32-1/2^32, 2^63, u64::MAX ...; every value is built from and rendered back to one token injectively), the rest are random histories (1..64 messages, 3/4 biased to "
            "permitted ones) from Default::default(); distinct = sha1 of the op text; non-trivial = the history contains at least one "
            "accepted and one refused message",
    "trusted_base": [
        "lib/translate_fsm.py (Tie A): regenerates lean/PallasVerif/Gen/FsmN2.lean from every State::apply under "
        "pallas-network2/src/protocol on each run (first-match-wins resolved into one row per state class x message class; "
        "unparsed constructs land in `unknowns`, proved empty); cross-checked on each run by stream `fsm2` (Tie B), which calls the "
        "real State::apply on the complete product and on random histories and compares successor class, carried data and Error variant",
        "Model/FsmSpecN2.lean: the specification tables, typed by hand from DESIGN Appendix A (Ouroboros network spec / CIP-164) "
        "in the Rust enums' vocabulary; typed a second time, independently, as the Rust oracle table in harness/src/streams/fsm2.rs",
    ],
    "assumptions": [
        "message/state *classes*: enum variants, with RequestTxIds split by its blocking flag; payloads are abstract trees (the theorems "
        "quantify over all payload values)",
        "`carried` (which message fields the successor state must hold) is part of the hand-written specification: empty where the "
        "P2P stack's state class has no slot of the field's type (tx-submission), field 2 only for leios-fetch BlockTxs (fields 0/1 echo the request)",
    ],
    "explanation": "Self-tests run in the pallas worktree: (1) blockfetch `Streaming + BatchDone -> Streaming`: apply_eq_spec_partial / "
                   "conforms_partial no longer check and stream fsm2 reports `n2-transition blockfetch Streaming+BatchDone got=Streaming want=Idle` "
                   "-> exit 1 with replay; (2) chainsync RollForward storing `Data::Content(c, t)` with the tip of a default Tip: n2-carry; "
                   "(3) harmless: `Self::` -> `State::` paths and arm reordering in blockfetch apply: quiet.",
}
