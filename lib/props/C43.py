SPEC = {
    "id": "C43",
    "abort_is_violation": True,  # the property is totality: a process abort / hang of the real code on a case is a violation
    "level": "proof",
    "lean_modules": ["PallasVerif.Props.C43"],
    "required_theorems": ["blocks_within_file", "secondary_never_seeks_back", "fixed_refines_unfixed_chunk",
                          "fixed_refines_unfixed_secondary", "unfixed_chunk_panics_at_witness",
                          "unfixed_secondary_panics_at_witness", "unfixed_allocates_beyond_file_at_witness", "intact_slicing",
                          "intact_roundtrip", "damaged_db_total", "intact_db_from_files"],
    "streams": [{"name": "immcorrupt", "quick": 60, "thorough": 1200, "timeout": 3000}],
    "rule": "fault enumeration: for base chunks of 1..6 tiny synthetic blocks (chunk::read_blocks does not decode; empty blocks and "
            "empty relative slots included) EVERY truncation length of the primary, of the secondary and of the chunk file (quick: "
            "2 bases ~ 400 files; thorough: 12); then per generated case an intact chunk followed by 3..8 damaged copies: a "
            "secondary block_offset set to 0 / 1 / 55 / 57 / 2^64-1 / 2^64-2 / random / near end of file, two offsets swapped, a "
            "primary offset set to boundary or small values (entries closer than 56 bytes, going backwards), random bytes in either "
            "index; every fifth case damages one file (truncation, offset overwrite, garbage) of a 2..3-chunk database of real "
            "blocks and reads it through read_blocks, get_tip and read_blocks_from_point — once judged by the oracle only (`dbread`) and once with all files spelled out on the op line (`dbx`: primary and secondary bytes, chunk length, the real blocks by hash) and every read compared with the composed Lean model (file readers + directory level + a prefix-tolerant block decoder). Every case runs in a child "
            "process (an abort is an outcome). distinct = sha1 of op text; non-trivial = in one case some damaged file still "
            "yielded the blocks before the damage and some read reported an error",
    "trusted_base": [
        "Model/ChunkReader.lean is a hand transcription of primary::Reader (open/read_offset/next/next_occupied), "
        "secondary::Reader::next and chunk::Reader (open/next/read_middle_block/read_last_block) over files as byte lists with a "
        "position; tie = stream `immcorrupt`: the three files of a chunk are written byte for byte, chunk::read_blocks is run on "
        "them and the item list (block bytes / error class per item, or open failure) is compared with the model's",
        "outside the model: OS read errors other than end of file, the u32 relative-slot counter of the primary reader, "
        "BufReader buffering. The directory level over damaged files IS modelled (Model/ImmutableDbFiles.lean = Model/ChunkReader + "
        "Model/ImmutableDb with chunks that fail to open) and tied by the `dbx` ops; MultiEraBlock::decode is a parameter of that "
        "model, instantiated in the stream by `a slice decodes iff it starts at a block and holds all of it`",
    ],
    "assumptions": [
        "a corrupted file is a file with other bytes or fewer bytes; files that vanish or change while being read are not considered",
        "`never a panic` is checked under the overflow-checking profile the pinned suite uses; an abort of the process by the "
        "allocator counts as a panic (observed on the unchanged tree)",
    ],
    "explanation": "Deviation #28 of DESIGN §6 (read_middle_block: unchecked next_offset - start, vec![0; delta]) was reproduced by this "
                   "check on the unchanged tree (panic reading label=sec-offset / sec-offset-swap / sec-offset-near-eof, abort reading "
                   "label=sec-offset / sec-random-bytes: the allocator killed the process) and so was the second site named by the "
                   "property, secondary::Reader::next `current as u64 - start` (panic reading label=prim-offset / prim-offset-small / "
                   "prim-random-bytes, also through read_blocks at database level). Both repaired by fix commits in pallas-hardano; "
                   "the model is the repaired code, the unrepaired readers are kept as Props.C43.Unfixed with proved panics / unbounded "
                   "allocation at witnesses and a proof that the repairs change nothing where the old code finished. Self-tests run: (1) the length check after the bounded read dropped (a short middle block handed out as Ok) -> exit 1, VIOLATION damaged-block-returned-as-ok label=trunc-chunk with a one-op replay; (2) error message text changed -> quiet. Composed model: (3) read_blocks skipping a chunk that fails to open instead of stopping (map_while -> filter_map; no clause of the property broken) -> exit 1 with a correspondence replay (`xreadall` on a database whose oldest primary index is empty), no-failing-input-found; (4) the comparator unwrapping a damaged first block -> exit 1, VIOLATION panic reading label=db-trunc-chunk level=db.",
}
