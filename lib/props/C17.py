SPEC = {
    "id": "C17",
    "level": "proof",
    "lean_modules": ["PallasVerif.Props.C17", "PallasVerif.Props.C17Real"],
    "required_theorems": ["add_exact", "sub_exact", "neg_abs_exact", "scale_is_floor", "mul_is_floor_of_product", "div_is_trunc",
                          "tdiv_is_truncation", "floor_spec", "ceil_spec", "ceil_sub_floor", "trunc_spec", "round_spec",
                          "roundOrig_eq_round_of_pos", "roundOrig_fails_at_prec0", "cmp_iff_rational", "toString_exact",
                          "val_add", "val_sub", "val_neg", "val_abs", "val_mul", "val_div", "val_floor", "val_ceil", "val_trunc",
                          "val_round", "val_cmp", "val_print"],
    "streams": [{"name": "decimal", "quick": 1500, "thorough": 60000}],
    "rule": "cases of 4..24 ops (add/sub/mul/div/cmp/neg/abs/fromint mostly at precision 34, round/floor/ceil/trunc/show at "
            "precisions 0,1,2,3,17,34,40; operands: 0, +-1..3 ulp, integral, exactly half-way, half-way +-ulp, random 1..80 digit "
            "values, both signs, occasional mixed precisions and zero divisors). distinct = sha1 of op text; non-trivial = the "
            "case has a rounding/printing op on a negative value with a non-zero fraction and an inexact product or quotient",
    "trusted_base": ["Model/Decimal.lean is a hand transcription of the Decimal operators / rounding family / Display (IBig = Int, "
                     "dashu div_rem = tdiv/tmod, sign of zero positive); tie = stream `decimal` (every result compared as its "
                     "printed string)",
                     "harness oracle: exact num-bigint arithmetic on data/10^precision, independent of dashu and of the model; the "
                     "stored integer is read from Display and confirmed through PartialEq against from_str"],
    "assumptions": ["Props/C17Real.lean restates every clause on the exact rationals val x = data / 10^prec : Q (Mathlib floor / ceil); "
                    "it is derived from the Int statements of Props/C17.lean",
                    "FixedDecimal::from_str (regex + IBig::from_str) is used only on ASCII integer strings to construct inputs; "
                    "parsing is not part of the property",
                    "arithmetic theorems are read at the default precision 34 (Mul/Div always scale by 10^34 whatever the operands' "
                    "precision; the property restricts arithmetic to the default precision)"],
    "explanation": "self-test (pallas worktree, reverted): floor without the `remainder != 0` guard and Display without the "
                   "`is_negative` sign must give VIOLATION with a concrete op; trunc rewritten as tdiv*mult must stay quiet",
}
