SPEC = {
    "id": "C35",
    "level": "proof",
    "lean_modules": ["PallasVerif.Props.C35"],
    "required_theorems": ["accept_implies_all_valid", "shelley_accept_implies_all_valid", "checkVkWit_ok", "checkRemaining_ok"],
    "streams": [{"name": "witness", "quick": 400, "thorough": 15000}],
    "rule": "a case = 1-3 `vk` ops (a post-Byron fixture whose verification-key witnesses are replaced by 0-5 stacked mutations of "
            "the original list: add valid (own key signs the tx id), add garbage, duplicate, corrupt signature bit, corrupt key bit, "
            "drop, reorder, signature of another message, absent/empty list, wrong length; through the era's check_witness_set / "
            "check_witnesses hook or through validate_txs; Conway also with UTxO entries re-encoded as Alonzo-era outputs) + 0-2 `sy` ops "
            "(a transaction synthesized with own keys whose *body* names 0-4 required signers, witness list mutated the same way, through "
            "validate_txs) + 0-2 `rq` "
            "ops (check_required_signers on generated signer and witness lists); distinct = sha1 of op text; non-trivial = the case "
            "has both an accepted and a rejected check",
    "trusted_base": ["Model/Witness.lean is a hand transcription of mk_alonzo_vk_wits_check_list, verify_signature (wrong lengths verify nothing), "
                     "check_vk_wit, check_remaining_vk_wits, check_required_signers, find_and_check_req_signer, check_vkey_input_wits "
                     "and Shelley-MA check_witnesses; tie = stream `witness` (verdict class per op, per-rule and whole-transaction)",
                     "Ed25519 `verify` and Blake2b-224 `hash` are parameters of the model and of the theorems (all functions); the "
                     "stream instantiates them by per-op lookup tables computed with pallas-crypto, independently of pallas-validate",
                     "the per-input `InputView` (UTxO lookup + which output variant the era's validator reads + address decoding) is "
                     "computed by the harness, mirroring the code; harness/src/fixtures (ported test data)"],
    "assumptions": ["Ed25519 correctness itself is C11's subject; here `verify` is an arbitrary predicate",
                    "inputs whose UTxO entry the era's validator does not read (`InputView.skipped`: Byron outputs before Conway; "
                    "pre-Babbage outputs under Babbage, which check_datums rejects earlier with InputNotInUTxO) are outside clause (2)",
                    "required signers are varied per rule (`rq`: check_required_signers hook) and in whole synthesized transactions (`sy`); "
                    "the mainnet fixtures keep their own required signers because changing the body changes the transaction id"],
    "explanation": "Self-tests run: (1) find_and_check_req_signer returns Ok on a hash match without verifying (Babbage) -> VIOLATION "
                   "(required-signer-unsigned); (2) check_remaining_vk_wits `continue` reverted to `return Ok(())` in alonzo.rs -> VIOLATION "
                   "(invalid-witness-accepted era=alonzo, also replayed from corpus/C35); (3) harmless: check_vk_wit loop rewritten with "
                   "iter_mut().find -> quiet.",
}
