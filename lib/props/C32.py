from lib.translate_consts import translate as translate_consts

SPEC = {
    "id": "C32",
    "level": "proof",
    "lean_modules": ["PallasVerif.Props.C32"],
    "required_theorems": [
        "c32_partial", "c32_partial_mainnet", "c32_partial_preprod", "c32_partial_preview", "c32_full_preview",
        "c32_partial_testnet", "relok_shelley", "byron_relok_iff", "relok_iff_good", "clock_step", "clock_strict_mono",
        "wf_mainnet", "wf_preview", "wf_preprod", "wf_arith_testnet",
        "full_fails_mainnet", "full_fails_preprod", "full_fails_testnet", "full_fails_testnet_clock",
        "clock_step_fails_testnet", "clock_mono_fails_testnet", "not_clock_agree_testnet",
    ],
    "translators": [translate_consts],
    "streams": [{"name": "time", "quick": 1500, "thorough": 60000}],
    "rule": "a case fixes one GenesisValues record (4 well-known networks from the real constructors, every 7th case an arbitrary "
            "record incl. zero lengths / overflowing values) and runs 8..40 ops (rt = to-relative-and-back, pair = two wall clocks, "
            "rel, abs, wall, start, magic) on slots concentrated at 0, the era boundary, Byron epoch boundaries in slots and in "
            "seconds, Shelley epoch boundaries, 2^40-1, plus uniform slots < 2^40 and boundary-weighted u64 (panic outcomes); "
            "distinct = sha1 of op text; non-trivial = the case evaluated the property oracle on a Byron-era slot, on a Shelley-era "
            "slot and on at least one clock pair",
    "trusted_base": [
        "Model/Time.lean is a hand transcription of pallas-traverse/src/time.rs (checked u64 arithmetic: overflow/underflow/zero "
        "divisor/assert = panic); tie = stream `time` (every reply incl. panics compared), for the four well-known records and for "
        "arbitrary records",
        "lib/translate_consts.py (tie A) regenerates Gen/Consts.lean from wellknown.rs on every run (fails closed: unknowns = [] is a "
        "theorem); the `net` op cross-checks the generated records against the running constructors, `magic` the from_magic table",
    ],
    "assumptions": [
        "slots are quantified below 2^40 as in the property text; outside that range the model only mirrors panics/overflow",
        "`every well-known network` = the four constructors mainnet/testnet/preview/preprod of GenesisValues",
    ],
    "explanation": "Full statement (FullStatement) is false on the unchanged tree for mainnet/preprod/testnet (Byron remainder modulo "
                   "seconds; legacy-testnet clock offset): negations are proved at the witnesses and both defects are known findings "
                   "(pinned by time::tests::calc_matches_testnet_values, so not repairable). Proved: PartialStatement for every "
                   "WFGenesis record (all Shelley-era slots, exactly the Byron-era slots with slot % epoch_seconds < epoch_slots "
                   "(relok_iff_good), clock step + strict monotonicity everywhere); full statement for preview. The harness oracle "
                   "keys a violation as a known finding only when it carries the exact signature of the recorded defect (right "
                   "epoch + remainder = slot mod epoch-seconds on a Byron slot >= one epoch; testnet pair straddling the boundary "
                   "off by exactly 10800 s); anything else (e.g. a Shelley-era off-by-one) is reported as a VIOLATION.",
}
