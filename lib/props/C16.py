SPEC = {
    "id": "C16",
    "level": "proof",
    "lean_modules": ["PallasVerif.Props.C16"],
    "required_theorems": ["never_panics", "iterations_le_maxN", "approx_eq_taylor_prefix", "verdict_spec", "unknown_otherwise",
                          "lt_sound", "gt_sound_partial", "sound_partial", "gt_window_witness_run", "gt_window_witness_below",
                          "soundFull_fails_at_witness", "orig_witness_run", "origSoundFull_fails_at_witness"],
    "streams": [{"name": "expcmp", "quick": 600, "thorough": 30000}],
    "rule": "cases of 2..10 `expcmp max_n x bound compare` ops; x: 0, powers of ten 1e-34..1, EPS+-1, dense in the leader range "
            "[0,1.2], 1e-13..1e-10 (where upper bounds are a few ulp wide), [1,10), up to 40, one in eight negative; compare = e^x (90-digit enclosure) +- {0, 1..3 ulp, <1000 ulp, "
            "1e-30..1e-1 absolute, 1e-30..1e-2 relative, x2, /2, random}, also 0, -e^x, 1; bound = ceil(e^|x|) (+0..4), 3, 1000, and "
            "(one in five) too small or negative (precondition violated: tied to the model, no soundness verdict); max_n 0, 1..5, "
            "5..30, 30..1000, 1000. distinct = sha1 of op text; non-trivial = the case has a decisive verdict, an UNKNOWN and a "
            "compare value within 1e-20 relative of e^x",
    "trusted_base": ["Model/RefMath.lean (refExpCmp) is a hand transcription of ref_exp_cmp; tie = stream `expcmp` (iterations, "
                     "verdict, approximation digits compared)",
                     "harness oracle for the truth of a verdict: rigorous enclosure of e^x with num-bigint at 90 digits, directed "
                     "rounding, independent of dashu and of the model",
                     "Mathlib: Real.exp, Real.sum_le_exp_of_nonneg, Real.add_one_le_exp (module Mathlib.Analysis.Complex.Exponential)"],
    "assumptions": ["exact GT soundness is FALSE for the reference algorithm (known finding C16-gt-rounding-window, Lean: "
                    "soundFull_fails_at_witness); proved instead: LT exact for x >= 0, GT up to (3*iterations + 3*bound) ulp for "
                    "0 <= x <= 1, bound >= 2. Negative x and GT for x > 1 are NOT proved; they are judged on the implementation by the "
                    "enclosure oracle on the sampled inputs only",
                    "the property's precondition is read as bound >= e^|x| (checked exactly by the oracle per op)"],
    "explanation": "self-test (pallas worktree, reverted): `upper = rop + error_term` -> `rop` and `lower = rop - error_term` -> "
                   "`rop + error_term` must give VIOLATION with a concrete op; eliding the `e2` clone must stay quiet",
}


def _search(run):
    """For this property the executable Lean model IS the reference the English statement names
    ("exactly the values computed by the reference algorithm"), so an op on which the real
    implementation and the reference disagree is itself a concrete failing input."""
    from lib import core
    for b in run.broken:
        if b.get("kind") == "correspondence" and b.get("case") is not None and b.get("stream"):
            case = b["case"]
            try:
                small = core.shrink(b["stream"], case, lambda x: x.diff_at is not None)
                case = core.CaseResult(case.cid, small)
            except Exception:
                pass
            return {"stream": b["stream"], "key": "differs-from-reference-model", "detail": b["detail"], "case": case,
                    "source": "correspondence"}
    return None


SPEC["search"] = _search
